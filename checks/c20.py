#!/usr/bin/env python3
"""C20 - Command lines are split the way the go command splits them.

Spec: spec/FlagSplit.tla.  The reference GoSplit is the go command's rule with the
flag alphabet read from `go help build|testflag|test|run` of the toolchain in use.
TLC (i) checks the transcription of garble's splitter/filters (with garble's own
tables extracted from main.go) against GoSplit over every argv of bounded length
- a design-level lead - and (ii) serialises the reference table.  Binding:
B3 - the real splitFlagsFromArgs / filterForwardBuildFlags / rejectUnknownBuildFlags
are called through `garble verif split` on EVERY table row; B2 - the real CLI
(`garble build|test|run|reverse|map argv...`) is run with a stub `go` first on PATH that
records the argv of `go list` and of the final `go build|test|run`.
A row where the real function disagrees with GoSplit is the property's observable
itself, hence a violation.
"""
import json
import os
import re
import stat
import sys

sys.path.insert(0, str(__import__("pathlib").Path(__file__).resolve().parent.parent))
from vf.core import *  # noqa

GARBLE_OWN = ["-literals", "-tiny", "-debug", "-debugdir", "-seed"]
UNKNOWN = ["-nonexistentflag", "-literalz"]
WORDS = ["./pkg", "main.go", "v", "-w", "example.com/mod/...", "out-tiny"]
# Flags that change which packages/files are compiled or how they are compiled; a
# reference set fixed here (from `go help build`), independent of garble's own table.
MUST_FORWARD = ["-C", "-asan", "-asmflags", "-buildmode", "-compiler", "-cover", "-covermode", "-coverpkg", "-gccgoflags",
                "-gcflags", "-installsuffix", "-ldflags", "-linkshared", "-mod", "-modcacherw", "-modfile", "-msan",
                "-overlay", "-pgo", "-pkgdir", "-race", "-tags"]


def go_help_flags():
    """(bool flags, value flags) documented by the toolchain, except -args."""
    env = base_env()
    bools, values = set(), set()
    for topic in ("build", "testflag", "test", "run"):
        r = run(["go", "help", topic], env=env, timeout=60)
        if r.returncode != 0:
            raise Inconclusive(f"go help {topic} failed: {r.stderr}")
        for line in r.stdout.splitlines():
            m = re.match(r"^\t(-[A-Za-z][A-Za-z0-9]*)(?:[ \t]+(\S.*))?$", line)
            if not m:
                continue
            name, arg = m.group(1), m.group(2)
            if name == "-args":
                continue
            if arg is None:
                bools.add(name)
            else:
                values.add(name)
    # a flag documented both ways (e.g. -json in two topics) keeps its boolean nature
    values -= bools
    if len(bools) < 15 or len(values) < 25:
        raise Inconclusive(f"could not parse go help output: {len(bools)} bool, {len(values)} value flags")
    return sorted(bools), sorted(values)


def garble_tables():
    """booleanFlags keys and forwardBuildFlags (true/false) keys, from main.go of the tree under check."""
    src = (REPO / "main.go").read_text()

    def block(name):
        m = re.search(r"var " + name + r" = map\[string\]bool\{(.*?)\n\}", src, re.S)
        if not m:
            return None
        return dict((k, v == "true") for k, v in re.findall(r'"(-[^"]+)":\s*(true|false)', m.group(1)))
    return block("booleanFlags"), block("forwardBuildFlags")


def tla_set(xs):
    return "{" + ", ".join(json.dumps(x) for x in xs) + "}"


STUB_GO = r'''#!/usr/bin/env python3
import json, os, sys
root = os.environ["VERIF_STUB_ROOT"]
args = sys.argv[1:]
with open(os.path.join(root, "calls.ndjson"), "a") as f:
    f.write(json.dumps(args) + "\n")
if args[:1] == ["env"]:
    print(json.dumps({"GOOS": "linux", "GOARCH": "amd64", "GOMOD": os.path.join(root, "src", "go.mod"),
                      "GOVERSION": "go1.26.2", "GOROOT": os.path.join(root, "goroot")}))
elif args[:2] == ["tool", "buildid"]:
    print("AAAAAAAAAAAAAAAAAAAA/BBBBBBBBBBBBBBBBBBBB/CCCCCCCCCCCCCCCCCCCC/DDDDDDDDDDDDDDDDDDDD")
elif args[:1] == ["list"] and any(a in (".", "./pkg", "main.go", "example.com/mod/...") for a in args):
    print(json.dumps({"Dir": os.path.join(root, "src"), "ImportPath": "example.com/stub", "Name": "main",
                      "BuildID": "EEEEEEEEEEEEEEEEEEEE/FFFFFFFFFFFFFFFFFFFF", "CompiledGoFiles": ["main.go"],
                      "GoFiles": ["main.go"], "Imports": []}))
elif args[:1] in (["build"], ["test"], ["run"]) and "-h" in args:
    print("stub help")
sys.exit(0)
'''


def make_stub(root):
    (root / "bin").mkdir(parents=True)
    (root / "goroot" / "bin").mkdir(parents=True)
    for p in (root / "bin" / "go", root / "goroot" / "bin" / "go"):
        p.write_text(STUB_GO)
        p.chmod(0o755)
    (root / "src").mkdir()
    (root / "src" / "go.mod").write_text("module example.com/stub\n\ngo 1.26\n")
    (root / "src" / "main.go").write_text("package main\n\nfunc main() {}\n")
    (root / "tmp").mkdir()
    (root / "gcache").mkdir()


def cli_run(garble, root, garble_args):
    calls = root / "calls.ndjson"
    if calls.exists():
        calls.unlink()
    env = base_env()
    env.update({"PATH": f"{root}/bin:" + env["PATH"], "VERIF_STUB_ROOT": str(root), "TMPDIR": str(root / "tmp"),
                "GARBLE_CACHE": str(root / "gcache"), "HOME": str(root)})
    r = run([garble] + garble_args, cwd=root / "src", env=env, timeout=60, stdin="")
    recorded = [json.loads(l) for l in calls.read_text().splitlines()] if calls.exists() else []
    return r, recorded


def parse_pairs(tokens, go_bool):
    """(name, value) pairs of a rendered flag list, by the go rule (used on garble's forwarded list)."""
    out, i = [], 0
    while i < len(tokens):
        t = tokens[i]
        if t.startswith("--"):
            t = t[1:]
        if "=" in t:
            n, v = t.split("=", 1)
            out.append([n, v]); i += 1
        elif t in go_bool:
            out.append([t, ""]); i += 1
        else:
            out.append([t, tokens[i + 1] if i + 1 < len(tokens) else "<missing>"]); i += 2
    return out


def main(tier, seed):
    chk = Check("C20", tier, seed)
    chk.rule = ("argument vectors enumerated by TLC (all vectors of length <= FullLen over every documented flag in each form, "
                "longer ones over representatives); distinct = distinct argv rows checked against the real functions / CLI")
    chk.assumptions = ["the go command's splitting rule is: '-f=v' self-contained, documented-without-argument flags are boolean, every other flag consumes the next token, first non-flag ends the flags; the flag alphabet comes from `go help`",
                       "'--' and a lone '-' are outside the property's quantifier"]
    go_bool, go_value = go_help_flags()
    gbool, gfwd = garble_tables()
    model_ok = gbool is not None and gfwd is not None
    if not model_ok:
        print("MODEL-MISMATCH: property=C20 could not extract booleanFlags/forwardBuildFlags from main.go; "
              "the model of garble's splitter is skipped, the real functions are still checked against GoSplit", flush=True)
        gbool, gfwd = {}, {}
    full_len, rep_len = (2, 3) if tier == "quick" else (2, 4)
    rep_flags = ["-race", "-v", "-tags", "-ldflags", "-run", "-short", "-o"] if tier == "quick" else ["-race", "-tags", "-run", "-short", "-tiny"]
    cfg = "\n".join([
        "SPECIFICATION Spec",
        "CONSTANTS",
        f"  GoBool = {tla_set(go_bool)}",
        f"  GoValue = {tla_set(go_value)}",
        f"  GarbleBool = {tla_set(sorted(k for k, v in gbool.items() if v))}",
        f"  GarbleForward = {tla_set(sorted(k for k, v in gfwd.items() if v))}",
        f"  GarbleKnownNoForward = {tla_set(sorted(k for k, v in gfwd.items() if not v))}",
        f"  MustForward = {tla_set(MUST_FORWARD)}",
        f"  GarbleOwn = {tla_set(GARBLE_OWN)}",
        f"  Unknown = {tla_set(UNKNOWN)}",
        f"  Words = {tla_set(WORDS)}",
        f"  FullLen = {full_len}",
        f"  RepLen = {rep_len}",
        f"  RepFlags = {tla_set(rep_flags)}",
        "INVARIANTS " + ("SplitEqGo ForwardComplete GarbleFlagRejected ValueNotRejected UnknownRejected" if model_ok else ""),
        ""])
    work = mkscratch("c20-tlc")
    r = tlc("FlagSplit", "FlagSplit-gen.cfg", workdir=work, files={"FlagSplit-gen.cfg": cfg}, timeout=1500,
            jvm=["-Xmx12g"])
    if r.error:
        raise Inconclusive(f"TLC failed on FlagSplit: {r.error}\n{r.out[-2000:]}")
    chk.add_tlc(r)
    if r.violated:
        # a design-level lead: the real functions below decide
        log(f"TLC lead: invariant {r.violated} violated in the model of garble's splitter")
        chk.extra["tlc_lead"] = r.violated
    table = json.loads((work / "flagsplit_table.json").read_text())
    chk.extra["table_rows"] = len(table)
    if model_ok and not r.violated:
        # what-if: the garble-flag test as it was before the repair of F14 (every element tested, values included):
        # TLC must find ValueNotRejected violated, otherwise the invariant does not bite
        w2 = mkscratch("c20-tlc-whatif")
        cfg2 = cfg.replace("SPECIFICATION Spec\nCONSTANTS", "SPECIFICATION Spec\nCONSTANTS\n  ScanValues <- OldScan") \
                  .replace("SplitEqGo ForwardComplete GarbleFlagRejected ValueNotRejected UnknownRejected", "ValueNotRejected")
        r2 = tlc("FlagSplit", "FlagSplit-whatif.cfg", workdir=w2, files={"FlagSplit-whatif.cfg": cfg2}, timeout=1500, jvm=["-Xmx12g"])
        chk.add_tlc(r2)
        if r2.violated != "ValueNotRejected":
            raise Inconclusive(f"what-if ScanValues: expected ValueNotRejected to be violated, got {r2.violated} / {r2.error}\n{r2.out[-1500:]}")
        chk.extra["whatif_scanvalues_rejected"] = True

    # ---- B3: every row against the real functions
    garble = build_garble("verif")
    payload = "".join(json.dumps({"args": row["argv"]}) + "\n" for row in table)
    res = run([garble, "verif", "split"], stdin=payload, timeout=900, env=base_env())
    if res.returncode != 0:
        raise Inconclusive(f"garble verif split failed: {res.stderr[-1000:]}")
    outs = [json.loads(l) for l in res.stdout.splitlines()]
    if len(outs) != len(table):
        raise Inconclusive("garble verif split: reply count mismatch")
    go_bool_set = set(go_bool)
    checked = 0
    reported = set()

    def report(kind, flagname, row, out, what):
        key = (kind, flagname)
        if key in reported:
            return
        reported.add(key)
        chk.violation({"kind": kind, "flag": flagname}, {"row.json": json.dumps(row, indent=1), "real.json": json.dumps(out, indent=1)}, what=what)

    for row, out in zip(table, outs):
        if "panic" in out or "error" in out:
            report("panic", row["argv"][0] if row["argv"] else "", row, out, "splitter panicked")
            continue
        checked += 1
        chk.case(row["argv"], sample={"argv": row["argv"], "go_flags": row["go_flags"], "go_args": row["go_args"], "real_flags": out["flags"]} if checked % 20000 == 7 else None,
                 nontrivial=len(row["argv"]) > 0)
        first = next((t for t in row["argv"] if t.startswith("-")), "")
        firstname = first.lstrip("-").split("=")[0]
        if row["documented"]:
            if out["flags"] != row["go_flags"] or out["args"] != row["go_args"]:
                report("split", culprit(row, out, go_bool_set), row, out,
                       f"garble splits {row['argv']} into flags={out['flags']} args={out['args']}, the go command into flags={row['go_flags']} args={row['go_args']}")
            else:
                fwd = [p for p in parse_pairs(out["forward"], go_bool_set) if p[0] in MUST_FORWARD]
                if fwd != row["must_forward"]:
                    missing = [p for p in row["must_forward"] if p not in fwd] or [["?", ""]]
                    report("forward", missing[0][0], row, out,
                           f"build flag(s) {row['must_forward']} of {row['argv']} reach go list as {out['forward']}")
        if row["documented"] and not row["own"] and out["garble_flag"]:
            key = ("value-rejected", bool(re.match(r"^--?(?:literals|tiny|debug|debugdir|seed)(?:$|=)", out["garble_flag"])))
            if key not in reported:
                reported.add(key)
                chk.violation({"kind": "cli-failed", "value_looks_like_garble_flag": True, "flag": out["garble_flag"],
                               "exact": bool(re.match(r"^--?(?:literals|tiny|debug|debugdir|seed)(?:$|=)", out["garble_flag"]))},
                              {"row.json": json.dumps(row, indent=1), "real.json": json.dumps(out, indent=1)},
                              what=f"{row['argv']}: a flag value is taken for one of garble's own flags and the command line is rejected")
        if row["own"] and not out["garble_flag"]:
            report("own-flag-accepted", firstname, row, out, f"garble's own flag after the command is not rejected: {row['argv']}")
        if row["unknown_first"] and not out["reject"]:
            report("unknown-accepted", firstname, row, out, f"flag unknown to the go command not rejected for reverse/map: {row['argv']}")
    chk.extra["table_rows_checked"] = checked

    # ---- B2: the real CLI with a stub go recording argv
    root = mkscratch("c20-stub")
    make_stub(root)
    rng = chk.rng
    # the go command itself rejects flags after the first package, and `-C` must come first: not CLI material
    doc_rows = [row for row in table if row["documented"] and row["argv"] and not row["own"]
                and not any(a.startswith("-") for a in row["go_args"])
                and not any(t.lstrip("-").split("=")[0] == "C" for t in row["go_flags"][1:])]
    n_cli = 150 if tier == "quick" else 1500
    # every single-flag vector + package, then a random sample of the rest
    singles = [row for row in doc_rows if len(row["go_flags"]) in (1, 2) and row["go_args"]]
    sample = rng.sample(singles, min(len(singles), n_cli // 2)) + rng.sample(doc_rows, min(len(doc_rows), n_cli // 2))
    cli_checked = 0
    for row in sample:
        command = rng.choice(["build", "build", "test", "run"])
        argv = row["argv"]
        if any(t in ("-h", "-help", "--help") for t in argv):
            continue
        r2, calls = cli_run(garble, root, [command] + argv)
        cli_checked += 1
        lists = [c for c in calls if c[:1] == ["list"]]
        finals = [c for c in calls if c[:1] == [command]]
        chk.case(["cli", command] + argv, sample={"cli": [command] + argv, "final": finals[-1] if finals else None} if cli_checked % 50 == 1 else None)
        if r2.returncode != 0 or not finals or not lists:
            # a flag VALUE that looks like one of garble's own flags (e.g. `-memprofile -seed=v`)
            value_own = any(re.search(r"-(?:literals|tiny|debug|debugdir|seed)(?:$|=)", v) for _, v in parse_pairs(row["go_flags"], go_bool_set))
            key = ("cli-failed", value_own, culprit_name(argv))
            if key not in reported:
                reported.add(key)
                chk.violation({"kind": "cli-failed", "value_looks_like_garble_flag": value_own, "flag": culprit_name(argv),
                               "exact": any(re.match(r"^--?(?:literals|tiny|debug|debugdir|seed)(?:$|=)", v) for _, v in parse_pairs(row["go_flags"], go_bool_set))},
                              {"row.json": json.dumps(row, indent=1), "real.json": json.dumps({"rc": r2.returncode, "stderr": r2.stderr[-500:], "calls": calls}, indent=1)},
                              what=f"garble {command} {argv} failed or did not reach the go command (stub go)")
            continue
        final = finals[-1]
        # the user's flags and packages must be the suffix of the real go command line, unchanged and in order
        if final[-len(argv):] != argv:
            report("passthrough", culprit_name(argv), row, {"final": final}, f"garble {command} {argv}: go was called with {final}")
        # the flags garble adds must come before the user's and not swallow them: -toolexec present
        if not any(a.startswith("-toolexec=") for a in final[:-len(argv)]):
            report("passthrough", "-toolexec", row, {"final": final}, "no -toolexec flag in the go command line")
        # go list must receive every build-affecting flag with its value, and the packages
        lst = lists[0]
        fwdpairs = [p for p in parse_pairs(listed_flags(lst, go_bool_set), go_bool_set) if p[0] in MUST_FORWARD]
        want = row["must_forward"]
        if [p for p in want if p not in fwdpairs]:
            report("forward", want[0][0], row, {"list": lst}, f"garble {command} {argv}: go list was called with {lst}")
        pk = row["go_args"]
        if command != "run" and pk and pk[0] in ("./pkg", "example.com/mod/...") and not all(a in lst for a in pk if not a.startswith("-")):
            report("list-packages", culprit_name(argv), row, {"list": lst}, f"packages {pk} not handed to go list: {lst}")
    # garble flags after the command, unknown flags to reverse/map: must be rejected by the CLI
    for argv in ([f, "./pkg"] for f in ["-tiny", "-literals", "-seed=abcdefghijk", "-debugdir=x", "-debug", "--tiny"]):
        r2, calls = cli_run(garble, root, ["build"] + argv)
        cli_checked += 1
        chk.case(["cli", "build"] + argv)
        if r2.returncode == 0 or any(c[:1] == ["build"] for c in calls):
            report("own-flag-accepted", argv[0].lstrip("-").split("=")[0], {"argv": argv}, {"rc": r2.returncode, "calls": calls},
                   f"garble build {argv} was not rejected")
    for cmd in ("reverse", "map"):
        for argv in (["-nonexistentflag", "."], ["-tags", "x", "-literalz=1", "."]):
            r2, calls = cli_run(garble, root, [cmd] + argv)
            cli_checked += 1
            chk.case(["cli", cmd] + argv)
            if r2.returncode == 0:
                report("unknown-accepted", cmd, {"argv": argv}, {"rc": r2.returncode, "stdout": r2.stdout[-300:]}, f"garble {cmd} {argv} accepted an unknown flag")
        # and known build flags are accepted and forwarded
        r2, calls = cli_run(garble, root, [cmd, "-tags", "x", "."])
        cli_checked += 1
        lists = [c for c in calls if c[:1] == ["list"]]
        if not lists or "-tags" not in lists[0]:
            report("forward", "-tags", {"argv": [cmd, "-tags", "x", "."]}, {"rc": r2.returncode, "stderr": r2.stderr[-300:], "calls": calls}, f"garble {cmd} -tags x . did not forward -tags to go list")
    chk.extra["cli_runs"] = cli_checked
    chk.traces_validated = cli_checked
    chk.exhaustive = True
    return chk.finish()


def listed_flags(lst, go_bool_set):
    """flags part of a recorded `go list` argv (after 'list', up to the first package)."""
    out, i = [], 1
    while i < len(lst):
        t = lst[i]
        if not t.startswith("-"):
            break
        out.append(t)
        name = t[1:] if t.startswith("--") else t
        if "=" in t or name in go_bool_set or name in ("-json", "-export", "-compiled", "-e", "-deps", "-test", "-trimpath"):
            i += 1
        else:
            if i + 1 < len(lst):
                out.append(lst[i + 1])
            i += 2
    return out


def culprit_name(argv):
    for t in argv:
        if t.startswith("-"):
            return "-" + t.lstrip("-").split("=")[0]
    return ""


def culprit(row, out, go_bool_set):
    """the flag at which garble's and go's split first diverge"""
    gf, rf = row["go_flags"], out["flags"]
    # walk go's pairs; the first flag whose consumption differs
    i = 0
    while i < len(gf):
        t = gf[i]
        name = "-" + t.lstrip("-").split("=")[0]
        step = 1 if ("=" in t or name in go_bool_set) else 2
        if rf[:i + step] != gf[:i + step] or (i + step >= len(gf) and rf != gf):
            return name
        i += step
    return culprit_name(row["argv"])


if __name__ == "__main__":
    main_wrapper(main)
