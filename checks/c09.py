#!/usr/bin/env python3
"""C09 - With -literals, literal contents do not appear in the binary.

Spec: spec/Literals.tla, Part A read the other way: MustHide(ctx, form, size) is what the property demands
(size inside 8..2048, not in a nosplit function, not the declaration of a -ldflags=-X variable, not a named
or untyped constant type), Rewritten(ctx, form, size) is what the code does; the cells where the two differ
are exported as leads ("hide-gap") and, like every other cell, decided on the real tool only.
Binding:
  B3  every table row against the real rewrite decision of literals.Obfuscate (in-process driver).
  B2  one unique high-entropy marker per table cell in generated programs covering every (context, form)
      pair and every size class; real `garble -literals build` with each obfuscator forced in its own
      package, the default random choice, and -seed values derived from the check seed.
Oracle (the only source of verdicts): the raw bytes of a MustHide marker, or of the -seed value (base64 text
and raw bytes), occur in the garbled binary; or the garbled program no longer prints the markers that the
regular build prints.  Markers of cells that MAY remain are not asserted.
"""
import base64
import json
import random
import sys

sys.path.insert(0, str(__import__("pathlib").Path(__file__).resolve().parent))
from lit_common import *  # noqa


def main(tier, seed):
    chk = Check("C09", tier, seed)
    chk.rule = ("one evaluation = one marker cell (context x form x size) of one garbled binary scanned; distinct = distinct "
                "(configuration kind, context, form, size class, forced obfuscator) tuples among the cells that must be hidden "
                "and whose marker is visible in the regular build's binary")
    chk.assumptions = [
        "markers are random byte strings (>= 8 bytes inside the window), so an accidental occurrence in a binary is negligible; "
        "a MustHide cell counts as non-trivial only if the regular build's binary does contain its marker",
        "generated programs cover the contexts and forms of the decision table only",
        "the obfuscators' encodings are not analysed for partial leaks (substrings shorter than the whole literal)",
    ]
    table = load_table(chk)
    # the exhaustive round-trip configs of Part B belong to C05; C09 is decided with Part A (constant level: the table
    # and its ASSUMEs were evaluated by load_table)
    chk.extra["table_rows"] = len(table["rows"])
    chk.extra["table_rows_musthide"] = sum(1 for r in table["rows"] if r["musthide"])
    chk.extra["table_leads_hide_gap"] = sorted({(r["ctx"], r["form"]) for r in table["rows"] if r["lead"] == "hide-gap"})
    work = mkscratch("c09")
    rng_wt, rng_drv = random.Random(chk.rng.getrandbits(64)), random.Random(chk.rng.getrandbits(64))

    # ---- B3: table rows against the real decision
    drv = Driver()
    nrows, drift = table_binding(chk, table, drv, rng_drv, work / "table")
    chk.extra["table_rows_checked"] = nrows
    chk.extra["table_rows_drifting"] = len(drift)
    if drift:
        print(f"MODEL-MISMATCH: property=C09 {len(drift)} of {nrows} rows of the Literals.tla decision table differ from the "
              f"real literals.Obfuscate, e.g. {json.dumps(drift[:3])}", flush=True)

    # ---- B2: markers in real builds
    nseeds = 2 if tier == "quick" else 6
    sb, runs = whole_tool(chk, tier, table, work / "wt", nseeds, rng_wt)
    visible_ref = hidden_ok = may_remain_found = 0
    for prog, ref, g in runs:
        if not g.ok:
            # compiling is C05's observable; without a binary there is nothing to scan
            raise Inconclusive(f"garble {' '.join(g.flags)} build failed (see C05):\n{g.build.stderr[-2500:]}")
        gbytes, rbytes = g.bytes(), ref.bytes()
        # the program must still print the markers
        for c in prog.cells:
            r, got = ref.out.get((c.pkg, c.id)), g.out.get((c.pkg, c.id))
            if r != c.expected():
                raise Inconclusive(f"generator: regular build prints {r!r:.80} for cell {c.pkg}/{c.key()}")
            if got != r:
                chk.violation({"kind": "marker-not-printed", "config": g.name, "ctx": c.ctx, "form": c.form, "size": c.size},
                              {"program": prog.root, "case.json": json.dumps({"cell": c.key(), "pkg": c.pkg, "id": c.id, "regular": r.hex(),
                                                                              "garbled": None if got is None else got.hex()})},
                              what=f"the garbled program does not print the marker of {c.key()} (package {c.pkg})")
        for c in prog.cells:
            m = c.marker()
            if len(m) < 4:
                continue
            forced = OBF_NAMES[FORCED[c.pkg]] if c.pkg in FORCED else "default"
            in_ref = m in rbytes
            in_g = m in gbytes
            must = c.row["musthide"]
            chk.case(["scan", g.name.rstrip("0123456789"), c.ctx, c.form, min(c.size, 2050), forced],
                     sample={"config": " ".join(g.flags), "cell": c.key(), "pkg": c.pkg, "must_hide": must, "in_regular_binary": in_ref,
                             "in_garbled_binary": in_g} if (must and c.id % 150 == 0) else None,
                     nontrivial=must and in_ref)
            if must:
                visible_ref += in_ref
                if in_g:
                    chk.violation({"kind": "marker-in-binary", "config": g.name.rstrip("0123456789"), "ctx": c.ctx, "form": c.form, "size": c.size,
                                   "obf": forced, "rewritten_per_model": c.row["rewritten"]},
                                  {"program": prog.root, "cmd.txt": " ".join(g.flags) + " build " + prog.ldflags + f"\nenv {g.env}",
                                   "case.json": json.dumps({"cell": c.key(), "pkg": c.pkg, "id": c.id, "marker_hex": m.hex(),
                                                            "offset_in_garbled_binary": gbytes.find(m)})},
                                  what=f"marker of {c.key()} (package {c.pkg}, {forced}) occurs verbatim in the binary built with garble {' '.join(g.flags)}")
                else:
                    hidden_ok += 1
            elif in_g:
                may_remain_found += 1
        # the -seed value
        if g.seed_bytes is not None:
            text = base64.b64encode(g.seed_bytes).decode().rstrip("=").encode()
            forms = {"base64 text": text, "raw bytes": g.seed_bytes, "base64 text (padded)": base64.b64encode(g.seed_bytes),
                     "hex text": g.seed_bytes.hex().encode()}
            for what, needle in forms.items():
                chk.case(["seed-scan", what], nontrivial=True)
                if needle in gbytes:
                    chk.violation({"kind": "seed-in-binary", "as": what}, {"program": prog.root, "cmd.txt": " ".join(g.flags),
                                                                           "case.json": json.dumps({"needle_hex": needle.hex(), "offset": gbytes.find(needle)})},
                                  what=f"the -seed value occurs in the binary as {what}")
        if len(chk.violations) >= 25:
            break
    chk.extra["musthide_markers_hidden"] = hidden_ok
    chk.extra["musthide_markers_visible_in_regular_binary"] = visible_ref
    chk.extra["may_remain_markers_found_in_garbled_binary"] = may_remain_found
    chk.extra["whole_tool_builds"] = [{"config": g.name, "flags": g.flags, "cells": len(p.cells), "garble_s": round(g.build.wall, 1), "reused_from_cache": g.reused} for p, _, g in runs]
    if visible_ref == 0:
        raise Inconclusive("no marker is visible even in the regular binaries: the scan would not detect anything")
    chk.exhaustive = False
    return chk.finish()


if __name__ == "__main__":
    main_wrapper(main)
