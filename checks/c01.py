#!/usr/bin/env python3
"""C01 - Obfuscated builds behave exactly like regular builds.

Spec: spec/Naming.tla.  Every place where garble derives the obfuscated name of an
object (obfuscatedObjectName, transformLinkname, replaceAsmNames, saveGoAsmNames,
transformLink -X, obfuscatedImportPath) is transcribed with symbolic hash terms; TLC
enumerates every legal (object, reference) cell x ToObfuscate(main) x ToObfuscate(dep),
checks Consistent / Kept / ImportCfgAgrees (and that the documented leads are exactly the
inconsistent cells) and serialises the cells with their verdicts.

Binding B2: every cell becomes Go / assembly source (checks/naming_common.py), packed
into multi-package modules that are built by `go build` and by `garble build` under
{default, -tiny, -seed, -literals} x GOGARBLE scopes and run on generated arguments.
Cells where the transcription is NOT consistent (leads) are built one by one; the real
garble decides.  Binding B1: the `name` events of the real build are compared with the
spec's MustRename / Kept verdict object by object (a drift is MODEL-MISMATCH, never a verdict).

Oracle: garble exits 0 whenever `go build` does; stdout and exit status of the garbled
binary equal the regular binary's (and, thorough, `go test` verdict lines / `garble run`).
"""
import json
import os
import re
import sys
from concurrent.futures import ThreadPoolExecutor
from pathlib import Path

sys.path.insert(0, str(Path(__file__).resolve().parent.parent))
sys.path.insert(0, str(Path(__file__).resolve().parent))
from vf.core import *  # noqa
import naming_common as nc

MODULE_SIZE = 40


def witness_of(c, cfg, observable, extra=None):
    w = {"view": c["view"], "kind": c["kind"], "nameClass": c["nameClass"], "home": c["home"], "fromPkg": c["fromPkg"],
         "exported": c["exported"], "lead": c["lead"], "config": cfg.name, "toobf": cfg.toobf, "observable": observable}
    if extra:
        w.update(extra)
    return w


def replay_files(built, ref=None, extra=None):
    files = {"module": built.cwd, "garble-command.txt": built.describe() + "\n", "garble-stderr.txt": built.res.stderr,
             "cells.json": json.dumps([{k: v for k, v in c.items() if k != "verdict"} for c in built.prog.cells], indent=1)}
    if built.trace and Path(built.trace).exists() and Path(built.trace).stat().st_size < 50_000_000:
        files["trace.ndjson"] = Path(built.trace)
    if ref is not None:
        files["go-command.txt"] = ref.describe() + "\n"
    for k, v in (extra or {}).items():
        files[k] = v
    return files


def compare_runs(mx, ref, built, vectors):
    """First argument vector on which the garbled binary differs from the regular one, or None."""
    for args in vectors:
        a, b = mx.run_binary(ref, args), mx.run_binary(built, args)
        if a.stdout != b.stdout or a.returncode != b.returncode or b.timed_out:
            return {"args": args, "regular": {"rc": a.returncode, "stdout": a.stdout}, "garbled": {"rc": b.returncode, "stdout": b.stdout, "stderr": b.stderr[-2000:]}}
    return None


def check_names_against_spec(chk, prog, built, by_key, drift):
    """B1: the names the real build computed (H6 `name` events) against the spec verdicts."""
    evs = [e for e in read_trace(built.trace) if e.get("ev") == "name"]
    paths = {prog.mainpath: "main", prog.deppath: "dep", prog.leafpath: "dep", prog.basepath: "dep"}
    seen = {}
    for e in evs:
        if e["pkg"] in paths:
            seen.setdefault((paths[e["pkg"]], e["kind"], e["orig"]), set()).add(e["obf"])
    checked = 0
    for o in prog.planted:
        ek = nc.EVENT_KIND.get(o.kind)
        v = nc.verdict_for(by_key, o, built.cfg.toobf)
        if v is None or o.home not in ("main", "dep"):
            continue
        obfs = seen.get((o.home, ek, o.name), set()) if ek else set()
        # embedded fields are renamed through the type name they use
        if o.kind in ("embeddedField", "embeddedAlias"):
            obfs = seen.get((o.home, "type", o.name), set())
        renamed = any(x != o.name for x in obfs)
        checked += 1
        if v["must_rename"] and not renamed:
            drift.append({"module": prog.tag, "config": built.cfg.name, "object": o.name, "kind": o.kind, "nameClass": o.name_class,
                          "spec": "MustRename", "real": "no rename event"})
        elif not v["must_rename"] and renamed and o.unique:
            drift.append({"module": prog.tag, "config": built.cfg.name, "object": o.name, "kind": o.kind, "nameClass": o.name_class,
                          "spec": "Kept", "real": f"renamed to {sorted(obfs)[0]}"})
        elif len(obfs) > 1:
            drift.append({"module": prog.tag, "config": built.cfg.name, "object": o.name, "kind": o.kind, "spec": "one name", "real": sorted(obfs)})
    # -X: the duplicated flag must carry the name the compiler used (Consistent on real data)
    for e in read_trace(built.trace):
        if e.get("ev") == "tool-run" and e.get("tool") == "link":
            xs = [a for a in e["argv"] if a.startswith("-X=")]
            for flag in prog.ldflags:
                sym, val = flag[3:].split("=", 1)
                pkg, name = sym.rsplit(".", 1)
                home = "main" if pkg == "main" else "dep"
                obfs = seen.get((home, "variable", name), set())
                for obf in obfs:
                    if not any(x.endswith(f".{obf}={val}") for x in xs):
                        drift.append({"module": prog.tag, "config": built.cfg.name, "object": name, "spec": "-X duplicated with the hashed name", "real": xs})
    return checked, len(evs)


def bisect(mx, chk, prog, cfg, vectors, budget):
    """Localise a failing module to cells by group testing; at most budget[0] more garble builds."""
    bad = []
    counter = [0]

    def fails(cells, extras):
        if budget[0] <= 0:
            return None
        budget[0] -= 1
        counter[0] += 1
        p = nc.generate(cells, f"{prog.tag}b{counter[0]}", chk.rng, extras=extras)
        ref = mx.regular(p)
        if not ref.ok:
            return None
        b = mx.garble(p, cfg)
        if not b.ok:
            return True
        return compare_runs(mx, ref, b, vectors[:2]) is not None

    def rec(cells):
        r = fails(cells, False)
        if r is None or r is False:
            return
        if len(cells) == 1:
            bad.append(cells[0])
            return
        if len(bad) >= 3:
            return
        h = len(cells) // 2
        rec(cells[:h])
        rec(cells[h:])
    rec(list(prog.cells))
    extras_bad = None
    if not bad and budget[0] > 0:
        extras_bad = fails([], True)
    return bad, extras_bad


def test_verdicts(out):
    """Verdict lines of `go test -v`: (test name, PASS|FAIL|SKIP) and (package, ok|FAIL)."""
    v = set()
    for line in out.splitlines():
        m = re.match(r"^\s*--- (PASS|FAIL|SKIP): (\S+)", line)
        if m:
            v.add(("test", m.group(2), m.group(1)))
        m = re.match(r"^(ok|FAIL|---)\s+(\S+)\s", line)
        if m and m.group(1) in ("ok", "FAIL"):
            v.add(("pkg", m.group(2), m.group(1)))
        if line.strip() in ("PASS", "FAIL"):
            v.add(("summary", line.strip(), ""))
    return sorted(v)


def main(tier, seed):
    chk = Check("C01", tier, seed)
    rng = chk.rng
    chk.rule = ("one evaluation = one (generated module, garble configuration) build + runs, or one lead cell built alone; "
                "distinct = distinct (cell, configuration) pairs whose program was built by garble and compared with the regular build")
    chk.assumptions = ["'every Go program' is covered up to the closure of the fragment templates of checks/naming_common.py (cells of spec/Naming.tla, "
                       "8 cross-cell extras); cgo and plugins are out of scope",
                       "assembly cells exist for amd64 only", "programs print only values computed from data, never names or positions",
                       "the expected output of every cell is also predicted in Python; a regular build that disagrees with the prediction is an infrastructure failure"]

    # 1. the model
    work = mkscratch("c01-tlc")
    cells, pkrows, r = nc.load_cells(work, f"Naming-{tier}.cfg")
    chk.add_tlc(r)
    by_key = {nc.cell_key(c): c for c in cells}
    normal, leads, tests = nc.split_cells(cells)
    chk.extra["cells"] = len(cells)
    chk.extra["lead_cells"] = len(leads)

    # 2. programs
    mods = nc.pack(normal, MODULE_SIZE, rng)
    progs = [nc.generate(m, f"s{seed}m{i}", rng) for i, m in enumerate(mods)]
    cfgs = nc.configs_for(tier, rng)
    vectors = nc.arg_vectors(rng, 2 if tier == "quick" else 3)
    mx = nc.Matrix("c01")
    log(f"{len(cells)} cells: {len(normal)} packed into {len(progs)} modules, {len(leads)} leads, {len(tests)} test cells; configs {cfgs}")

    # 3. regular builds, checked against the Python prediction
    with ThreadPoolExecutor(max_workers=nc.parallelism()) as ex:
        refs = dict(zip([p.tag for p in progs], ex.map(mx.regular, progs)))
    for p in progs:
        ref = refs[p.tag]
        if not ref.ok:
            raise Inconclusive(f"generated module {p.tag} does not build with the regular toolchain:\n{ref.res.stderr[-3000:]}")
        for args in vectors:
            rr = mx.run_binary(ref, args)
            exp_out, exp_rc = p.expected(args)
            if rr.stdout != exp_out or rr.returncode != exp_rc:
                raise Inconclusive(f"regular build of {p.tag} does not print what the generator predicts (args {args}): rc {rr.returncode} vs {exp_rc}")

    # 4. garble builds: every module under every configuration
    maxmods = int(os.environ.get("VERIF_NAMING_MAXMODS", "0"))   # development knob
    if maxmods:
        progs = progs[:maxmods]
    built = mx.garble_all(progs, cfgs, select=nc.quick_select(tier, seed))
    drift = []
    budget = [16 if tier == "quick" else 60]
    names_checked = 0
    for p in progs:
        for cfg in cfgs:
            b = built.get((p.tag, cfg.name))
            if b is None:
                continue
            ref = refs[p.tag]
            for c in p.cells:
                chk.distinct.add(json.dumps([c["id"], cfg.name]))
            chk.case([p.tag, cfg.name], nontrivial=False,
                     sample={"module": p.tag, "config": cfg.name, "cells": len(p.cells), "garble_rc": b.res.returncode} if len(chk.samples) < 4 else None)
            problem = None
            if not b.ok:
                problem = ("garble-build-fails", {"stderr": b.res.stderr[-1500:]})
            else:
                diff = compare_runs(mx, ref, b, vectors)
                if diff:
                    problem = ("output-differs", diff)
            if problem:
                bad, extras_bad = bisect(mx, chk, p, cfg, vectors, budget)
                if bad:
                    for c in bad:
                        chk.violation(witness_of(c, cfg, problem[0]), replay_files(b, ref, {"diff.json": json.dumps(problem[1], indent=1)}),
                                      what=f"{problem[0]} for cell {nc.cell_label(c)} under {cfg.name} (module {p.tag})")
                else:
                    chk.violation({"module_cells": "extras" if extras_bad else "unlocalised", "config": cfg.name, "toobf": cfg.toobf, "observable": problem[0]},
                                  replay_files(b, ref, {"diff.json": json.dumps(problem[1], indent=1)}),
                                  what=f"{problem[0]} for module {p.tag} under {cfg.name}: `go build` succeeds and behaves as predicted")
            elif cfg.names:
                n, _ = check_names_against_spec(chk, p, b, by_key, drift)
                names_checked += n
                chk.traces_validated += 1
    chk.extra["objects_compared_with_name_events"] = names_checked

    # 5. leads: cells where the transcription is inconsistent, built alone; the real garble decides
    lead_cfgs = {c.toobf: c for c in cfgs if not c.flags}
    runnable = [c for c in leads if c["nameClass"] != "TestX"]
    if tier == "quick":
        groups = {}
        for c in runnable:
            groups.setdefault((c["lead"], c["view"], c["kind"]), []).append(c)
        runnable = [rng.choice(g) for _, g in sorted(groups.items())]
    lead_results = []

    def run_lead(ic):
        i, c = ic
        p = nc.generate([c], f"s{seed}l{i}", rng, extras=False)
        ref = mx.regular(p)
        if not ref.ok:
            return c, p, ref, [], "not-go"
        # under the first scope where the spec says the names disagree (the real garble decides), and under
        # the full scope when the spec says they agree there (must behave like any other cell)
        bad_scope = next(k for k in ("TT", "TF", "FT") if not c["verdict"][k]["consistent"])
        scopes = [bad_scope] + (["TT"] if c["verdict"]["TT"]["consistent"] else [])
        return c, p, ref, [mx.garble(p, lead_cfgs[k]) for k in scopes if k in lead_cfgs], None
    with ThreadPoolExecutor(max_workers=nc.parallelism()) as ex:
        lead_results = list(ex.map(run_lead, enumerate(runnable)))
    leads_reproduced = 0
    for c, p, ref, bs, note in lead_results:
        if note == "not-go":
            log(f"lead {nc.cell_label(c)}: the regular toolchain rejects the concretisation; not a Go program, skipped:\n{ref.res.stderr[-400:]}")
            chk.case(["lead", c["id"], "not-go"], nontrivial=False)
            continue
        for b in bs:
            chk.case(["lead", c["id"], b.cfg.name])
            expected_bad = not c["verdict"][b.cfg.toobf]["consistent"]
            diff = None if not b.ok else compare_runs(mx, ref, b, vectors[:2])
            if not b.ok or diff:
                leads_reproduced += expected_bad
                chk.violation(witness_of(c, b.cfg, "garble-build-fails" if not b.ok else "output-differs"),
                              replay_files(b, ref, {"diff.json": json.dumps(diff, indent=1)} if diff else None),
                              what=f"lead {c['lead']} {'reproduced' if expected_bad else 'fails where the spec says it is consistent'} on the real garble: {nc.cell_label(c)} under {b.cfg.name}")
            elif expected_bad:
                drift.append({"lead": c["lead"], "cell": nc.cell_label(c), "config": b.cfg.name, "spec": "inconsistent names", "real": "builds and behaves like the regular build"})
    chk.extra["leads_concretised"] = len(lead_results)
    chk.extra["leads_reproduced"] = leads_reproduced

    # 6. thorough: garble run, garble test
    if tier == "thorough":
        thorough_extras(chk, mx, progs, cfgs, refs, built, tests, vectors, seed)

    if drift:
        chk.extra["model_mismatches"] = drift[:40]
        print(f"MODEL-MISMATCH: property=C01 {len(drift)} differences between spec/Naming.tla and the names the real build computed "
              f"(first: {json.dumps(drift[0])[:300]}); every property observable was still evaluated on the real binaries", flush=True)
    chk.extra["garble_builds"] = mx.garble_builds
    chk.extra["skipped_cells"] = sorted({(cid, why) for p in progs for cid, why in p.skipped})[:20]
    chk.exhaustive = (tier == "thorough")
    return chk.finish()


def thorough_extras(chk, mx, progs, cfgs, refs, built, tests, vectors, seed):
    rng = chk.rng
    # garble run == the built binary
    for p in progs[:3]:
        for cfg in cfgs[:4]:
            sb = mx.sandbox(cfg.name)
            env = {}
            args = cfg.flags + ["run"] + ([f"-ldflags={' '.join(p.ldflags)}"] if p.ldflags else []) + ["./" + p.maindir] + vectors[1]
            rr = sb.garble(args, cwd=mx.src / p.srcdir, env=env)
            ref = mx.run_binary(refs[p.tag], vectors[1])
            chk.case(["run", p.tag, cfg.name], nontrivial=False)
            # `go run` reports a non-zero exit status of the program as exit status 1 plus "exit status N" on stderr
            want_rc = 0 if ref.returncode == 0 else 1
            got_status = re.search(r"exit status (\d+)", rr.stderr)
            status_ok = (ref.returncode == 0) or (got_status and int(got_status.group(1)) == ref.returncode)
            if rr.stdout != ref.stdout or rr.returncode != want_rc or not status_ok:
                chk.violation({"command": "run", "config": cfg.name, "observable": "output-differs"},
                              {"module": mx.src / p.srcdir, "garble-run.txt": f"garble {' '.join(args)}\nrc={rr.returncode}\n{rr.stdout}\n{rr.stderr}", "regular-stdout.txt": ref.stdout},
                              what=f"`garble run` of module {p.tag} under {cfg.name} differs from the regular binary")
    # garble test: a module with _test.go files (internal, external, TestMain)
    tcells = [c for c in tests if c["view"] == "GoIdent"]
    groups = nc.pack(tcells, 8, rng)
    for gi, g in enumerate(groups):
        p = nc.generate(g + [c for c in progs[gi % len(progs)].cells[:10]], f"s{seed}t{gi}", rng, with_tests=True)
        d = mx.write(p)
        sbgo = mx.sandbox("go")
        want = sbgo.go(["test", "-v", "-count=1", "./..."], cwd=d, timeout=1800)
        wv = test_verdicts(want.stdout)
        if not any(x[0] == "test" for x in wv):
            raise Inconclusive(f"`go test` of the generated test module printed no verdicts:\n{want.stdout[-1500:]}\n{want.stderr[-1500:]}")
        for cfg in cfgs[:4] + [c for c in cfgs if c.toobf != "TT"]:
            sb = mx.sandbox(cfg.name)
            env = {}
            if p.gogarble(cfg.toobf):
                env["GOGARBLE"] = p.gogarble(cfg.toobf)
            got = sb.garble(cfg.flags + ["test", "-v", "-count=1", "./..."], cwd=d, env=env, timeout=1800)
            gv = test_verdicts(got.stdout)
            chk.case(["test", p.tag, cfg.name])
            for c in g:
                chk.distinct.add(json.dumps([c["id"], cfg.name]))
            if gv != wv or (got.returncode == 0) != (want.returncode == 0):
                chk.violation({"command": "test", "config": cfg.name, "toobf": cfg.toobf, "observable": "test-verdicts-differ"},
                              {"module": d, "garble-test.txt": f"rc={got.returncode}\n{got.stdout}\n{got.stderr}", "go-test.txt": f"rc={want.returncode}\n{want.stdout}\n{want.stderr}"},
                              what=f"`garble test` verdict lines of module {p.tag} under {cfg.name} differ from `go test`")


if __name__ == "__main__":
    main_wrapper(main)
