#!/usr/bin/env python3
"""C07 - Missing or damaged cache entries are recomputed, never trusted.

Spec: spec/BuildCache.tla with the fault actions DamageEntry (index/data file deleted, emptied,
truncated), LoseGo (a GOCACHE entry lost) and WipeStore, exhaustive over all histories with <= 3 faults
between a warm build and a rebuild after an edit (NoStale, FactsComplete); spec/Linker.tla with
Damage (stamp / binary deleted or truncated in every combination): NeverHalfWritten.
Binding: B2 - each fault set (all single-entry faults x 5 kinds, whole-store deletions, every
<<stamp, bin>> linker state, and multi-entry sets drawn from TLC's simulation of the fault spec) is
applied to copies of really warmed caches - entries are located through the keys logged by the hooks
in the warming build - main is edited, garble is rerun.  B1 - the rerun's recompiled / recomputed
package sets are validated against BuildCacheTrace.tla, its linker events against LinkerTrace.tla.
Oracle: rerun exits 0; binary byte-identical to a build of the edited source from empty caches;
reflection/JSON-printing output identical.
"""
import sys

sys.path.insert(0, str(__import__("pathlib").Path(__file__).resolve().parent))
from proto_common import *  # noqa
from c06 import edit_source, BASE, CFGS, concretise  # noqa

KINDS = ["noindex", "emptyidx", "truncidx", "nodata", "truncdata"]


def entry_files(gcache: Path, key: str):
    """(index file, data file) of a go-internal/cache entry."""
    idx = gcache / "build" / key[:2] / (key + "-a")
    data = None
    if idx.exists():
        fields = idx.read_text().split()
        # "v1 <action id> <output id> <size> <time>"
        if len(fields) >= 4:
            out = fields[2]
            data = gcache / "build" / out[:2] / (out + "-d")
    return idx, data


def apply_damage(gcache: Path, key: str, kind: str):
    idx, data = entry_files(gcache, key)
    if not idx.exists():
        raise Inconclusive(f"cache entry {key} not found under {gcache}")
    if kind == "noindex":
        idx.unlink()
    elif kind == "emptyidx":
        idx.write_bytes(b"")
    elif kind == "truncidx":
        b = idx.read_bytes()
        idx.write_bytes(b[: len(b) // 2])
    elif kind == "nodata":
        data.unlink()
    elif kind == "truncdata":
        b = data.read_bytes()
        data.write_bytes(b[: max(1, len(b) // 2)])
    else:
        raise Inconclusive("unknown damage kind " + kind)


def damage_gocache(gocache: Path, rng, fraction: float, mode: str):
    """lose / truncate a random subset of GOCACHE files (what a trim or a crash leaves)"""
    files = [p for p in gocache.rglob("*") if p.is_file() and (p.name.endswith("-a") or p.name.endswith("-d"))]
    n = 0
    for p in files:
        if rng.random() < fraction:
            n += 1
            if mode == "delete":
                p.unlink()
            else:
                b = p.read_bytes()
                p.write_bytes(b[: len(b) // 2])
    return n


def main(tier, seed):
    chk = Check("C07", tier, seed, level="model_checking")
    chk.rule = ("fault set = entries of GARBLE_CACHE/build (index or data file of a package's reflection facts, asm name map, debugdir artifacts), "
                "GOCACHE files, linker stamp/binary, whole stores x {deleted, emptied, truncated}; one evaluation = warm caches + fault set + edit + rebuild; "
                "distinct = (entry, kind) combination")
    chk.assumptions = ["same-size corruption of a data file (bit rot) is outside the property's fault model",
                       "multi-entry fault sets are sampled from TLC's simulation in the quick tier, all single faults are enumerated"]
    rng = chk.rng
    # ---- model
    r = tlc_must_pass("BuildCache", "BuildCache-c07.cfg", timeout=2400)
    chk.add_tlc(r)
    for cfg in ("Linker-c07-copy.cfg", "Linker-c07-rename.cfg"):
        lr = tlc("Linker", cfg, timeout=900)
        if lr.error:
            raise Inconclusive(f"TLC failed on Linker/{cfg}: {lr.error}")
        chk.add_tlc(lr)
        if lr.violated:
            chk.extra["tlc_lead_linker"] = lr.violated
    # multi-entry fault sets from TLC's simulation of the same spec
    sim_sets = []
    simw = mkscratch("c07-sim")
    simcfg = (SPEC / "cfg" / "BuildCache-c07.cfg").read_text().replace("INVARIANTS NoStale NoRework FactsComplete", "INVARIANTS NoStale NoRework FactsComplete EmitHist")
    simr = tlc("BuildCache", "BuildCache-sim.cfg", workdir=simw, files={"BuildCache-sim.cfg": simcfg}, workers=1,
               simulate=f"num={60 if tier == 'quick' else 600}", depth=8, seed=seed, timeout=900)
    for line in simr.out.splitlines():
        if line.startswith('<<"HIST"'):
            js = line[line.index(",") + 1:].strip()[:-2].strip()
            h = json.loads(json.loads(js))
            faults = [(a["p"], a["kind"]) for a in h if a["a"] == "damage"] + [("go:" + a["p"], "lost") for a in h if a["a"] == "losego"] + \
                     [("wipe", a["which"]) for a in h if a["a"] == "wipe"]
            if len(faults) >= 2 and faults not in sim_sets:
                sim_sets.append(faults)
    chk.extra["tlc_simulated_fault_sets"] = len(sim_sets)

    # ---- warm caches (with -debugdir so that artifact entries exist too)
    work = mkscratch("c07")
    build_garble("verif")
    tool = make_linker_cache(work)
    warm = work / "warm"
    src = write_proto(warm / "src")
    sbw = Sandbox(warm / "sb", template=True)
    copytree(tool, sbw.gcache / "tool")
    wtrace = warm / "trace.ndjson"
    rw = sbw.garble(["-debugdir=" + str(warm / "dbg"), "build", "-o", str(warm / "prog"), "."], cwd=src, trace=wtrace, timeout=1500)
    if rw.returncode != 0:
        raise Inconclusive(f"warming build failed: {rw.stderr[-2000:]}")
    wev = read_trace(wtrace)
    short = {"example.com/proto/leaf": "leaf", "example.com/proto/mid": "mid", "example.com/proto": "main"}
    keys = {}
    for e in wev:
        if e["ev"] == "pkgcache-put":
            keys[("facts", e["pkg"])] = e["key"]
        elif e["ev"] == "asmnames-put":
            keys[("asm", e["pkg"])] = e["key"]
        elif e["ev"] == "debugdir-put":
            keys[("dbg-" + e["kind"], e["pkg"])] = e["key"]
    mod_keys = {(k, short[p]): v for (k, p), v in keys.items() if p in short}
    std_keys = {(k, p): v for (k, p), v in keys.items() if p in ("fmt", "encoding/json", "reflect", "os")}
    if len([k for k in mod_keys if k[0] == "facts"]) != 3:
        raise Inconclusive(f"expected reflection-fact entries for leaf, mid, main; got {sorted(mod_keys)}")
    # warm caches and reference with GARBLE_EXPERIMENTAL_CONTROLFLOW=1
    CF = {"GARBLE_EXPERIMENTAL_CONTROLFLOW": "1"}
    warmc = work / "warm-cf"
    srcc = write_proto(warmc / "src")
    sbc = Sandbox(warmc / "sb", template=True)
    copytree(tool, sbc.gcache / "tool")
    ctrace = warmc / "trace.ndjson"
    rc_ = sbc.garble(["build", "-o", str(warmc / "prog"), "."], cwd=srcc, env=CF, trace=ctrace, timeout=1500)
    if rc_.returncode != 0:
        raise Inconclusive(f"warming build (control flow) failed: {rc_.stderr[-2000:]}")
    cf_keys = {("facts", short[e["pkg"]]): e["key"] for e in read_trace(ctrace) if e["ev"] == "pkgcache-put" and e["pkg"] in short}
    refc = work / "ref-cf"
    rsrcc = write_proto(refc / "src")
    edit_source(rsrcc, "main", 1)
    rsbc = Sandbox(refc / "sb", template=True)
    copytree(tool, rsbc.gcache / "tool")
    rrc = rsbc.garble(["build", "-o", str(refc / "prog"), "."], cwd=rsrcc, env=CF, timeout=1500)
    if rrc.returncode != 0:
        raise Inconclusive(f"reference build (control flow) failed: {rrc.stderr[-2000:]}")
    refc_sha, refc_run = sha256_file(refc / "prog"), run_binary(refc / "prog")
    rmtree(refc / "sb")
    # reference: edited source, empty caches
    ref_root = work / "ref"
    rsrc = write_proto(ref_root / "src")
    edit_source(rsrc, "main", 1)
    rsb = Sandbox(ref_root / "sb", template=True)
    copytree(tool, rsb.gcache / "tool")
    rr = rsb.garble(["build", "-o", str(ref_root / "prog"), "."], cwd=rsrc, timeout=1500)
    if rr.returncode != 0:
        raise Inconclusive(f"reference build failed: {rr.stderr[-2000:]}")
    ref_sha, ref_run = sha256_file(ref_root / "prog"), run_binary(ref_root / "prog")
    rmtree(ref_root / "sb")

    # ---- fault sets
    fault_sets = []
    for (what, pkg), key in sorted(mod_keys.items()):
        # quick: every kind for the reflection-fact and asm-name entries, two sampled kinds for the -debugdir artifacts
        for kind in (KINDS if tier == "thorough" or what in ("facts", "asm") else rng.sample(KINDS, 2)):
            fault_sets.append([("entry", what, pkg, kind)])
    for (what, pkg), key in sorted(std_keys.items()):
        if what == "facts":
            fault_sets.append([("entry", what, pkg, rng.choice(KINDS))])
    for store in ("gcache-build", "gcache-all", "gocache-half-deleted", "gocache-some-truncated"):
        fault_sets.append([("store", store)])
    # an entry is only read again when its package is recompiled under the SAME key: rerun with -a
    # (every package recompiled, all keys unchanged) after damaging the asm name map / the facts of a dependency
    for (what, pkg), key in sorted(mod_keys.items()):
        if what == "asm" or (what == "facts" and pkg == "leaf"):
            for kind in (KINDS if tier == "thorough" else (["nodata", "truncdata", "noindex"] if what == "asm" else [rng.choice(KINDS)])):
                fault_sets.append([("entry", what, pkg, kind), ("rebuild-all",)])
    # the same with control-flow obfuscation on (its own warm caches, see below): recomputation of a
    # dependency's entry from a dependant's compile goes through the SSA form there
    for fs in ([("entry", "facts", "mid", "noindex")], [("entry", "facts", "leaf", "nodata")], [("entry", "facts", "mid", "truncdata"), ("entry", "facts", "leaf", "noindex")],
               [("store", "gcache-build")]):
        fault_sets.append([("ctrlflow",)] + fs)
    for st in ("none", "partial", "old", "cur"):
        for bn in ("none", "partial", "old", "cur"):
            if (st, bn) != ("cur", "cur") and (tier == "thorough" or (st, bn) in (("cur", "none"), ("cur", "partial"), ("none", "cur"), ("partial", "cur"), ("old", "old"), ("cur", "old"), ("partial", "partial"))):
                fault_sets.append([("linker", st, bn)])
    nsim = 4 if tier == "quick" else 80
    for faults in sim_sets[:nsim]:
        fs = []
        for p, kind in faults:
            if p == "wipe":
                fs.append(("store", {"gcache": "gcache-build", "gocache": "gocache-half-deleted", "both": "gcache-all"}[kind]))
            elif p.startswith("go:"):
                fs.append(("store", "gocache-some-truncated"))
            else:
                fs.append(("entry", "facts", p, kind))
        fault_sets.append(fs)
    if tier == "thorough":
        ents = [k for k in mod_keys]
        for _ in range(60):
            fs = [("entry", w, p, rng.choice(KINDS)) for (w, p) in rng.sample(ents, rng.randrange(2, min(6, len(ents)) + 1))]
            if rng.random() < 0.3:
                fs.append(("linker", rng.choice(["none", "partial", "cur"]), rng.choice(["none", "partial", "cur"])))
            fault_sets.append(fs)
    chk.extra["fault_sets"] = len(fault_sets)
    lock = threading.Lock()
    tcfg = (SPEC / "cfg" / "BuildCacheTrace.cfg").read_text().replace(
        "CONSTANTS\n", 'CONSTANTS\n  KeyFields = {"tiny", "lit", "seed", "gogarble", "ctrl"}\n  XNameKeyed = TRUE\n')

    def experiment(idx_fs):
        idx, fs = idx_fs
        root = work / f"f{idx}"
        ctrl = ("ctrlflow",) in fs
        rebuild_all = ("rebuild-all",) in fs
        fs = [f for f in fs if f not in (("ctrlflow",), ("rebuild-all",))]
        wsb, wkeys, want_sha, want_run, benv = (sbc, cf_keys, refc_sha, refc_run, CF) if ctrl else (sbw, mod_keys, ref_sha, ref_run, {})
        sb = Sandbox(root / "sb", gocache=None)
        rmtree(sb.gocache)
        copytree(wsb.gocache, sb.gocache)
        rmtree(sb.gcache)
        copytree(wsb.gcache, sb.gcache)
        esrc = write_proto(root / "src")
        local_rng = __import__("random").Random(seed * 1000 + idx)
        steps = [{"ev": "build", "cfg": BASE, "compiled": ["abi", "leaf", "main", "mid", "rt"], "recomputed": ["leaf", "main", "mid"]}]
        modelled = True
        for f in fs:
            if f[0] == "entry":
                _, what, pkg, kind = f
                key = wkeys.get((what, pkg)) or std_keys.get((what, pkg))
                apply_damage(sb.gcache, key, kind)
                if what == "facts" and pkg in ("leaf", "mid", "main"):
                    steps.append({"ev": "damage", "p": pkg, "kind": kind})
                else:
                    modelled = modelled and what != "facts"
            elif f[0] == "store":
                if f[1] == "gcache-build":
                    rmtree(sb.gcache / "build")
                    steps.append({"ev": "wipe", "which": "gcache"})
                elif f[1] == "gcache-all":
                    rmtree(sb.gcache)
                    sb.gcache.mkdir()
                    steps.append({"ev": "wipe", "which": "gcache"})
                elif f[1] == "gocache-half-deleted":
                    damage_gocache(sb.gocache, local_rng, 0.5, "delete")
                    modelled = False
                else:
                    damage_gocache(sb.gocache, local_rng, 0.2, "truncate")
                    modelled = False
            elif f[0] == "linker":
                set_linker_state(sb.gcache, tool, f[1], f[2])
        edit_source(esrc, "main", 1)
        steps.append({"ev": "edit", "p": "main", "kind": "api"})
        trace = root / "trace.ndjson"
        if rebuild_all or ctrl:
            modelled = False      # BuildCacheTrace's constants describe the default configuration without -a
        r2 = sb.garble(["build"] + (["-a"] if rebuild_all else []) + ["-o", str(root / "prog"), "."], cwd=esrc, env=benv, trace=trace, timeout=1500)
        evs = read_trace(trace)
        nm = {"internal/abi": "abi", "runtime": "rt", "example.com/proto/leaf": "leaf", "example.com/proto/mid": "mid", "example.com/proto": "main"}
        compiled = sorted({nm[e["pkg"]] for e in evs if e["ev"] == "compile-start" and e["pkg"] in nm})
        recomputed = sorted({nm[e["pkg"]] for e in evs if e["ev"] == "pkgcache-put" and e["pkg"] in nm and nm[e["pkg"]] in ("leaf", "mid", "main")})
        steps.append({"ev": "build", "cfg": BASE, "compiled": compiled, "recomputed": recomputed})
        witness = {"faults": [list(f) for f in fs], "kinds": sorted({f[-1] for f in fs if f[0] == "entry"}), "ctrlflow": ctrl, "rebuild_all": rebuild_all,
                   "linker": next(([f[1], f[2]] for f in fs if f[0] == "linker"), None)}
        files = {"trace.ndjson": trace, "stderr.txt": r2.stderr[-4000:], "faults.json": json.dumps(witness)}
        with lock:
            chk.case([[list(f) for f in fs], ctrl, rebuild_all], sample=witness if idx % 12 == 0 else None)
            if r2.returncode != 0:
                chk.violation(dict(witness, kind="rebuild-failed"), files, what=f"rebuild after faults {fs} failed: {r2.stderr[-300:]}")
            else:
                if sha256_file(root / "prog") != want_sha:
                    same_out = run_binary(root / "prog")[1] == want_run[1]
                    chk.violation(dict(witness, kind="binary-differs", output_same=same_out), files, what=f"rebuild after faults {fs} differs from the build from empty caches")
                if (sb.gcache / "tool" / "old-linker-used").exists():
                    chk.violation(dict(witness, kind="foreign-linker-used"), files, what="a linker of another version was executed")
                if modelled:
                    nd = "".join(json.dumps(s) + "\n" for s in steps)
                    tr = tlc("BuildCacheTrace", "BuildCacheTrace-gen.cfg", files={"BuildCacheTrace-gen.cfg": tcfg, "buildcache_trace.ndjson": nd}, workers=1, timeout=600)
                    chk.states += tr.distinct
                    chk.transitions += tr.states
                    if tr.ok:
                        chk.traces_validated += 1
                    else:
                        chk.extra.setdefault("rejected_traces", []).append({"faults": witness["faults"], "compiled": compiled, "recomputed": recomputed})
                ok, _ = validate_linker_trace(chk, evs, label=str(fs))
                if not ok:
                    chk.extra.setdefault("rejected_linker_traces", []).append(witness["faults"])
        rmtree(root)

    parallel(experiment, list(enumerate(fault_sets)), workers=6)
    if chk.extra.get("rejected_traces") or chk.extra.get("rejected_linker_traces"):
        print(f"MODEL-MISMATCH: property=C07 {len(chk.extra.get('rejected_traces', []))} build traces and "
              f"{len(chk.extra.get('rejected_linker_traces', []))} linker traces of the reruns are not behaviours of the specification", flush=True)
    return chk.finish()


if __name__ == "__main__":
    main_wrapper(main)
