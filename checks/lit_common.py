"""Shared machinery of the literal-obfuscation checks C05 and C09.

* models():        runs TLC on spec/Literals.tla (decision table + exhaustive Z_4 round-trip configs
                   + simulation at the code's real constants that prints complete choice vectors)
* CellGen:         turns rows of the decision table into Go source (one cell = one context x form x size,
                   with its own random content) and knows what every cell must print
* Driver:          the in-process driver harness/cmd/litdrv (real literals.Obfuscate, scripted math/rand)
* whole_tool():    garble -literals builds (obfuscators forced per package through
                   GARBLE_TEST_LITERALS_OBFUSCATOR_MAP, default random choice, several -seed values)

Verdicts are produced by the checks (c05.py: printed values / compilation, c09.py: bytes of the binary);
this module only produces observations.
"""
import base64
import bisect
import hashlib
import shutil
import tempfile
import json
import os
import re
import sys
import threading
import time
from pathlib import Path

sys.path.insert(0, str(Path(__file__).resolve().parent.parent))
from vf.core import *  # noqa

OBF_NAMES = ["simple", "swap", "split", "shuffle", "seed"]
STRING_FORMS = ("string", "typed_string", "concat")
ARRAY_FORMS = ("byte_array", "ptr_byte_array")

QUICK_CFGS = ["Literals-quick-a.cfg", "Literals-quick-b.cfg", "Literals-quick-b2.cfg", "Literals-quick-c.cfg",
              "Literals-quick-d.cfg", "Literals-quick-d2.cfg"]
THOROUGH_CFGS = ["Literals-thorough-a.cfg", "Literals-thorough-b.cfg", "Literals-thorough-b2.cfg",
                 "Literals-thorough-c.cfg", "Literals-thorough-d.cfg", "Literals-thorough-d2.cfg"]


# --------------------------------------------------------------------------- models

def _jvm(work):
    tmp = Path(work) / "jtmp"
    tmp.mkdir(parents=True, exist_ok=True)
    return ("-Djava.io.tmpdir=" + str(tmp),)


def load_table(chk):
    """Constant-level TLC run: evaluates Part A of the spec, checks its ASSUMEs, exports the table."""
    work = mkscratch("lit-tlc-table")
    r = tlc_must_pass("Literals", "Literals-table.cfg", workdir=work, workers=1, timeout=600, jvm=_jvm(work))
    chk.add_tlc(r)
    table = json.loads((work / "literals_table.json").read_text())
    if not table.get("rows"):
        raise Inconclusive("Literals.tla exported an empty decision table")
    # what-if: the rewrite rule as it was before the repair of FL4 (type of an elided composite literal read from
    # node.Type only): TLC must still find the hide-gap, otherwise MustHide/Rewritten no longer bite
    w2 = mkscratch("lit-tlc-whatif")
    r2 = tlc("Literals", "Literals-whatif-elided.cfg", workdir=w2, workers=1, timeout=600, jvm=_jvm(w2))
    chk.add_tlc(r2)
    # (a constant-level invariant: TLC reports it as "The invariant of NoHideGap is equal to FALSE")
    if r2.violated != "NoHideGap" and "invariant of NoHideGap is equal to FALSE" not in (r2.error or ""):
        raise Inconclusive(f"what-if Literals-whatif-elided.cfg: expected NoHideGap to be violated, got violated={r2.violated} "
                           f"error={r2.error}\n{r2.out[-1500:]}")
    chk.extra["whatif_elided_rejected"] = True
    return table


class ModelRuns:
    """Runs the exhaustive configs in background threads (they only need CPU) while the check builds."""

    def __init__(self, chk, tier, workers=3, cfgs=None):
        self.chk, self.tier = chk, tier
        self.cfgs = cfgs if cfgs is not None else (QUICK_CFGS if tier == "quick" else THOROUGH_CFGS)
        self.results, self.errors, self.threads = {}, [], []
        for cfg in self.cfgs:
            t = threading.Thread(target=self._one, args=(cfg, workers), daemon=True)
            t.start()
            self.threads.append(t)

    def _one(self, cfg, workers):
        try:
            work = mkscratch("lit-tlc-" + cfg.replace(".cfg", ""))
            self.results[cfg] = tlc("Literals", cfg, workdir=work, workers=workers, timeout=2400, jvm=_jvm(work))
            rmtree(work)
        except BaseException as e:  # reported by join()
            self.errors.append((cfg, e))

    def join(self):
        for t in self.threads:
            t.join()
        if self.errors:
            raise Inconclusive(f"TLC failed on {self.errors[0][0]}: {self.errors[0][1]}")
        summary = {}
        for cfg in self.cfgs:
            r = self.results[cfg]
            if not r.ok:
                # a violated invariant of the model is a lead about the MODEL (the transcription says the code
                # is wrong); the real code is exercised separately, so this is reported and is not a verdict
                raise Inconclusive(f"TLC {cfg} did not pass: violated={r.violated} error={r.error}\n{r.out[-2500:]}")
            self.chk.add_tlc(r)
            summary[cfg] = {"distinct": r.distinct, "generated": r.states, "depth": r.depth, "wall_s": round(r.wall, 1)}
        return summary


def simulate_check(chk, cfg, num, seed, depth=4000, workers=4):
    """TLC simulation (random behaviours) of a config whose state space is not exhausted; invariants are checked on every state."""
    work = mkscratch("lit-tlc-sim")
    r = tlc("Literals", cfg, workdir=work, workers=workers, timeout=2400, jvm=_jvm(work),
            simulate=f"num={max(1, (num + workers - 1) // workers)}", depth=depth, seed=seed)
    if r.violated or r.error:
        raise Inconclusive(f"TLC {cfg} (simulation): violated={r.violated} error={r.error}\n{r.out[-2500:]}")
    m = re.search(r"The number of states generated: (\d+)", r.out)
    n = int(m.group(1)) if m else 0
    chk.transitions += n
    chk.states += n
    rmtree(work)
    return n


def replay_vectors(chk, num, seed, cfg="Literals-replay.cfg", depth=4000):
    """TLC simulation of Literals.tla at the code's real constants; returns the printed choice vectors."""
    work = mkscratch("lit-tlc-replay")
    workers = 4
    r = tlc("Literals", cfg, workdir=work, workers=workers, timeout=2400, jvm=_jvm(work),
            simulate=f"num={max(1, (num + workers - 1) // workers)}", depth=depth, seed=seed)
    if r.violated or r.error:
        raise Inconclusive(f"TLC {cfg}: violated={r.violated} error={r.error}\n{r.out[-2500:]}")
    m = re.search(r"The number of states generated: (\d+)", r.out)
    if m:
        chk.transitions += int(m.group(1))
        chk.states += int(m.group(1))
    vecs, seen = [], set()
    for line in r.out.splitlines():
        if not line.startswith('<<"VEC", "'):
            continue
        body = line[len('<<"VEC", '):-2]
        try:
            v = json.loads(json.loads(body))
        except ValueError:
            continue
        key = json.dumps(v, sort_keys=True)
        if key not in seen:
            seen.add(key)
            vecs.append(v)
    rmtree(work)
    if not vecs:
        raise Inconclusive("TLC simulation printed no choice vector:\n" + r.out[-1500:])
    if not all(v["ok"] for v in vecs):
        raise Inconclusive("model: a simulated behaviour does not round-trip (RoundTrip should have failed)")
    return vecs


# --------------------------------------------------------------------------- scripts for the driver

def shuffle_u32(j, n):
    """The Uint32 value that makes math/rand's int31n(n) return j (Lemire's multiply-shift)."""
    v = (j * (1 << 32) + n - 1) // n
    for _ in range(4):
        prod = v * n
        low = prod & 0xffffffff
        if (prod >> 32) != j:
            break
        if low >= n or low >= ((1 << 32) - n) % n:
            return v
        v += 1
    raise Inconclusive(f"no Uint32 gives int31n({n}) = {j}")


def vector_to_script(vec, rng):
    """Model log (<<choice point, value>>...) -> per-choice-point queues in the driver's semantic units."""
    queues = {}
    prev_read = None
    for site, val in vec["log"]:
        q = queues.setdefault(site, [])
        method = site.rsplit("/", 1)[1]
        if method != "Read" and prev_read is not None:
            # one Read call = one run of Read entries: the driver takes seven bytes per 63-bit value
            pq = queues[prev_read]
            while len(pq) % 7:
                pq.append(0)
            prev_read = None
        if method == "Read":
            if prev_read not in (None, site):
                pq = queues[prev_read]
                while len(pq) % 7:
                    pq.append(0)
            prev_read = site
            q.append(int(val))
        elif method == "Shuffle":
            q.append(shuffle_u32(int(val[0]), int(val[1])))
        elif method == "Uint64":
            digits = list(val) + [rng.randrange(256) for _ in range(8 - len(val))]   # masked off by `& r.max`
            q.append(sum(d << (8 * i) for i, d in enumerate(digits)))
        else:
            q.append(int(val))
    return {k: [str(x) for x in v] for k, v in queues.items()}


def log_projection(draws, sites):
    """Project a driver draw log (list of [site, via, method, scripted, val]) onto the model's choice points."""
    out = []
    for site, via, method, scripted, val in draws:
        k1, k2 = f"{site}<{via}/{method}", f"{site}/{method}"
        key = k1 if k1 in sites else (k2 if k2 in sites else None)
        if key is None:
            continue
        out.append((key, scripted, val))
    return out


MODEL_SITES = {
    "pickObfuscator/Intn", "obfuscateString/Intn", "obfuscateString/Read", "randExtKeys/Intn", "randExtKey/Intn",
    "randExtKey/Uint64", "Try<extKeysToParams/Float32", "dataToByteSliceWithExtKeys/Intn",
    "randOperator<dataToByteSliceWithExtKeys/Intn", "Try<byteLitWithExtKey/Float32", "byteLitWithExtKey/Intn",
    "randOperator<byteLitWithExtKey/Intn", "simple.obfuscate/Read", "randOperator<simple.obfuscate/Intn",
    "generateSwapCount/Intn", "swap.obfuscate/Uint32", "randOperator<swap.obfuscate/Intn", "genRandIntSlice/Intn",
    "splitIntoRandomChunks/Intn", "split.obfuscate/Perm", "split.obfuscate/Uint32", "randOperator<split.obfuscate/Intn",
    "shuffleStmts/Shuffle", "shuffle.obfuscate/Read", "shuffle.obfuscate/Intn", "randOperator<shuffle.obfuscate/Intn",
    "shuffle.obfuscate/Perm", "seed.obfuscate/Uint32", "randOperator<seed.obfuscate/Intn",
}


def compare_logs(vec, draws):
    """Exact comparison of site order; values for the scripted entries.  Returns None or a description."""
    got = log_projection(draws, MODEL_SITES)
    # expand the code's Read entries into single bytes (only as many as the model has in that run)
    exp = []
    for key, scripted, val in got:
        if key.endswith("/Read"):
            for tok in val.split():
                exp.append((key, not tok.startswith("~"), tok.lstrip("~")))
        else:
            exp.append((key, bool(scripted), val))
    gi = 0
    log = vec["log"]
    i = 0
    while i < len(log):
        site, val = log[i]
        method = site.rsplit("/", 1)[1]
        if gi >= len(exp):
            return f"the code stopped drawing at model choice point #{i} {site}"
        if method == "Read":
            # model run of Read bytes at this site
            j = i
            while j < len(log) and log[j][0] == site:
                j += 1
            run = [str(v) for _, v in log[i:j]]
            padded = len(run) + (-len(run)) % 7
            chunk = exp[gi:gi + padded]
            if len(chunk) < padded or any(c[0] != site for c in chunk):
                return f"model Read of {len(run)} bytes at {site} (#{i}): the code drew {[c[0] for c in chunk][:3]}..."
            if [c[2] for c in chunk[:len(run)]] != run:
                return f"Read at {site} (#{i}): scripted bytes were not the bytes consumed"
            gi += padded
            i = j
            continue
        gsite, gscripted, gval = exp[gi]
        if gsite != site:
            return f"choice point #{i}: model {site}, code {gsite}"
        if not gscripted:
            return f"choice point #{i} {site}: the code drew here but the script was already exhausted"
        gi += 1
        i += 1
    if gi != len(exp):
        return f"the code made {len(exp) - gi} more draws at modelled choice points, first {exp[gi][0]}"
    return None


# --------------------------------------------------------------------------- Go program generation

def go_str(b: bytes) -> str:
    return '"' + "".join("\\x%02x" % c for c in b) + '"'


def go_elts(b: bytes) -> str:
    return ", ".join("0x%02x" % c for c in b)


HELPERS = '''
type MyS string

func unhex(s string) []byte {
	out := make([]byte, 0, len(s)/2)
	nib := func(c byte) byte {
		if c >= 'a' {
			return c - 'a' + 10
		}
		return c - '0'
	}
	for i := 0; i+1 < len(s); i += 2 {
		out = append(out, nib(s[i])<<4|nib(s[i+1]))
	}
	return out
}

// cat joins short pieces at run time: the pieces are below literals.MinSize, so the value built from
// them never is a literal that -literals rewrites.
func cat(parts ...string) string {
	n := 0
	for _, p := range parts {
		n += len(p)
	}
	buf := make([]byte, 0, n)
	for _, p := range parts {
		buf = append(buf, p...)
	}
	return string(buf)
}

var hexd = cat("0123456", "789abcd", "ef")

func emit(tag string, id int, b []byte) {
	buf := make([]byte, 0, len(b)*2)
	for _, c := range b {
		buf = append(buf, hexd[c>>4], hexd[c&15])
	}
	println(tag, id, string(buf))
}
'''


class Cell:
    __slots__ = ("id", "ctx", "form", "size", "row", "data", "inject", "lines", "pkg")

    def __init__(self, cid, row, data):
        self.id, self.row, self.data = cid, row, data
        self.ctx, self.form, self.size = row["ctx"], row["form"], row["size"]
        self.inject = None
        self.lines = (0, 0)
        self.pkg = ""

    def key(self):
        return [self.ctx, self.form, self.size]

    def expected(self):
        """What the accessor of this cell returns in a correct program."""
        if self.ctx == "case_label":
            return b"\x01"
        if self.ctx.startswith("array_len"):
            return bytes([self.size & 255, self.size >> 8])
        if self.ctx == "xvar_decl" and self.inject is not None:
            return self.inject
        return self.data

    def marker(self):
        return self.data


def _types(form, n):
    return {"string": "string", "typed_string": "MyS", "concat": "string", "byte_slice": "[]byte",
            "byte_array": f"[{n}]byte", "ptr_byte_slice": "*[]byte", "ptr_byte_array": f"*[{n}]byte",
            "uint8_slice": "[]uint8"}[form]


def _lit(form, data, rng):
    n = len(data)
    if form in ("string", "typed_string"):
        return go_str(data)
    if form == "concat":
        k = rng.randrange(0, n + 1)
        return "(" + go_str(data[:k]) + " + " + go_str(data[k:]) + ")"
    if form == "byte_slice":
        return "[]byte{" + go_elts(data) + "}"
    if form == "uint8_slice":
        return "[]uint8{" + go_elts(data) + "}"
    if form == "byte_array":
        return f"[{n}]byte{{" + go_elts(data) + "}"
    if form == "ptr_byte_slice":
        return "&[]byte{" + go_elts(data) + "}"
    if form == "ptr_byte_array":
        return f"&[{n}]byte{{" + go_elts(data) + "}"
    raise ValueError(form)


def _conv(form):
    return {"string": "[]byte(v)", "typed_string": "[]byte(v)", "concat": "[]byte(v)", "byte_slice": "v",
            "uint8_slice": "v", "byte_array": "v[:]", "ptr_byte_slice": "*v", "ptr_byte_array": "v[:]"}[form]


def cell_source(c: Cell, rng) -> str:
    """Go declarations of one cell; the accessor is func c<id>() []byte."""
    N, ctx, form, data = c.id, c.ctx, c.form, c.data
    T = _types(form, len(data))
    LIT = _lit(form, data, rng)
    TLIT = f"MyS({LIT})" if form == "typed_string" else LIT      # the literal with its type attached
    conv = _conv(form)
    decls, body, ret = "", "", f"return {conv}"
    if ctx == "var_init":
        decls, body = f"var v{N} {T} = {LIT}", f"v := v{N}"
    elif ctx == "local_define":
        body = f"v := {TLIT}"
    elif ctx == "arg":
        decls, body = f"func f{N}(x {T}) {T} {{ return x }}", f"v := f{N}({LIT})"
    elif ctx == "return":
        decls, body = f"func r{N}() {T} {{ return {LIT} }}", f"v := r{N}()"
    elif ctx == "composite_elem":
        decls, body = f"var v{N} = []{T}{{{LIT}}}", f"v := v{N}[0]"
    elif ctx == "composite_elided":
        decls, body = f"var v{N} = []{T}{{{{{go_elts(data)}}}}}", f"v := v{N}[0]"
    elif ctx == "map_key":
        decls, body = f"var v{N} = map[{T}]int{{{LIT}: 1}}", f"var v {T}\n\tfor k := range v{N} {{\n\t\tv = k\n\t}}"
    elif ctx == "map_value":
        decls, body = f"var v{N} = map[int]{T}{{1: {LIT}}}", f"v := v{N}[1]"
    elif ctx == "struct_field":
        decls, body = f"type s{N} struct{{ F {T} }}\n\nvar v{N} = s{N}{{F: {LIT}}}", f"v := v{N}.F"
    elif ctx == "struct_field_pos":
        decls, body = f"type s{N} struct{{ F {T} }}\n\nvar v{N} = s{N}{{{LIT}}}", f"v := v{N}.F"
    elif ctx == "closure":
        decls, body = f"var v{N} = func() {T} {{ return {LIT} }}", f"v := v{N}()"
    elif ctx == "generic_body":
        decls, body = f"func g{N}[P any](p P) {T} {{\n\t_ = p\n\treturn {LIT}\n}}", f"v := g{N}(0)"
    elif ctx == "generic_arg":
        decls, body = f"func g{N}[P any](p P) P {{ return p }}", f"v := g{N}[{T}]({LIT})"
    elif ctx == "init_func":
        decls, body = f"var v{N} {T}\n\nfunc init() {{ v{N} = {LIT} }}", f"v := v{N}"
    elif ctx == "iface":
        decls, body = f"var v{N} any = {TLIT}", f"v := v{N}.({T})"
    elif ctx == "binop":
        decls, body = f"func b{N}(p {T}) {T} {{ return p + {LIT} }}", f'v := b{N}("")'
    elif ctx == "case_label":
        decls = f"func w{N}(x {T}) int {{\n\tswitch x {{\n\tcase {LIT}:\n\t\treturn 1\n\t}}\n\treturn 0\n}}"
        h = data.hex()
        hx = "cat(" + ", ".join('"%s"' % h[i:i + 6] for i in range(0, len(h), 6)) + ")"
        if form == "byte_array":
            body = f"var a {T}\n\tcopy(a[:], unhex({hx}))\n\tv := w{N}(a)"
        else:
            body = f"v := w{N}({T}(unhex({hx})))"
        ret = "return []byte{byte(v)}"
    elif ctx == "const_untyped":
        decls, body = f"const k{N} = {LIT}", f"var v {T} = k{N}"
    elif ctx == "const_typed":
        decls, body = f"const k{N} {T} = {LIT}", f"v := k{N}"
    elif ctx == "conv_named_const":
        decls, body = f"type e{N} string\n\nconst k{N} e{N} = {LIT}", f"v := string(k{N})"
    elif ctx == "array_len_lit":
        decls, body = f"var a{N} [len({TLIT})]byte", f"v := len(a{N})"
        ret = "return []byte{byte(v & 255), byte(v >> 8)}"
    elif ctx == "array_len_uconst":
        decls, body = f"const k{N} = {TLIT}\n\nvar a{N} [len(k{N})]byte", f"v := len(a{N})"
        ret = "return []byte{byte(v & 255), byte(v >> 8)}"
    elif ctx == "array_len_tconst":
        decls, body = f"const k{N} {T} = {LIT}\n\nvar a{N} [len(k{N})]byte", f"v := len(a{N})"
        ret = "return []byte{byte(v & 255), byte(v >> 8)}"
    elif ctx == "xvar_decl":
        decls, body = f"var x{N} = {LIT}", f"v := x{N}"
    elif ctx == "nosplit_func":
        decls, body = f"//go:nosplit\nfunc n{N}() {T} {{ return {LIT} }}", f"v := n{N}()"
    else:
        raise Inconclusive(f"generator: unknown context {ctx!r} in the decision table")
    acc = f"func c{N}() []byte {{\n\t{body}\n\t{ret}\n}}"
    return (decls + "\n\n" if decls else "") + acc + "\n"


def gen_file(pkg, cells, rng, tag=None, main=True, imports=()):
    """One Go file holding the cells.  Records the line span of every cell (for the driver's decl report)."""
    tag = tag or pkg
    parts = [f"package {pkg}\n"]
    for imp in imports:
        parts.append(f'import "{imp}"\n')
    parts.append(HELPERS)
    text = "\n".join(parts)
    line = text.count("\n") + 1
    chunks = [text]
    for c in cells:
        src = f"// cell {c.id}: {c.ctx} {c.form} {c.size}\n" + cell_source(c, rng) + "\n"
        c.lines = (line, line + src.count("\n"))
        c.pkg = pkg
        line += src.count("\n")
        chunks.append(src)
    run = "func main() {\n" if main else "func Run() {\n"
    for c in cells:
        run += f'\temit("{tag}", {c.id}, c{c.id}())\n'
    run += "}\n"
    chunks.append(run)
    return "".join(chunks)


def rand_bytes(rng, n, kind="any"):
    if kind == "any":
        return bytes(rng.randrange(256) for _ in range(n))
    if kind == "allbytes":   # every byte value occurs (n >= 256), in shuffled order
        base = list(range(256)) * (n // 256) + [rng.randrange(256) for _ in range(n % 256)]
        rng.shuffle(base)
        return bytes(base)
    if kind == "text":
        al = b"ABCDEFGHIJKLMNOPQRSTUVWXYZabcdefghijklmnopqrstuvwxyz0123456789+/"
        return bytes(rng.choice(al) for _ in range(n))
    raise ValueError(kind)


def make_cells(rows, rng, start_id=0, content=None):
    cells = []
    for i, row in enumerate(rows):
        n = row["size"]
        kind = content or ("allbytes" if n >= 256 else rng.choice(["any", "any", "text"]))
        cells.append(Cell(start_id + i, row, rand_bytes(rng, n, kind)))
    return cells


def parse_emitted(text, tag=None):
    """Lines `tag id hex` printed by emit()."""
    out = {}
    for line in text.splitlines():
        f = line.split(" ")
        if len(f) == 3 and (tag is None or f[0] == tag) and f[1].isdigit():
            try:
                out[(f[0], int(f[1]))] = bytes.fromhex(f[2])
            except ValueError:
                out[(f[0], int(f[1]))] = None
        elif len(f) == 2 and (tag is None or f[0] == tag) and f[1].isdigit():
            out[(f[0], int(f[1]))] = b""
    return out


# --------------------------------------------------------------------------- choosing cells

def size_class_row(index, ctx, form, size):
    """The table row that governs (ctx, form, size): rows exist for the boundary sizes; any other size
    behaves like the class it falls in (the spec's Rewritten depends on size only through the window)."""
    if size < 8:
        cls = 7 if (ctx, form, 7) in index else 1
    elif size == 8:
        cls = 8
    elif size <= 255:
        cls = 9
    elif size == 256:
        cls = 256
    elif size < 2048:
        cls = 257
    elif size == 2048:
        cls = 2048
    else:
        cls = 2049
    row = index.get((ctx, form, cls))
    if row is None:
        return None
    if row["size"] == size:
        return row
    r = dict(row)
    r["size"] = size
    if r["rewritten"]:
        r["obfs"] = OBF_NAMES if size <= 256 else OBF_NAMES[:2]
    return r


def table_index(table):
    return {(r["ctx"], r["form"], r["size"]): r for r in table["rows"]}


def table_pairs(table):
    return sorted({(r["ctx"], r["form"]) for r in table["rows"]})


def plan_mix(table, rng, full_ctxs, mid=(9, 48), max_size=2049, leads=("none", "hide-gap")):
    """Rows for one generated package: every (context, form) pair once at a random size inside the window,
    and every size class for the contexts in full_ctxs."""
    index = table_index(table)
    rows = []
    for ctx, form in table_pairs(table):
        r = size_class_row(index, ctx, form, rng.randint(*mid))
        if r is not None and r["lead"] in leads:
            rows.append(r)
        if ctx in full_ctxs:
            for s in table["sizes"]:
                r = index.get((ctx, form, s))
                if r is not None and s <= max_size and r["lead"] in leads:
                    rows.append(r)
    return rows


def lead_rows(table, kind, sizes=(9,)):
    return [r for r in table["rows"] if r["lead"] == kind and r["size"] in sizes]


# --------------------------------------------------------------------------- the in-process driver

class Driver:
    def __init__(self):
        self.bin = build_harness("litdrv")

    def run(self, jobs, workdir, timeout=900):
        workdir = Path(workdir)
        workdir.mkdir(parents=True, exist_ok=True)
        jp = workdir / f"jobs-{len(list(workdir.glob('jobs-*.json')))}.json"
        jp.write_text(json.dumps(jobs))
        r = run([self.bin, "-jobs", jp], timeout=timeout, env=base_env())
        if r.returncode != 0 or r.timed_out:
            raise Inconclusive(f"litdrv failed: rc={r.returncode} {r.stderr[-1500:]}")
        res = [json.loads(l) for l in r.stdout.splitlines() if l.strip()]
        if len(res) != len(jobs):
            raise Inconclusive("litdrv: reply count mismatch")
        return res


def read_draw_log(path):
    out = {}
    for line in Path(path).read_text().splitlines():
        if line.strip():
            o = json.loads(line)
            out[o["i"]] = o["draws"]
    return out


def decl_gains(cells, decls_path):
    """cell index -> function literals gained by the cell's declarations (what the real Obfuscate rewrote)."""
    decls = json.loads(Path(decls_path).read_text())
    starts = [c.lines[0] for c in cells]
    gain = {}
    for line, before, after in decls:
        i = bisect.bisect_right(starts, line) - 1
        if i >= 0 and line < cells[i].lines[1]:
            gain[i] = gain.get(i, 0) + (after - before)
    return gain


def table_binding(chk, table, drv, rng, work):
    """B3: every row of the decision table against the real literals.Obfuscate (in process).
    Returns (rows checked, list of drifting rows).  Drift is model mismatch, not a verdict."""
    rows = sorted(table["rows"], key=lambda r: (r["ctx"], r["form"], r["size"]))
    cells = make_cells(rows, rng, content="any")
    src = gen_file("main", cells, rng, tag="t")
    work = Path(work)
    work.mkdir(parents=True, exist_ok=True)
    (work / "table.go").write_text(src)
    res = drv.run([{"src": str(work / "table.go"), "out": str(work / "table_obf.go"), "decls": str(work / "table_decls.json"),
                    "plain": True, "xvars": [f"x{c.id}" for c in cells if c.ctx == "xvar_decl"],
                    "script": {"seed": rng.randrange(1 << 31)}}], work)
    if not res[0]["ok"]:
        raise Inconclusive(f"litdrv could not process the table file: {res[0].get('error')}")
    gain = decl_gains(cells, work / "table_decls.json")
    drift = []
    for i, c in enumerate(cells):
        real = gain.get(i, 0) > 0
        if real != c.row["rewritten"]:
            drift.append({"ctx": c.ctx, "form": c.form, "size": c.size, "table": c.row["rewritten"], "real": real})
    return len(cells), drift


BOUNDARY_PROFILES = [
    # every Intn/Perm draw 0 (first operator XOR, position 0 every time: each swap pair hits one byte twice,
    # one-byte chunks, first key, shift 0), keys and seeds 0, every Try succeeds
    {"*/Intn": "0", "*/Perm": "0", "*/Uint32": "0", "*/Read": "0", "*/Float32": "1", "*/Shuffle": "1", "*/Uint64": "0"},
    # every draw 1: operator ADD, byte values 255, Try fails
    {"*/Intn": "1", "*/Perm": "1", "*/Uint32": "255", "*/Read": "255", "*/Float32": "0", "*/Shuffle": "4294967295",
     "*/Uint64": "18446744073709551615"},
    # every draw 2: operator SUB, byte values 128, Try succeeds
    {"*/Intn": "2", "*/Perm": "2", "*/Uint32": "128", "*/Read": "128", "*/Float32": "1", "*/Shuffle": "1",
     "*/Uint64": "9259542123273814144"},
    # large draws: reduced modulo n by Int31n, i.e. a different value at every choice point
    {"*/Intn": "1000003", "*/Perm": "7", "*/Uint32": "77", "*/Read": "1", "*/Float32": "1", "*/Uint64": "72623859790382856"},
]


class DriverModule:
    """A Go module made of packages produced by driver jobs (one job = one file = one package), built twice:
    as generated (reference) and as printed by the real literals.Obfuscate."""

    def __init__(self, root, drv):
        self.root = Path(root)
        self.drv = drv
        self.pkgs = []      # (name, cells, job, meta)
        for d in ("orig", "obf"):
            (self.root / d).mkdir(parents=True, exist_ok=True)

    def add(self, name, cells, rng, script, meta=None, log=False):
        src = gen_file(name, cells, rng, tag=name, main=False)
        for d in ("orig", "obf"):
            (self.root / d / name).mkdir(exist_ok=True)
        (self.root / "orig" / name / "p.go").write_text(src)
        job = {"src": str(self.root / "orig" / name / "p.go"), "out": str(self.root / "obf" / name / "p.go"),
               "decls": str(self.root / f"{name}.decls.json"),
               "xvars": [f"x{c.id}" for c in cells if c.ctx == "xvar_decl"], "script": script}
        if log:
            job["log"] = str(self.root / f"{name}.log.ndjson")
        self.pkgs.append((name, cells, job, meta or {}))

    def obfuscate(self):
        res = self.drv.run([p[2] for p in self.pkgs], self.root)
        self.results = res
        return res

    def build_and_run(self, sb):
        """Returns {variant: (build Result, {(tag,id): bytes}, run Result)} for variants orig and obf."""
        mod = "example.com/litdrv"
        main = "package main\n\nimport (\n" + "".join(f'\t"{mod}/{n}"\n' for n, _, _, _ in self.pkgs) + ")\n\nfunc main() {\n" + \
               "".join(f"\t{n}.Run()\n" for n, _, _, _ in self.pkgs) + "}\n"
        out = {}

        def one(variant):
            d = self.root / variant
            (d / "go.mod").write_text(f"module {mod}\n\ngo 1.26\n")
            (d / "main.go").write_text(main)
            b = sb.go(["build", "-o", str(self.root / (variant + ".bin")), "."], cwd=d, timeout=1500)
            if b.returncode != 0:
                out[variant] = (b, {}, None)
                return
            r = run([self.root / (variant + ".bin")], timeout=300)
            out[variant] = (b, parse_emitted(r.stderr), r)

        ts = [threading.Thread(target=one, args=(v,)) for v in ("orig", "obf")]
        for t in ts:
            t.start()
        for t in ts:
            t.join()
        return out


def vector_cells(vecs, rng, start_id=0):
    """One literal per TLC choice vector: the form follows the vector's layer, the content is random
    (the model's draws do not depend on the content, only on the length)."""
    cells = []
    for i, v in enumerate(vecs):
        form = {"string": "string", "bytes": rng.choice(["byte_slice", "ptr_byte_slice"]),
                "array": rng.choice(["byte_array", "ptr_byte_array"])}[v["layer"]]
        n = v["n"]
        row = {"ctx": "var_init", "form": form, "size": n, "rewritten": True, "musthide": True, "constreq": False,
               "prune": "none", "lead": "none", "obfs": OBF_NAMES}
        cells.append(Cell(start_id + i, row, rand_bytes(rng, n, "any")))
    return cells


# --------------------------------------------------------------------------- whole-tool builds

FORCED = {"p0": 0, "p1": 1, "p2": 2, "p3": 3, "p4": 4}      # package name -> index into literals.Obfuscators
OBF_MAP_ENV = ",".join(f"{k}={v}" for k, v in FORCED.items())
MODULE = "example.com/litprog"


class Program:
    """A generated module: packages p0..p4 (one obfuscator forced in each), p5 and main (default random choice).

    kind "forced": p0..p4 carry the size sweep (every form in a var initialiser at every boundary size the forced
    obfuscator may meet) and a random share of the (context, form) pairs; p5 carries every pair once.
    kind "default": only p5 and main (used for the -seed configurations, where the random choice is what varies)."""

    def __init__(self, root, table, rng, tier, kind="forced"):
        self.root = Path(root)
        self.table = table
        self.cells = []          # all cells of all packages
        self.xflags = []
        self.pkgs = (list(FORCED) if kind == "forced" else []) + ["p5", "main"]
        index = table_index(table)
        pairs = [p for p in table_pairs(table)]
        files = {}
        next_id = 0
        quick = tier == "quick"
        for pkg in self.pkgs:
            forced = FORCED.get(pkg)
            rows = []

            def add(ctx, form, size):
                r = size_class_row(index, ctx, form, size)
                if r is not None and r["lead"] != "const-break":
                    rows.append(r)

            if forced is not None:
                # the expensive obfuscators are never chosen above MaxSizeExpensive by the real code; forcing
                # them on 2 KiB literals would only measure compile time
                sweep = [7, 8, 9, 255, 256] + ([257, 2048, 2049] if forced < 2 else [])
                if quick:
                    sweep = [7, 8, rng.randint(9, 40), rng.choice([255, 256])] + ([rng.choice([257, 2048]), 2049] if forced < 2 else [])
                for form in table["forms"]:
                    for sz in sweep:
                        add("var_init", form, sz)
                share = rng.sample(pairs, len(pairs) // (6 if quick else 2))
                for ctx, form in share:
                    add(ctx, form, rng.randint(8, 40))
            elif pkg == "p5":
                for ctx, form in pairs:
                    add(ctx, form, rng.choice([8, 9]) if rng.random() < 0.2 else rng.randint(10, 48))
                sweep = table["sizes"] if not quick else [0, 1, 7, 8, 255, 256, rng.choice([257, 2048]), 2049]
                for form in table["forms"]:
                    for sz in sweep:
                        add("var_init", form, sz)
                extra = rng.sample([c for c in table["contexts"] if c != "var_init"], 1 if quick else 4)
                for ctx in extra:
                    for form in table["forms"]:
                        for sz in ([7, 8, 2048, 2049] if quick else table["sizes"]):
                            if (ctx, form, sz) in index:
                                add(ctx, form, sz)
            else:   # main
                for ctx, form in rng.sample(pairs, 12 if quick else 60):
                    add(ctx, form, rng.randint(8, 40))
                add("xvar_decl", "string", 12)
            if pkg != "main" and not any(r_.get("ctx") == "xvar_decl" for r_ in rows):
                # a -ldflags=-X target in a package other than main (its import path has dots and slashes)
                add("xvar_decl", "string", 12)
            cells = make_cells(rows, rng, start_id=next_id)
            next_id += len(cells)
            for c in cells:
                if c.ctx == "xvar_decl":
                    c.inject = b"inj-" + rand_bytes(rng, 12, "text")
                    path = "main" if pkg == "main" else f"{MODULE}/{pkg}"
                    self.xflags.append(f"-X={path}.x{c.id}={c.inject.decode()}")
            if pkg == "main":
                src = gen_file("main", cells, rng, tag="main", main=False)
                src = src.replace("func Run() {", "func runMain() {")
                others = [p for p in self.pkgs if p != "main"]
                imports = "".join(f'\t"{MODULE}/{p}"\n' for p in others)
                src = src.replace("package main\n", "package main\n\nimport (\n" + imports + ")\n", 1)
                src += "\nfunc main() {\n" + "".join(f"\t{p}.Run()\n" for p in others) + "\trunMain()\n}\n"
                files["main.go"] = src
            else:
                files[f"{pkg}/p.go"] = gen_file(pkg, cells, rng, tag=pkg, main=False)
            self.cells += cells
        write_module(self.root, files, module=MODULE)
        self.ldflags = "-ldflags=" + " ".join(self.xflags)

    def by_key(self):
        return {(c.pkg, c.id): c for c in self.cells}


class Built:
    def __init__(self, name, build, binary, out, runres, flags, env, seed_bytes=None):
        self.name, self.build, self.binary, self.out, self.runres = name, build, binary, out, runres
        self.flags, self.env, self.seed_bytes = flags, env, seed_bytes
        self._bytes = None
        self.reused = False

    @property
    def ok(self):
        return self.build.returncode == 0

    def bytes(self):
        if self._bytes is None:
            self._bytes = Path(self.binary).read_bytes()
        return self._bytes


LITCACHE = CACHE / "litbuilds"
LITCACHE_KEEP = 16


def _cache_key(garble, prog, flags, env):
    h = hashlib.sha256()
    h.update(b"litbuilds-v1\0")
    h.update(sha256_file(garble).encode())
    h.update(json.dumps([flags, prog.ldflags, sorted(env.items())]).encode())
    for rel, (kind, digest) in sorted(tree_digest(prog.root).items()):
        h.update(f"{rel}\0{kind}\0{digest}\n".encode())
    return h.hexdigest()[:32]


def _cache_load(key, root, name):
    d = LITCACHE / key
    if os.environ.get("VERIF_NO_LITCACHE") or not (d / "ok").exists():
        return None
    try:
        meta = json.loads((d / "meta.json").read_text())
        out = {}
        for which in ("ref", "garbled"):
            m = meta[which]
            binp = Path(root) / f"{name}.{which}"
            if m["rc"] == 0:
                shutil.copyfile(d / which, binp)
            out[which] = (Result(m["rc"], "", m["stderr"], m["wall"]), binp, m["run_rc"], m["run_stderr"])
        os.utime(d / "ok")
        return out
    except (OSError, ValueError, KeyError):
        return None


def _cache_store(key, ref, g):
    if os.environ.get("VERIF_NO_LITCACHE"):
        return
    try:
        LITCACHE.mkdir(parents=True, exist_ok=True)
        tmp = Path(tempfile.mkdtemp(prefix="tmp-", dir=LITCACHE))
        meta = {}
        for which, b in (("ref", ref), ("garbled", g)):
            if b.ok:
                shutil.copyfile(b.binary, tmp / which)
            meta[which] = {"rc": b.build.returncode, "stderr": b.build.stderr[-20000:], "wall": b.build.wall,
                           "run_rc": None if b.runres is None else b.runres.returncode,
                           "run_stderr": "" if b.runres is None else b.runres.stderr}
        (tmp / "meta.json").write_text(json.dumps(meta))
        (tmp / "ok").write_text("ok\n")
        dst = LITCACHE / key
        if dst.exists():
            rmtree(tmp)
        else:
            os.rename(tmp, dst)
        entries = sorted((p for p in LITCACHE.iterdir() if p.is_dir() and (p / "ok").exists()), key=lambda p: (p / "ok").stat().st_mtime)
        for old in entries[:-LITCACHE_KEEP]:
            rmtree(old)
    except OSError as e:
        log("litbuilds cache not written:", e)


def whole_tool(chk, tier, table, root, nseeds, rng):
    """Builds generated programs with the regular toolchain and with garble -literals.
    Returns (sandbox, [(Program, reference Built, garbled Built)]).

    The two checks that use these builds (C05: printed values, C09: bytes of the binary) derive the same programs
    and -seed values from the same check seed, so finished builds are kept in /verif/.cache/litbuilds keyed by the
    sha256 of the garble binary (which changes with every edit of the repository under check), the complete
    generated module, the flags and the environment; VERIF_NO_LITCACHE=1 switches this off."""
    garble = build_garble("verif,garble_testing")
    root = Path(root)
    sb = Sandbox(root / "sb", template=True, garble_bin=garble)
    runs = []
    configs = [("forced+default", [], None)]
    for i in range(nseeds):
        sd = bytes(rng.randrange(256) for _ in range(16))
        configs.append((f"seed{i}", ["-seed=" + base64.b64encode(sd).decode().rstrip("=")], sd))
    for name, flags, seed_bytes in configs:
        prog = Program(root / f"prog-{name}", table, rng, tier, kind="forced" if seed_bytes is None else "default")
        env = {"GARBLE_TEST_LITERALS_OBFUSCATOR_MAP": OBF_MAP_ENV}
        refbin, gbin = root / f"{name}.ref", root / f"{name}.garbled"
        key = _cache_key(garble, prog, flags, env)
        hit = _cache_load(key, root, name)
        if hit is not None:
            (rb, _, rrc, rerr), (gb, _, grc, gerr) = hit["ref"], hit["garbled"]
            rr = Result(rrc, "", rerr, 0.0)
            ref = Built(name, rb, refbin, parse_emitted(rerr), rr, [], {})
            gr = None if grc is None else Result(grc, "", gerr, 0.0)
            g = Built(name, gb, gbin, parse_emitted(gerr) if gr else {}, gr, flags + ["-literals"], env, seed_bytes)
            g.reused = True
            log(f"whole-tool {name}: {len(prog.cells)} cells, builds reused from {LITCACHE / key}")
            runs.append((prog, ref, g))
            continue
        rb = sb.go(["build", "-o", str(refbin), prog.ldflags, "."], cwd=prog.root, timeout=1800)
        if rb.returncode != 0:
            raise Inconclusive(f"the regular toolchain cannot build the generated program {name}:\n{rb.stderr[-3000:]}")
        rr = run([refbin], timeout=300)
        ref = Built(name, rb, refbin, parse_emitted(rr.stderr), rr, [], {})
        gb = sb.garble(flags + ["-literals", "build", "-o", str(gbin), prog.ldflags, "."], cwd=prog.root, env=env, timeout=3600)
        if gb.timed_out:
            raise Inconclusive(f"garble build {name} timed out")
        gout, gr = {}, None
        if gb.returncode == 0:
            gr = run([gbin], timeout=300)
            gout = parse_emitted(gr.stderr)
        g = Built(name, gb, gbin, gout, gr, flags + ["-literals"], env, seed_bytes)
        log(f"whole-tool {name}: {len(prog.cells)} cells, regular {rb.wall:.0f}s, garble {gb.wall:.0f}s rc={gb.returncode} (cache key {key})")
        _cache_store(key, ref, g)
        runs.append((prog, ref, g))
    return sb, runs


def lead_programs(chk, table, sb, root, rng, kind="const-break"):
    """One tiny main package per lead cell; returns [(cell, regular build Result, garble build Result)]."""
    garble = build_garble("verif,garble_testing")
    out = []
    for i, row in enumerate(lead_rows(table, kind)):
        cells = make_cells([row], rng, start_id=0)
        d = Path(root) / f"lead-{kind}-{i}"
        write_module(d, {"main.go": gen_file("main", cells, rng, tag="lead")}, module="example.com/lead")
        rb = sb.go(["build", "-o", str(d / "ref.bin"), "."], cwd=d)
        gb = sb.garble(["-literals", "build", "-o", str(d / "g.bin"), "."], cwd=d,
                       env={"GARBLE_TEST_LITERALS_OBFUSCATOR_MAP": OBF_MAP_ENV}, garble_bin=garble)
        out.append((cells[0], d, rb, gb))
    return out
