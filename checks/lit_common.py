"""Shared machinery of the literal-obfuscation checks C05 and C09.

* models():        runs TLC on spec/Literals.tla (decision table + exhaustive Z_4 round-trip configs
                   + simulation at the code's real constants that prints complete choice vectors)
* CellGen:         turns rows of the decision table into Go source (one cell = one context x form x size,
                   with its own random content) and knows what every cell must print
* Driver:          the in-process driver harness/cmd/litdrv (real literals.Obfuscate, scripted math/rand)
* whole_tool():    garble -literals builds (obfuscators forced per package through
                   GARBLE_TEST_LITERALS_OBFUSCATOR_MAP, default random choice, several -seed values)

Verdicts are produced by the checks (c05.py: printed values / compilation, c09.py: bytes of the binary);
this module only produces observations.
"""
import base64
import bisect
import json
import os
import re
import sys
import threading
import time
from pathlib import Path

sys.path.insert(0, str(Path(__file__).resolve().parent.parent))
from vf.core import *  # noqa

OBF_NAMES = ["simple", "swap", "split", "shuffle", "seed"]
STRING_FORMS = ("string", "typed_string", "concat")
ARRAY_FORMS = ("byte_array", "ptr_byte_array")

QUICK_CFGS = ["Literals-quick-a.cfg", "Literals-quick-b.cfg", "Literals-quick-b2.cfg", "Literals-quick-c.cfg",
              "Literals-quick-d.cfg", "Literals-quick-d2.cfg"]
THOROUGH_CFGS = ["Literals-thorough-a.cfg", "Literals-thorough-b.cfg", "Literals-thorough-b2.cfg",
                 "Literals-thorough-c.cfg", "Literals-thorough-d.cfg", "Literals-thorough-d2.cfg"]


# --------------------------------------------------------------------------- models

def _jvm(work):
    tmp = Path(work) / "jtmp"
    tmp.mkdir(parents=True, exist_ok=True)
    return ("-Djava.io.tmpdir=" + str(tmp),)


def load_table(chk):
    """Constant-level TLC run: evaluates Part A of the spec, checks its ASSUMEs, exports the table."""
    work = mkscratch("lit-tlc-table")
    r = tlc_must_pass("Literals", "Literals-table.cfg", workdir=work, workers=1, timeout=600, jvm=_jvm(work))
    chk.add_tlc(r)
    table = json.loads((work / "literals_table.json").read_text())
    if not table.get("rows"):
        raise Inconclusive("Literals.tla exported an empty decision table")
    return table


class ModelRuns:
    """Runs the exhaustive configs in background threads (they only need CPU) while the check builds."""

    def __init__(self, chk, tier, workers=3):
        self.chk, self.tier = chk, tier
        self.cfgs = QUICK_CFGS if tier == "quick" else THOROUGH_CFGS
        self.results, self.errors, self.threads = {}, [], []
        for cfg in self.cfgs:
            t = threading.Thread(target=self._one, args=(cfg, workers), daemon=True)
            t.start()
            self.threads.append(t)

    def _one(self, cfg, workers):
        try:
            work = mkscratch("lit-tlc-" + cfg.replace(".cfg", ""))
            self.results[cfg] = tlc("Literals", cfg, workdir=work, workers=workers, timeout=2400, jvm=_jvm(work))
            rmtree(work)
        except BaseException as e:  # reported by join()
            self.errors.append((cfg, e))

    def join(self):
        for t in self.threads:
            t.join()
        if self.errors:
            raise Inconclusive(f"TLC failed on {self.errors[0][0]}: {self.errors[0][1]}")
        summary = {}
        for cfg in self.cfgs:
            r = self.results[cfg]
            if not r.ok:
                # a violated invariant of the model is a lead about the MODEL (the transcription says the code
                # is wrong); the real code is exercised separately, so this is reported and is not a verdict
                raise Inconclusive(f"TLC {cfg} did not pass: violated={r.violated} error={r.error}\n{r.out[-2500:]}")
            self.chk.add_tlc(r)
            summary[cfg] = {"distinct": r.distinct, "generated": r.states, "depth": r.depth, "wall_s": round(r.wall, 1)}
        return summary


def replay_vectors(chk, num, seed):
    """TLC simulation of Literals.tla at the code's real constants; returns the printed choice vectors."""
    work = mkscratch("lit-tlc-replay")
    workers = 4
    r = tlc("Literals", "Literals-replay.cfg", workdir=work, workers=workers, timeout=1500, jvm=_jvm(work),
            simulate=f"num={max(1, (num + workers - 1) // workers)}", depth=4000, seed=seed)
    if r.violated or r.error:
        raise Inconclusive(f"TLC Literals-replay.cfg: violated={r.violated} error={r.error}\n{r.out[-2500:]}")
    m = re.search(r"The number of states generated: (\d+)", r.out)
    if m:
        chk.transitions += int(m.group(1))
        chk.states += int(m.group(1))
    vecs, seen = [], set()
    for line in r.out.splitlines():
        if not line.startswith('<<"VEC", "'):
            continue
        body = line[len('<<"VEC", '):-2]
        try:
            v = json.loads(json.loads(body))
        except ValueError:
            continue
        key = json.dumps(v, sort_keys=True)
        if key not in seen:
            seen.add(key)
            vecs.append(v)
    rmtree(work)
    if not vecs:
        raise Inconclusive("TLC simulation printed no choice vector:\n" + r.out[-1500:])
    if not all(v["ok"] for v in vecs):
        raise Inconclusive("model: a simulated behaviour does not round-trip (RoundTrip should have failed)")
    return vecs


# --------------------------------------------------------------------------- scripts for the driver

def shuffle_u32(j, n):
    """The Uint32 value that makes math/rand's int31n(n) return j (Lemire's multiply-shift)."""
    v = (j * (1 << 32) + n - 1) // n
    for _ in range(4):
        prod = v * n
        low = prod & 0xffffffff
        if (prod >> 32) != j:
            break
        if low >= n or low >= ((1 << 32) - n) % n:
            return v
        v += 1
    raise Inconclusive(f"no Uint32 gives int31n({n}) = {j}")


def vector_to_script(vec, rng):
    """Model log (<<choice point, value>>...) -> per-choice-point queues in the driver's semantic units."""
    queues = {}
    prev_read = None
    for site, val in vec["log"]:
        q = queues.setdefault(site, [])
        method = site.rsplit("/", 1)[1]
        if method != "Read" and prev_read is not None:
            # one Read call = one run of Read entries: the driver takes seven bytes per 63-bit value
            pq = queues[prev_read]
            while len(pq) % 7:
                pq.append(0)
            prev_read = None
        if method == "Read":
            if prev_read not in (None, site):
                pq = queues[prev_read]
                while len(pq) % 7:
                    pq.append(0)
            prev_read = site
            q.append(int(val))
        elif method == "Shuffle":
            q.append(shuffle_u32(int(val[0]), int(val[1])))
        elif method == "Uint64":
            digits = list(val) + [rng.randrange(256) for _ in range(8 - len(val))]   # masked off by `& r.max`
            q.append(sum(d << (8 * i) for i, d in enumerate(digits)))
        else:
            q.append(int(val))
    return {k: [str(x) for x in v] for k, v in queues.items()}


def log_projection(draws, sites):
    """Project a driver draw log (list of [site, via, method, scripted, val]) onto the model's choice points."""
    out = []
    for site, via, method, scripted, val in draws:
        k1, k2 = f"{site}<{via}/{method}", f"{site}/{method}"
        key = k1 if k1 in sites else (k2 if k2 in sites else None)
        if key is None:
            continue
        out.append((key, scripted, val))
    return out


MODEL_SITES = {
    "pickObfuscator/Intn", "obfuscateString/Intn", "obfuscateString/Read", "randExtKeys/Intn", "randExtKey/Intn",
    "randExtKey/Uint64", "Try<extKeysToParams/Float32", "dataToByteSliceWithExtKeys/Intn",
    "randOperator<dataToByteSliceWithExtKeys/Intn", "Try<byteLitWithExtKey/Float32", "byteLitWithExtKey/Intn",
    "randOperator<byteLitWithExtKey/Intn", "simple.obfuscate/Read", "randOperator<simple.obfuscate/Intn",
    "generateSwapCount/Intn", "swap.obfuscate/Uint32", "randOperator<swap.obfuscate/Intn", "genRandIntSlice/Intn",
    "splitIntoRandomChunks/Intn", "split.obfuscate/Perm", "split.obfuscate/Uint32", "randOperator<split.obfuscate/Intn",
    "shuffleStmts/Shuffle", "shuffle.obfuscate/Read", "shuffle.obfuscate/Intn", "randOperator<shuffle.obfuscate/Intn",
    "shuffle.obfuscate/Perm", "seed.obfuscate/Uint32", "randOperator<seed.obfuscate/Intn",
}


def compare_logs(vec, draws):
    """Exact comparison of site order; values for the scripted entries.  Returns None or a description."""
    got = log_projection(draws, MODEL_SITES)
    # expand the code's Read entries into single bytes (only as many as the model has in that run)
    exp = []
    for key, scripted, val in got:
        if key.endswith("/Read"):
            for tok in val.split():
                exp.append((key, not tok.startswith("~"), tok.lstrip("~")))
        else:
            exp.append((key, bool(scripted), val))
    gi = 0
    log = vec["log"]
    i = 0
    while i < len(log):
        site, val = log[i]
        method = site.rsplit("/", 1)[1]
        if gi >= len(exp):
            return f"the code stopped drawing at model choice point #{i} {site}"
        if method == "Read":
            # model run of Read bytes at this site
            j = i
            while j < len(log) and log[j][0] == site:
                j += 1
            run = [str(v) for _, v in log[i:j]]
            padded = len(run) + (-len(run)) % 7
            chunk = exp[gi:gi + padded]
            if len(chunk) < padded or any(c[0] != site for c in chunk):
                return f"model Read of {len(run)} bytes at {site} (#{i}): the code drew {[c[0] for c in chunk][:3]}..."
            if [c[2] for c in chunk[:len(run)]] != run:
                return f"Read at {site} (#{i}): scripted bytes were not the bytes consumed"
            gi += padded
            i = j
            continue
        gsite, gscripted, gval = exp[gi]
        if gsite != site:
            return f"choice point #{i}: model {site}, code {gsite}"
        if not gscripted:
            return f"choice point #{i} {site}: the code drew here but the script was already exhausted"
        gi += 1
        i += 1
    if gi != len(exp):
        return f"the code made {len(exp) - gi} more draws at modelled choice points, first {exp[gi][0]}"
    return None


# --------------------------------------------------------------------------- Go program generation

def go_str(b: bytes) -> str:
    return '"' + "".join("\\x%02x" % c for c in b) + '"'


def go_elts(b: bytes) -> str:
    return ", ".join("0x%02x" % c for c in b)


HELPERS = '''
type MyS string

func unhex(s string) []byte {
	out := make([]byte, 0, len(s)/2)
	nib := func(c byte) byte {
		if c >= 'a' {
			return c - 'a' + 10
		}
		return c - '0'
	}
	for i := 0; i+1 < len(s); i += 2 {
		out = append(out, nib(s[i])<<4|nib(s[i+1]))
	}
	return out
}

func emit(tag string, id int, b []byte) {
	const hexd = "0123456789abcdef"
	buf := make([]byte, 0, len(b)*2)
	for _, c := range b {
		buf = append(buf, hexd[c>>4], hexd[c&15])
	}
	println(tag, id, string(buf))
}
'''


class Cell:
    __slots__ = ("id", "ctx", "form", "size", "row", "data", "inject", "lines", "pkg")

    def __init__(self, cid, row, data):
        self.id, self.row, self.data = cid, row, data
        self.ctx, self.form, self.size = row["ctx"], row["form"], row["size"]
        self.inject = None
        self.lines = (0, 0)
        self.pkg = ""

    def key(self):
        return [self.ctx, self.form, self.size]

    def expected(self):
        """What the accessor of this cell returns in a correct program."""
        if self.ctx == "case_label":
            return b"\x01"
        if self.ctx.startswith("array_len"):
            return bytes([self.size & 255, self.size >> 8])
        if self.ctx == "xvar_decl" and self.inject is not None:
            return self.inject
        return self.data

    def marker(self):
        return self.data


def _types(form, n):
    return {"string": "string", "typed_string": "MyS", "concat": "string", "byte_slice": "[]byte",
            "byte_array": f"[{n}]byte", "ptr_byte_slice": "*[]byte", "ptr_byte_array": f"*[{n}]byte",
            "uint8_slice": "[]uint8"}[form]


def _lit(form, data, rng):
    n = len(data)
    if form in ("string", "typed_string"):
        return go_str(data)
    if form == "concat":
        k = rng.randrange(0, n + 1)
        return "(" + go_str(data[:k]) + " + " + go_str(data[k:]) + ")"
    if form == "byte_slice":
        return "[]byte{" + go_elts(data) + "}"
    if form == "uint8_slice":
        return "[]uint8{" + go_elts(data) + "}"
    if form == "byte_array":
        return f"[{n}]byte{{" + go_elts(data) + "}"
    if form == "ptr_byte_slice":
        return "&[]byte{" + go_elts(data) + "}"
    if form == "ptr_byte_array":
        return f"&[{n}]byte{{" + go_elts(data) + "}"
    raise ValueError(form)


def _conv(form):
    return {"string": "[]byte(v)", "typed_string": "[]byte(v)", "concat": "[]byte(v)", "byte_slice": "v",
            "uint8_slice": "v", "byte_array": "v[:]", "ptr_byte_slice": "*v", "ptr_byte_array": "v[:]"}[form]


def cell_source(c: Cell, rng) -> str:
    """Go declarations of one cell; the accessor is func c<id>() []byte."""
    N, ctx, form, data = c.id, c.ctx, c.form, c.data
    T = _types(form, len(data))
    LIT = _lit(form, data, rng)
    TLIT = f"MyS({LIT})" if form == "typed_string" else LIT      # the literal with its type attached
    conv = _conv(form)
    decls, body, ret = "", "", f"return {conv}"
    if ctx == "var_init":
        decls, body = f"var v{N} {T} = {LIT}", f"v := v{N}"
    elif ctx == "local_define":
        body = f"v := {TLIT}"
    elif ctx == "arg":
        decls, body = f"func f{N}(x {T}) {T} {{ return x }}", f"v := f{N}({LIT})"
    elif ctx == "return":
        decls, body = f"func r{N}() {T} {{ return {LIT} }}", f"v := r{N}()"
    elif ctx == "composite_elem":
        decls, body = f"var v{N} = []{T}{{{LIT}}}", f"v := v{N}[0]"
    elif ctx == "composite_elided":
        decls, body = f"var v{N} = []{T}{{{{{go_elts(data)}}}}}", f"v := v{N}[0]"
    elif ctx == "map_key":
        decls, body = f"var v{N} = map[{T}]int{{{LIT}: 1}}", f"var v {T}\n\tfor k := range v{N} {{\n\t\tv = k\n\t}}"
    elif ctx == "map_value":
        decls, body = f"var v{N} = map[int]{T}{{1: {LIT}}}", f"v := v{N}[1]"
    elif ctx == "struct_field":
        decls, body = f"type s{N} struct{{ F {T} }}\n\nvar v{N} = s{N}{{F: {LIT}}}", f"v := v{N}.F"
    elif ctx == "struct_field_pos":
        decls, body = f"type s{N} struct{{ F {T} }}\n\nvar v{N} = s{N}{{{LIT}}}", f"v := v{N}.F"
    elif ctx == "closure":
        decls, body = f"var v{N} = func() {T} {{ return {LIT} }}", f"v := v{N}()"
    elif ctx == "generic_body":
        decls, body = f"func g{N}[P any](p P) {T} {{\n\t_ = p\n\treturn {LIT}\n}}", f"v := g{N}(0)"
    elif ctx == "generic_arg":
        decls, body = f"func g{N}[P any](p P) P {{ return p }}", f"v := g{N}[{T}]({LIT})"
    elif ctx == "init_func":
        decls, body = f"var v{N} {T}\n\nfunc init() {{ v{N} = {LIT} }}", f"v := v{N}"
    elif ctx == "iface":
        decls, body = f"var v{N} any = {TLIT}", f"v := v{N}.({T})"
    elif ctx == "binop":
        decls, body = f"func b{N}(p {T}) {T} {{ return p + {LIT} }}", f'v := b{N}("")'
    elif ctx == "case_label":
        decls = f"func w{N}(x {T}) int {{\n\tswitch x {{\n\tcase {LIT}:\n\t\treturn 1\n\t}}\n\treturn 0\n}}"
        hx = go_str(data.hex().encode())
        if form == "byte_array":
            body = f"var a {T}\n\tcopy(a[:], unhex({hx}))\n\tv := w{N}(a)"
        else:
            body = f"v := w{N}({T}(unhex({hx})))"
        ret = "return []byte{byte(v)}"
    elif ctx == "const_untyped":
        decls, body = f"const k{N} = {LIT}", f"var v {T} = k{N}"
    elif ctx == "const_typed":
        decls, body = f"const k{N} {T} = {LIT}", f"v := k{N}"
    elif ctx == "array_len_lit":
        decls, body = f"var a{N} [len({TLIT})]byte", f"v := len(a{N})"
        ret = "return []byte{byte(v & 255), byte(v >> 8)}"
    elif ctx == "array_len_uconst":
        decls, body = f"const k{N} = {TLIT}\n\nvar a{N} [len(k{N})]byte", f"v := len(a{N})"
        ret = "return []byte{byte(v & 255), byte(v >> 8)}"
    elif ctx == "array_len_tconst":
        decls, body = f"const k{N} {T} = {LIT}\n\nvar a{N} [len(k{N})]byte", f"v := len(a{N})"
        ret = "return []byte{byte(v & 255), byte(v >> 8)}"
    elif ctx == "xvar_decl":
        decls, body = f"var x{N} = {LIT}", f"v := x{N}"
    elif ctx == "nosplit_func":
        decls, body = f"//go:nosplit\nfunc n{N}() {T} {{ return {LIT} }}", f"v := n{N}()"
    else:
        raise Inconclusive(f"generator: unknown context {ctx!r} in the decision table")
    acc = f"func c{N}() []byte {{\n\t{body}\n\t{ret}\n}}"
    return (decls + "\n\n" if decls else "") + acc + "\n"


def gen_file(pkg, cells, rng, tag=None, main=True, imports=()):
    """One Go file holding the cells.  Records the line span of every cell (for the driver's decl report)."""
    tag = tag or pkg
    parts = [f"package {pkg}\n"]
    for imp in imports:
        parts.append(f'import "{imp}"\n')
    parts.append(HELPERS)
    text = "\n".join(parts)
    line = text.count("\n") + 1
    chunks = [text]
    for c in cells:
        src = f"// cell {c.id}: {c.ctx} {c.form} {c.size}\n" + cell_source(c, rng) + "\n"
        c.lines = (line, line + src.count("\n"))
        c.pkg = pkg
        line += src.count("\n")
        chunks.append(src)
    run = "func main() {\n" if main else "func Run() {\n"
    for c in cells:
        run += f'\temit("{tag}", {c.id}, c{c.id}())\n'
    run += "}\n"
    chunks.append(run)
    return "".join(chunks)


def rand_bytes(rng, n, kind="any"):
    if kind == "any":
        return bytes(rng.randrange(256) for _ in range(n))
    if kind == "allbytes":   # every byte value occurs (n >= 256), in shuffled order
        base = list(range(256)) * (n // 256) + [rng.randrange(256) for _ in range(n % 256)]
        rng.shuffle(base)
        return bytes(base)
    if kind == "text":
        al = b"ABCDEFGHIJKLMNOPQRSTUVWXYZabcdefghijklmnopqrstuvwxyz0123456789+/"
        return bytes(rng.choice(al) for _ in range(n))
    raise ValueError(kind)


def make_cells(rows, rng, start_id=0, content=None):
    cells = []
    for i, row in enumerate(rows):
        n = row["size"]
        kind = content or ("allbytes" if n >= 256 else rng.choice(["any", "any", "text"]))
        cells.append(Cell(start_id + i, row, rand_bytes(rng, n, kind)))
    return cells


def parse_emitted(text, tag=None):
    """Lines `tag id hex` printed by emit()."""
    out = {}
    for line in text.splitlines():
        f = line.split(" ")
        if len(f) == 3 and (tag is None or f[0] == tag) and f[1].isdigit():
            try:
                out[(f[0], int(f[1]))] = bytes.fromhex(f[2])
            except ValueError:
                out[(f[0], int(f[1]))] = None
        elif len(f) == 2 and (tag is None or f[0] == tag) and f[1].isdigit():
            out[(f[0], int(f[1]))] = b""
    return out
