#!/usr/bin/env python3
"""C18 - An interrupted build leaves nothing that breaks the next one.

Spec: spec/Linker.tla with Kill(p) enabled in every state (lock released, files stay, non-atomic
writes leave "partial"), up to 3 kills of 3 processes, rename and copy mode, from every
built/unbuilt/foreign-version cache state: NeverHalfWritten, StampImpliesBin, Mutex, and the
liveness property that the rerun completes (AllDone under weak fairness); spec/BuildCache.tla
covers the two-phase (data then index) cache entry writes under Kill (see C07).
Binding: B2 - crash points are TLC's Kill placements concretised: `crash@<event>#<n>` gates
SIGKILL the whole process group at a hook's linearization point (every linker sub-step, first /
middle / last compile, cache put, source write, go list, link, clean-up), plus wall-clock kills for
the instants between hooks.  After each kill the file-system projection is compared with the
spec invariant (a complete stamp vouches only for the current binary) and the same command is
rerun.  B1 - crashed build + rerun are validated as one trace against LinkerTrace.tla with the
kill as a silent step.
Oracle: the rerun exits 0 and its binary is byte-identical to the never-interrupted reference.
"""
import os
import re
import signal
import subprocess
import sys
import time

sys.path.insert(0, str(__import__("pathlib").Path(__file__).resolve().parent))
from proto_common import *  # noqa


def _pidns_ok():
    try:
        return subprocess.run(["unshare", "--pid", "--fork", "--mount-proc", "true"], capture_output=True, timeout=20).returncode == 0
    except Exception:
        return False


PIDNS = _pidns_ok()


def crash_points(tier, rng, ref_events):
    """(label, gate or None, wall-clock fraction or None, initial linker state, garble flags)"""
    counts = {}
    for e in ref_events:
        counts[e["ev"]] = counts.get(e["ev"], 0) + 1
    pts = []

    def ev(name, n, init=("none", "none"), gflags=()):
        if counts.get(name, 0) >= 1:
            n = max(1, min(n, counts[name]))
            pts.append((f"{name}#{n}", f"crash@{name}#{n}", None, init, list(gflags)))

    # every linker sub-step, from a cold and from a foreign-version cache
    ev("link-version-checked", 1, ("old", "old"))
    ev("link-build-start", 1, ("old", "old"))
    ev("link-build-done", 1, ("none", "old"))
    ev("link-renamed", 1, ("old", "old"))
    ev("link-stamp-written", 1)
    # go list / a compile in the middle / cache put / source write / link / clean-up
    ev("shared-created", 1)
    ev("compile-start", counts.get("compile-start", 2) // 2)
    ev("pkgcache-put", counts.get("pkgcache-put", 1))
    ev("asmnames-put", counts.get("asmnames-put", 1))
    ev("go-done", 1)
    # with -debugdir: the ownership marker of the target must survive the kill, or the rerun refuses the directory
    ev("compile-start", counts.get("compile-start", 2) // 2 + 1, ("cur", "cur"), ["-debugdir=DBG"])
    # killed build and rerun each in a fresh PID namespace: the rerun's processes get the PIDs the killed ones had
    # (containers, PID wrap-around): nothing left behind may be keyed by a PID
    if PIDNS:
        ev("compile-start", counts.get("compile-start", 2) // 3 + 1, ("cur", "cur"), ["PIDNS"])
    if tier == "thorough":
        ev("link-lock-acquired", 1)
        ev("link-unlock", 1, ("old", "none"))
        ev("compile-start", 1)
        ev("compile-start", counts.get("compile-start", 1))
        ev("pkgcache-put", max(1, counts.get("pkgcache-put", 1) // 2))
        ev("write-source", counts.get("write-source", 2) // 3)
        ev("shared-remove", 1)
    if tier == "thorough":
        for name in ("toolexec-start", "tool-run", "tool-done", "write-source", "compile-start", "pkgcache-get", "pkgcache-dep"):
            for _ in range(4):
                ev(name, rng.randrange(1, counts.get(name, 1) + 1), rng.choice([("none", "none"), ("old", "old"), ("cur", "cur")]),
                   rng.choice([[], ["-tiny"], ["-literals"], ["-debugdir=DBG"]]))
        for name in ("link-build-start", "link-build-done", "link-stamp-written", "debugdir-put", "debugdir-restore"):
            ev(name, 1, rng.choice([("old", "old"), ("none", "old"), ("old", "none")]), ["-debugdir=DBG"])
    nwall = 2 if tier == "quick" else 40
    for i in range(nwall):
        frac = (i + rng.random()) / nwall
        pts.append((f"wall@{frac:.3f}", None, frac, rng.choice([("none", "none"), ("old", "old")]), []))
    return pts


def main(tier, seed):
    chk = Check("C18", tier, seed)
    chk.rule = ("crash point = (hook event occurrence or wall-clock instant) x initial linker-cache state x flags; one evaluation = "
                "killed build + rerun; non-trivial = the kill really interrupted the build")
    chk.assumptions = ["kill -9 of the whole process group models the interruption; power loss (un-synced data) is out of scope",
                       "a kill in the middle of cmd/go's cross-device copy is not timed for real: the state it leaves (head of the file "
                       "present) is taken from TLC's post-kill states and concretised"]
    for cfg in ("Linker-c18-copy.cfg", "Linker-c18-rename.cfg"):
        chk.add_tlc(tlc_must_pass("Linker", cfg, timeout=900))
    # what-if: the code before the fix of F18 (go build -o straight to the cached path, which cmd/go
    # considers up to date when it carries the build ID): TLC must reject it
    rw = tlc("Linker", "Linker-c18-copy-prefix.cfg", timeout=900)
    chk.add_tlc(rw)
    chk.extra["whatif_direct_output_violates"] = rw.violated
    if rw.violated != "NeverHalfWritten":
        raise Inconclusive(f"Linker.tla what-if (direct output) no longer violates NeverHalfWritten: {rw.violated} {rw.error}")
    # B2: the file-system states TLC says a kill can leave behind (temp file + rename as the code has it,
    # and direct output as it was / as a regression would have it), each concretised and rerun below
    postkill = set()
    for cfg in ("Linker-c18-postkill.cfg", "Linker-c18-postkill-direct.cfg"):
        rp = tlc_must_pass("Linker", cfg, timeout=900)
        chk.add_tlc(rp)
        for m in re.finditer(r'<<"POSTKILL", "(\w+)", "(\w+)", "(\w+)">>', rp.out):
            postkill.add(m.groups())
    if len(postkill) < 10:
        raise Inconclusive(f"TLC exported only {len(postkill)} post-kill states")

    work = mkscratch("c18")
    garble = build_garble("verif")
    tool = make_linker_cache(work)
    ref = Reference(work / "refs", tool)

    # reference trace of an uninterrupted cold build: enumerates the crash points and gives the duration
    r0root = work / "ref-trace"
    src0 = write_proto(r0root / "src")
    sb0 = Sandbox(r0root / "sb", template=True)
    t0 = time.time()
    r0 = sb0.garble(["build", "-o", str(r0root / "prog"), "."], cwd=src0, trace=r0root / "trace.ndjson")
    duration = time.time() - t0
    if r0.returncode != 0:
        raise Inconclusive(f"uninterrupted build failed: {r0.stderr[-2000:]}")
    ref_events = read_trace(r0root / "trace.ndjson")
    rmtree(r0root / "sb")
    points = crash_points(tier, chk.rng, ref_events)
    gflag_sets = []
    for p in points:
        if p[4] not in gflag_sets:
            gflag_sets.append(p[4])
    parallel(lambda g: ref.build(0, [x for x in g if not x.startswith("-debugdir") and x != "PIDNS"]), gflag_sets, workers=3)

    lock = threading.Lock()

    def experiment(idx_pt):
        idx, (label, gate, frac, (st, bn), gflags) = idx_pt
        root = work / f"pt{idx}"
        src = write_proto(root / "src")
        sb = Sandbox(root / "sb", template=True)
        set_linker_state(sb.gcache, tool, st, bn)
        gatedir = root / "gate"
        gatedir.mkdir()
        trace = root / "trace.ndjson"
        pidns = "PIDNS" in gflags
        gflags = [g for g in gflags if g != "PIDNS"]
        gf = [g.replace("DBG", str(root / "dbg")) for g in gflags]
        cmd = [str(garble)] + gf + ["build", "-o", str(root / "prog"), "."]
        if pidns:
            # PID 1 of the namespace is a shell (signals sent to init from inside its namespace are ignored);
            # garble is started in its own session, so the gate's kill -9 of the process group takes all of it
            cmd = ["unshare", "--pid", "--fork", "--mount-proc", "--kill-child", "bash", "-c", 'setsid "$@" & wait $!', "bash"] + cmd
        env = sb.env({"GARBLE_VERIF_TRACE": str(trace), "GARBLE_VERIF_GATE_DIR": str(gatedir), "GARBLE_VERIF_ID": "crashed"})
        if gate:
            env["GARBLE_VERIF_GATE"] = gate
        p = subprocess.Popen(cmd, cwd=src, env=env, stdout=subprocess.DEVNULL, stderr=subprocess.PIPE, start_new_session=True)
        killed = False
        if frac is not None:
            try:
                p.wait(timeout=max(0.3, frac * duration))
            except subprocess.TimeoutExpired:
                try:
                    os.killpg(p.pid, signal.SIGKILL)
                    killed = True
                except ProcessLookupError:
                    pass
        try:
            _, err1 = p.communicate(timeout=1500)
        except subprocess.TimeoutExpired:
            os.killpg(p.pid, signal.SIGKILL)
            _, err1 = p.communicate()
        if gate and (gatedir / "crashed").exists():
            killed = True
        # make sure no straggler of the killed group is still writing
        try:
            os.killpg(p.pid, signal.SIGKILL)
        except (ProcessLookupError, PermissionError):
            pass
        time.sleep(0.2)
        fs_state = observe_linker_state(sb.gcache, tool)
        # rerun the same command on the same caches
        env2 = sb.env({"GARBLE_VERIF_TRACE": str(trace), "GARBLE_VERIF_ID": "rerun"})
        r2 = run(cmd, cwd=src, env=env2, timeout=1500)
        want = ref.build(0, [x for x in gflags if not x.startswith("-debugdir")])
        witness = {"point": label.split("#")[0].split("@")[0], "label": label, "init": [st, bn], "gflags": gflags, "killed": killed, "pid_namespace": pidns,
                   "fs_after_kill": list(fs_state)}
        files = {"trace.ndjson": trace, "rerun-stderr.txt": r2.stderr[-4000:], "crashed-stderr.txt": err1.decode("utf-8", "replace")[-2000:]}
        do_pipeline = False
        with lock:
            chk.case([label, st, bn, gflags], sample=witness if idx % 6 == 0 else None, nontrivial=killed)
            if r2.returncode != 0:
                chk.violation(dict(witness, kind="rerun-failed"), files, what=f"rerun after kill at {label} failed: {r2.stderr[-300:]}")
            elif sha256_file(root / "prog") != want["sha"]:
                chk.violation(dict(witness, kind="binary-differs"), files, what=f"rerun after kill at {label} produced a different binary")
            if (sb.gcache / "tool" / "old-linker-used").exists():
                chk.violation(dict(witness, kind="foreign-linker-used"), files, what=f"after kill at {label} a linker of another version was executed")
            if fs_state[0] == "cur" and fs_state[1] != "cur":
                # spec invariant StampImpliesBin evaluated on the real file system (a lead, the rerun decides)
                chk.extra.setdefault("stamp_without_bin", []).append(label)
            events = read_trace(trace)
            ok, out = validate_linker_trace(chk, events, max_kills=1, label=label)
            if not ok:
                print(f"MODEL-MISMATCH: property=C18 crash point {label}: linker events of killed build + rerun are not a behaviour of Linker.tla", flush=True)
                chk.extra.setdefault("rejected_traces", []).append(label)
            # whole process trees of the killed build and of the rerun against Pipeline.tla (kill as a harness event)
            do_pipeline = killed and not gflags and (tier == "thorough" or idx % 7 == 0)
        if do_pipeline:
            validate_pipeline(chk, events, src, sb, kills={"crashed": True}, label=f"crash-{label}", cold_gk=True, linker_init=(st, bn))
        rmtree(root)

    parallel(experiment, list(enumerate(points)), workers=6)

    # ---- replay of TLC's post-kill file-system states: a plain build on each must succeed and match
    pk = sorted(postkill)
    if tier == "quick":
        # every state with a cut-short file, plus a sample of the others
        cut = [x for x in pk if "partial" in x]
        rest = [x for x in pk if "partial" not in x]
        chk.rng.shuffle(rest)
        chk.rng.shuffle(cut)
        pk = cut[:6] + rest[:1]

    def poststate(idx_st):
        idx, (st, bn, tm) = idx_st
        root = work / f"pk{idx}"
        src = write_proto(root / "src")
        sb = Sandbox(root / "sb", template=True)
        set_linker_state(sb.gcache, tool, st, bn, tm)
        trace = root / "trace.ndjson"
        r2 = sb.garble(["build", "-o", str(root / "prog"), "."], cwd=src, trace=trace, timeout=1500)
        want = ref.build(0, [])
        witness = {"point": "post-kill-state", "stamp": st, "bin": bn, "tmp": tm}
        files = {"trace.ndjson": trace, "rerun-stderr.txt": r2.stderr[-4000:]}
        with lock:
            chk.case(["post-kill-state", st, bn, tm], sample=witness if idx % 5 == 0 else None)
            if r2.returncode != 0:
                chk.violation(dict(witness, kind="rerun-failed"), files,
                              what=f"build on the post-kill linker cache state stamp={st} link={bn} link.tmp={tm} failed: {r2.stderr[-300:]}")
            elif sha256_file(root / "prog") != want["sha"]:
                chk.violation(dict(witness, kind="binary-differs"), files, what=f"build on post-kill state {st}/{bn}/{tm} produced a different binary")
            if (sb.gcache / "tool" / "old-linker-used").exists():
                chk.violation(dict(witness, kind="foreign-linker-used"), files, what=f"post-kill state {st}/{bn}/{tm}: a linker of another version was executed")
            fs = observe_linker_state(sb.gcache, tool)
            if r2.returncode == 0 and fs != ("cur", "cur"):
                chk.violation(dict(witness, kind="cache-left-damaged", fs=list(fs)), files,
                              what=f"after a successful build on post-kill state {st}/{bn}/{tm} the linker cache is {fs}, not (cur, cur)")
        rmtree(root)

    parallel(poststate, list(enumerate(pk)), workers=6)
    chk.extra["post_kill_states_replayed"] = [list(x) for x in pk]
    chk.extra["crash_points"] = len(points)
    chk.extra["uninterrupted_build_s"] = round(duration, 1)
    if len(chk.distinct) < len(points) // 2:
        raise Inconclusive(f"only {len(chk.distinct)} of {len(points)} crash points interrupted the build")
    return chk.finish()


if __name__ == "__main__":
    main_wrapper(main)
