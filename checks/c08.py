#!/usr/bin/env python3
"""C08 - Types that reach reflection keep their original names at run time.

Specs: spec/Reflect.tla (the reflection fixpoint of reflect.go transcribed WITH its
memoisation, explored by TLC for every member visit order; plus the table of
struct-shape / layout / flow cells) and spec/Replacer.tla (the injected
_genericReplacer: documented strings.NewReplacer semantics vs a trie walk
structured like lookup()).

Binding
  B2  every call-graph shape TLC explores is generated as Go source;
      (i)  `garble verif reflect -order=list:...` runs the REAL checkFunction with
           a controlled member order; kept names / API table / number of passes
           are compared with the spec's prediction for that order (a difference
           is a MODEL-MISMATCH, never a verdict);
      (ii) the program is really built N times (Go's map order is random per
           process) and the stdout of the garbled binary is compared with the
           stdout of the `go build` binary: THIS decides.
      the layout cells are batched into one three-package module, built with
      several flag sets, stdout compared with the regular build.
  B3  `garble verif replacer` is compared on every row of the TLC table, with a
      Python reference of the documented semantics and with the real
      strings.NewReplacer (through `garble verif reversecontent`).

TLC is EXPECTED to violate OrderIndependent/Complete (Reflect-leads.cfg): that is the
lead behind finding F6; it is reproduced on the real code and reported as a
KNOWN-FINDING through a matcher on the mechanism (shape class), never by id.
"""
import json
import re
import sys
import threading
import time
from concurrent.futures import ThreadPoolExecutor
from pathlib import Path

sys.path.insert(0, str(Path(__file__).resolve().parent.parent))
sys.path.insert(0, str(Path(__file__).resolve().parent))
from vf.core import *  # noqa
from reflect_common import *  # noqa

PID = "C08"

WARM_PROGRAM = """package main

import (
	"encoding/json"
	"fmt"
	"reflect"
	"strconv"
)

type warm struct{ WarmField int }

func main() {
	b, _ := json.Marshal(warm{1})
	fmt.Println(string(b), reflect.TypeOf(warm{}).Name(), strconv.Itoa(3))
}
"""

SEED_FLAG = "-seed=QzA4IHZlcmlmIHNlZWQh"
JVM_SMALL = ("-Xmx4g", "-XX:ParallelGCThreads=4")
JVM_BIG = ("-Xmx8g", "-XX:ParallelGCThreads=6")


# --------------------------------------------------------------------------- TLC output

def parse_loss_lines(out: str) -> dict:
    """LOSS lines printed by the LossLine invariant -> {shape id: {"lost": set, "witness": hist}}"""
    res = {}
    for m in re.finditer(r'<<"LOSS", "([^"]+)", \{([^}]*)\}, (<<.*>>)>>', out):
        sid, lost, hist = m.group(1), m.group(2), m.group(3)
        types = {int(x) for x in lost.split(",") if x.strip()}
        e = res.setdefault(sid, {"lost": set(), "witness": {}})
        e["lost"] |= types
        key = ",".join(map(str, sorted(types)))
        if key not in e["witness"]:
            try:
                e["witness"][key] = json.loads(hist.replace("<<", "[").replace(">>", "]"))
            except ValueError:
                raise Inconclusive(f"cannot parse LOSS line {m.group(0)!r}")
    n_lines = len(re.findall(r'^<<"LOSS"', out, re.M))
    n_parsed = len(re.findall(r'<<"LOSS", "([^"]+)", \{([^}]*)\}, (<<.*>>)>>', out))
    if n_lines != n_parsed:
        raise Inconclusive(f"{n_lines} LOSS lines printed by TLC but {n_parsed} parsed")
    return res


def first_quiet(trace: list) -> int:
    """1-based number of the first pass without growth (= passes of the shape alone)"""
    for i, e in enumerate(trace, start=1):
        if not e["grew"]:
            return i
    raise Inconclusive("forced trace too short: no quiet pass")


# --------------------------------------------------------------------------- reporting

MAX_REPLAYS_PER_CLASS = 6
_reported = {}


def report(chk, witness: dict, files: dict, what: str):
    """chk.violation with a cap on the number of replay directories per class of witness
    (a broken tree can make hundreds of cells fail for the same reason)."""
    cls = json.dumps([witness.get(k) for k in ("kind", "shape", "cons", "tshape", "what", "family", "flags")])
    _reported[cls] = _reported.get(cls, 0) + 1
    if _reported[cls] > MAX_REPLAYS_PER_CLASS and chk.violations:
        chk.extra["violations_without_replay_dir"] = chk.extra.get("violations_without_replay_dir", 0) + 1
        return
    chk.violation(witness, files, what)


# --------------------------------------------------------------------------- shapes

class ShapeBatch:
    def __init__(self, name, shapes, rng):
        self.name = name
        self.shapes = shapes            # list of (table index, row)
        self.kind = {idx: SEED_KINDS[rng.randrange(3)] for idx, _ in shapes}
        self.src = None
        self.plain = None               # {shape idx: [lines]}

    def program(self, nonce):
        return gen_shapes_program(self.shapes, self.kind, nonce)


def run_shapes(chk, sb, batch: ShapeBatch, vulnerable: dict, n_builds: int, order_ids: list, scratch: Path, tier: str):
    """B2 for one batch: regular build, driver replays, N real garble builds."""
    src = scratch / f"{batch.name}-src"
    write_module(src, batch.program(0), module=SHAPES_MODULE)
    r = sb.go(["build", "-o", str(scratch / f"{batch.name}-plain"), "."], cwd=src)
    if r.returncode != 0:
        raise Inconclusive(f"generated shapes program does not build with go build:\n{r.stderr[-3000:]}")
    pr = run([scratch / f"{batch.name}-plain"], timeout=120)
    if pr.returncode != 0:
        raise Inconclusive(f"regular shapes binary failed: {pr.stderr[-2000:]}")
    plain = split_shape_output(pr.stdout)
    by_idx = dict(batch.shapes)
    # sanity: the regular binary shows the types the flow rules say reach reflection (never more; the hand-written
    # shapes exactly; a generated member may have a static flow that its bounded recursion does not execute)
    static_only = []
    for idx, sh in batch.shapes:
        seen = {t for t in shape_types(sh) if any(shape_type(idx, t).lower() in l.lower() for l in plain.get(idx, []))}
        if not seen <= set(sh["lfp_names"]) or (seen != set(sh["lfp_names"]) and not sh["id"].startswith("g")):
            raise Inconclusive(f"generator bug: shape {sh['id']} shows types {sorted(seen)} at run time, spec LFP says {sh['lfp_names']}")
        if seen != set(sh["lfp_names"]):
            static_only.append(sh["id"])
    if static_only:
        chk.extra.setdefault("shapes_with_static_only_flows", []).extend(static_only)

    # ---- (i) in-process driver with controlled orders
    mismatches = []
    driver_leads = {}
    agree = 0

    def one_order(j):
        order = []
        per_shape = {}
        for idx, sh in batch.shapes:
            row = sh["by_pi"][j % sh["nperms"]]
            per_shape[idx] = row
            order += [shape_func(idx, f) for f in row["order"]]
        rr = sb.garble(["verif", "reflect", "-order=list:" + ",".join(order), "."], cwd=src, timeout=600)
        return j, per_shape, rr

    with ThreadPoolExecutor(max_workers=4) as ex:
        results = list(ex.map(one_order, order_ids))
    for j, per_shape, rr in results:
        if rr.returncode != 0:
            raise Inconclusive(f"garble verif reflect failed (order {j}): {rr.stderr[-2000:]}")
        got = json.loads(rr.stdout)
        kept = set(got["kept"])
        passes = got["passes"]
        # the package stops after the first pass in which no shape grew
        tl = len(next(iter(per_shape.values()))["trace"])
        pred_passes = next((p for p in range(1, tl + 1) if not any(row["trace"][p - 1]["grew"] for row in per_shape.values())), None)
        if pred_passes is None:
            raise Inconclusive("TraceLen too small for this batch")
        if pred_passes != passes:
            mismatches.append({"batch": batch.name, "order": j, "what": "passes", "spec": pred_passes, "real": passes})
        for idx, sh in batch.shapes:
            row = per_shape[idx]
            exp = row["trace"][min(passes, tl) - 1]
            exp_names = set(exp["names"])
            real_names = {t for t in shape_types(sh) if shape_type(idx, t) in kept}
            exp_apis = {shape_func(idx, int(g)): sorted(ps) for g, ps in exp["apis"].items() if int(g) > 0 and ps}
            real_apis = {k.rsplit(".", 1)[1]: v for k, v in got["apis"].items() if k.rsplit(".", 1)[1].startswith(shape_prefix(idx) + "f")}
            chk.case(["driver", sh["id"], row["order"]],
                     sample={"shape": sh["id"], "order": row["order"], "real_names": sorted(real_names), "spec_names": sorted(exp_names), "passes": passes}
                     if (exp_names != set(sh["lfp_names"]) and len(chk.samples) < 3) else None)
            if real_names == exp_names and real_apis == exp_apis:
                agree += 1
            else:
                mismatches.append({"batch": batch.name, "order": j, "shape": sh["id"], "perm": row["order"],
                                   "spec": {"names": sorted(exp_names), "apis": exp_apis}, "real": {"names": sorted(real_names), "apis": real_apis}})
            if real_names != set(sh["lfp_names"]):
                driver_leads.setdefault(sh["id"], []).append(row["order"])

    # ---- (ii) real builds, map order random per process
    def one_build(k):
        d = scratch / f"{batch.name}-b{k}"
        write_module(d, batch.program(k + 1), module=SHAPES_MODULE)
        binp = scratch / f"{batch.name}-garbled{k}"
        rr = sb.garble(["build", "-o", str(binp), "."], cwd=d, timeout=900)
        if rr.returncode != 0:
            return k, rr, None
        return k, rr, run([binp], timeout=120)

    with ThreadPoolExecutor(max_workers=4) as ex:
        builds = list(ex.map(one_build, range(n_builds)))
    seen_loss = {}
    for k, rr, out in builds:
        if rr.returncode != 0:
            report(chk, {"kind": "shape", "shape": "build-failed", "batch": batch.name},
                          {"main.go": batch.program(k + 1)["main.go"], "stderr.txt": rr.stderr, "cmd.txt": "garble build ."},
                          what="garble fails to build the generated shapes program")
            continue
        if out.returncode != 0:
            report(chk, {"kind": "shape", "shape": "garbled-binary-crashed", "batch": batch.name},
                          {"main.go": batch.program(k + 1)["main.go"], "stderr.txt": out.stderr, "plain.stdout": pr.stdout},
                          what="garbled shapes binary exits non-zero, regular one does not")
            continue
        gout = split_shape_output(out.stdout)
        if gout.get(-1) != plain.get(-1):
            report(chk, {"kind": "shape", "shape": "unattributed-output", "batch": batch.name},
                          {"main.go": batch.program(k + 1)["main.go"], "garbled.stdout": out.stdout, "plain.stdout": pr.stdout},
                          what="garbled shapes binary prints lines that the regular one does not")
        for idx, sh in batch.shapes:
            chk.case(["build", sh["id"], k], nontrivial=(k == 0))
            pl, gl = plain.get(idx, []), gout.get(idx, [])
            if pl == gl:
                continue
            lost = lost_types(idx, sh, pl, gl)
            vul = vulnerable.get(sh["id"], set())
            cls = "second-param-discovered-late" if lost and set(lost) <= vul else "unexpected-loss"
            seen_loss.setdefault(sh["id"], []).append(k)
            report(chk, {"kind": "shape", "shape": cls, "shape_id": sh["id"], "lost": lost, "seed_api": batch.kind[idx],
                           "spec_vulnerable": sorted(vul)},
                          {"main.go": batch.program(k + 1)["main.go"], "garbled.stdout": out.stdout, "plain.stdout": pr.stdout,
                           "shape.json": json.dumps({k2: sh[k2] for k2 in ("id", "np", "calls", "lfp_names")}),
                           "cmd.txt": f"garble build . (build {k} of {n_builds}; the failure depends on Go's map iteration order, repeat the build)\n"},
                          what=f"shape {sh['id']}: types {lost} lose their names in the garbled binary "
                               f"(plain {pl!r} garbled {gl!r})")
    return {"mismatches": mismatches, "driver_leads": driver_leads, "seen_loss": seen_loss, "builds": n_builds, "agree": agree}


# --------------------------------------------------------------------------- cells

def flag_tag(fl: list) -> str:
    return "default" if not fl else fl[0].split("=")[0].lstrip("-")


def judge_cells(chk, flags: list, cells: list, src: Path, plain: dict, rr, binp: Path):
    """Compare the garbled cells binary with the regular one, cell by cell."""
    tag = flag_tag(flags)
    if rr.returncode != 0:
        report(chk, {"kind": "cell", "cons": "-", "tshape": "-", "what": "build-failed", "flags": tag},
                      {"src": src, "stderr.txt": rr.stderr, "cmd.txt": f"garble {' '.join(flags)} build ."},
                      what=f"garble {' '.join(flags)} fails to build the layout cells program")
        return -1
    out = run([binp], timeout=300)
    if out.returncode != 0:
        report(chk, {"kind": "cell", "cons": "-", "tshape": "-", "what": "crashed", "flags": tag},
                      {"src": src, "stderr.txt": out.stderr}, what="garbled cells binary exits non-zero")
        return -1
    got = split_cell_output(out.stdout)
    bad = 0
    for n, c in enumerate(cells, start=1):
        chk.case(["cell", tag] + [c[k] for k in ("decl", "site", "via", "cons", "tshape", "api")],
                 sample={"cell": {k: c[k] for k in ("decl", "site", "via", "cons", "tshape", "api")}, "flags": tag, "stdout": got.get(n)}
                 if n == 150 else None)
        if got.get(n) == plain.get(n):
            continue
        bad += 1
        exp_names = cell_names_in(plain.get(n, ""))
        missing = exp_names - cell_names_in(got.get(n, ""))
        if missing and c["tshape"] == "generic" and missing <= cell_typearg_names(n):
            lc = "typearg"
        elif missing and missing == exp_names:
            lc = "all"
        else:
            lc = "partial"
        w = {"kind": "cell", "flags": tag, "lost_class": lc}
        w.update({k: c[k] for k in ("decl", "site", "via", "cons", "tshape", "api")})
        report(chk, w, {"src": src, "plain.txt": plain.get(n, ""), "garbled.txt": got.get(n, ""), "cell.json": json.dumps(c),
                          "cmd.txt": f"garble {' '.join(flags)} build -o prog . && ./prog | grep c{n:03d}"},
                      what=f"cell {n} {w}: reflection output differs: plain {plain.get(n)!r} garbled {got.get(n)!r}")
    if got.get(-1, "") != plain.get(-1, ""):
        report(chk, {"kind": "cell", "cons": "-", "tshape": "-", "what": "unattributed-output", "flags": tag},
                      {"garbled.stdout": out.stdout}, what="garbled cells binary prints unexpected lines")
    return bad


# --------------------------------------------------------------------------- replacer

def ask(garble, sub, reqs):
    payload = "".join(json.dumps(r) + "\n" for r in reqs)
    res = run([garble, "verif", sub], stdin=payload, timeout=1200, env=base_env())
    if res.returncode != 0:
        raise Inconclusive(f"garble verif {sub} failed: {res.stderr[-1000:]}")
    outs = [json.loads(l) for l in res.stdout.splitlines()]
    if len(outs) != len(reqs):
        raise Inconclusive(f"garble verif {sub}: {len(outs)} replies for {len(reqs)} requests")
    return outs


def run_replacer(chk, garble, table: dict, n_random: int, label: str):
    reqs, expect = [], []
    for row in table["rows"]:
        for v, vals in enumerate(table["values"]):
            pairs = []
            for i, k in enumerate(row["keys"]):
                pairs += [k, vals[i]]
            for x, inp in enumerate(table["inputs"]):
                reqs.append({"pairs": pairs, "input": inp})
                expect.append(row["outs"][v][x])
    n_table = len(reqs)
    rng = chk.rng
    for _ in range(n_random):
        pairs, s = gen_realistic_case(rng, rng.randint(1, 12))
        reqs.append({"pairs": pairs, "input": s})
        expect.append(None)
    real = ask(garble, "replacer", reqs)
    std = ask(garble, "reversecontent", reqs)
    spec_bugs = 0
    bad = 0
    for i, (rq, exp) in enumerate(zip(reqs, expect)):
        fam = "table" if i < n_table else "realistic"
        ref = reference_replace(rq["pairs"], rq["input"])
        stdout = std[i].get("out")
        if stdout != ref:
            raise Inconclusive(f"Python reference of strings.NewReplacer disagrees with the real one on {rq}: {ref!r} vs {stdout!r}")
        if exp is not None and exp != ref:
            spec_bugs += 1
            if spec_bugs <= 3:
                print(f"MODEL-MISMATCH: property={PID} Replacer.tla row {rq} says {exp!r}, strings.NewReplacer gives {ref!r}", flush=True)
        got = real[i].get("out")
        chk.case(["replacer", fam, len(rq["pairs"]) // 2, len(rq["input"])] if fam == "realistic" else ["replacer", label, i],
                 sample={"pairs": rq["pairs"], "input": rq["input"], "out": got} if i in (n_table // 2, n_table + 1) else None)
        if got != ref:
            bad += 1
            if bad <= 5:
                report(chk, {"kind": "replacer", "family": fam},
                              {"request.json": json.dumps(rq), "real.json": json.dumps(real[i]), "expected.txt": ref,
                               "cmd.txt": "garble verif replacer < request.json"},
                              what=f"injected replacer gives {got!r}, strings.NewReplacer gives {ref!r} for {rq}")
    chk.extra["replacer_table_rows_" + label] = n_table
    chk.extra["replacer_random_cases_" + label] = n_random
    chk.extra["replacer_mismatches_" + label] = bad
    if spec_bugs:
        raise Inconclusive(f"{spec_bugs} rows of the Replacer.tla table disagree with strings.NewReplacer: fix the spec")


# --------------------------------------------------------------------------- main

def main(tier, seed):
    chk = Check(PID, tier, seed)
    quick = tier == "quick"
    t_start = time.time()

    def phase(msg):
        log(f"[{time.time() - t_start:6.1f}s] {msg}")
    chk.rule = ("real executions: one per (shape, driver order), per (shape, real build), per (cell, flag set), per replacer row; "
                "distinct = distinct (shape, order) / shape / cell x flags / table row")
    chk.assumptions = [
        "generated programs only contain flows the property names: helper calls with `any` parameters, interfaces, pointers, "
        "slices/arrays/maps, variadic arguments, a struct field filled from a parameter; closures, channels, globals, "
        "values stored into fields at the call site and function results are not generated",
        "type names are compared without package qualifiers (garble obfuscates import paths by design)",
        "the in-process driver re-implements only the member loop and the pass loop of recordReflection (verif_on.go); "
        "real builds, not the driver, decide",
        "a name lost in a real build is attributed to F6 only if TLC's exploration of that shape loses the same type for "
        "some visit order, and TLC checked that every loss in the model follows a late growth of a function's reflected-param set",
    ]
    garble = build_garble("verif")
    scratch = mkscratch("c08")

    # ---- sandboxes and background warm-up of the obfuscated std per flag set
    flag_sets = [[]] if quick else [[], ["-tiny"], [SEED_FLAG], ["-literals"]]
    gcache = scratch / "garblecache"
    sbs = {}
    for fl in flag_sets:
        tag = flag_tag(fl)
        sbs[tag] = Sandbox(scratch / f"sb_{tag}", template=True, gcache=gcache)
    warm = scratch / "warm"
    write_module(warm, {"main.go": WARM_PROGRAM}, module="example.com/c08warm")
    warm_res = {}

    def warm_up(tag, fl):
        warm_res[tag] = sbs[tag].garble(fl + ["build", "-o", str(scratch / f"warm_{tag}"), "."], cwd=warm, timeout=1800)

    # the default sandbox goes first so that the patched linker is built once
    t_def = threading.Thread(target=warm_up, args=("default", []))
    t_def.start()

    # ---- TLC
    tlc_jobs = {}

    def tlc_job(name, fn):
        def runit():
            try:
                tlc_jobs[name] = fn()
            except BaseException as e:  # re-raised in the main thread
                tlc_jobs[name] = e
        th = threading.Thread(target=runit)
        th.start()
        return th

    work_r = mkscratch("c08-tlc-reflect")
    work_p = mkscratch("c08-tlc-replacer")
    th_leads = tlc_job("leads", lambda: tlc("Reflect", "Reflect-leads.cfg", workers=2, timeout=900, jvm=JVM_SMALL))
    th_repl = tlc_job("replacer", lambda: tlc_must_pass("Replacer", f"Replacer-{tier}.cfg", workdir=work_p, workers=4, timeout=3000, jvm=JVM_SMALL))
    th_repl3 = None
    if not quick:
        work_p3 = mkscratch("c08-tlc-replacer3")
        th_repl3 = tlc_job("replacer3", lambda: tlc_must_pass("Replacer", "Replacer-thorough3.cfg", workdir=work_p3, workers=4, timeout=3000, jvm=JVM_SMALL))
    gen_summary = {}
    th_repair = None
    n_orders = 24 if quick else 120
    order_ids = sorted(chk.rng.sample(range(120), n_orders))      # permutation j % n! of every shape's functions
    order_cfg = "OrderIds = {" + ", ".join(map(str, order_ids)) + "}"
    if quick:
        cfg = (SPEC / "cfg" / "Reflect-quick.cfg").read_text().replace("OrderIds = {0}", order_cfg)
        r = tlc_must_pass("Reflect", "Reflect-quick.cfg", workdir=work_r, files={"Reflect-quick.cfg": cfg}, workers=4, timeout=1800, jvm=JVM_SMALL)
        chk.add_tlc(r)
        phase(f"Reflect.tla checked: {r.distinct} distinct states")
        table = json.loads((work_r / "reflect_table.json").read_text())
        loss = parse_loss_lines(r.out)
    else:
        # the hand-written shapes and the generated family (7^5 members): TLC explores every order of every
        # member; the harness replays all hand-written shapes and a sample of the family
        rf = tlc_must_pass("Reflect", "Reflect-thorough.cfg", workers=8, timeout=3000, jvm=JVM_BIG)
        chk.add_tlc(rf)
        phase(f"Reflect.tla checked on the generated family: {rf.distinct} distinct states")
        loss = parse_loss_lines(rf.out)
        # the proposed repair of F6, checked in the model over the same family (Complete, OrderIndependent)
        th_repair = tlc_job("repair", lambda: tlc("Reflect", "Reflect-repair.cfg", workers=6, timeout=3000, jvm=JVM_BIG))
        fam = [f"g{n}" for n in range(0, 7 ** 5)]
        lossy = sorted((k for k in loss if k.startswith("g")), key=lambda g: int(g[1:]))
        clean = [g for g in fam if g not in loss]
        pick = chk.rng.sample(lossy, min(36, len(lossy))) + chk.rng.sample(clean, 36)
        gen_summary = {"family": len(fam), "order_sensitive": len(lossy), "picked": len(pick)}
        cfg = (SPEC / "cfg" / "Reflect-sample.cfg").read_text()
        cfg = re.sub(r"PickGen = \{\}", "PickGen = {" + ", ".join(p[1:] for p in pick) + "}", cfg)
        cfg = re.sub(r"CellK = \d+", "CellK = 3", cfg).replace("OrderIds = {0}", order_cfg)
        rs = tlc_must_pass("Reflect", "Reflect-sample.cfg", workdir=work_r, files={"Reflect-sample.cfg": cfg}, workers=4, timeout=3000, jvm=JVM_SMALL)
        phase("table for the hand-written shapes and the sampled family members emitted")
        table = json.loads((work_r / "reflect_table.json").read_text())
    shapes = list(enumerate(table["shapes"], start=1))
    for _, sh in shapes:
        sh["by_pi"] = {row["pi"]: row for row in sh["fixed"]}
    vulnerable = {sid: e["lost"] for sid, e in loss.items()}
    chk.extra["tlc_order_sensitive_shapes"] = sorted(s["id"] for _, s in shapes if s["id"] in vulnerable)
    chk.extra["generated_family"] = gen_summary
    for _, s in shapes:
        for row in s["fixed"]:
            if any(e["grew"] for e in row["trace"][-2:]):
                raise Inconclusive(f"TraceLen too small: shape {s['id']} still grows in the last two recorded passes")

    t_def.join()
    phase("default warm-up build done")
    if warm_res["default"].returncode != 0:
        raise Inconclusive(f"warm-up garble build failed: {warm_res['default'].stderr[-2000:]}")
    warm_threads = []
    for fl in flag_sets[1:]:
        th = threading.Thread(target=warm_up, args=(flag_tag(fl), fl))
        th.start()
        warm_threads.append(th)

    # ---- B2: shapes
    sb = sbs["default"]
    bsize = 24
    batches = [ShapeBatch(f"batch{b}", shapes[i:i + bsize], chk.rng) for b, i in enumerate(range(0, len(shapes), bsize))]
    summary = {"mismatches": [], "driver_leads": {}, "seen_loss": {}, "builds": 0, "agree": 0}
    for b, batch in enumerate(batches):
        if quick:
            n_builds, oids = 12, order_ids
        elif b == 0:
            n_builds, oids = 40, order_ids
        else:
            n_builds, oids = 16, sorted(chk.rng.sample(order_ids, 30))
        res = run_shapes(chk, sb, batch, vulnerable, n_builds, oids, scratch, tier)
        phase(f"{batch.name}: {len(oids)} driver orders, {n_builds} real builds done")
        summary["mismatches"] += res["mismatches"]
        summary["driver_leads"].update(res["driver_leads"])
        summary["seen_loss"].update(res["seen_loss"])
        summary["builds"] += res["builds"]
        summary["agree"] += res["agree"]
    chk.traces_validated = summary["agree"]    # driver runs (shape x order) whose real state equals the spec state
    chk.extra["driver_model_mismatches"] = len(summary["mismatches"])
    chk.extra["driver_order_dependent_shapes"] = sorted(summary["driver_leads"])
    chk.extra["real_builds_with_loss"] = {k: len(v) for k, v in summary["seen_loss"].items()}
    chk.extra["real_builds_per_batch"] = summary["builds"]
    if summary["mismatches"]:
        print(f"MODEL-MISMATCH: property={PID} {len(summary['mismatches'])} driver runs differ from Reflect.tla's prediction, "
              f"first: {json.dumps(summary['mismatches'][0])[:600]}", flush=True)
    # leads that TLC / the driver produced but no real build reproduced (not a verdict)
    not_repro = sorted(set(summary["driver_leads"]) - set(summary["seen_loss"]))
    chk.extra["leads_not_reproduced_by_real_builds"] = not_repro
    unexpected_driver = sorted(s for s in summary["driver_leads"] if s not in vulnerable)
    if unexpected_driver:
        print(f"MODEL-MISMATCH: property={PID} driver loses names in shapes the spec calls order independent: {unexpected_driver}", flush=True)

    # ---- leads config (expected to be violated)
    th_leads.join()
    rl = tlc_jobs["leads"]
    if isinstance(rl, BaseException):
        raise rl
    chk.extra["tlc_lead"] = rl.violated or ("none" if rl.ok else f"error: {rl.error}")
    if rl.violated:
        repro = bool(summary["seen_loss"]) or bool(summary["driver_leads"])
        print(f"[verif] TLC lead: invariant {rl.violated} of Reflect.tla is violated ({rl.distinct} states); "
              f"reproduced on the real code: {repro}", file=sys.stderr, flush=True)
    elif not rl.ok:
        raise Inconclusive(f"Reflect-leads.cfg failed: {rl.error}\n{rl.out[-2000:]}")

    if th_repair is not None:
        th_repair.join()
        rr_ = tlc_jobs["repair"]
        if isinstance(rr_, BaseException):
            raise rr_
        chk.extra["repair_model_check"] = {"ok": rr_.ok, "violated": rr_.violated, "distinct_states": rr_.distinct}
        if rr_.ok:
            chk.add_tlc(rr_)
        log(f"proposed F6 repair in the model (Reflect-repair.cfg): ok={rr_.ok} violated={rr_.violated} states={rr_.distinct}")

    # ---- layout cells
    cells = table["cells"]
    csrc = scratch / "cells-src"
    write_module(csrc, gen_cells_program(cells), module=CELLS_MODULE)
    r0 = sb.go(["build", "-o", str(scratch / "cells-plain"), "."], cwd=csrc)
    if r0.returncode != 0:
        raise Inconclusive(f"generated cells program does not build with go build:\n{r0.stderr[-3000:]}")
    p0 = run([scratch / "cells-plain"], timeout=300)
    if p0.returncode != 0:
        raise Inconclusive(f"regular cells binary failed: {p0.stderr[-2000:]}")
    cplain = split_cell_output(p0.stdout)
    if sorted(k for k in cplain if k > 0) != list(range(1, len(cells) + 1)):
        raise Inconclusive("regular cells binary did not print one line per cell")
    for th in warm_threads:
        th.join()
    for tag, wr in warm_res.items():
        if wr.returncode != 0:
            raise Inconclusive(f"warm-up garble build ({tag}) failed: {wr.stderr[-2000:]}")
    cell_bad = {}

    def build_cells(fl):
        # builds of the flag sets run concurrently; the bookkeeping below is sequential (Check is not thread safe)
        tag = flag_tag(fl)
        d = scratch / f"cellssrc_{tag}"
        write_module(d, gen_cells_program(cells), module=CELLS_MODULE)
        binp = scratch / f"cellsbin_{tag}"
        return fl, d, sbs[tag].garble(fl + ["build", "-o", str(binp), "."], cwd=d, timeout=1800), binp

    with ThreadPoolExecutor(max_workers=len(flag_sets)) as ex:
        built = list(ex.map(build_cells, flag_sets))
    phase("cells built for all flag sets")
    for fl, d, rr, binp in built:
        cell_bad[flag_tag(fl)] = judge_cells(chk, fl, cells, d, cplain, rr, binp)
    chk.extra["cells"] = len(cells)
    chk.extra["cells_differing_per_flagset"] = cell_bad

    # ---- the cells whose rule only fires on a LATER pass of the fixpoint (store into an interface-typed field,
    # struct conversion), alone in a program without helper functions: in the big program the passes triggered by
    # newly found helper APIs would hide a fixpoint that stops too early
    late = [c for c in cells if c["cons"] in ("iface-field-store", "convert") and c["via"] == "direct" and c["site"] == "main" and c["decl"] == "main"]
    if quick:
        late = [next(c for c in late if c["cons"] == k) for k in ("iface-field-store", "convert") if any(c["cons"] == k for c in late)]
    for li, c in enumerate(late):
        lsrc = scratch / f"late-src-{li}"
        write_module(lsrc, gen_cells_program([c]), module=CELLS_MODULE)
        rl0 = sb.go(["build", "-o", str(scratch / f"late-plain-{li}"), "."], cwd=lsrc)
        if rl0.returncode != 0:
            raise Inconclusive(f"late-pass cell program does not build with go build:\n{rl0.stderr[-2000:]}")
        pl = run([scratch / f"late-plain-{li}"], timeout=120)
        fl = flag_sets[0]
        rlg = sbs[flag_tag(fl)].garble(fl + ["build", "-o", str(scratch / f"late-bin-{li}"), "."], cwd=lsrc, timeout=1800)
        judge_cells(chk, fl, [c], lsrc, split_cell_output(pl.stdout), rlg, scratch / f"late-bin-{li}")
    chk.extra["late_pass_cells_isolated"] = len(late)

    # ---- replacer
    th_repl.join()
    rp = tlc_jobs["replacer"]
    if isinstance(rp, BaseException):
        raise rp
    chk.add_tlc(rp)
    phase(f"Replacer.tla checked: {rp.distinct} distinct states")
    rtable = json.loads((work_p / "replacer_table.json").read_text())
    run_replacer(chk, garble, rtable, 3000 if quick else 40000, "ab")
    if th_repl3 is not None:
        th_repl3.join()
        rp3 = tlc_jobs["replacer3"]
        if isinstance(rp3, BaseException):
            raise rp3
        chk.add_tlc(rp3)
        phase(f"Replacer.tla (3 letters) checked: {rp3.distinct} distinct states")
        run_replacer(chk, garble, json.loads((work_p3 / "replacer_table.json").read_text()), 0, "abc")

    phase("replacer rows compared")
    chk.exhaustive = False   # orders of 5-function shapes are sampled in quick; the generated family is sampled in thorough
    return chk.finish()


if __name__ == "__main__":
    main_wrapper(main)
