"""Shared pieces of the protocol checks (C06, C07, C17, C18, C19): fixture programs,
linker-cache state concretiser, trace projection and validation against
Linker.tla / BuildCache.tla / Lifecycle.tla."""
import json
import re
import os
import sys
import threading
from concurrent.futures import ThreadPoolExecutor

sys.path.insert(0, str(__import__("pathlib").Path(__file__).resolve().parent.parent))
from vf.core import *  # noqa

# A three-package module: main -> mid -> leaf.  All reach reflect through fmt, with
# single-path reflection flows only (finding F6 must not pollute these checks); leaf has
# an assembly file with a go_asm.h user, so that the asm name map cache is exercised.
def proto_program(variant: int = 0, with_asm: bool = True, tag_file: bool = True) -> dict:
    files = {
        "main.go": f"""package main

import (
	"fmt"
	"os"

	"example.com/proto/mid"
)

var version = "unset-version-string"

var commit = "no-commit-recorded"

type mainRecord struct {{
	Name  string
	Count int
}}

// reaches reflection only through mid.Wrap -> leaf.Peek, and only once leaf.Peek looks at its argument
type hiddenRecord struct {{
	Alpha int
	Beta  string
}}

func main() {{
	r := mainRecord{{"main-record", {variant}}}
	fmt.Printf("%+v\\n", r)
	fmt.Println(mid.Describe(3), mid.Total(4), version, commit, extra(), mid.Wrap(hiddenRecord{{1, "b"}}))
	if len(os.Args) > 5 {{
		os.Exit(3)
	}}
}}
""",
        "extra_default.go": """//go:build !prototag

package main

func extra() string { return "default-build" }
""",
        "extra_tag.go": """//go:build prototag

package main

func extra() string { return "tagged-build" }
""",
        "mid/mid.go": """package mid

import (
	"encoding/json"

	"example.com/proto/leaf"
)

type Report struct {
	Title string
	Items []leaf.Item
}

func Describe(n int) string {
	rep := Report{Title: "report", Items: leaf.Make(n)}
	out, err := json.Marshal(rep)
	if err != nil {
		return err.Error()
	}
	return string(out)
}

func Total(n int) int { return leaf.Sum(leaf.Make(n)) + leaf.AsmAdd(n, 2) + absDiff(n, 7) }

//go:noinline
func Wrap(v any) string { return leaf.Peek(v) }

// Only rewritten when GARBLE_EXPERIMENTAL_CONTROLFLOW=1 (loop-free on purpose).
//
//garble:controlflow flatten_passes=1 junk_jumps=0 block_splits=0
func absDiff(a, b int) int {
	if a > b {
		return a - b
	}
	return b - a
}
""",
        "leaf/leaf.go": """package leaf

import "reflect"

type Item struct {
	Label string
	Value int
}

type point struct{ x, y int64 }

func Make(n int) []Item {
	items := make([]Item, 0, n)
	for i := range n {
		items = append(items, Item{Label: reflect.TypeOf(Item{}).Name(), Value: i * i})
	}
	return items
}

// Peek ignores its argument until the "body" edit of the C06 histories makes it reflect on it.
//
//go:noinline
func Peek(v any) string {
	return "-" // PEEK-BODY
}

func Sum(items []Item) int {
	s := 0
	for _, it := range items {
		s += it.Value
	}
	return s
}
""",
    }
    if with_asm:
        files["leaf/add.go"] = """package leaf

func asmAdd(p *point) int64

func AsmAdd(a, b int) int { return int(asmAdd(&point{int64(a), int64(b)})) }
"""
        files["leaf/add_amd64.s"] = """#include "textflag.h"
#include "go_asm.h"

// func asmAdd(p *point) int64
TEXT ·asmAdd(SB),NOSPLIT,$0-16
	MOVQ p+0(FP), AX
	MOVQ point_x(AX), BX
	ADDQ point_y(AX), BX
	MOVQ BX, ret+8(FP)
	RET
"""
    else:
        files["leaf/add.go"] = """package leaf

func AsmAdd(a, b int) int { return a + b }
"""
    return files


PROTO_MODULE = "example.com/proto"


def write_proto(dirp, variant=0, with_asm=True):
    write_module(dirp, proto_program(variant, with_asm), module=PROTO_MODULE)
    return dirp


def run_binary(path, args=(), timeout=30):
    r = run([path] + list(args), timeout=timeout, env={"PATH": os.environ.get("PATH", ""), "GOTRACEBACK": "none"})
    return r.returncode, r.stdout, r.stderr


class Reference:
    """Isolated cold builds, memoised per (variant, garble flags, env, go flags)."""

    def __init__(self, base: Path, linker_cache: Path | None = None):
        self.base = base
        self.memo = {}
        self.lock = threading.Lock()
        self.linker_cache = linker_cache  # a GARBLE_CACHE/tool directory to pre-seed (saves 13 s per reference)
        self.n = 0

    def build(self, variant=0, gflags=(), env=None, goflags=(), with_asm=True):
        key = json.dumps([variant, list(gflags), sorted((env or {}).items()), list(goflags), with_asm])
        with self.lock:
            if key in self.memo:
                return self.memo[key]
            self.n += 1
            n = self.n
        root = self.base / f"ref{n}"
        src = write_proto(root / "src", variant, with_asm)
        sb = Sandbox(root / "sb", template=True)
        if self.linker_cache is not None and self.linker_cache.exists():
            copytree(self.linker_cache, sb.gcache / "tool")
        out = root / "prog"
        r = sb.garble(list(gflags) + ["build"] + list(goflags) + ["-o", str(out), "."], cwd=src, env=env)
        if r.returncode != 0:
            raise Inconclusive(f"reference build failed (variant={variant} gflags={gflags} env={env} goflags={goflags}):\n{r.stderr[-3000:]}")
        rc, so, se = run_binary(out)
        res = {"sha": sha256_file(out), "rc": rc, "stdout": so, "key": key}
        rmtree(root / "sb" / "gocache")
        with self.lock:
            self.memo[key] = res
        return res


def make_linker_cache(work: Path) -> Path:
    """Build the patched linker once; returns a GARBLE_CACHE/tool directory (link, link.version, link.lock)."""
    src = work / "lc-src"
    write_module(src, {"main.go": "package main\n\nfunc main() { println(\"x\") }\n"}, module="example.com/lc")
    sb = Sandbox(work / "lc-sb", template=True)
    r = sb.garble(["build", "-o", str(work / "lc-prog"), "."], cwd=src)
    if r.returncode != 0 or not (sb.gcache / "tool" / "link").exists():
        raise Inconclusive(f"could not build the patched linker: {r.stderr[-2000:]}")
    dst = work / "linker-tool"
    copytree(sb.gcache / "tool", dst)
    osrc = work / "oldlinker-src"
    write_module(osrc, {"main.go": OLD_LINKER_SRC}, module="example.com/oldlinker")
    r = sb.go(["build", "-o", str(dst / "old-linker-standin"), "."], cwd=osrc)
    if r.returncode != 0:
        raise Inconclusive(f"could not build the old-linker stand-in: {r.stderr[-1000:]}")
    rmtree(work / "lc-sb")
    return dst


OLD_LINKER_SRC = """package main

// Stand-in for a linker built by another garble/Go version: running it is the violation.
// It must be a real object file: cmd/go refuses to overwrite a non-empty build output that is not one.
import (
	"os"
	"path/filepath"
)

func main() {
	exe, _ := os.Executable()
	f, _ := os.OpenFile(filepath.Join(filepath.Dir(exe), "old-linker-used"), os.O_CREATE|os.O_APPEND|os.O_WRONLY, 0o666)
	f.WriteString("used\\n")
	f.Close()
	os.Stderr.WriteString("OLD-LINKER-USED\\n")
	os.Exit(1)
}
"""


def set_linker_state(gcache: Path, cur_tool: Path, stamp: str, binst: str, tmpst: str = "none"):
    """Concretise the abstract <<stamp, bin, tmp>> state of Linker.tla in GARBLE_CACHE/tool.
    "partial" keeps the head of the file (what an interrupted copy leaves), so the build ID
    cmd/go looks for is still there."""
    tool = gcache / "tool"
    rmtree(tool)
    tool.mkdir(parents=True)
    link, ver = tool / "link", tool / "link.version"
    cur_link = (cur_tool / "link").read_bytes()
    cur_ver = (cur_tool / "link.version").read_bytes()
    if binst == "cur":
        link.write_bytes(cur_link)
    elif binst == "partial":
        link.write_bytes(cur_link[: len(cur_link) // 3])
    elif binst == "old":
        link.write_bytes((cur_tool / "old-linker-standin").read_bytes())
    if binst != "none":
        link.chmod(0o755)
    tmpf = tool / "link.tmp"
    if tmpst == "cur":
        tmpf.write_bytes(cur_link)
    elif tmpst == "partial":
        tmpf.write_bytes(cur_link[: len(cur_link) // 2])
    elif tmpst == "old":
        tmpf.write_bytes((cur_tool / "old-linker-standin").read_bytes())
    if tmpst != "none":
        tmpf.chmod(0o755)
    if stamp == "cur":
        ver.write_bytes(cur_ver)
    elif stamp == "partial":
        ver.write_bytes(cur_ver[: len(cur_ver) // 2])
    elif stamp == "old":
        ver.write_bytes(b"go1.0.0 some-older-patch-version\n")
    if (tool / "old-linker-used").exists():
        (tool / "old-linker-used").unlink()


def observe_linker_state(gcache: Path, cur_tool: Path):
    tool = gcache / "tool"
    link, ver = tool / "link", tool / "link.version"
    cur_link = (cur_tool / "link").read_bytes()
    cur_ver_line = (cur_tool / "link.version").read_bytes().split(b"\n")[0]

    def st(p, is_ver):
        if not p.exists():
            return "none"
        data = p.read_bytes()
        if is_ver:
            if data.split(b"\n")[0] == cur_ver_line and data.endswith(b"\n"):
                return "cur"
            return "old" if data.startswith(b"go1.0.0") else "partial"
        if len(data) == len(cur_link):
            return "cur"
        return "old" if data == (cur_tool / "old-linker-standin").read_bytes() else "partial"
    return st(ver, True), st(link, False)


# --------------------------------------------------------------------------- linker trace projection

LINK_EVENTS = {"link-lock-acquired", "link-version-checked", "link-reuse", "link-build-start", "link-build-done",
               "link-renamed", "link-stamp-written", "link-unlock"}


def linker_trace(events):
    """Project a recorded trace onto the events of LinkerTrace.tla; pids become p1..pn."""
    pids = {}
    out = []
    for ev in events:
        name = ev["ev"]
        if name in LINK_EVENTS:
            pass
        elif name in ("tool-run", "tool-done") and ev.get("tool") == "link":
            name = "link-run" if name == "tool-run" else "link-run-done"
        else:
            continue
        p = pids.setdefault(ev["pid"], f"p{len(pids)+1}")
        out.append({"ev": name, "p": p, "stamp_ok": bool(ev.get("stamp_ok", False))})
    return out, sorted(pids.values(), key=lambda s: int(s[1:]))


def validate_linker_trace(chk, events, max_kills=0, label=""):
    """Returns (accepted, tlc_output). An empty projection is accepted trivially (not counted)."""
    lines, procs = linker_trace(events)
    if not lines:
        return True, "no linker events"
    cfg = (SPEC / "cfg" / "LinkerTrace.cfg").read_text()
    cfg = cfg.replace("CONSTANTS\n", "CONSTANTS\n  Procs = {" + ", ".join(json.dumps(p) for p in procs) + "}\n  MaxKills = %d\n" % max_kills)
    nd = "".join(json.dumps(l) + "\n" for l in lines)
    r = tlc("LinkerTrace", "LinkerTrace-gen.cfg", files={"LinkerTrace-gen.cfg": cfg, "linker_trace.ndjson": nd}, workers=1, timeout=600)
    if r.error and not r.violated:
        if "TraceAccepted" in r.out or "postcondition" in r.out.lower():
            return False, r.out
        raise Inconclusive(f"LinkerTrace TLC error ({label}): {r.error}\n{r.out[-2000:]}")
    chk.states += r.distinct
    chk.transitions += r.states
    accepted = r.ok
    if accepted:
        chk.traces_validated += 1
    return accepted, r.out


def parallel(fn, items, workers=4):
    with ThreadPoolExecutor(max_workers=workers) as ex:
        return list(ex.map(fn, items))


# --------------------------------------------------------------------------- whole-build trace validation (Pipeline.tla)

_golist_memo = {}


def validate_pipeline(chk, events, src: Path, sb, kills=None, label="", cold_gk=True, linker_init=None, cfg_of=None, goflags=()):
    """Validate the complete hook trace of one or more real builds against spec/Pipeline.tla
    (PipelineTrace.tla).  A rejection is a lead: MODEL-MISMATCH, never a verdict by itself."""
    from vf import pipeline
    key = (str(src), tuple(goflags))
    if key not in _golist_memo:
        _golist_memo[key] = pipeline.go_list(src, sb.env(), args=(".",), flags=goflags)
    ok, info = pipeline.validate(events, golist=_golist_memo[key], kills=kills, cold_gk=cold_gk, linker_init=linker_init, cfg_of=cfg_of)
    r = info.pop("_tlc", None)
    tr = info.pop("_trace", "")
    if r is not None:
        chk.states += r.distinct
        chk.transitions += r.states
    if ok:
        chk.traces_validated += 1
        chk.extra.setdefault("pipeline_traces", []).append({"label": label, "events": info.get("events"), "tops": info.get("tops"), "states": info.get("states")})
    else:
        m = re.search(r'"REJECTED-AT", (\d+)', info.get("tail", "") or "")
        at = int(m.group(1)) if m else None
        lines = tr.splitlines()
        nxt = lines[at - 1] if at and at - 1 < len(lines) else None
        print(f"MODEL-MISMATCH: property={chk.pid} {label}: the recorded events are not a behaviour of Pipeline.tla "
              f"({info.get('violated') or 'unmatched event'} at line {at}: {nxt})", flush=True)
        chk.extra.setdefault("pipeline_rejected", []).append({"label": label, "violated": info.get("violated"), "line": at, "event": nxt})
        (REPLAYS / chk.pid).mkdir(parents=True, exist_ok=True)
        (REPLAYS / chk.pid / f"pipeline-rejected-{label.replace('/', '_')}.ndjson").write_text(tr)
    return ok
