"""Generators and reference semantics shared by the C08 check.

* shapes (call graphs from spec/Reflect.tla) -> one Go main package per batch
* layout cells (from spec/Reflect.tla, part 2) -> one three-package Go module
* reference implementation of the strings.NewReplacer semantics

Nothing here decides a verdict; the check compares the stdout of the garbled
binary with the stdout of the `go build` binary.
"""
from __future__ import annotations

import json
import re

SHAPES_MODULE = "example.com/c08shapes"
CELLS_MODULE = "example.com/c08cells"
SEED_KINDS = ("typeof", "valueof", "json")


# --------------------------------------------------------------------------- shapes

def shape_prefix(idx: int) -> str:
    return f"s{idx:03d}"


def shape_func(idx: int, f: int) -> str:
    return f"{shape_prefix(idx)}f{f}"


def shape_type(idx: int, t: int) -> str:
    # T2 is an unexported type name, the others are exported
    p = shape_prefix(idx)
    return (p if t == 2 else p.upper()) + f"T{t}"


def shape_types(shape: dict) -> list:
    ts = set()
    for c in shape["calls"]:
        for a in c["args"]:
            if a["k"] == "t":
                ts.add(a["v"])
    return sorted(ts)


def _arg_expr(idx: int, a: dict) -> str:
    if a["k"] == "p":
        return f"p{a['v']}"
    if a["k"] == "t":
        tn = shape_type(idx, a["v"])
        return f"{tn}{{{tn.upper()}Fa: {a['v']}}}"
    return "7"


def _seed_stmt(kind: str, tag: str, arg: str) -> str:
    if kind == "typeof":
        return f'\temit("{tag}", describe(reflect.TypeOf({arg})))\n'
    if kind == "valueof":
        return f'\temit("{tag}", describe(reflect.ValueOf({arg}).Type()))\n'
    return f'\tif b, err := json.Marshal({arg}); err == nil {{\n\t\temit("{tag}", string(b))\n\t}}\n'


SHAPES_PRELUDE = '''package main

import (
	"encoding/json"
	"fmt"
	"reflect"
)

var _ = json.Marshal

func emit(tag string, s string) { fmt.Println(tag, s) }

func describe(t reflect.Type) string {
	if t == nil {
		return "<nil>"
	}
	s := t.Name()
	if t.Kind() == reflect.Struct {
		s += "{"
		for i := 0; i < t.NumField(); i++ {
			s += t.Field(i).Name + ":" + t.Field(i).Type.Name() + ";"
		}
		s += "}"
	}
	return s
}
'''


def gen_shapes_program(shapes: list, seed_kind_of: dict, nonce: int = 0) -> dict:
    """shapes: list of (table index, shape row).  Returns {file: content}."""
    out = [SHAPES_PRELUDE, f"\nconst buildNonce = {nonce}\n"]
    roots = []
    for idx, sh in shapes:
        kind = seed_kind_of[idx]
        out.append(f"\n// shape {idx}: {sh['id']} (seed API: {kind})\n")
        for t in shape_types(sh):
            tn = shape_type(idx, t)
            out.append(f"type {tn} struct {{\n\t{tn.upper()}Fa int\n\t{tn.lower()}fb string\n}}\n")
        for f, np in enumerate(sh["np"], start=1):
            fn = shape_func(idx, f)
            params = ", ".join(f"p{i} any" for i in range(np))
            body = [f"\t{fn}n++\n\tif {fn}n > 6 {{\n\t\treturn\n\t}}\n"]
            for c in sh["calls"]:
                if c["f"] != f:
                    continue
                args = [_arg_expr(idx, a) for a in c["args"]]
                if c["g"] == 0:
                    body.append(_seed_stmt(kind, fn, args[0]))
                else:
                    body.append(f"\t{shape_func(idx, c['g'])}({', '.join(args)})\n")
            out.append(f"var {fn}n int\n\nfunc {fn}({params}) {{\n{''.join(body)}}}\n")
        roots.append(shape_func(idx, 1))
    out.append("\nfunc main() {\n" + "".join(f"\t{r}()\n" for r in roots) + "}\n")
    return {"main.go": "".join(out)}


def split_shape_output(stdout: str) -> dict:
    """stdout -> {shape index: [lines]}"""
    res = {}
    for line in stdout.splitlines():
        m = re.match(r"s(\d{3})f\d+ ", line)
        if m:
            res.setdefault(int(m.group(1)), []).append(line)
        else:
            res.setdefault(-1, []).append(line)
    return res


def lost_types(idx: int, shape: dict, plain_lines: list, garbled_lines: list) -> list:
    """types of the shape named by a plain line whose garbled counterpart differs"""
    lost = set()
    n = max(len(plain_lines), len(garbled_lines))
    for i in range(n):
        pl = plain_lines[i] if i < len(plain_lines) else ""
        gl = garbled_lines[i] if i < len(garbled_lines) else ""
        if pl == gl:
            continue
        hit = False
        for t in shape_types(shape):
            if shape_type(idx, t).lower() in pl.lower():
                lost.add(t)
                hit = True
        if not hit:
            lost.add(-1)
    return sorted(lost)


# --------------------------------------------------------------------------- cells

DEEP_PRELUDE = '''package deep

import (
	"encoding/json"
	"reflect"
	"strconv"
)

var _ = json.Marshal
var _ = strconv.Itoa

// Describe prints everything reflection can see below t, without package paths.
func Describe(t reflect.Type) string { return desc(t, 5) }

func desc(t reflect.Type, d int) string {
	if t == nil {
		return "<nil>"
	}
	if d == 0 {
		return "..."
	}
	switch t.Kind() {
	case reflect.Pointer:
		return "*" + desc(t.Elem(), d)
	case reflect.Slice:
		return "[]" + desc(t.Elem(), d)
	case reflect.Array:
		return "[" + strconv.Itoa(t.Len()) + "]" + desc(t.Elem(), d)
	case reflect.Map:
		return "map[" + desc(t.Key(), d) + "]" + desc(t.Elem(), d)
	case reflect.Struct:
		s := bare(t.Name()) + "{"
		for i := 0; i < t.NumField(); i++ {
			f := t.Field(i)
			s += f.Name
			if f.Anonymous {
				s += "!"
			}
			s += ":" + desc(f.Type, d-1) + ";"
		}
		return s + "}"
	case reflect.Interface:
		return "iface:" + bare(t.Name())
	}
	return bare(t.Name()) + "(" + t.Kind().String() + ")"
}

// bare removes package qualifiers (also inside the brackets of instantiated generic types).
func bare(name string) string {
	out := []byte{}
	tok := []byte{}
	flush := func() {
		cut := -1
		for i, c := range tok {
			if c == '.' {
				cut = i
			}
		}
		out = append(out, tok[cut+1:]...)
		tok = tok[:0]
	}
	for i := 0; i < len(name); i++ {
		c := name[i]
		if c == '[' || c == ']' || c == ',' || c == ' ' || c == '*' {
			flush()
			out = append(out, c)
			continue
		}
		tok = append(tok, c)
	}
	flush()
	return string(out)
}

// Has looks a field up by its original name.
func Has(t reflect.Type, name string) string {
	for t != nil {
		k := t.Kind()
		if k == reflect.Pointer || k == reflect.Slice || k == reflect.Array || k == reflect.Map {
			t = t.Elem()
			continue
		}
		break
	}
	if t == nil || t.Kind() != reflect.Struct {
		return " has:n/a"
	}
	f, ok := t.FieldByName(name)
	if !ok {
		return " has:false"
	}
	return " has:" + f.Name
}
'''


def _cell_names(n: int) -> dict:
    p = f"C{n:03d}"
    return {"p": p, "T": p + "T", "In": p + "In", "In2": p + "Deeper", "G": p + "G", "Real": p + "Real",
            "alpha": p + "Alpha", "beta": p.lower() + "beta", "gamma": p + "Gamma", "eps": p + "Eps",
            "mark": p + "Mark", "H": p + "H", "h": p.lower() + "h", "Run": p + "Run", "run": p.lower() + "run",
            "holder": p.lower() + "holder", "marker": p.lower() + "marker"}


def _cell_decl(c: dict, nm: dict) -> str:
    """Type declarations (package c['decl'])."""
    T, In, a, b, g = nm["T"], nm["In"], nm["alpha"], nm["beta"], nm["gamma"]
    p = nm["p"]
    inner = f"type {In} struct {{\n\t{g} int\n\t{p.lower()}hidden string\n}}\n"
    ts = c["tshape"]
    if ts == "plain":
        return f"type {T} struct {{\n\t{a} int\n\t{b} string\n}}\n\nfunc ({T}) {nm['mark']}() {{}}\n"
    if ts == "defined":
        return f"type {T} int\n\nfunc ({T}) {nm['mark']}() {{}}\n"
    if ts == "alias":
        return (f"type {nm['Real']} struct {{\n\t{a} int\n\t{b} string\n}}\n\nfunc ({nm['Real']}) {nm['mark']}() {{}}\n\n"
                f"type {T} = {nm['Real']}\n")
    if ts == "generic":
        return (inner + f"\ntype {nm['G']}[V any] struct {{\n\t{a} int\n\t{p}Val V\n\t{p}Ok bool\n}}\n\n"
                f"func ({nm['G']}[V]) {nm['mark']}() {{}}\n\ntype {T} = {nm['G']}[{In}]\n")
    if ts == "anon":
        return f"type {T} struct {{\n\t{a} int\n\t{p}An struct {{\n\t\t{p}Delta int\n\t}}\n}}\n\nfunc ({T}) {nm['mark']}() {{}}\n"
    if ts == "nested2":
        return (f"type {nm['In2']} struct {{\n\t{nm['eps']} int\n}}\n\n"
                f"type {In} struct {{\n\t{g} int\n\t{p}Deep {nm['In2']}\n}}\n\n"
                f"type {T} struct {{\n\t{a} int\n\t{p}Nest {In}\n}}\n\nfunc ({T}) {nm['mark']}() {{}}\n")
    field = {
        "nested": f"{p}Nest {In}",
        "embedded": f"{In}",
        "embedded-ptr": f"*{In}",
        "ptrfield": f"{p}P *{In}",
        "slicefield": f"{p}S []{In}",
        "mapfield": f"{p}M map[string]{In}",
        "arrayfield": f"{p}A [2]{In}",
    }[ts]
    return inner + f"\ntype {T} struct {{\n\t{a} int\n\t{field}\n}}\n\nfunc ({T}) {nm['mark']}() {{}}\n"


def _api_stmts(api: str, v: str, nm: dict, d: str, ind: str = "\t") -> str:
    """Go statements appending to `out` (a string variable) what the API shows of v (type any).
    d = qualifier of package deep ("" inside deep, "deep." elsewhere)."""
    if api == "typeof":
        return f'{ind}out += {d}Describe(reflect.TypeOf({v})) + {d}Has(reflect.TypeOf({v}), "{nm["alpha"]}")\n'
    if api == "valueof":
        return f'{ind}out += {d}Describe(reflect.ValueOf({v}).Type()) + {d}Has(reflect.ValueOf({v}).Type(), "{nm["alpha"]}")\n'
    if api == "marshal":
        return (f"{ind}if b, err := json.Marshal({v}); err != nil {{\n{ind}\tout += err.Error()\n{ind}}} else {{\n"
                f"{ind}\tout += string(b)\n{ind}}}\n")
    if api == "unmarshal":
        return (f'{ind}if err := json.Unmarshal([]byte(`{{"{nm["alpha"]}": 41}}`), {v}); err != nil {{\n'
                f"{ind}\tout += err.Error()\n{ind}}}\n")
    raise ValueError(api)


def gen_cells_program(cells: list) -> dict:
    """cells: list of cell rows from the TLC table. Returns {file: content} for module CELLS_MODULE."""
    src = {"main": [], "lib": [], "deep": []}
    mains = []
    for n, c in enumerate(cells, start=1):
        nm = _cell_names(n)
        decl, site, via, cons, ts, api = c["decl"], c["site"], c["via"], c["cons"], c["tshape"], c["api"]
        api_pkg = c["api_pkg"]
        src[decl].append(f"// cell {n}: {json.dumps({k: c[k] for k in ('decl', 'site', 'via', 'cons', 'tshape', 'api')})}\n" + _cell_decl(c, nm))
        q = "" if decl == site else decl + "."           # qualifier of the declaring package at the site
        T = q + nm["T"]
        val = f"{T}(3)" if ts == "defined" else f"{T}{{{nm['alpha']}: 1}}"
        dq_site = "" if site == "deep" else "deep."
        body = [f"\tx := {val}\n\tout := \"\"\n"]
        base = "&x" if api == "unmarshal" else "x"
        if cons in ("value", "variadic", "field"):
            arg = base
        elif cons == "ptr":
            arg = "&x"
        elif cons == "slice":
            arg = f"[]{T}{{x}}"
        elif cons == "array":
            arg = f"[1]{T}{{x}}"
        elif cons == "map":
            arg = f'map[string]{T}{{"k": x}}'
        elif cons == "iface-any":
            body.append(f"\tvar i any = {base}\n")
            arg = "i"
        elif cons == "iface-method":
            src[site].append(f"type {nm['marker']} interface{{ {nm['mark']}() }}\n")
            body.append(f"\tvar i {nm['marker']} = {base}\n")
            arg = "i"
        elif cons == "iface-field-store":
            env = nm["p"] + "Envelope"
            src[site].append(f"type {nm['marker']} interface{{ {nm['mark']}() }}\n\ntype {env} struct {{\n\tSeq int\n\tPayload {nm['marker']}\n}}\n")
            body.append(f"\tvar e {env}\n\te.Seq = 1\n\te.Payload = x\n")
            arg = "e"
        elif cons == "convert":
            wire = nm["p"].lower() + "wire"
            src[site].append(f"type {wire} struct {{\n\t{nm['alpha']} int\n\t{nm['beta']} string\n}}\n")
            body[0] = f"\tw := {wire}{{{nm['alpha']}: 1}}\n\tout := \"\"\n"
            arg = f"{T}(w)"
        else:
            raise ValueError(cons)
        if via == "direct":
            body.append(_api_stmts(api, arg, nm, dq_site))
        elif via == "closure":
            # the API is called inside a function literal that captures the value
            body.append("\tfn := func() {\n" + _api_stmts(api, arg, nm, dq_site, "\t\t") + "\t}\n\tfn()\n")
        else:
            hq = "" if api_pkg == site else api_pkg + "."
            hname = nm["h"] if api_pkg == site else nm["H"]
            dq_api = "" if api_pkg == "deep" else "deep."
            if cons == "variadic":
                helper = (f"func {hname}(first any, vs ...any) string {{\n\tout := \"\"\n\tfor _, v := range vs {{\n"
                          + _api_stmts(api, "v", nm, dq_api, "\t\t") + "\t}\n\treturn out\n}\n")
                call = f"{hq}{hname}(1, {arg})"
            elif cons == "field":
                hold, ex = nm["holder"], nm["h"] + "exec"
                helper = (f"type {hold} struct {{\n\tDest any\n\tpad int\n}}\n\n"
                          f"func {hname}(v any) string {{\n\tvar h {hold}\n\th.Dest = v\n\treturn {ex}(h)\n}}\n\n"
                          f"func {ex}(h {hold}) string {{\n\tout := \"\"\n" + _api_stmts(api, "h.Dest", nm, dq_api) + "\treturn out\n}\n")
                call = f"{hq}{hname}({arg})"
            else:
                helper = f"func {hname}(v any) string {{\n\tout := \"\"\n" + _api_stmts(api, "v", nm, dq_api) + "\treturn out\n}\n"
                call = f"{hq}{hname}({arg})"
            src[api_pkg].append(helper)
            body.append(f"\tout += {call}\n")
        if api == "unmarshal":
            body.append(f"\tout += strconv.Itoa(x.{nm['alpha']})\n")
        body.append("\treturn out\n")
        rname = nm["run"] if site == "main" else nm["Run"]
        src[site].append(f"func {rname}() string {{\n{''.join(body)}}}\n")
        mains.append((n, rname if site == "main" else f"{site}.{rname}"))
    imports_main = f'import (\n\t"encoding/json"\n\t"fmt"\n\t"reflect"\n\t"strconv"\n\n\t"{CELLS_MODULE}/deep"\n\t"{CELLS_MODULE}/lib"\n)\n\n'
    keep_main = "var _ = json.Marshal\nvar _ = reflect.TypeOf\nvar _ = strconv.Itoa\nvar _ = deep.Describe\nvar _ = lib.Keep\n\n"
    main_go = ("package main\n\n" + imports_main + keep_main + "\n".join(src["main"]) +
               "\nfunc main() {\n" + "".join(f'\tfmt.Println("c{n:03d}", {r}())\n' for n, r in mains) + "}\n")
    lib_go = ("package lib\n\n" + f'import (\n\t"encoding/json"\n\t"reflect"\n\t"strconv"\n\n\t"{CELLS_MODULE}/deep"\n)\n\n' +
              "var _ = json.Marshal\nvar _ = reflect.TypeOf\nvar _ = strconv.Itoa\nvar _ = deep.Describe\n\n// Keep keeps the import used.\nconst Keep = 1\n\n" +
              "\n".join(src["lib"]))
    deep_go = DEEP_PRELUDE + "\n" + "\n".join(src["deep"])
    return {"main.go": main_go, "lib/lib.go": lib_go, "deep/deep.go": deep_go}


def cell_names_in(line: str) -> set:
    return set(re.findall(r"[Cc]\d{3}[A-Za-z_][A-Za-z0-9_]*", line))


def cell_typearg_names(n: int) -> set:
    nm = _cell_names(n)
    return {nm["In"], nm["gamma"], nm["p"].lower() + "hidden"}


def split_cell_output(stdout: str) -> dict:
    res = {}
    for line in stdout.splitlines():
        m = re.match(r"c(\d{3}) ", line)
        if m:
            res[int(m.group(1))] = line
        else:
            res.setdefault(-1, "")
            res[-1] += line + "\n"
    return res


# --------------------------------------------------------------------------- replacer reference

def reference_replace(pairs: list, s: str) -> str:
    """strings.NewReplacer(pairs...).Replace(s) for non-empty keys, on bytes:
    scan left to right, first pair in argument order whose key matches wins."""
    b = s.encode()
    keys = [pairs[i].encode() for i in range(0, len(pairs), 2)]
    vals = [pairs[i + 1].encode() for i in range(0, len(pairs), 2)]
    out = bytearray()
    i = 0
    while i < len(b):
        for k, v in zip(keys, vals):
            if k and b.startswith(k, i):
                out += v
                i += len(k)
                break
        else:
            out.append(b[i])
            i += 1
    return out.decode("utf-8", "replace")


B64 = "ABCDEFGHIJKLMNOPQRSTUVWXYZabcdefghijklmnopqrstuvwxyz0123456789_"


def gen_realistic_case(rng, npairs: int) -> tuple:
    """Obfuscated-looking names (6..12 chars), sorted as garble emits them, with overlaps
    planted on purpose, inside type strings as internal/abi passes them."""
    keys = set()
    while len(keys) < npairs:
        n = rng.randint(6, 12)
        first = rng.choice(B64[:52])
        k = first + "".join(rng.choice(B64) for _ in range(n - 1))
        r = rng.random()
        if keys and r < 0.25:       # a key that has another key as a prefix
            base = rng.choice(sorted(keys))
            k = (base + k)[:12] if len(base) < 12 else base[:11] + first
        elif keys and r < 0.4:      # a key sharing a long prefix with another key
            base = rng.choice(sorted(keys))
            k = base[:rng.randint(3, len(base) - 1)] + k[:4]
            k = k[:12] if len(k) >= 6 else k + "Zz9_Qq"
        keys.add(k)
    keys = sorted(keys)
    origs = ["Orig" + str(i) + rng.choice(["", "Field", "Name_x", "T"]) for i in range(len(keys))]
    pairs = []
    for k, o in zip(keys, origs):
        pairs += [k, o]

    def ident():
        r = rng.random()
        if r < 0.7:
            return rng.choice(keys)
        if r < 0.8:         # a key glued to more identifier characters
            return rng.choice(keys) + rng.choice(["x", "9", "_", rng.choice(keys)[:3]])
        if r < 0.9:         # a truncated key
            k = rng.choice(keys)
            return k[:rng.randint(1, len(k) - 1)]
        return rng.choice(["string", "int", "main", "T", "struct"])

    shape = rng.randrange(5)
    if shape == 0:
        s = ident()
    elif shape == 1:
        s = "*" + rng.choice(["main", ident()]) + "." + ident()
    elif shape == 2:
        s = "*struct { " + "; ".join(f"{ident()} {rng.choice(['string', 'int', ident()])}" for _ in range(rng.randint(1, 5))) + " }"
    elif shape == 3:
        s = f"map[{ident()}]*struct {{ {ident()} struct {{ {ident()} []{ident()} }} }}"
    else:
        s = f"{ident()}[{ident()}.{ident()},{ident()}]"
    return pairs, s
