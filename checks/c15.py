#!/usr/bin/env python3
"""C15 - Identical struct types get identical field names everywhere.

Spec: spec/StructId.tla.  A struct shape is a sequence of fields [name, embedded,
type code, tag]; Identical / IdenticalIgnoringTags are the Go specification's struct
identity (with / without tags); Salt is a transcription, with real uint32 arithmetic,
of the *types.Struct case of garble's bundled type hasher (names, positions and
embedded-ness; tags and field types are not hashed).  TLC checks over ALL unordered
pairs of shapes (<= 3 fields, 3 names): IdenticalImpliesSameSalt, OriginRule (an
instantiation hashed directly has the salt of its generic origin), ClassKeySound (the
class key exported with the table characterises IdenticalIgnoringTags) and serialises
the shape table (fields, class key, salt).  Two mutant configs (tags hashed / field
types hashed) must be rejected by TLC: that shows the invariants bite.

Binding
  B3  every shape of the table is declared as real Go types (named, generic, alias of
      an instantiation, alias of the closed anonymous struct, defined-from) in one
      source handed to `garble verif structhash` (the real computeFieldToStruct +
      hashWithStruct + typeutil_hash), seeded and unseeded.  For every pair of the
      table with equal class key the REAL obfuscated field names must be equal field by
      field: that equality is the property's observable (VIOLATION otherwise).  The
      real salt is also compared with the model's salt (MODEL-MISMATCH only).
  B2  identical pairs become cells of a real program spread over packages c (leaf),
      a, b and main: named in a, named in b, generic origin + instantiation, alias,
      anonymous struct, with/without tags, embedded fields, a generic function
      returning an anonymous struct consumed elsewhere; every use site (conversion,
      assignment anonymous<->named, keyed composite literal, selection).  The program
      is built with `go build` and with garble {default, -seed, -tiny} and run: garble
      must succeed, output must be equal, and the `name` events (kind=field) of one
      field name must agree in every package.
"""
import json
import os
import sys

sys.path.insert(0, str(__import__("pathlib").Path(__file__).resolve().parent.parent))
from vf.core import *  # noqa

TAG_TEXT = {"none": "", "t1": ' `json:"a"`', "t2": ' `yaml:"b,omitempty"`'}
PARAM_TYPES = ("P", "[]P", "*P")


def u32(pair):
    return pair[0] * 65536 + pair[1]


# --------------------------------------------------------------------------- B3 source

def b3_type(code, param="P", arg=None):
    """Go type text of a type code inside the single B3 package."""
    if code in PARAM_TYPES:
        return code.replace("P", arg if arg else param)
    return {"int": "int", "string": "string", "*int": "*int", "[]string": "[]string", "N": "Nn", "*N": "*Nn"}[code]


def b3_struct(fields, arg=None, tags=True):
    parts = []
    for f in fields:
        tg = TAG_TEXT[f["tag"]] if tags else ""
        if f["emb"]:
            parts.append(("*" if f["typ"] == "*E" else "") + f["name"] + tg)
        else:
            parts.append(f["name"] + " " + b3_type(f["typ"], arg=arg) + tg)
    return "struct{ " + "; ".join(parts) + " }"


def b3_source(shapes, names, type_arg):
    out = ["package p", "", "type Nn struct{ X int }"]
    for n in sorted(names):
        out.append(f"type {n} int")
    decls = {}  # type name -> (shape id, variant)
    for sh in shapes:
        k, fields = sh["id"], sh["fields"]
        if sh["generic"]:
            out.append(f"type S{k}[P any] {b3_struct(fields)}")
            out.append(f"type I{k} = S{k}[{type_arg}]")
            out.append(f"type D{k} S{k}[{type_arg}]")
            decls[f"I{k}"] = (k, "alias-of-instance")
            decls[f"D{k}"] = (k, "defined-from-instance")
        else:
            out.append(f"type S{k} {b3_struct(fields)}")
            out.append(f"type L{k} = S{k}")
            out.append(f"type D{k} S{k}")
            decls[f"L{k}"] = (k, "alias-of-named")
            decls[f"D{k}"] = (k, "defined-from-named")
        decls[f"S{k}"] = (k, "generic-origin" if sh["generic"] else "named")
        out.append(f"type A{k} = {b3_struct(fields, arg=type_arg)}")
        decls[f"A{k}"] = (k, "alias-of-anonymous")
        out.append(f"var _ = {b3_struct(fields, arg=type_arg, tags=False)}{{}}")
    return "\n".join(out) + "\n", decls


def structhash(garble, src, seedhex):
    res = run([garble, "verif", "structhash"], stdin=json.dumps({"src": src, "seed": seedhex}) + "\n", timeout=900, env=base_env())
    if res.returncode != 0:
        raise Inconclusive(f"garble verif structhash failed: {res.stderr[-1500:]}")
    lines = res.stdout.splitlines()
    if len(lines) != 1:
        raise Inconclusive(f"garble verif structhash: {len(lines)} reply lines")
    return json.loads(lines[0])


# --------------------------------------------------------------------------- B2 programs

class Cell:
    """One identical pair (s in package a, t in package b) with all its use sites."""

    def __init__(self, idx, s, t, mode, type_arg):
        self.idx, self.s, self.t, self.mode, self.arg = idx, s, t, mode, type_arg
        self.n = len(s["fields"])

    # names: every cell has its own field names, so that `name` events can be attributed
    def fname(self, n):
        if self.mode == "cross":
            n = n[0].upper() + n[1:]
        return f"{n}{self.idx:03d}"

    def carrier_pkg(self):
        return "c" if self.mode == "cross" else "a"

    def q(self, pkg, ident, frm):
        """qualified identifier `ident` of package pkg seen from package frm"""
        return ident if pkg == frm else f"{pkg}.{ident}"

    def type_text(self, f, frm, param):
        """Go type of field f as written in package frm; param = what P is written as"""
        code = f["typ"]
        if code in PARAM_TYPES:
            return code.replace("P", param)
        if code in ("N", "*N"):
            return code.replace("N", self.q("c", "Nn", frm))
        return code

    def struct_text(self, fields, frm, param, tags=True):
        parts = []
        for f in fields:
            tg = TAG_TEXT[f["tag"]] if tags else ""
            if f["emb"]:
                parts.append(("*" if f["typ"] == "*E" else "") + self.q(self.carrier_pkg(), self.fname(f["name"]), frm) + tg)
            else:
                parts.append(self.fname(f["name"]) + " " + self.type_text(f, frm, param) + tg)
        return "struct{ " + "; ".join(parts) + " }"

    def value(self, f, v, frm, param_is_q=False):
        """a Go expression of field f's (closed) type carrying the integer v"""
        code = f["typ"]
        cq = lambda ident: self.q("c", ident, frm)  # noqa
        if f["emb"]:
            tn = self.fname(f["name"])
            kq = self.q(self.carrier_pkg(), tn, frm)
            if code == "*E":
                return f"{self.q(self.carrier_pkg(), 'P' + tn, frm)}({v})"
            return f"{kq}({v})"
        if code in PARAM_TYPES:
            code = code.replace("P", self.arg)
        return {"int": f"{v}", "string": f'"s{v}"', "*int": f"{cq('PI')}({v})", "[]int": f"[]int{{{v}}}",
                "[]string": f'[]string{{"s{v}"}}', "*string": f'{cq("PS")}("s{v}")',
                "N": f"{cq('Nn')}{{X: {v}}}", "*N": f"&{cq('Nn')}{{X: {v}}}"}[code]

    def show(self, f, sel):
        """printable (int or string) expression for selector `sel` of field f"""
        code = f["typ"]
        if f["emb"]:
            return f"int(*{sel})" if code == "*E" else f"int({sel})"
        if code in PARAM_TYPES:
            code = code.replace("P", self.arg)
        return {"int": sel, "string": sel, "*int": "*" + sel, "[]int": sel + "[0]", "[]string": sel + "[0]",
                "*string": "*" + sel, "N": sel + ".X", "*N": sel + ".X"}[code]

    def shows(self, fields, var):
        return ", ".join(self.show(f, f"{var}.{self.fname(f['name'])}") for f in fields)

    def keyed(self, fields, base, frm):
        return ", ".join(f"{self.fname(f['name'])}: {self.value(f, base + i, frm)}" for i, f in enumerate(fields))

    def generic(self, sh):
        return sh["generic"]

    def tname(self, pkg, frm):
        """the named type of the cell declared in pkg (T in a, U in b), instantiated if generic, as written in frm"""
        sh, nm = (self.s, f"T{self.idx:03d}") if pkg == "a" else (self.t, f"U{self.idx:03d}")
        txt = self.q(pkg, nm, frm)
        if self.generic(sh):
            txt += f"[{self.arg}]"
        return txt


def gen_program(cells, type_arg, consumer_inst=False):
    """files of the module example.com/c15prog for the given cells; consumer_inst: the consumer packages
    instantiate the generic function that returns an anonymous struct themselves (otherwise they use a
    variable of package c that holds the result of an instantiation made in c)"""
    pk = {"c": ["package c", "", "type Nn struct{ X int }", "", "func PI(v int) *int { return &v }", "",
                "func PS(v string) *string { return &v }", ""],
          "a": ["package a", "", 'import "example.com/c15prog/c"', "", "var _ c.Nn", ""],
          "b": ["package b", "", 'import "example.com/c15prog/c"', "", "var _ c.Nn", ""],
          "main": ["package main", "", "import (", '\t"example.com/c15prog/a"', '\t"example.com/c15prog/b"', '\t"example.com/c15prog/c"', ")", "",
                   "var _ c.Nn", "var _ = b.Dummy", ""]}
    pk["b"].append("const Dummy = 1\n")
    main_body = []
    for cl in cells:
        i, s, t = cl.idx, cl.s["fields"], cl.t["fields"]
        tag = f"{i:03d}"
        carr = cl.carrier_pkg()
        # carrier types of embedded fields
        for f in s:
            if f["emb"]:
                tn = cl.fname(f["name"])
                pk[carr].append(f"type {tn} int\n")
                pk[carr].append(f"func P{tn}(v int) *{tn} {{ x := {tn}(v); return &x }}\n")
        gs, gt = cl.generic(cl.s), cl.generic(cl.t)
        tparam_s = "[P any]" if gs else ""
        tparam_t = "[P any]" if gt else ""
        if cl.mode == "cross":
            # package a: T (shape s), constructor
            pk["a"].append(f"type T{tag}{tparam_s} {cl.struct_text(s, 'a', 'P')}\n")
            pk["a"].append(f"//go:noinline\nfunc MkT{tag}() {cl.tname('a', 'a')} {{ return {cl.tname('a', 'a')}{{{cl.keyed(s, 10 * i, 'a')}}} }}\n")
            # package b: U (shape t), consumer selecting every field
            pk["b"].append(f"type U{tag}{tparam_t} {cl.struct_text(t, 'b', 'P')}\n")
            pk["b"].append(f"//go:noinline\nfunc ShowU{tag}(u {cl.tname('b', 'b')}) {{ println(\"cell\", {i}, \"b.Show\"" +
                           (", " + cl.shows(t, "u") if t else "") + ") }\n")
            # package c: generic function returning an anonymous struct with the origin's shape
            if gs:
                pk["c"].append(f"//go:noinline\nfunc Gen{tag}[Q any](src {cl.struct_text(s, 'c', 'Q', tags=False)}) {cl.struct_text(s, 'c', 'Q', tags=False)} {{\n"
                               f"\tvar r {cl.struct_text(s, 'c', 'Q', tags=False)}\n" +
                               "".join(f"\tr.{cl.fname(f['name'])} = src.{cl.fname(f['name'])}\n" for f in s) + "\treturn r\n}\n")
                pk["c"].append(f"var Pre{tag} = Gen{tag}[{cl.arg}]({cl.struct_text(s, 'c', cl.arg, tags=False)}{{{cl.keyed(s, 10 * i + 7, 'c')}}})\n")
            frm = "main"
            body = [f"\t{{ // cell {i}: s={json.dumps(cl.s['fields'])} t={json.dumps(cl.t['fields'])}"]
            body.append(f"\t\tv := a.MkT{tag}()")
            body.append(f"\t\tu := {cl.tname('b', frm)}(v) // conversion across packages")
            body.append(f"\t\tb.ShowU{tag}(u)")
            body.append(f"\t\tvar w {cl.struct_text(s, frm, cl.arg)} = v // named -> anonymous (same tags)")
            body.append(f"\t\tvar x {cl.tname('a', frm)} = w // anonymous -> named")
            body.append(f"\t\tw2 := {cl.struct_text(t, frm, cl.arg, tags=False)}(x) // conversion to the untagged anonymous type")
            body.append(f"\t\tlit := {cl.tname('b', frm)}{{{cl.keyed(t, 10 * i + 5, frm)}}} // keyed composite literal")
            body.append(f"\t\tanon := {cl.struct_text(t, frm, cl.arg, tags=False)}{{{cl.keyed(t, 10 * i + 3, frm)}}}")
            body.append(f"\t\ttype AL = {cl.tname('a', frm)}")
            body.append("\t\tal := AL(lit) // conversion through an alias")
            body.append(f"\t\tback := {cl.tname('a', frm)}(anon)")
            for var, fl in (("v", s), ("w", s), ("x", s), ("w2", t), ("lit", t), ("anon", t), ("al", s), ("back", s)):
                body.append(f"\t\tprintln(\"cell\", {i}, \"{var}\"" + (", " + cl.shows(fl, var) if fl else "") + ")")
            if gs:
                body.append(f"\t\tpre := c.Pre{tag} // anonymous struct returned by a generic function, instantiated in c")
                body.append(f"\t\tb.ShowU{tag}({cl.tname('b', frm)}(pre))")
                body.append(f"\t\tprintln(\"cell\", {i}, \"pre\"" + (", " + cl.shows(s, "pre") if s else "") + ")")
            if gs and consumer_inst:
                body.append(f"\t\tr := c.Gen{tag}[{cl.arg}](w2) // ... instantiated here, in the consumer")
                body.append(f"\t\tb.ShowU{tag}({cl.tname('b', frm)}(r))")
                body.append(f"\t\tprintln(\"cell\", {i}, \"r\"" + (", " + cl.shows(s, "r") if s else "") + ")")
            body.append("\t\t_, _, _, _, _, _, _, _ = v, u, w, x, w2, lit, al, back")
            body.append("\t}")
            main_body += body
        else:
            # same package: unexported names stay unexported; everything lives in package a
            frm = "a"
            pk["a"].append(f"type T{tag}{tparam_s} {cl.struct_text(s, 'a', 'P')}\n")
            pk["a"].append(f"type U{tag}{tparam_t} {cl.struct_text(t, 'a', 'P')}\n")
            tn = f"T{tag}" + (f"[{cl.arg}]" if gs else "")
            un = f"U{tag}" + (f"[{cl.arg}]" if gt else "")
            body = [f"//go:noinline\nfunc Cell{tag}() {{"]
            body.append(f"\tv := {tn}{{{cl.keyed(s, 10 * i, frm)}}}")
            body.append(f"\tu := {un}(v)")
            body.append(f"\tvar w {cl.struct_text(s, frm, cl.arg)} = v")
            body.append(f"\tvar x {tn} = w")
            body.append(f"\tanon := {cl.struct_text(t, frm, cl.arg, tags=False)}{{{cl.keyed(t, 10 * i + 3, frm)}}}")
            body.append(f"\tback := {tn}(anon)")
            body.append(f"\ttype AL = {un}")
            body.append("\tal := AL(back)")
            for var, fl in (("v", s), ("u", t), ("w", s), ("x", s), ("anon", t), ("back", s), ("al", t)):
                body.append(f"\tprintln(\"cell\", {i}, \"{var}\"" + (", " + cl.shows(fl, var) if fl else "") + ")")
            body.append("\t_, _, _, _, _, _, _ = v, u, w, x, anon, back, al")
            body.append("}\n")
            pk["a"] += body
            main_body.append(f"\ta.Cell{tag}()")
    pk["main"].append("func main() {")
    pk["main"] += main_body
    pk["main"].append("}")
    return {"c/c.go": "\n".join(pk["c"]) + "\n", "a/a.go": "\n".join(pk["a"]) + "\n", "b/b.go": "\n".join(pk["b"]) + "\n",
            "main.go": "\n".join(pk["main"]) + "\n"}


def pick_cells(table, rng, n_cross, n_same):
    shapes = table["shapes"]
    exported = {n: v["exported"] for n, v in table["names"].items()}
    classes = {}
    for sh in shapes:
        classes.setdefault(json.dumps(sh["canon"]), []).append(sh)
    multi = [m for m in classes.values() if len(m) > 1 and len(m[0]["fields"]) > 0]
    rng.shuffle(multi)

    def pairs(mode):
        out = []
        for members in multi:
            fields = members[0]["fields"]
            unexp = any(not exported[f["name"]] for f in fields)
            if mode == "same" and not unexp:
                continue
            # an embedded field keeps its case: cross cells capitalise every name, which is a
            # renaming of the abstract shape, so any class can be used for them
            a, b = rng.sample(members, 2)
            out.append((a, b))
        return out
    cross, same = pairs("cross"), pairs("same")

    def score(p):
        a, b = p
        return (a["generic"] != b["generic"]) + (any(f["tag"] != g["tag"] for f, g in zip(a["fields"], b["fields"]))) + \
               any(f["emb"] for f in a["fields"]) + len(a["fields"])

    def spread(ps, n):
        # prefer rich cells (generic vs closed, differing tags, embedded, long), but keep variety
        ps = sorted(ps, key=lambda p: -score(p))
        top = ps[: max(n * 3, n)]
        rng.shuffle(top)
        return top[:n]
    return spread(cross, n_cross), spread(same, n_same)


# --------------------------------------------------------------------------- main

def main(tier, seed):
    chk = Check("C15", tier, seed)
    chk.rule = ("B3: one evaluation = one (pair of shapes with equal class key, seeding) whose real field names were compared; "
                "B2: one evaluation = one (program, garble flag set); distinct = distinct pairs / cells")
    chk.assumptions = [
        "hashWithCustomSalt is collision free on (salt, name): the model stops at the struct salt",
        "type identity of field types is equality of type codes of a small closed language {int, string, *int, []string, named, type parameter instantiated with int}",
        "all shapes of one structhash source live in one package; cross-package identity is exercised by the real builds with exported names only (unexported names from different packages are never identical)"]
    rng = chk.rng
    tlc_workers = int(os.environ.get("VERIF_TLC_WORKERS", "4"))

    # ---- 1. the model: invariants over all pairs + table
    cfgs = ["StructId-quick.cfg"] if tier == "quick" else ["StructId-thorough3.cfg", "StructId-thorough.cfg"]
    tables = []
    for cfg in cfgs:
        work = mkscratch("c15-tlc")
        r = tlc_must_pass("StructId", cfg, workdir=work, timeout=2400, jvm=["-Xmx8g"], workers=tlc_workers)
        chk.add_tlc(r)
        tables.append(json.loads((work / "structid_table.json").read_text()))
        log(f"TLC {cfg}: {r.distinct} distinct states in {r.wall:.0f}s, {len(tables[-1]['shapes'])} shapes")
    # the invariants bite: both modelled mutants are rejected
    sens = {}
    for cfg, want in (("StructId-mutant-tags.cfg", "IdenticalImpliesSameSalt"), ("StructId-mutant-types.cfg", None)):
        r = tlc("StructId", cfg, workdir=mkscratch("c15-tlc-mut"), timeout=600, workers=tlc_workers)
        sens[cfg] = r.violated
        if not r.violated:
            raise Inconclusive(f"TLC accepts the modelled mutant {cfg}: the invariants do not bite\n{r.out[-1500:]}")
    chk.extra["spec_mutants_rejected"] = sens

    garble = build_garble("verif")

    # ---- 2. B3: the real hasher on every shape, every pair of a class
    b3_pairs = 0
    b3_types = 0
    drift = 0
    harmless = 0
    reported = set()
    seeds = ["", rng.randbytes(8).hex()] if tier == "quick" else ["", rng.randbytes(8).hex(), rng.randbytes(16).hex()]
    for ti, table in enumerate(tables):
        shapes = table["shapes"]
        src, decls = b3_source(shapes, table["names"], table["type_arg"])
        byid = {sh["id"]: sh for sh in shapes}
        classes = {}
        for sh in shapes:
            classes.setdefault(json.dumps(sh["canon"]), []).append(sh["id"])
        for seedhex in seeds:
            reply = structhash(garble, src, seedhex)
            if "error" in reply or "panic" in reply:
                # the generated source is valid Go (go vet would accept it): a panic of the real code is a failed build
                chk.violation({"kind": "structhash-failed", "seeded": bool(seedhex)}, {"src.go": src, "reply.json": json.dumps(reply)},
                              what=f"computeFieldToStruct/hashWithStruct failed on the table source: {str(reply)[:300]}")
                continue
            real = {}  # shape id -> {variant: (names tuple, salt)}
            for tname, (k, variant) in decls.items():
                ent = reply.get(tname)
                if ent is None:
                    raise Inconclusive(f"structhash reply lacks type {tname}")
                fields = byid[k]["fields"]
                names = tuple(ent["fields"].get(f["name"]) for f in fields)
                real.setdefault(k, {})[variant] = (names, int(ent["salt"]))
                b3_types += 1
                if int(ent["salt"]) != u32(byid[k]["salt"]):
                    drift += 1
            for key, ids in classes.items():
                # all members x all variants must agree, field by field
                for a_i, ka in enumerate(ids):
                    for kb in ids[a_i:]:
                        b3_pairs += 1
                        diffs = []
                        for va, (na, _) in real[ka].items():
                            for vb, (nb, _) in real[kb].items():
                                if na != nb or "<nostruct>" in na or None in na:
                                    diffs.append((va, vb, na, nb))
                        chk.case(["b3", ti, ka, kb, bool(seedhex)],
                                 sample={"pair": [byid[ka]["fields"], byid[kb]["fields"]], "seed": seedhex, "names": list(real[ka]["alias-of-anonymous"][0])} if b3_pairs % 9000 == 1 else None,
                                 nontrivial=len(byid[ka]["fields"]) > 0)
                        if diffs:
                            va, vb, na, nb = diffs[0]
                            fa, fb = byid[ka]["fields"], byid[kb]["fields"]
                            wit = {"kind": "b3-names-differ", "seeded": bool(seedhex),
                                   "tags_differ": any(f["tag"] != g["tag"] for f, g in zip(fa, fb)),
                                   "generic_vs_closed": byid[ka]["generic"] != byid[kb]["generic"] or va != vb and "instance" in va + vb,
                                   "nostruct": "<nostruct>" in na + nb}
                            sig = json.dumps(wit, sort_keys=True)
                            if sig not in reported:
                                reported.add(sig)
                                chk.violation(wit, {"src.go": src, "case.json": json.dumps({"seed": seedhex, "shape_a": byid[ka], "shape_b": byid[kb], "variant_a": va, "variant_b": vb,
                                                                                            "names_a": na, "names_b": nb, "all_a": {v: n for v, (n, _) in real[ka].items()},
                                                                                            "all_b": {v: n for v, (n, _) in real[kb].items()}}, indent=1)},
                                              what=f"identical (ignoring tags) struct types get different field names: {va} {na} vs {vb} {nb}")
            # information: non-identical shapes sharing every field name (harmless by the property)
            by_names = {}
            for k, vs in real.items():
                nm = vs["alias-of-anonymous"][0]
                if nm:
                    by_names.setdefault(nm, set()).add(json.dumps(byid[k]["canon"]))
            harmless += sum(1 for v in by_names.values() if len(v) > 1)
    chk.extra["b3_pairs_checked"] = b3_pairs
    chk.extra["b3_real_types_hashed"] = b3_types
    chk.extra["b3_salt_model_drift"] = drift
    chk.extra["nonidentical_classes_sharing_names_info"] = harmless
    if drift:
        print(f"MODEL-MISMATCH: property=C15 {drift} real struct salts differ from StructId.tla's Salt "
              f"(the equality of real field names is still what decides)", flush=True)

    # ---- 3. B2: identical pairs in real packages, built and run
    n_prog = 1 if tier == "quick" else 4
    n_cross, n_same = (18, 6) if tier == "quick" else (36, 12)
    flagsets = [[], ["-seed=" + "bXlzZWVkbXlzZWVk"], ["-tiny"]]
    root = mkscratch("c15-build")
    sb = Sandbox(root / "sb", template=True)
    cells_run = 0
    chk.extra["b2_fields_seen_in_several_packages"] = 0

    def build_and_compare(name, files, cells, flags, site):
        """go build + garble build of one generated program; returns nothing, reports through chk"""
        nonlocal cells_run
        src = root / name
        if not src.exists():
            write_module(src, files, module="example.com/c15prog")
            ref = sb.go(["build", "-trimpath", "-o", str(root / (name + ".ref")), "."], cwd=src)
            if ref.returncode != 0:
                raise Inconclusive(f"generated C15 program {name} does not compile with go build:\n{ref.stderr[-3000:]}")
        refrun = run([root / (name + ".ref")], timeout=60)
        if refrun.returncode != 0:
            raise Inconclusive(f"generated C15 program {name} fails when run: rc={refrun.returncode} {refrun.stderr[-500:]}")
        trace = root / (name + ".trace.ndjson")
        if trace.exists():
            trace.unlink()
        outbin = root / (name + ".garbled")
        if outbin.exists():
            outbin.unlink()
        gr = sb.garble(flags + ["build", "-o", str(outbin), "."], cwd=src, env={"GARBLE_VERIF_NAMES": "1"}, trace=trace, timeout=1800)
        cells_run += len(cells)
        for cl in cells:
            chk.case(["b2", name, cl.idx, cl.mode, flags, site], nontrivial=True,
                     sample={"cell": [cl.s["fields"], cl.t["fields"]], "mode": cl.mode, "flags": flags, "site": site, "garble_rc": gr.returncode} if cl.idx == 1 else None)
        art = {"src": src, "garble_stderr.txt": gr.stderr[-20000:], "flags.txt": " ".join(flags), "ref_output.txt": refrun.stderr + refrun.stdout}
        if gr.timed_out:
            raise Inconclusive("garble build of the C15 program timed out")
        if gr.returncode != 0:
            if any(m in gr.stderr for m in ("no space left", "cannot allocate memory", "signal: killed")):
                raise Inconclusive(f"garble build failed for infrastructure reasons: {gr.stderr[-800:]}")
            first = next((ln for ln in gr.stderr.splitlines() if ln.startswith("panic:") or "error" in ln.lower()), gr.stderr.strip()[:300])
            chk.violation({"kind": "b2-build-failed", "site": site, "flags": " ".join(flags),
                           "panic": "could not find struct for field" if "could not find struct for field" in gr.stderr else first[:80]}, art,
                          what=f"garble {' '.join(flags)} build fails on a program go build accepts ({site}): {first[:300]}")
            return
        grun = run([outbin], timeout=60)
        if (grun.returncode, grun.stdout, grun.stderr) != (refrun.returncode, refrun.stdout, refrun.stderr):
            art["garbled_output.txt"] = grun.stderr + grun.stdout
            chk.violation({"kind": "b2-output-differs", "site": site, "flags": " ".join(flags)}, art,
                          what="output of the garbled program differs from the regular build")
        # field names seen by each package: one original field name (unique per cell) -> one obfuscated name
        per_field = {}
        for ev in read_trace(trace):
            if ev.get("ev") == "name" and ev.get("kind") == "field" and ev.get("pkg", "").startswith("example.com/c15prog"):
                per_field.setdefault(ev["orig"], {}).setdefault(ev["obf"], set()).add(ev["pkg"])
        if not per_field:
            raise Inconclusive("no field name events recorded from the real build")
        chk.traces_validated += 1
        for orig, obfs in per_field.items():
            chk.extra["b2_fields_seen_in_several_packages"] += len({p for ps in obfs.values() for p in ps}) > 1
            if len(obfs) > 1:
                art["names.json"] = json.dumps({o: sorted(p) for o, p in obfs.items()}, indent=1)
                chk.violation({"kind": "b2-field-name-differs", "site": site, "flags": " ".join(flags)}, art,
                              what=f"field {orig} of identical struct types is renamed differently: { {o: sorted(p) for o, p in obfs.items()} }")
                break

    for pi in range(n_prog):
        tbl = tables[pi % len(tables)]
        cross, same = pick_cells(tbl, rng, n_cross, n_same)
        cells = [Cell(k + 1, a, b, "cross", tbl["type_arg"]) for k, (a, b) in enumerate(cross)]
        cells += [Cell(len(cross) + k + 1, a, b, "same", tbl["type_arg"]) for k, (a, b) in enumerate(same)]
        files = gen_program(cells, tbl["type_arg"])
        for flags in flagsets:
            build_and_compare(f"prog{pi}", files, cells, flags, "all-sites")
        # the one use site kept apart: the CONSUMER instantiates a generic function of another package
        # that returns an anonymous struct (struct{F Q}) and selects / converts its fields
        gcells = [cl for cl in cells if cl.mode == "cross" and cl.generic(cl.s)][:4]
        if gcells and (pi == 0 or tier != "quick"):
            gfiles = gen_program(gcells, tbl["type_arg"], consumer_inst=True)
            for flags in (flagsets[:1] if tier == "quick" else flagsets[:2]):
                build_and_compare(f"genfunc{pi}", gfiles, gcells, flags, "generic-func-result-instantiated-by-consumer")
    # ---- a struct that EMBEDS an instantiation of a generic type depending on the type parameter, next to an ordinary
    # field, against identical structs that do not go through the generic origin (anonymous literal, named struct,
    # pointer embed): conversions, assignments and selections across the package boundary
    emb_files = {
        "lib/lib.go": """package lib

type Box[T any] struct{ Contents T }

type W[T any] struct {
	Box[T]
	N int
}

type P[T any] struct {
	*Box[T]
	M int
}

func Make[T any](v T) struct {
	Box[T]
	N int
} {
	return struct {
		Box[T]
		N int
	}{Box[T]{v}, 7}
}

var Wrapped = Make("w")
""",
        "main.go": """package main

import "example.com/c15prog/lib"

type plain struct {
	lib.Box[string]
	N int
}

func main() {
	println("wrapped", lib.Wrapped.N, lib.Wrapped.Contents)
	w := lib.W[string](struct {
		lib.Box[string]
		N int
	}{lib.Box[string]{Contents: "x"}, 3})
	println("converted", w.N, w.Contents)
	pl := plain{lib.Box[string]{Contents: "y"}, 4}
	w = lib.W[string](pl)
	println("named", w.N, w.Contents)
	var p lib.P[int]
	p = struct {
		*lib.Box[int]
		M int
	}{&lib.Box[int]{Contents: 5}, 6}
	println("assigned", p.M, p.Contents)
}
""",
    }
    for flags in (flagsets[:1] if tier == "quick" else flagsets):
        build_and_compare("embgeneric", emb_files, [], flags, "embedded-generic-instantiation")
    chk.extra["b2_cells_run"] = cells_run
    chk.exhaustive = True  # every pair of every exported table was checked against the real hasher
    return chk.finish()


if __name__ == "__main__":
    main_wrapper(main)
