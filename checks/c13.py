#!/usr/bin/env python3
"""C13 - garble map, the build and garble reverse agree on every name.

Spec: spec/Salts.tla (Mode = "c13").  The three views Build / Map / Reverse share the name terms of
C12; what differs is which objects each view visits and which hashing function it calls for them
(transcribed from transformGoFile + obfuscatedObjectName, commandMap, commandReverse).  TLC
enumerates object kind x exported x package role x configuration, checks MapEqBuild, MapComplete and
ReverseInvertsMap outside the kinds for which the as-is transcription predicts a failure (and
GapsExact: that those predictions are exactly the failures), rejects the strict configuration (the
leads) and exports the expected (renamed / listed / reachable / map = build / reversed) table.

Binding (B2): a generated three-package module with one uniquely named object per table row;
per configuration {default, -seed, -tiny, GOGARBLE subset, -tags} a real `garble build` (build-side
names: H6 `name` events of the compiling process, import path: compile -p), `garble map ./...`
and `garble reverse .` fed every listed name and import path on its own line.

Oracle (the property's own statement, evaluated on the real outputs): for each listed object the map
name equals the build name; every renamed API-reachable object of the module is listed; reverse
prints the original for each listed name; the map's "path" is the import path the build used.  The
module's packages plus the std sample `strings` are compared.  Differences from the table that keep
the statement true are MODEL-MISMATCH.
"""
import base64
import sys

sys.path.insert(0, str(__import__("pathlib").Path(__file__).resolve().parent))
from salts_common import *  # noqa

STD_SAMPLE = "strings"


def config_defs(rng):
    seed = base64.b64encode(rng.randbytes(12)).decode().rstrip("=")     # longer than the 8 bytes the literal PRNG uses
    return {
        "default": dict(gflags=[], env={}, goflags=[], tag=False, roles={"main": "main", "lib": "lib", "excl": "lib"}),
        "seed": dict(gflags=["-seed=" + seed], env={}, goflags=[], tag=False, roles={"main": "main", "lib": "lib", "excl": "lib"}),
        "tiny": dict(gflags=["-tiny"], env={}, goflags=[], tag=False, roles={"main": "main", "lib": "lib", "excl": "lib"}),
        # MatchPrefixPatterns works on path prefixes, so the module root cannot be selected without excl
        "gogarble": dict(gflags=[], env={"GOGARBLE": MOD13 + "/lib"}, goflags=[], tag=False,
                         roles={"main": "excluded", "lib": "lib", "excl": "excluded"}),
        "tags": dict(gflags=[], env={}, goflags=["-tags=" + TAG13], tag=True, roles={"main": "main", "lib": "lib", "excl": "lib"}),
    }


class View:
    pass


def run_config(work, idx, name, cfg, linker, objects, with_debugdir, chain_after=None, after_build=None):
    """build + map + reverse for one configuration in its own sandbox (or continuing chain_after's)."""
    v = View()
    v.name, v.cfg = name, cfg
    if chain_after is not None:
        root, sb, src = chain_after.root, chain_after.sb, chain_after.src
    else:
        root = work / f"cfg{idx}"
        src, _ = write_saltmap(root / "src")
        sb = Sandbox(root / "sb", template=True)
        if linker is not None and not (sb.gcache / "tool").exists():
            copytree(linker, sb.gcache / "tool")
    v.root, v.sb, v.src = root, sb, src
    gflags, env, goflags = cfg["gflags"], cfg["env"], cfg["goflags"]
    # --- build
    trace = root / f"build{idx}.ndjson"
    dbg = root / f"dbg{idx}" if with_debugdir else None
    bflags = (["-debugdir", str(dbg)] if dbg else []) + gflags
    r = sb.garble(bflags + ["build"] + goflags + ["-o", str(root / f"prog{idx}.bin"), "."], cwd=src,
                  env=dict(env, GARBLE_VERIF_NAMES="1"), trace=trace, timeout=2400)
    if r.returncode != 0:
        raise Inconclusive(f"garble {gflags} build {goflags} failed in configuration {name}:\n{r.stderr[-3000:]}")
    v.build_wall = r.wall
    evs = read_trace(trace)
    pidpkg = {e["pid"]: e["pkg"] for e in evs if e.get("ev") == "compile-start"}
    v.build_names = {}     # (pkg path, evkind, orig) -> obf, from the package's own compile
    v.build_paths = {}
    for e in evs:
        if e.get("ev") == "name" and pidpkg.get(e["pid"]) == e["pkg"]:
            v.build_names[(e["pkg"], e["kind"], e["orig"])] = e["obf"]
        elif e.get("ev") == "tool-run" and e.get("tool") == "compile":
            argv = e.get("argv") or []
            if "-p" in argv:
                v.build_paths[e["pkg"]] = argv[argv.index("-p") + 1]
    v.compiled = set(pidpkg.values())
    trace.unlink()
    if after_build is not None:
        after_build(v)
    v.garbled_idents = None
    if dbg is not None:
        v.garbled_idents = {}
        for label, ip in PKGS13.items():
            toks = set()
            d = dbg / "garbled" / ip
            if d.is_dir():
                for f in d.iterdir():
                    if f.suffix == ".go":
                        toks |= set(re.findall(r"[A-Za-z_][A-Za-z0-9_]*", f.read_text(errors="replace")))
            v.garbled_idents[label] = toks
        rmtree(dbg)
    # --- map
    r = sb.garble(gflags + ["map"] + goflags + ["./..."], cwd=src, env=env, timeout=1200)
    if r.returncode != 0:
        raise Inconclusive(f"garble {gflags} map failed in configuration {name}:\n{r.stderr[-3000:]}")
    v.map_wall = r.wall
    try:
        v.map = json.loads(r.stdout)
    except ValueError as e:
        raise Inconclusive(f"garble map printed no JSON in configuration {name}: {e}")
    # --- reverse: every listed name of the module and of the std sample, and every obfuscated import path
    lines, keys = [], []
    for ip in list(PKGS13.values()) + [STD_SAMPLE]:
        ent = v.map.get(ip)
        if ent is None:
            continue
        if ent["path"] != ip and ent["path"] != "main":
            lines.append(ent["path"])
            keys.append((ip, "<path>"))
        for k, nm in sorted(ent["objects"].items()):
            lines.append(nm)
            keys.append((ip, k))
    v.reverse = {}
    v.reverse_wall = 0.0
    if lines:
        r = sb.garble(gflags + ["reverse"] + goflags + ["."], cwd=src, env=env, stdin="\n".join(lines) + "\n", timeout=1200)
        if r.returncode not in (0, 1):
            raise Inconclusive(f"garble {gflags} reverse failed in configuration {name}:\n{r.stderr[-3000:]}")
        v.reverse_wall = r.wall
        out = r.stdout.split("\n")
        if len(out) < len(lines):
            raise Inconclusive(f"garble reverse printed {len(out)} lines for {len(lines)} input lines")
        for (ip, k), inp, o in zip(keys, lines, out):
            v.reverse[(ip, k)] = (inp, o)
    return v


def main(tier, seed, replay=None):
    only = None
    if replay:
        # re-run only the configuration of a recorded violation: --replay <replay dir>
        only = json.loads((Path(replay) / "witness.json").read_text())["witness"]["config"]
    chk = Check("C13", tier, seed)
    chk.rule = ("one evaluation per (configuration, package, object) of the generated module and per sampled std object; "
                "distinct = (configuration, object kind, exported, package role, aspect) with aspect in map-vs-build, map-complete, reverse, path")
    chk.assumptions = [
        "objects are matched by their unique original names; the objectpath key of every generated object is predicted by the harness "
        "(source-order method indexes, sorted interface methods) and, where the prediction misses, the entry is found by its value",
        "API-reachable is Salts.tla's ApiReachable (objectpath's reachability without type parameters and local objects)",
        "std is sampled by the package-level objects of `strings` (keys without a dot)",
        "the spec decides nothing about object kinds the generator does not produce (cgo, test packages, vendored std, dot imports)",
    ]
    work = mkscratch("c13")
    rng = chk.rng

    # ---- 1. model
    tw = mkscratch("c13-tlc")
    r = tlc_must_pass("Salts", "Salts-c13.cfg", workdir=tw, timeout=900)
    chk.add_tlc(r)
    rows = json.loads((tw / "salts_objects.json").read_text())["rows"]
    table = {(x["kind"], x["exported"], x["role"]): x for x in rows}
    strict = tlc("Salts", "Salts-c13-strict.cfg", timeout=900)
    chk.add_tlc(strict)
    chk.extra["tlc_leads_strict"] = strict.violated
    predicted_gaps = sorted({(x["kind"], "map-vs-build") for x in rows if x["listed"] and not x["mapEqBuild"]} |
                            {(x["kind"], "reverse") for x in rows if x["listed"] and not x["reversed"]})
    chk.extra["model_predicted_gaps"] = [list(g) for g in predicted_gaps]
    if predicted_gaps and not strict.violated:
        raise Inconclusive("the strict configuration of Salts.tla passes although the table predicts gaps")
    if tier == "thorough":
        rej = {}
        for cfgname in ("Salts-c13-mutant-map.cfg", "Salts-c13-mutant-reverse.cfg"):
            mr = tlc("Salts", cfgname, timeout=900)
            rej[cfgname] = mr.violated
            if not mr.violated:
                raise Inconclusive(f"TLC does not reject the deviation {cfgname}")
        chk.extra["tlc_rejects_deviations"] = rej

    # ---- 2. real runs
    build_garble("verif")
    defs = config_defs(rng)
    if tier == "quick":
        chosen = ["default", "tags", rng.choice(["seed", "tiny", "gogarble"])]
    else:
        chosen = ["default", "tags", "seed", "tiny", "gogarble"]
    if only:
        chosen = ["default"] + ([only] if only != "default" else [])
    _, objects = saltmap_program()
    views = {}
    linker = work / "linker-tool"
    ready = threading.Event()
    failed = []

    def snapshot_linker(v):
        copytree(v.sb.gcache / "tool", linker)
        ready.set()

    def do(name):
        try:
            if name == "default":   # first: it also builds the patched linker; then the tagged build on its warm caches
                views["default"] = run_config(work, 0, "default", defs["default"], None, objects, False, after_build=snapshot_linker)
                if "tags" in chosen:
                    views["tags"] = run_config(work, 1, "tags", defs["tags"], linker, objects, False, chain_after=views["default"])
                return
            ready.wait()
            if not failed:
                views[name] = run_config(work, 2 + chosen.index(name), name, defs[name], linker, objects, False)
        except BaseException as e:
            failed.append(e)
            ready.set()

    parallel(do, [c for c in chosen if c != "tags"], workers=4)
    if failed:
        raise failed[0]
    views = {c: views[c] for c in chosen}
    chk.extra["runs"] = {n: {"build_s": round(v.build_wall, 1), "map_s": round(v.map_wall, 1), "reverse_s": round(v.reverse_wall, 1)} for n, v in views.items()}

    # ---- 3. oracle + table
    drift = []
    key_misses = 0
    stats = {"objects": 0, "listed": 0, "reversed": 0, "std_objects": 0}

    seen_viol = {}

    def viol(v, aspect, obj_kind, exported, role, detail, what):
        # one replay artifact per (aspect, kind, exported, role); further occurrences are only counted
        vk = f"{aspect}/{obj_kind}/{exported}/{role}"
        seen_viol.setdefault(vk, []).append(v.name + ":" + str(detail.get("orig", detail.get("package", ""))))
        if len(seen_viol[vk]) > 1:
            return
        witness = {"aspect": aspect, "kind": obj_kind, "exported": exported, "role": role, "config": v.name}
        witness.update({k: detail[k] for k in ("orig", "package") if k in detail})
        files = {"case.json": json.dumps(dict(detail, witness=witness, garble_flags=v.cfg["gflags"], env=v.cfg["env"], go_flags=v.cfg["goflags"]), indent=1, default=str),
                 "map.json": json.dumps({ip: v.map.get(ip) for ip in PKGS13.values()}, indent=1),
                 "build_names.json": json.dumps({"|".join(k): nm for k, nm in v.build_names.items() if k[0].startswith(MOD13)}, indent=1),
                 "src": v.src}
        chk.violation(witness, files, what=what)

    for cname, v in views.items():
        cfg = v.cfg
        for label, ip in PKGS13.items():
            role = cfg["roles"][label]
            ent = v.map.get(ip)
            if role == "excluded":
                if ent is not None:
                    viol(v, "map-vs-build", "package", True, role, {"package": ip, "map": ent},
                         f"garble map lists {ip}, which the build with the same GOGARBLE does not obfuscate")
                ent = {"path": ip, "objects": {}}
            elif ent is None:
                viol(v, "map-complete", "package", True, role, {"package": ip}, f"garble map omits the obfuscated package {ip}")
                continue
            else:
                bp = v.build_paths.get(ip)
                chk.case([cname, "package", True, role, "path"])
                if bp is not None and ent["path"] != bp:
                    viol(v, "path", "package", True, role, {"package": ip, "map_path": ent["path"], "build_p": bp},
                         f"map says {ip} becomes {ent['path']!r}, the build compiled it with -p {bp!r}")
            mobjs = ent["objects"]
            used_keys = set()
            for ob in objects[label]:
                present = ob.when == "always" or (ob.when == "tag") == cfg["tag"]
                row = table[(ob.kind, ob.exported if ob.kind not in ("typeparam", "local", "embedded") else True, role)]
                stats["objects"] += 1
                bkey = (ip,) + (ob.build_as if ob.build_as else (ob.evkind, ob.orig))
                bname = v.build_names.get(bkey) if (present and ob.evkind) else None
                mname = mobjs.get(ob.key) if ob.key else None
                if mname is not None:
                    used_keys.add(ob.key)
                elif bname is not None and not ob.build_as:
                    hits = [k for k, nm in mobjs.items() if nm == bname and k not in used_keys and ("." in k) == ("." in (ob.key or "."))]
                    # a method of an interface and of its implementation share one name: only take unclaimed keys of the same owner
                    hits = [k for k in hits if ob.owner is None or k.split(".")[0] == ob.owner]
                    if hits:
                        mname = bname
                        used_keys.add(hits[0])
                        key_misses += 1
                detail = {"package": ip, "orig": ob.orig, "kind": ob.kind, "key": ob.key, "map_name": mname, "build_name": bname, "present": present}
                if not present:
                    if mname is not None:
                        viol(v, "map-vs-build", ob.kind, ob.exported, role, detail,
                             f"garble map {' '.join(cfg['goflags'])} lists {ob.orig}, which is not part of the build under these tags")
                    continue
                real_renamed, real_listed = bname is not None, mname is not None
                for aspect in ("map-vs-build", "map-complete", "reverse"):
                    chk.case([cname, ob.kind, ob.exported, role, aspect],
                             sample=dict(detail, config=cname) if (ob.kind in ("field", "embedded", "imethod") and label == "lib" and aspect == "map-vs-build") else None)
                eq = None
                if real_listed:
                    stats["listed"] += 1
                    eq = (mname == bname)
                    if not eq:
                        if v.garbled_idents is not None:
                            detail["map_name_in_garbled_source"] = mname in v.garbled_idents[label]
                            detail["build_name_in_garbled_source"] = bname in v.garbled_idents[label] if bname else None
                        viol(v, "map-vs-build", ob.kind, ob.exported, role, detail,
                             f"garble map names {ip}.{ob.orig} ({ob.kind}) {mname!r}, the build names it {bname!r}")
                if real_renamed and row["reachable"] and not real_listed:
                    viol(v, "map-complete", ob.kind, ob.exported, role, detail,
                         f"{ip}.{ob.orig} ({ob.kind}) is renamed by the build ({bname!r}) and reachable through the API but not listed by garble map")
                rev = None
                if real_listed:
                    inp, outp = v.reverse.get((ip, ob.key), (None, None))
                    if inp is None:   # found by value under another key
                        cand = [val for (p2, k2), val in v.reverse.items() if p2 == ip and val[0] == mname]
                        inp, outp = cand[0] if cand else (None, None)
                    rev = (outp == ob.orig)
                    detail["reverse_output"] = outp
                    if rev:
                        stats["reversed"] += 1
                    else:
                        viol(v, "reverse", ob.kind, ob.exported, role, detail,
                             f"garble reverse prints {outp!r} for {mname!r}, the listed name of {ip}.{ob.orig} ({ob.kind})")
                # model drift (never a verdict)
                exp = {"renamed": row["renamed"], "listed": row["listed"]}
                got = {"renamed": real_renamed, "listed": real_listed}
                if row["listed"] and real_listed:
                    exp.update(mapEqBuild=row["mapEqBuild"], reversed=row["reversed"])
                    got.update(mapEqBuild=eq, reversed=rev)
                if exp != got:
                    drift.append({"config": cname, "package": label, "orig": ob.orig, "kind": ob.kind, "model": exp, "real": got})
            # every remaining key of the module's map entry must be a name the build really uses
            bvals = {nm for k, nm in v.build_names.items() if k[0] == ip}
            for k, nm in mobjs.items():
                if k in used_keys:
                    continue
                if nm not in bvals:
                    viol(v, "map-vs-build", "unknown-key", True, role, {"package": ip, "key": k, "map_name": nm},
                         f"garble map lists {ip} {k} = {nm!r}, a name the build gives to no object of the package")
                else:
                    key_misses += 1
        # std sample
        ent = v.map.get(STD_SAMPLE)
        std_obf = any(k[0] == STD_SAMPLE for k in v.build_names)
        if ent is None and std_obf and STD_SAMPLE in v.compiled:
            viol(v, "map-complete", "package", True, "std", {"package": STD_SAMPLE}, "garble map omits the obfuscated std package strings")
        if ent is not None and STD_SAMPLE in v.compiled:
            bp = v.build_paths.get(STD_SAMPLE)
            if bp is not None and ent["path"] != bp:
                viol(v, "path", "package", True, "std", {"package": STD_SAMPLE, "map_path": ent["path"], "build_p": bp}, "std import path differs between map and build")
            if ent["path"] != STD_SAMPLE:
                inp, outp = v.reverse.get((STD_SAMPLE, "<path>"), (None, None))
                if outp != STD_SAMPLE:
                    viol(v, "reverse", "package", True, "std", {"package": STD_SAMPLE, "reverse_output": outp}, "garble reverse does not restore the import path of strings")
            own = {}
            for (p2, kind, orig), nm in v.build_names.items():
                if p2 == STD_SAMPLE and kind in ("type", "func", "variable"):
                    own.setdefault(orig, {})[kind] = nm
            for k, nm in sorted(ent["objects"].items()):
                if "." in k:
                    continue
                stats["std_objects"] += 1
                chk.case([cname, "std", k[:1].isupper(), "std", "map-vs-build"], nontrivial=False)
                cands = own.get(k, {})
                if nm not in cands.values():
                    viol(v, "map-vs-build", "std-object", k[:1].isupper(), "std", {"package": STD_SAMPLE, "orig": k, "map_name": nm, "build_names": cands},
                         f"garble map names strings.{k} {nm!r}, the build {cands}")
                    continue
                kind = [kk for kk, vv in cands.items() if vv == nm][0]
                inp, outp = v.reverse.get((STD_SAMPLE, k), (None, None))
                if outp != k:
                    viol(v, "reverse", "var" if kind == "variable" else "std-" + kind, k[:1].isupper(), "std",
                         {"package": STD_SAMPLE, "orig": k, "map_name": nm, "reverse_output": outp},
                         f"garble reverse prints {outp!r} for the listed name of strings.{k}")
            # exported package-level objects of strings that the build renamed must be listed
            for orig, kinds in own.items():
                if orig[:1].isupper() and orig not in ent["objects"] and "variable" not in kinds:
                    viol(v, "map-complete", "std-object", True, "std", {"package": STD_SAMPLE, "orig": orig, "build_names": kinds},
                         f"strings.{orig} is renamed by the build but not listed by garble map")
        # the module's obfuscated import paths must reverse
        for label, ip in PKGS13.items():
            if (ip, "<path>") in v.reverse:
                inp, outp = v.reverse[(ip, "<path>")]
                chk.case([cname, "package", True, cfg["roles"][label], "reverse"])
                if outp != ip:
                    viol(v, "reverse", "package", True, cfg["roles"][label], {"package": ip, "map_path": inp, "reverse_output": outp},
                         f"garble reverse prints {outp!r} for the obfuscated import path of {ip}")

    chk.extra.update(stats)
    chk.extra["failing_objects"] = {k: {"count": len(x), "where": x[:6]} for k, x in sorted(seen_viol.items())}
    chk.extra["configs"] = list(views)
    chk.extra["objectpath_key_prediction_misses"] = key_misses
    chk.extra["table_rows"] = len(rows)
    if drift:
        kinds = sorted({(d["kind"], json.dumps(d["model"], sort_keys=True), json.dumps(d["real"], sort_keys=True)) for d in drift})
        print(f"MODEL-MISMATCH: property=C13 {len(drift)} objects behave differently from the Salts.tla table "
              f"(the property's statement is evaluated on the real outputs): {kinds[:5]}", flush=True)
        chk.extra["model_drift"] = drift[:40]
    if stats["listed"] == 0:
        raise Inconclusive("garble map listed nothing of the generated module")
    chk.traces_validated = len(views)
    chk.exhaustive = tier == "thorough" and not only
    for v in views.values():
        rmtree(v.sb.root)
    return finish_replay(chk) if only else chk.finish()


if __name__ == "__main__":
    main_wrapper(main)
