"""Program generator and build matrix shared by C01, C02 (and later C13).

The cells come from spec/Naming.tla (TLC serialises every legal
(object, reference) combination with its MustRename / Kept / MustVanish verdicts).
`generate(cells, tag)` turns a list of cells into one multi-package Go module:

    srcdir_zqv<tag>/                      module  zqv<tag>.example.com/zqvmod<tag>.v1dots
      zqvcmd<tag>/                        package main  (3 Go files: plain / dot / named import of dep, 1 .s, 1 .h)
      zqvdepdir<tag>/                     package zqvdeppkg<tag> (Go, .s, .h)
      zqvdepdir<tag>/zqvleaf.dotted<tag>/ package zqvleafpkg<tag> (blank-imported, registers itself in dep from init)

Every identifier, file, directory, module and package name is unique and recognisable
(contains "zqv"), every cell prints one line "c<id>=<value>" computed from data only, and
the value is also predicted in Python.  Public API:

    load_cells(workdir)            -> (cells, packages, TLCResult)   (runs TLC on Naming.tla)
    generate(cells, tag, rng=None) -> Program  (.files, .module, .expected(k), .planted, .ldflags, ...)
    pack(cells, size, rng)         -> list of cell lists respecting name conflicts
    CONFIGS / Matrix               -> builds with go and garble, runs, collects traces
"""
from __future__ import annotations

import json
import os
import re
import sys
import threading
from concurrent.futures import ThreadPoolExecutor
from pathlib import Path

sys.path.insert(0, str(Path(__file__).resolve().parent.parent))
from vf.core import *  # noqa

KIND_TAG = {"pkgvar": "Pv", "const": "Cn", "func": "Fn", "method": "Me", "ifaceMethod": "Im", "type": "Ty", "alias": "Al",
            "genericType": "Gt", "field": "Fd", "embeddedField": "Ef", "embeddedAlias": "Ea", "typeParam": "Tp",
            "local": "Lo", "label": "Lb", "typeSwitchVar": "Ts"}
# kind reported by the `name` hook (verifNameEvent) for each of our kinds
EVENT_KIND = {"pkgvar": "variable", "local": "variable", "typeSwitchVar": "variable", "field": "field", "type": "type",
              "alias": "type", "genericType": "type", "typeParam": "type", "embeddedField": "type", "embeddedAlias": "type",
              "func": "func", "method": "method", "ifaceMethod": "method", "const": None, "label": None}
FIXED_NAMES = {"main": "main", "init": "init", "TestMain": "TestMain"}


def cell_key(c):
    return (c["kind"], c["exported"], c["nameClass"], c["home"], c["fromPkg"], c["view"])


def cell_label(c):
    return f"{c['view']}/{c['kind']}/{'exp' if c['exported'] else 'unexp'}/{c['nameClass']}/{c['fromPkg']}->{c['home']}"


def load_cells(workdir: Path, cfg="Naming-quick.cfg"):
    """Run TLC on Naming.tla; returns (cells sorted deterministically with ids, package rows by toobf key, TLCResult)."""
    r = tlc_must_pass("Naming", cfg, workdir=workdir, timeout=1500, workers=4)
    d = json.loads((Path(workdir) / "naming_cells.json").read_text())
    cells = sorted(d["cells"], key=lambda c: json.dumps(cell_key(c)))
    for i, c in enumerate(cells):
        c["id"] = i + 1
    pk = {row["toobf"]: row for row in d["packages"]}
    return cells, pk, r


class Obj:
    """A planted name."""

    def __init__(self, name, kind, exported, name_class, home, role, cell_id, unique=True):
        self.name, self.kind, self.exported, self.name_class, self.home = name, kind, exported, name_class, home
        self.role, self.cell_id, self.unique = role, cell_id, unique

    def as_dict(self):
        return dict(self.__dict__)


class Program:
    def __init__(self, tag):
        self.tag = tag
        self.files = {}
        self.module = ""
        self.srcdir = f"srcdir_zqv{tag}"
        self.maindir = f"zqvcmd{tag}"
        self.depdir = f"zqvdepdir{tag}"
        self.leafdir = f"zqvleaf.dotted{tag}"
        self.deppkg = f"zqvdeppkg{tag}"
        self.leafpkg = f"zqvleafpkg{tag}"
        self.cells = []
        self.calls = []      # (cell id, go call expr from main, python fn k -> value)
        self.planted = []    # Obj
        self.ldflags = []    # "-X=..." items
        self.strings = []    # (string, package, what) : import paths, file names, dirs, package names
        self.skipped = []    # cells the generator cannot express in this tier (with reason)

    # import paths
    @property
    def mainpath(self):
        return f"{self.module}/{self.maindir}"

    @property
    def deppath(self):
        return f"{self.module}/{self.depdir}"

    @property
    def leafpath(self):
        return f"{self.deppath}/{self.leafdir}"

    @property
    def basepath(self):
        return f"{self.deppath}/zqvbase{self.tag}"

    def path_of(self, pkg):
        return {"main": self.mainpath, "dep": self.deppath}[pkg]

    def gogarble(self, toobf):
        return {"TT": None, "TF": self.mainpath, "FT": self.deppath}[toobf]

    def k_of(self, args):
        k = 3
        for a in args:
            k = k * 7 + int(a)
        return k % 1000

    def expected(self, args):
        """(stdout text, exit status) predicted for the given runtime arguments."""
        k = self.k_of(args)
        total = 0
        lines = []
        for cid, _, fn in self.calls:
            v = fn(k)
            total += v * (cid % 17 + 1)
            lines.append(f"c{cid}={v}\n")
        # the two call-free functions (zqvNoCall / ZqvNoCallD), one per package
        total += 2 * (k * 2 + 1 if k > 3 else k + 1)
        lines.append(f"total={total}\n")
        return "".join(lines), total % 113


def asm_path(p):
    return p.replace("/", "∕").replace(".", "·")


class _Gen:
    def __init__(self, cells, tag, rng, with_tests=False):
        self.p = Program(tag)
        self.tag = tag
        self.rng = rng
        self.with_tests = with_tests
        p = self.p
        p.module = f"zqv{tag}.example.com/zqvmod{tag}.v1dots"
        p.cells = list(cells)
        # Go snippets per (package, file)
        self.decl = {("main", "a"): [], ("main", "dot"): [], ("main", "named"): [], ("dep", "a"): [],
                     ("dep", "test"): [], ("dep", "xtest"): [], ("main", "test"): [], ("base", "a"): []}
        self.asm = {"main": [], "dep": []}
        self.hdr = {"main": [], "dep": []}
        self.imports = {k: set() for k in self.decl}
        self.alias = f"zqvalias{tag}"

    # ------------------------------------------------------------------ names
    def nm(self, kind_tag, n, exported):
        return f"{'Zqv' if exported else 'zqv'}{kind_tag}{n}{self.tag}q"

    def plant(self, name, kind, exported, home, role="helper", cell_id=None, name_class="plain", unique=True):
        self.p.planted.append(Obj(name, kind, exported, name_class, home, role, cell_id, unique))
        return name

    def helper(self, role_tag, n, kind, exported, home):
        return self.plant(self.nm("H" + role_tag, n, exported), kind, exported, home)

    def objname(self, c):
        n = c["id"]
        cl = c["nameClass"]
        if cl in FIXED_NAMES:
            name, uniq = FIXED_NAMES[cl], False
        elif cl == "TestX":
            name, uniq = f"TestZqv{KIND_TAG[c['kind']]}{n}{self.tag}q", True
        elif cl == "intrinsic":
            name, uniq = "Len64", False
        else:
            name, uniq = self.nm(KIND_TAG[c["kind"]], n, c["exported"]), True
        self.plant(name, c["kind"], c["exported"], c["home"], "cell", n, cl, uniq)
        return name

    # ------------------------------------------------------------------ plumbing
    def add(self, pkg, file, text):
        self.decl[(pkg, file)].append(text.rstrip() + "\n")

    def keep(self, pkg):
        return f"zqvKeep{self.tag}q" if pkg == "main" else f"zqvKeepD{self.tag}q"

    def runfn(self, c, file="a"):
        """Name of the per-cell run function; declared in fromPkg; returns (name, call expression from main)."""
        n = c["id"]
        if c["fromPkg"] == "main":
            name = self.plant(self.nm("Run", n, False), "func", False, "main")
            return name, f"{name}(k)"
        name = self.plant(self.nm("Run", n, True), "func", True, "dep")
        return name, f"{self.p.deppkg}.{name}(k)"

    def emit_run(self, c, body, fn, file="a"):
        name, call = self.runfn(c, file)
        self.add(c["fromPkg"], file, f"//go:noinline\nfunc {name}(k int) int {{\n{body.rstrip()}\n}}\n")
        self.p.calls.append((c["id"], call, fn))

    def qual(self, c, file="a"):
        """Prefix used in fromPkg's file to name an exported package-level object of home."""
        if c["fromPkg"] == c["home"]:
            return ""
        if file == "dot":
            return ""
        if file == "named":
            return self.alias + "."
        return self.p.deppkg + "."

    # ------------------------------------------------------------------ Go views
    def emit_go(self, c):
        view, kind, n, cl = c["view"], c["kind"], c["id"], c["nameClass"]
        file = {"DotImport": "dot", "NamedImport": "named"}.get(view, "a")
        P, H = c["fromPkg"], c["home"]
        cross = P != H
        A = 100 + 13 * n
        keep = self.keep(P)
        if cl in ("TestX", "TestMain"):
            return self.emit_test(c)
        if cl == "intrinsic":
            self.objname(c)
            if view == "NamedImport":
                self.imports[(P, file)].add(f'zqvbits{self.tag} "math/bits"')
                body = f"\treturn zqvbits{self.tag}.Len64(uint64({A} + k))"
            else:
                self.imports[(P, file)].add('"math/bits"')
                body = f"\treturn bits.Len64(uint64({A} + k))"
            return self.emit_run(c, body, lambda k, A=A: (A + k).bit_length(), file)
        name = self.objname(c)
        Q = self.qual(c, file)
        X = cross  # helpers referenced from the other package must be exported
        refl = cl == "reflected"
        if refl:
            self.imports[(P, file)].add('"reflect"')

        if kind == "pkgvar":
            self.add(H, "a", f"var {name} = {A}")
            return self.emit_run(c, f"\treturn {Q}{name} + k", lambda k: A + k, file)
        if kind == "const":
            self.add(H, "a", f"const {name} = {A}")
            return self.emit_run(c, f"\treturn {Q}{name} + k", lambda k: A + k, file)
        if kind == "func":
            if cl == "main" and H == "main":
                return self.emit_run(c, f"\treturn {A} + k // func main of package main is this program's entry point", lambda k: A + k, file)
            if cl == "init":
                st = self.helper("st", n, "pkgvar", False, H)
                self.add(H, "a", f"var {st} int\n\nfunc init() {{ {st} += {A} }}")
                return self.emit_run(c, f"\treturn {st} + k", lambda k: A + k, file)
            self.add(H, "a", f"//go:noinline\nfunc {name}(k int) int {{ return {A} + k }}")
            return self.emit_run(c, f"\treturn {Q}{name}(k)", lambda k: A + k, file)
        if kind in ("type", "alias", "genericType"):
            hf = self.helper("fd", n, "field", True, H)
            inst = ""
            if kind == "type":
                self.add(H, "a", f"type {name} struct{{ {hf} int }}")
            elif kind == "alias":
                ht = self.helper("ty", n, "type", X, H)
                self.add(H, "a", f"type {ht} struct{{ {hf} int }}\n\ntype {name} = {ht}")
            else:
                tp = self.helper("tp", n, "typeParam", False, H)
                self.add(H, "a", f"type {name}[{tp} any] struct{{ {hf} {tp} }}")
                inst = "[int]"
            extra, add = "", 0
            if refl:
                extra, add = " + reflect.TypeOf(x).NumField()", 1
            body = f"\tx := {Q}{name}{inst}{{{hf}: {A}}}\n\t{keep}(x)\n\treturn x.{hf} + k{extra}"
            return self.emit_run(c, body, lambda k: A + k + add, file)
        if kind == "method":
            ht = self.helper("ty", n, "type", X, H)
            hf = self.helper("fd", n, "field", X, H)
            ptr = self.rng.random() < 0.4
            recv = f"*{ht}" if ptr else ht
            self.add(H, "a", f"type {ht} struct{{ {hf} int }}\n\n//go:noinline\nfunc (t {recv}) {name}(k int) int {{ return {A} + t.{hf} + k }}")
            pre = f"\tx := {'&' if ptr else ''}{Q}{ht}{{{hf}: 1}}\n\t{keep}(x)\n"
            if view == "MethodValue":
                body = pre + f"\tf := x.{name}\n\treturn f(k)"
            elif view == "MethodExpr":
                body = pre + (f"\treturn (*{Q}{ht}).{name}(x, k)" if ptr else f"\treturn {Q}{ht}.{name}(x, k)")
            else:
                body = pre + f"\treturn x.{name}(k)"
            return self.emit_run(c, body, lambda k: A + 1 + k, file)
        if kind == "ifaceMethod":
            hi = self.helper("if", n, "type", X, H)
            hm = self.helper("im", n, "type", X, H)
            hf = self.helper("fd", n, "field", X, H)
            self.add(H, "a", f"type {hi} interface{{ {name}(k int) int }}\n\ntype {hm} struct{{ {hf} int }}\n\n"
                             f"//go:noinline\nfunc (m {hm}) {name}(k int) int {{ return {A} + m.{hf} + k }}")
            pre = f"\tvar i {Q}{hi} = {Q}{hm}{{{hf}: 2}}\n\t{keep}(i)\n"
            if view == "MethodValue":
                body = pre + f"\tf := i.{name}\n\treturn f(k)"
            elif view == "MethodExpr":
                body = pre + f"\treturn {Q}{hi}.{name}(i, k)"
            else:
                body = pre + f"\treturn i.{name}(k)"
            return self.emit_run(c, body, lambda k: A + 2 + k, file)
        if kind == "field":
            extra, add = "", 0
            if not cross and view in ("GoIdent", "Selector") and not refl and self.rng.random() < 0.3:
                # a field of an anonymous struct type
                hv = self.helper("an", n, "pkgvar", False, H)
                self.add(H, "a", f"var {hv} struct {{\n\t{name} int\n\tzqvHpd{n}{self.tag}q int\n}}")
                self.plant(f"zqvHpd{n}{self.tag}q", "field", False, H)
                body = f"\t{hv}.{name} = {A}\n\t{keep}({hv})\n\treturn {hv}.{name} + k"
                return self.emit_run(c, body, lambda k: A + k, file)
            ht = self.helper("ty", n, "type", X, H)
            hp = self.helper("pd", n, "field", False, H)
            self.add(H, "a", f"type {ht} struct {{\n\t{name} int\n\t{hp} int\n}}")
            if refl:
                extra, add = " + reflect.TypeOf(x).NumField()", 2
            if view == "CompositeKey":
                body = f"\tx := {Q}{ht}{{{name}: {A} + k}}\n\t{keep}(x)\n\treturn x.{name}{extra}"
            else:
                body = f"\tvar x {Q}{ht}\n\tx.{name} = {A}\n\t{keep}(x)\n\treturn x.{name} + k{extra}"
            return self.emit_run(c, body, lambda k: A + k + add, file)
        if kind in ("embeddedField", "embeddedAlias"):
            hf = self.helper("fd", n, "field", True, H)
            if kind == "embeddedField":
                self.add(H, "a", f"type {name} struct{{ {hf} int }}")
            elif self.rng.random() < 0.5:
                hg = self.helper("gt", n, "genericType", X, H)
                tp = self.helper("tp", n, "typeParam", False, H)
                self.add(H, "a", f"type {hg}[{tp} any] struct{{ {hf} {tp} }}\n\ntype {name} = {hg}[int]")
            else:
                ht = self.helper("ty", n, "type", X, H)
                self.add(H, "a", f"type {ht} struct{{ {hf} int }}\n\ntype {name} = {ht}")
            ho = self.helper("ou", n, "type", False, P)
            hp = self.helper("pd", n, "field", False, P)
            ptr = view in ("Selector", "CompositeKey") and self.rng.random() < 0.3
            self.add(P, file, f"type {ho} struct {{\n\t{'*' if ptr else ''}{Q}{name}\n\t{hp} int\n}}")
            extra, add = "", 0
            if refl:
                extra, add = " + reflect.TypeOf(o).NumField()", 2
            amp = "&" if ptr else ""
            if view == "GoIdent":
                body = f"\tvar o {ho}\n\to.{hf} = {A}\n\t{keep}(o)\n\treturn o.{hf} + k{extra}"
            elif view == "Selector":
                init = f"\to.{name} = new({Q}{name})\n" if ptr else ""
                body = f"\tvar o {ho}\n{init}\to.{name}.{hf} = {A}\n\t{keep}(o)\n\treturn o.{name}.{hf} + k{extra}"
            elif view == "CompositeKey":
                body = f"\to := {ho}{{{name}: {amp}{Q}{name}{{{hf}: {A}}}}}\n\t{keep}(o)\n\treturn o.{hf} + k{extra}"
            else:  # DotImport / NamedImport: declaration, composite key and selector in one
                body = f"\to := {ho}{{{name}: {Q}{name}{{{hf}: {A}}}}}\n\t{keep}(o)\n\treturn o.{name}.{hf} + k{extra}"
            return self.emit_run(c, body, lambda k: A + k + add, file)
        if kind == "typeParam":
            hg = self.helper("gf", n, "func", False, H)
            self.add(H, "a", f"//go:noinline\nfunc {hg}[{name} any](v {name}) {name} {{\n\tvar z {name} = v\n\treturn z\n}}")
            return self.emit_run(c, f"\treturn {hg}[int]({A}) + k", lambda k: A + k, file)
        if kind == "local":
            body = f"\t{name} := {A} + k\n\tf := func() int {{ {name}++; return {name} }}\n\treturn f() + {name}"
            return self.emit_run(c, body, lambda k: 2 * (A + k + 1), file)
        if kind == "label":
            body = (f"\tr := 0\n{name}:\n\tfor i := 0; i < 5; i++ {{\n\t\tfor j := 0; j < 5; j++ {{\n\t\t\tif j == 2 {{\n\t\t\t\tcontinue {name}\n\t\t\t}}\n"
                    f"\t\t\tif i == 3 {{\n\t\t\t\tbreak {name}\n\t\t\t}}\n\t\t\tr += {A}\n\t\t}}\n\t}}\n\treturn r + k")
            return self.emit_run(c, body, lambda k: 6 * A + k, file)
        if kind == "typeSwitchVar":
            body = (f"\tvar v any = {A}\n\tif k%2 == 1 {{\n\t\tv = \"s\"\n\t}}\n\tswitch {name} := v.(type) {{\n\tcase int:\n\t\treturn {name} + k\n"
                    f"\tcase string:\n\t\treturn len({name}) + k\n\t}}\n\treturn 0")
            return self.emit_run(c, body, lambda k: (1 + k) if k % 2 == 1 else (A + k), file)
        raise Inconclusive(f"generator: no Go template for {cell_label(c)}")

    # ------------------------------------------------------------------ tests (thorough)
    def emit_test(self, c):
        if not self.with_tests:
            self.p.skipped.append((c["id"], "needs a _test.go file (garble test modules only)"))
            return
        H = c["home"]
        name = self.objname(c)
        self.imports[(H, "test")].add('"testing"')
        if c["nameClass"] == "TestMain":
            self.imports[(H, "test")].add('"os"')
            st = self.helper("tm", c["id"], "pkgvar", False, H)
            self.add(H, "test", f"var {st} int\n\nfunc TestMain(m *testing.M) {{\n\t{st} = {c['id']}\n\tos.Exit(m.Run())\n}}\n\n"
                                f"func TestZqvTm{c['id']}{self.tag}q(t *testing.T) {{\n\tif {st} != {c['id']} {{\n\t\tt.Fatal(\"TestMain did not run\")\n\t}}\n}}")
        else:
            self.add(H, "test", f"func {name}(t *testing.T) {{\n\tif {c['id']}+1 != {c['id'] + 1} {{\n\t\tt.Fatal(\"arithmetic\")\n\t}}\n}}")

    # ------------------------------------------------------------------ linkname / asm / go_asm.h / -X
    def sympath(self, pkg):
        """The package part of a linker symbol: package main is always "main"."""
        return {"main": "main", "dep": self.p.deppath, "base": self.p.basepath}[pkg]

    def asm_stub_go(self, pkg, stub, sig):
        self.add(pkg, "a", f"func {stub}{sig}")

    def emit_sym(self, c):
        view, kind, n, cl = c["view"], c["kind"], c["id"], c["nameClass"]
        P, H = c["fromPkg"], c["home"]
        cross = P != H
        A = 100 + 13 * n
        keep = self.keep(P)
        if cl == "TestX":
            if not self.with_tests:
                self.p.skipped.append((n, "a test signature needs package testing (thorough tier)"))
                return
            self.imports[(H, "a")].add('"testing"')
        name = self.objname(c)
        is_test = cl == "TestX"
        sig = "(t *testing.T)" if is_test else "(k int) int"
        call_args = "(nil)" if is_test else "(k)"

        def fbody(val):  # body of a Go-implemented target function
            return "{ }" if is_test else f"{{ return {val} + k }}"

        def run_func(callee):
            if is_test:
                return self.emit_run(c, f"\t{callee}(nil)\n\treturn {A} + k", lambda k: A + k)
            return self.emit_run(c, f"\treturn {callee}(k)", lambda k: A + k)

        if view == "LinknameLocal":
            Qp = "dep"  # the package that implements the symbol
            if kind == "func":
                ht = self.helper("lt", n, "func", False, Qp)
                self.add(Qp, "a", f"//go:noinline\nfunc {ht}{sig} {fbody(A)}")
                self.add(P, "a", f"//go:linkname {name} {self.sympath(Qp)}.{ht}\nfunc {name}{sig}")
                return run_func(name)
            # a variable cannot be linknamed to a variable of its own package: dep pulls from its own dependency
            Qp = "dep" if P == "main" else "base"
            hv = self.helper("lv", n, "pkgvar", False, "dep")
            self.add(Qp, "a", f"var {hv} = {A}")
            self.add(P, "a", f"//go:linkname {name} {self.sympath(Qp)}.{hv}\nvar {name} int")
            return self.emit_run(c, f"\treturn {name} + k", lambda k: A + k)
        if view == "LinknameForeign":
            if kind == "func":
                self.add(H, "a", f"//go:noinline\nfunc {name}{sig} {fbody(A)}")
                hl = self.helper("ll", n, "func", False, P)
                self.add(P, "a", f"//go:linkname {hl} {self.sympath(H)}.{name}\nfunc {hl}{sig}")
                return run_func(hl)
            self.add(H, "a", f"var {name} = {A}")
            hl = self.helper("ll", n, "pkgvar", False, P)
            self.add(P, "a", f"//go:linkname {hl} {self.sympath(H)}.{name}\nvar {hl} int")
            return self.emit_run(c, f"\treturn {hl} + k", lambda k: A + k)
        if view in ("LinknameMethod", "LinknamePtrMethod"):
            ptr = view == "LinknamePtrMethod"
            ht = self.helper("ty", n, "type", True, H)
            hf = self.helper("fd", n, "field", True, H)
            recv = f"*{ht}" if ptr else ht
            self.add(H, "a", f"type {ht} struct{{ {hf} int }}\n\n//go:noinline\nfunc (t {recv}) {name}(k int) int {{ return {A} + t.{hf} + k }}")
            hl = self.helper("ll", n, "func", False, P)
            sym = f"{self.sympath(H)}.(*{ht}).{name}" if ptr else f"{self.sympath(H)}.{ht}.{name}"
            Q = self.qual(c)
            self.add(P, "a", f"//go:linkname {hl} {sym}\nfunc {hl}({'*' if ptr else ''}{Q}{ht}, int) int")
            body = f"\tx := {Q}{ht}{{{hf}: 3}}\n\treturn {hl}({'&' if ptr else ''}x, k)"
            return self.emit_run(c, body, lambda k: A + 3 + k)
        if view in ("AsmUnqualified", "AsmQualified"):
            qualified = view == "AsmQualified"
            symprefix = ""
            if qualified:
                symprefix = "main" if H == "main" else asm_path(self.p.deppath)
            hs = self.helper("as", n, "func", False, P)
            if kind == "func":
                if cross:
                    # a Go function of another package has no ABI0 symbol: the target is implemented in assembly
                    self.add(H, "a", f"func {name}{sig}")
                    # the Go declaration is also used from Go code of its own package
                    hg = self.helper("gc", n, "func", True, H)
                    self.add(H, "a", f"//go:noinline\nfunc {hg}{sig} {{ {'' if is_test else 'return '}{name}({'t' if is_test else 'k'}) }}")
                    self.add(P, "a", f"var _ = {self.p.deppkg}.{hg}\n\nfunc init() {{ {keep}({self.p.deppkg}.{hg}) }}")
                    if is_test:
                        self.asm[H].append(f"TEXT ·{name}(SB),NOSPLIT,$0-8\n\tRET\n")
                    else:
                        self.asm[H].append(f"TEXT ·{name}(SB),NOSPLIT,$0-16\n\tMOVQ k+0(FP), AX\n\tADDQ ${A}, AX\n\tMOVQ AX, ret+8(FP)\n\tRET\n")
                else:
                    self.add(H, "a", f"//go:noinline\nfunc {name}{sig} {fbody(A)}")
                self.asm_stub_go(P, hs, sig)
                self.asm[P].append(f"TEXT ·{hs}(SB),NOSPLIT,${'0-8' if is_test else '0-16'}\n\tJMP {symprefix}·{name}(SB)\n")
                return run_func(hs)
            self.add(H, "a", f"var {name} = int64({A})")
            self.asm_stub_go(P, hs, "() int64")
            self.asm[P].append(f"TEXT ·{hs}(SB),NOSPLIT,$0-8\n\tMOVQ {symprefix}·{name}(SB), AX\n\tMOVQ AX, ret+0(FP)\n\tRET\n")
            return self.emit_run(c, f"\treturn int({hs}()) + k", lambda k: A + k)
        if view in ("GoAsmHSize", "GoAsmHField", "GoAsmHConst"):
            hs = self.helper("as", n, "func", False, P)
            self.asm_stub_go(P, hs, "() int64")
            if view == "GoAsmHConst":
                self.add(H, "a", f"const {name} = {A}")
                macro, val, use = f"const_{name}", A, ""
            elif view == "GoAsmHSize":
                fa, fb = self.helper("fa", n, "field", False, H), self.helper("fb", n, "field", False, H)
                self.add(H, "a", f"type {name} struct{{ {fa}, {fb} int64 }}")
                macro, val, use = f"{name}__size", 16 * A, f"\t{keep}({name}{{}})\n"
            else:
                hp = self.helper("pd", n, "field", False, H)
                if kind == "field":
                    ht = self.helper("ty", n, "type", False, H)
                    self.add(H, "a", f"type {ht} struct {{\n\t{hp} int64\n\t{name} int64\n}}")
                else:
                    hf = self.helper("fd", n, "field", False, H)
                    if kind == "embeddedField":
                        self.add(H, "a", f"type {name} struct{{ {hf} int64 }}")
                    else:
                        hb = self.helper("tb", n, "type", False, H)
                        self.add(H, "a", f"type {hb} struct{{ {hf} int64 }}\n\ntype {name} = {hb}")
                    ht = self.helper("ou", n, "type", False, H)
                    self.add(H, "a", f"type {ht} struct {{\n\t{hp} int64\n\t{name}\n}}")
                macro, val, use = f"{ht}_{name}", 8 * A, f"\t{keep}({ht}{{}})\n"
            mult = {"GoAsmHConst": 1, "GoAsmHSize": A, "GoAsmHField": A}[view]
            self.asm[P].append(f"TEXT ·{hs}(SB),NOSPLIT,$0-8\n\tMOVQ ${macro}, AX\n\tMOVQ AX, ret+0(FP)\n\tRET\n")
            return self.emit_run(c, f"{use}\treturn int({hs}())*{mult} + k", lambda k: val + k)
        if view == "StructConversion":
            f2 = self.helper("c2", n, "field", True, H)
            sd, sm = self.helper("sd", n, "type", True, H), self.helper("sm", n, "type", False, P)
            self.add(H, "a", f"type {sd} struct {{\n\t{name} int\n\t{f2} string `json:\"zqvtag{n}\"`\n}}")
            self.add(P, "a", f"type {sm} struct {{\n\t{name} int\n\t{f2} string\n}}")
            body = (f"\td := {self.p.deppkg}.{sd}{{{name}: {A} + k, {f2}: \"ab\"}}\n\tm := {sm}(d)\n\t{keep}(m)\n\tback := {self.p.deppkg}.{sd}(m)\n"
                    f"\treturn m.{name} + len(back.{f2})")
            return self.emit_run(c, body, lambda k: A + k + 2)
        if view == "LdflagsX":
            inj = f"zqvinj{n}{self.tag}v"
            self.add(H, "a", f"var {name} = \"zqvorig{n}\"")
            # the variable is set twice, a default first and the override last (layered build scripts): the linker
            # lets the LAST -X win, so garble's duplicated flag must be produced per occurrence, in order
            self.p.ldflags.append(f"-X={self.sympath(H)}.{name}=zqvdef{n}{self.tag}d")
            self.p.ldflags.append(f"-X={self.sympath(H)}.{name}={inj}")
            if H == "main":
                read = name
            else:
                acc = self.helper("ac", n, "func", True, H)
                self.add(H, "a", f"//go:noinline\nfunc {acc}() string {{ return {name} }}")
                read = f"{self.p.deppkg}.{acc}()"
            body = f"\ts := {read}\n\tr := 0\n\tfor i := 0; i < len(s); i++ {{\n\t\tr += int(s[i])\n\t}}\n\treturn r + k"
            return self.emit_run(c, body, lambda k: sum(inj.encode()) + k)
        raise Inconclusive(f"generator: no template for {cell_label(c)}")

    # ------------------------------------------------------------------ extras: cross-cell interactions
    def emit_extras(self):
        p, t = self.p, self.tag
        D = p.deppkg
        base = 100000

        def call(i, expr, fn):
            p.calls.append((base + i, expr, fn))

        def H(role, kind, exported, home):
            return self.helper(role, 0, kind, exported, home)
        # E1: closure over a package variable and a local
        cv = H("xcv", "pkgvar", False, "main")
        cf = H("xcf", "func", False, "main")
        self.add("main", "a", f"var {cv} = 5\n\n//go:noinline\nfunc {cf}(k int) int {{\n\tacc := k\n\tstep := func(d int) func() int {{\n\t\treturn func() int {{ acc += d; {cv}++; return acc }}\n\t}}\n"
                              f"\ta, b := step(2), step(3)\n\ta()\n\tb()\n\treturn a() + {cv}\n}}")
        call(1, f"{cf}(k)", lambda k: k + 7 + 8)
        # E2: Test-prefixed functions WITHOUT a test signature (universe-typed parameter, `any`, no parameter): they are
        # ordinary functions and are renamed; isTestSignature must cope with a named type that has no package (F015)
        tu, ta, tn = f"TestZqvUni{t}q", f"TestZqvAny{t}q", f"TestZqvNone{t}q"
        for nm_ in (tu, ta, tn):
            self.plant(nm_, "func", True, "main")
        self.add("main", "a", f"//go:noinline\nfunc {tu}(err error) int {{\n\tif err != nil {{\n\t\treturn 1\n\t}}\n\treturn 2\n}}\n\n"
                              f"//go:noinline\nfunc {ta}(v any) int {{\n\tif v == nil {{\n\t\treturn 0\n\t}}\n\treturn 1\n}}\n\n"
                              f"//go:noinline\nfunc {tn}() int {{ return 3 }}")
        call(2, f"{tu}(nil) + {ta}(k) + {tn}() + k", lambda k: 2 + 1 + 3 + k)
        # E3: blank import registering itself from init; E6: init order across packages
        reg, regd, regv = H("xrg", "func", True, "dep"), H("xrd", "func", True, "dep"), H("xrv", "pkgvar", False, "dep")
        self.add("dep", "a", f"var {regv} = 1\n\nfunc init() {{ {regv} *= 10 }}\n\nfunc {reg}(v int) {{ {regv} += v }}\n\n//go:noinline\nfunc {regd}() int {{ return {regv} }}")
        mi = H("xmi", "pkgvar", False, "main")
        self.add("main", "a", f"var {mi} int\n\nfunc init() {{ {mi} = {D}.{regd}() * 2 }}")
        call(3, f"{D}.{regd}() + {mi} + k", lambda k: 17 + 34 + k)
        # E4: an interface of dep with an unexported method, held by main
        ui, um, ue, ut, un = (H("xui", "type", True, "dep"), H("xum", "ifaceMethod", False, "dep"), H("Xue", "ifaceMethod", True, "dep"),
                              H("xut", "type", False, "dep"), H("xun", "func", True, "dep"))
        self.add("dep", "a", f"type {ui} interface {{\n\t{um}() int\n\t{ue}(k int) int\n}}\n\ntype {ut} struct{{ v int }}\n\n//go:noinline\nfunc (x {ut}) {um}() int {{ return x.v }}\n\n"
                             f"//go:noinline\nfunc (x {ut}) {ue}(k int) int {{ var i {ui} = x; return i.{um}() + k }}\n\nfunc {un}(v int) {ui} {{ return {ut}{{v}} }}")
        call(4, f"{D}.{un}(11).{ue}(k)", lambda k: 11 + k)
        # E5: an assembly function built from a macro of a private header, in both packages
        for pkg in ("main", "dep"):
            an = H("xan" + pkg[0], "func", pkg == "dep", pkg)
            self.asm_stub_go(pkg, an, "() int64")
            mac = f"ZQVMAC{pkg.upper()}{t.upper()}Q"
            self.hdr[pkg].append(f"#define {mac}(r) \\\n\tMOVQ $41, r\n")
            self.asm[pkg].append(f"TEXT ·{an}(SB),NOSPLIT,$0-8\n\t{mac}(AX)\n\tMOVQ AX, ret+0(FP)\n\tRET\n")
            call(5 if pkg == "main" else 6, f"int({an}()) + k" if pkg == "main" else f"int({D}.{an}()) + k", lambda k: 41 + k)
        # E7: goto and a labelled block
        gl, gf = H("xgl", "label", False, "main"), H("xgf", "func", False, "main")
        self.add("main", "a", f"//go:noinline\nfunc {gf}(k int) int {{\n\ti, r := 0, 0\n{gl}:\n\tif i < 4 {{\n\t\tr += i + k\n\t\ti++\n\t\tgoto {gl}\n\t}}\n\treturn r\n}}")
        call(7, f"{gf}(k)", lambda k: 6 + 4 * k)
        # E8: embedded alias of a generic struct declared in dep, used through the dot import
        gt, ga, gfld, tp = H("xgt", "genericType", True, "dep"), H("xga", "embeddedAlias", True, "dep"), H("xgd", "field", True, "dep"), H("xtp", "typeParam", False, "dep")
        go_, gfn = H("xgo", "type", False, "main"), H("xgn", "func", False, "main")
        self.add("dep", "a", f"type {gt}[{tp} any] struct{{ {gfld} {tp} }}\n\ntype {ga} = {gt}[int]")
        self.add("main", "dot", f"type {go_} struct {{\n\t{ga}\n\tn int\n}}\n\n//go:noinline\nfunc {gfn}(k int) int {{\n\to := {go_}{{{ga}: {ga}{{{gfld}: k}}, n: 1}}\n\t{self.keep('main')}(o)\n\treturn o.{ga}.{gfld} + o.{gfld} + o.n\n}}")
        call(8, f"{gfn}(k)", lambda k: 2 * k + 1)
        # E9: promoted method through an embedded interface, used as a method value
        pi, pm, ps, pim, pf = H("xpi", "type", False, "main"), H("xpm", "ifaceMethod", False, "main"), H("xps", "type", False, "main"), H("xpx", "type", False, "main"), H("xpf", "func", False, "main")
        self.add("main", "a", f"type {pi} interface{{ {pm}(int) int }}\n\ntype {pim} int\n\n//go:noinline\nfunc (v {pim}) {pm}(k int) int {{ return int(v) + k }}\n\ntype {ps} struct{{ {pi} }}\n\n"
                              f"//go:noinline\nfunc {pf}(k int) int {{\n\ts := {ps}{{{pim}(9)}}\n\tf := s.{pm}\n\treturn f(k)\n}}")
        call(9, f"{pf}(k)", lambda k: 9 + k)
        self.leaf_reg = reg

    # ------------------------------------------------------------------ test files (thorough)
    def emit_test_extras(self):
        p, t = self.p, self.tag
        self.imports[("dep", "test")].add('"testing"')
        self.imports[("main", "test")].add('"testing"')
        hv = self.helper("tv", 0, "pkgvar", False, "dep")
        hx = self.helper("tx", 0, "func", True, "dep")
        # export_test.go style bridge + internal test + external test package
        self.add("dep", "test", f"var {hv} = 4\n\nfunc {hx}() int {{ return {hv} }}\n\nfunc TestZqvInt{t}q(t *testing.T) {{\n\tif {hv} != 4 {{\n\t\tt.Fatal(\"internal\")\n\t}}\n}}")
        self.plant(f"TestZqvInt{t}q", "func", True, "dep", name_class="TestX")
        self.add("dep", "xtest", f"func TestZqvExt{t}q(t *testing.T) {{\n\tif {p.deppkg}.{hx}() != 4 {{\n\t\tt.Fatal(\"external\")\n\t}}\n}}\n\n"
                                  f"func TestZqvFail{t}q(t *testing.T) {{\n\tif {p.deppkg}.{hx}() == 4 {{\n\t\tt.Fail()\n\t}}\n}}")
        self.add("main", "test", f"func TestZqvMainPkg{t}q(t *testing.T) {{\n\tif zqvAtoi{t}q(\"12\") != 12 {{\n\t\tt.Fatal(\"atoi\")\n\t}}\n}}")

    # ------------------------------------------------------------------ assembling the files
    def finish(self, extras):
        p, t = self.p, self.tag
        D = p.deppkg
        if extras:
            self.emit_extras()
            if self.with_tests:
                self.emit_test_extras()
        keepm, keepd = self.keep("main"), self.keep("dep")
        self.plant(keepm, "func", False, "main")
        self.plant(keepd, "func", False, "dep")
        sinkm, sinkd = self.plant(f"zqvSink{t}q", "pkgvar", False, "main"), self.plant(f"zqvSinkD{t}q", "pkgvar", False, "dep")
        anchor = self.plant(f"ZqvAnchor{t}q", "const", True, "dep")
        atoi, itoa = self.plant(f"zqvAtoi{t}q", "func", False, "main"), self.plant(f"zqvItoa{t}q", "func", False, "main")
        # one file per package without any call expression (and without comments): position.go gives it no /*line*/
        # directive at all, so only the file-level "//line :1" header keeps its name out of the binary
        nocm, nocd = self.plant(f"zqvNoCall{t}q", "func", False, "main"), self.plant(f"ZqvNoCallD{t}q", "func", True, "dep")

        def imports(key, fixed):
            items = list(fixed) + sorted(self.imports[key])
            return "import (\n" + "".join(f"\t{i}\n" for i in items) + ")\n\n"
        calls = "".join(f"\temit({cid}, {expr})\n" for cid, expr, _ in p.calls)
        has_leaf = extras
        main_a = ("// zqvcomment" + t + " main package of the generated program\npackage main\n\n"
                  + imports(("main", "a"), ['"os"', '_ "unsafe"', f'"{p.deppath}"'] + ([f'_ "{p.leafpath}"'] if has_leaf else []))
                  + f"var {sinkm} any\n\n//go:noinline\nfunc {keepm}(x any) {{ {sinkm} = x }}\n\nvar _ = {D}.{anchor}\n\n"
                  + f"func {atoi}(s string) int {{\n\tn := 0\n\tfor i := 0; i < len(s); i++ {{\n\t\tif s[i] >= '0' && s[i] <= '9' {{\n\t\t\tn = n*10 + int(s[i]-'0')\n\t\t}}\n\t}}\n\treturn n\n}}\n\n"
                  + f"func {itoa}(n int) string {{\n\tif n == 0 {{\n\t\treturn \"0\"\n\t}}\n\tneg := n < 0\n\tif neg {{\n\t\tn = -n\n\t}}\n\tvar b [24]byte\n\ti := len(b)\n\tfor n > 0 {{\n\t\ti--\n\t\tb[i] = byte('0' + n%10)\n\t\tn /= 10\n\t}}\n"
                    f"\tif neg {{\n\t\ti--\n\t\tb[i] = '-'\n\t}}\n\treturn string(b[i:])\n}}\n\n"
                  + "".join(s + "\n" for s in self.decl[("main", "a")])
                  + "func main() {\n\tk := 3\n\tfor _, a := range os.Args[1:] {\n\t\tk = k*7 + " + atoi + "(a)\n\t}\n\tk %= 1000\n\ttotal := 0\n"
                    "\temit := func(id int, v int) {\n\t\ttotal += v * (id%17 + 1)\n\t\tos.Stdout.WriteString(\"c\" + " + itoa + "(id) + \"=\" + " + itoa + "(v) + \"\\n\")\n\t}\n"
                  + calls + f"\ttotal += {nocm}(k) + {D}.{nocd}(k)\n"
                  + "\tos.Stdout.WriteString(\"total=\" + " + itoa + "(total) + \"\\n\")\n\tos.Exit(total % 113)\n}\n")
        fm = f"zqvfile_main_{t}"
        fd = f"zqvfile_dep_{t}"
        files = {f"{p.maindir}/{fm}_a.go": main_a}
        files[f"{p.maindir}/{fm}_dot.go"] = ("package main\n\n" + imports(("main", "dot"), [f'. "{p.deppath}"']) + f"var _ = {anchor}\n\n"
                                              + "".join(s + "\n" for s in self.decl[("main", "dot")]))
        files[f"{p.maindir}/{fm}_named.go"] = ("package main\n\n" + imports(("main", "named"), [f'{self.alias} "{p.deppath}"']) + f"var _ = {self.alias}.{anchor}\n\n"
                                                + "".join(s + "\n" for s in self.decl[("main", "named")]))
        files[f"{p.depdir}/{fd}_a.go"] = (f"// Package {D} zqvcomment{t}\npackage {D}\n\n" + imports(("dep", "a"), ['_ "unsafe"'] + ([f'_ "{p.basepath}"'] if self.decl[("base", "a")] else []))
                                           + f"const {anchor} = 1\n\nvar {sinkd} any\n\n//go:noinline\nfunc {keepd}(x any) {{ {sinkd} = x }}\n\n"
                                           + "".join(s + "\n" for s in self.decl[("dep", "a")]))
        nocall_body = "(x int) int {\n\tif x > 3 {\n\t\treturn x*2 + 1\n\t}\n\treturn x + 1\n}\n"
        files[f"{p.maindir}/{fm}_nocall.go"] = f"package main\n\n//go:noinline\nfunc {nocm}" + nocall_body
        files[f"{p.depdir}/{fd}_nocall.go"] = f"package {D}\n\n//go:noinline\nfunc {nocd}" + nocall_body
        if self.decl[("base", "a")]:
            files[f"{p.depdir}/zqvbase{t}/zqvfile_base_{t}.go"] = f"package zqvbasepkg{t}\n\n" + "".join(s + "\n" for s in self.decl[("base", "a")])
            p.strings += [(f"zqvbase{t}", "dep", "importpath"), (f"zqvbasepkg{t}", "dep", "pkgname"), (f"zqvfile_base_{t}", "dep", "gofile")]
        if has_leaf:
            lc = self.plant(f"zqvLeafInit{t}q", "pkgvar", False, "dep")
            files[f"{p.depdir}/{p.leafdir}/zqvfile_leaf_{t}.go"] = (f"package {p.leafpkg}\n\nimport \"{p.deppath}\"\n\nvar {lc} = 7\n\nfunc init() {{ {D}.{self.leaf_reg}({lc}) }}\n")
        for pkg, d in (("main", p.maindir), ("dep", p.depdir)):
            hname = f"zqvhdr_{pkg}_{t}_amd64.h"
            inc = f'#include "{hname}"\n' if self.hdr[pkg] else ""
            files[f"{d}/zqvasm_{pkg}_{t}_amd64.s"] = ('#include "textflag.h"\n#include "go_asm.h"\n' + inc + f"\n// zqvasmcomment{t}\n" + "\n".join(self.asm[pkg]))
            if self.hdr[pkg]:
                files[f"{d}/{hname}"] = "\n".join(self.hdr[pkg])
            p.strings += [(f"zqvasm_{pkg}_{t}_amd64", pkg, "asmfile"), (f"zqvhdr_{pkg}_{t}", pkg, "header")]
        if self.with_tests and extras:
            files[f"{p.depdir}/{fd}_int_test.go"] = (f"package {D}\n\n" + imports(("dep", "test"), []) + "".join(s + "\n" for s in self.decl[("dep", "test")]))
            files[f"{p.depdir}/{fd}_ext_test.go"] = (f"package {D}_test\n\n" + imports(("dep", "xtest"), ['"testing"', f'"{p.deppath}"']) + "".join(s + "\n" for s in self.decl[("dep", "xtest")]))
            files[f"{p.maindir}/{fm}_test.go"] = ("package main\n\n" + imports(("main", "test"), []) + "".join(s + "\n" for s in self.decl[("main", "test")]))
        files["go.mod"] = f"module {p.module}\n\ngo 1.26\n"
        p.files = files
        p.strings += [(fm, "main", "gofile"), (fd, "dep", "gofile"), (p.mainpath, "main", "importpath"), (p.deppath, "dep", "importpath"),
                      (p.maindir, "main", "importpath"), (p.depdir, "dep", "importpath"), (D, "dep", "pkgname"),
                      (f"zqvcomment{t}", "main", "gofile"), (f"zqvasmcomment{t}", "main", "asmfile"), (f"zqvmod{t}", "module", "importpath"),
                      (p.srcdir, "main", "srcdir")]
        if has_leaf:
            p.strings += [(p.leafdir, "dep", "importpath"), (p.leafpkg, "dep", "pkgname"), (f"zqvfile_leaf_{t}", "dep", "gofile")]
        return p


SYM_VIEWS = {"StructConversion", "LinknameLocal", "LinknameForeign", "LinknameMethod", "LinknamePtrMethod", "AsmQualified", "AsmUnqualified",
             "GoAsmHSize", "GoAsmHField", "GoAsmHConst", "LdflagsX"}


def generate(cells, tag, rng=None, extras=True, with_tests=False) -> Program:
    """Turn cells into one Go module (see the module docstring)."""
    import random
    g = _Gen(cells, tag, rng or random.Random(0), with_tests)
    for c in cells:
        before = len(g.p.planted)
        if c["view"] in SYM_VIEWS:
            g.emit_sym(c)
        else:
            g.emit_go(c)
        if c["nameClass"] == "reflected":
            # the types and fields reachable from a value handed to reflect keep their names too
            for o in g.p.planted[before:]:
                if o.role == "helper" and o.kind in ("type", "field", "embeddedField", "embeddedAlias", "genericType", "alias"):
                    o.name_class = "reflected"
    return g.finish(extras)


def conflict_keys(c):
    keys = set()
    if c["nameClass"] in ("main", "TestMain") and c["kind"] in ("func", "pkgvar"):
        keys.add((c["home"], c["nameClass"]))
    return keys


def pack(cells, size, rng):
    """Distribute cells over modules of at most `size` cells (balanced); cells that declare the
    same fixed package-level name never share a module."""
    cells = list(cells)
    rng.shuffle(cells)
    groups = {}
    for c in cells:
        for k in conflict_keys(c):
            groups[k] = groups.get(k, 0) + 1
    nmods = max([-(-len(cells) // size)] + list(groups.values())) if cells else 0
    mods = [{"cells": [], "keys": set()} for _ in range(nmods)]
    # conflicting cells first, then fill the emptiest module
    for c in sorted(cells, key=lambda c: -len(conflict_keys(c))):
        ks = conflict_keys(c)
        cands = [m for m in mods if not (ks & m["keys"])]
        if not cands:
            mods.append({"cells": [], "keys": set()})
            cands = [mods[-1]]
        m = min(cands, key=lambda m: len(m["cells"]))
        m["cells"].append(c)
        m["keys"] |= ks
    return [sorted(m["cells"], key=lambda c: c["id"]) for m in mods if m["cells"]]


# =========================================================================== build matrix
class Config:
    def __init__(self, name, flags=(), toobf="TT", names=False):
        self.name, self.flags, self.toobf, self.names = name, list(flags), toobf, names

    def __repr__(self):
        return self.name


def configs_for(tier, rng):
    import base64
    seed = base64.b64encode(rng.randbytes(9)).decode()
    cfgs = [Config("default", [], "TT", names=True), Config("tiny", ["-tiny"]), Config("seed", [f"-seed={seed}"]),
            Config("literals", ["-literals"]), Config("gogarble-main", [], "TF", names=True), Config("gogarble-dep", [], "FT", names=True)]
    if tier == "thorough":
        seed2 = base64.b64encode(rng.randbytes(12)).decode()
        cfgs += [Config("all-flags", ["-tiny", "-literals", f"-seed={seed2}"]), Config("seed-random", ["-seed=random"])]
    only = os.environ.get("VERIF_NAMING_CONFIGS")   # development knob: restrict the configurations
    if only:
        cfgs = [c for c in cfgs if c.name in only.split(",")]
    return cfgs


class Built:
    def __init__(self, prog, cfg, res, binary, trace, tmpdir, cmd, cwd, env):
        self.prog, self.cfg, self.res, self.binary, self.trace, self.tmpdir = prog, cfg, res, binary, trace, tmpdir
        self.cmd, self.cwd, self.env = cmd, cwd, env
        self.runs = {}   # tuple(args) -> Result

    @property
    def ok(self):
        return self.res.returncode == 0 and self.binary.exists()

    def describe(self):
        envs = " ".join(f"{k}={v}" for k, v in sorted(self.env.items()))
        return f"cd {self.cwd} && {envs} {' '.join(str(c) for c in self.cmd)}"


_MEMO = {}   # in-process cache: (matrix id, module tag, config name) -> Built


class Matrix:
    """Builds generated modules with the regular toolchain and with garble under several
    configurations, one private sandbox (GOCACHE, GARBLE_CACHE) per configuration."""

    def __init__(self, name, garble_bin=None):
        self.root = mkscratch(name)
        self.src = self.root / "src"
        self.bin = self.root / "bin"
        self.src.mkdir()
        self.bin.mkdir()
        self.garble_bin = garble_bin or build_garble("verif")
        self.sandboxes = {}
        self.lock = threading.Lock()
        self.linker_seed = None
        self.garble_builds = 0
        self.want_names = True

    def write(self, prog):
        d = self.src / prog.srcdir
        if not d.exists():
            write_module(d, prog.files)
        return d

    def sandbox(self, key):
        with self.lock:
            sb = self.sandboxes.get(key)
            if sb is None:
                sb = Sandbox(self.root / f"sb-{key}", template=(key != "go"), garble_bin=self.garble_bin, tmpdir=self.root / f"tmp_zqv{key.replace('-', '')}out")
                if self.linker_seed is not None and (self.linker_seed / "tool").exists() and not (sb.gcache / "tool").exists():
                    copytree(self.linker_seed / "tool", sb.gcache / "tool")
                self.sandboxes[key] = sb
            return sb

    def prime_linker(self, prog, cfg):
        """The first garble link builds the patched linker (13 s); do it once and copy it to the other sandboxes."""
        b = self.garble(prog, cfg)
        self.linker_seed = self.sandbox(cfg.name).gcache
        return b

    def regular(self, prog) -> Built:
        key = (id(self), prog.tag, "go")
        if key in _MEMO:
            return _MEMO[key]
        d = self.write(prog)
        sb = self.sandbox("go")
        out = self.bin / f"zqvbin_go_{prog.tag}"
        cmd = ["go", "build", "-o", str(out)] + ([f"-ldflags={' '.join(prog.ldflags)}"] if prog.ldflags else []) + ["./" + prog.maindir]
        res = sb.go(cmd[1:], cwd=d)
        b = Built(prog, Config("go"), res, out, None, None, cmd, d, {})
        _MEMO[key] = b
        return b

    def garble(self, prog, cfg, tmp_inside=False, extra_env=None) -> Built:
        key = (id(self), prog.tag, cfg.name)
        if key in _MEMO:
            return _MEMO[key]
        d = self.write(prog)
        sb = self.sandbox(cfg.name)
        out = self.bin / f"zqvbin_{cfg.name}_{prog.tag}"
        trace = self.root / f"trace-{cfg.name}-{prog.tag}.ndjson"
        env = {}
        gg = prog.gogarble(cfg.toobf)
        if gg:
            env["GOGARBLE"] = gg
        if cfg.names and self.want_names:
            env["GARBLE_VERIF_NAMES"] = "1"
        tmpdir = sb.tmpdir
        if tmp_inside:
            # inside the directory of the main package (which has assembly): the go command's own -trimpath
            # entry for that directory is then a shorter prefix of every file garble writes
            tmpdir = d / prog.maindir / f"tmp_zqv{prog.tag}in"
            tmpdir.mkdir(exist_ok=True)
            env["TMPDIR"] = str(tmpdir)
        if extra_env:
            env.update(extra_env)
        args = cfg.flags + ["build", "-o", str(out)] + ([f"-ldflags={' '.join(prog.ldflags)}"] if prog.ldflags else []) + ["./" + prog.maindir]
        res = sb.garble(args, cwd=d, env=env, trace=trace, timeout=1800)
        with self.lock:
            self.garble_builds += 1
        b = Built(prog, cfg, res, out, trace, tmpdir, ["garble"] + args, d, env)
        _MEMO[key] = b
        return b

    def run_binary(self, built, args, timeout=60):
        t = tuple(args)
        if t not in built.runs:
            env = {"PATH": "/usr/bin:/bin", "HOME": str(self.root)}
            built.runs[t] = run([built.binary] + list(args), cwd=self.root, env=env, timeout=timeout)
        return built.runs[t]

    def garble_all(self, progs, cfgs, tmp_inside=lambda prog_i, cfg_i: False, workers=None, select=lambda prog_i, cfg_i: True):
        """Every selected (program, configuration) pair; configurations run in parallel (one sandbox each)."""
        out = {}
        if not progs or not cfgs:
            return out
        if self.linker_seed is None:
            out[(progs[0].tag, cfgs[0].name)] = self.prime_linker(progs[0], cfgs[0]) if not tmp_inside(0, 0) else self.garble(progs[0], cfgs[0], True)
            self.linker_seed = self.sandbox(cfgs[0].name).gcache

        def work(ci):
            cfg = cfgs[ci]
            for pi, prog in enumerate(progs):
                if select(pi, ci):
                    out[(prog.tag, cfg.name)] = self.garble(prog, cfg, tmp_inside(pi, ci))
        with ThreadPoolExecutor(max_workers=workers or min(len(cfgs), parallelism())) as ex:
            list(ex.map(work, range(len(cfgs))))
        return out

    def cleanup(self):
        rmtree(self.root)


def parallelism(default=3):
    """How many garble / go builds the checks run at once (VERIF_NAMING_PARALLEL)."""
    return max(1, int(os.environ.get("VERIF_NAMING_PARALLEL", str(default))))


def quick_select(tier, seed):
    """Quick tier: every module under the first configuration, every other configuration on every second
    module (rotating with the seed); thorough: everything."""
    if tier != "quick":
        return lambda pi, ci: True
    return lambda pi, ci: ci == 0 or (pi + ci + seed) % 2 == 0


def arg_vectors(rng, n):
    vecs = [[]]
    while len(vecs) < n:
        vecs.append([str(rng.randrange(1, 500)) for _ in range(len(vecs))])
    return vecs


def split_cells(cells):
    """(normal cells, lead cells, cells that need a _test.go file)."""
    normal, leads, tests = [], [], []
    for c in cells:
        if c["lead"] != "none":
            leads.append(c)
        elif c["nameClass"] in ("TestX", "TestMain"):
            tests.append(c)
        else:
            normal.append(c)
    return normal, leads, tests


def verdict_for(cells_by_key, obj, home_toobf_key):
    """Spec verdict (GoIdent row) for a planted object under a ToObfuscate key such as "TT"."""
    k = (obj.kind, obj.exported, obj.name_class, obj.home, obj.home, "GoIdent")
    c = cells_by_key.get(k)
    if c is None and obj.name_class != "plain":
        c = cells_by_key.get((obj.kind, obj.exported, "plain", obj.home, obj.home, "GoIdent"))
    if c is None:
        return None
    return c["verdict"][home_toobf_key]
