#!/usr/bin/env python3
"""C11 - Control-flow obfuscation preserves function behaviour.

Spec: spec/CtrlFlow.tla.  TLC (i) evaluates, for a family of 49 small CFG shapes, the SSA
semantics of the source and the semantics of the code that ssa2ast's phi lowering emits, and
serialises both predictions per input together with the predicted cause of any difference;
(ii) explores the transcribed transformations (trash, split, junk, flatten, hardening) on a
subset of the shapes and checks SameAsLowered / SameTrace / TrashNeverRuns / JunkIsPureJump /
PhiEdgesMatchPreds / DispatchReachesTarget / KeysDistinctNonZero; (iii) with block_splits and
trash_blocks combined it is EXPECTED to find a counterexample (lead for F110).

Binding (B2, behaviour replay): every shape has a Go template generated from the same
parameters; the real go/ssa CFG of the template is compared with the model's skeleton, the
regular build's output with TLC's SSA prediction, and the output of the code produced by the
REAL ctrlflow.Obfuscate + ssa2ast (in-process through harness/cmd/cfdrv with seeded and
scripted generators, and through whole `garble build` runs with
GARBLE_EXPERIMENTAL_CONTROLFLOW=1) with the regular build.  Only the last comparison decides:
a build that fails is a rejection (allowed); a build that succeeds and behaves differently from
the `go build` binary is a violation unless it matches a known finding.
"""
import json
import os
import sys
import threading

sys.path.insert(0, str(__import__("pathlib").Path(__file__).resolve().parent))
from cf_common import *  # noqa

PID = "C11"

# directive parameter sets: (name, kwargs, programs, number of seeds, small)
#   programs: which of ("shapes", "lib") get it; small: only a sample of the shapes (big emitted code)
def param_sets(tier):
    if tier == "quick":
        return [
            ("lower-only", dict(passes=0), ("shapes",), 1, False),
            ("default", dict(passes=1), ("shapes", "lib"), 2, False),
            ("junk-xor", dict(junk=6, passes=1, hardening="xor"), ("shapes", "lib"), 1, False),
            ("junk-deleg", dict(junk=3, passes=1, hardening="delegate_table"), ("shapes",), 1, False),
            ("two-pass-both", dict(junk=1, passes=2, hardening="xor,delegate_table"), ("shapes", "lib"), 1, True),
            ("junk-max", dict(junk="max", passes=1), ("shapes",), 1, True),
            ("trash", dict(junk=2, passes=1, trash=3, hardening="xor"), ("shapes", "lib"), 1, False),
        ]
    return [
        ("lower-only", dict(passes=0), ("shapes", "lib"), 2, False),
        ("default", dict(passes=1), ("shapes", "lib"), 6, False),
        ("junk-xor", dict(junk=6, passes=1, hardening="xor"), ("shapes", "lib"), 4, False),
        ("junk-deleg", dict(junk=3, passes=1, hardening="delegate_table"), ("shapes", "lib"), 4, False),
        ("two-pass-both", dict(junk=1, passes=2, hardening="xor,delegate_table"), ("shapes", "lib"), 3, False),
        ("junk-max", dict(junk="max", passes=1), ("shapes", "lib"), 1, True),
        ("trash", dict(junk=2, passes=1, trash=3, hardening="xor"), ("shapes", "lib"), 4, False),
        ("three-pass", dict(passes=3, hardening="delegate_table"), ("shapes", "lib"), 1, True),
        ("max-pass", dict(passes="max"), ("shapes",), 1, True),
        ("trash-many", dict(passes=1, trash=24, junk=8), ("shapes", "lib"), 1, True),
        ("trash-max", dict(passes=1, trash="max"), ("shapes",), 1, True),
        ("junk-only", dict(junk=10, passes=0), ("shapes", "lib"), 2, False),
    ]


GENERIC_TAGS = ("generic-directive", "generic-method")
SMALL_SHAPES = ["while-y-x-x", "while-t-y-x", "dowhile-t-y-x", "dowhile-t-y-t", "dowhile-y-x-t", "ifmerge-u-v-m", "loopif-x-y-x", "loopbreak-x-y-x"]

SPLIT_SETS = [
    ("split1", dict(splits=1, junk=2, passes=1)),
    ("split2-xor", dict(splits=2, passes=1, hardening="xor")),
    ("split-max", dict(splits="max", junk=3, passes=1, hardening="delegate_table")),
]
TRASH_SPLIT = ("trash+split", dict(splits=2, trash=3, passes=1))


def config_class(kw):
    return "trash+split" if kw.get("trash", 0) and kw.get("splits", 0) else "plain"


class Ctx:
    pass


MAX_REPLAY_ARTIFACTS = 6


def report(ctx, chk, witness, files, what):
    """chk.violation, but only the first few (non-known) violations carry the full source trees."""
    n = len(chk.violations)
    if n >= MAX_REPLAY_ARTIFACTS:
        files = {k: v for k, v in files.items() if not isinstance(v, Path)}
    return chk.violation(witness, files, what)


def ref_build(ctx, name, files):
    """Regular build + run of a program; cached per program name."""
    d = ctx.root / ("ref-" + name)
    write_module(d, files, module=MODULE)
    b, r = go_build_run(ctx.sb, d, ctx.root / ("ref-" + name + ".bin"))
    if b.returncode != 0 or r is None:
        raise Inconclusive(f"regular build of template program {name} failed:\n{b.stderr[-2000:]}")
    if r.timed_out:
        raise Inconclusive(f"regular build of template program {name} does not terminate")
    return d, r


def judge_shapes(ctx, chk, leads, ref_out, obf_res, kw, how, files, ids=None):
    """Compare one run of the shapes program with the reference, function by function."""
    cc = config_class(kw)
    obf_out = parse_shape_output(obf_res.stderr)
    n_bad = 0
    for sid in sorted(ids if ids is not None else leads):
        l = leads[sid]
        keys = [k for k in ref_out if k[0] == sid]
        diff = [k for k in keys if obf_out.get(k) != ref_out[k]]
        pred_ok = True
        for k_i, inp in enumerate(l["inputs"]):
            key = (sid, inp["n"], inp["a"], inp["b"])
            exp = (l["low"][k_i]["tr"], l["low"][k_i]["ret"])
            if obf_out.get(key) != exp:
                pred_ok = False
        if not diff:
            if l["cause"] != "none" and cc == "plain" and not ctx.mismatch_reported.get(("nobad", sid)):
                ctx.mismatch_reported[("nobad", sid)] = True
                print(f"MODEL-MISMATCH: property={PID} shape {sid}: the model predicts a miscompilation ({l['cause']}) "
                      f"but the real code behaves like the regular build", flush=True)
            continue
        n_bad += 1
        missing = [k for k in diff if k not in obf_out]
        witness = {"kind": "shape", "shape": l["shape"]["fam"], "shape_id": sid, "phi_cause": l["cause"],
                   "as_predicted": pred_ok, "config_class": cc, "how": how,
                   "symptom": "hang-or-crash" if missing else "wrong-output"}
        k0 = diff[0]
        report(ctx, chk, witness, dict(files, **{"expected_vs_observed.json": json.dumps(
            {"call": k0, "regular": ref_out[k0], "obfuscated": obf_out.get(k0), "params": kw,
             "tlc_low_prediction": l["low"], "tlc_ssa_prediction": l["ssa"]}, indent=1, default=str)}),
            what=f"{how}: shape {sid} with {kw}: obfuscated function returns/emits {obf_out.get(k0)} instead of {ref_out[k0]}")
    return n_bad


def judge_lib(ctx, chk, ref_res, obf_res, kw_for, how, files, tags):
    ref = parse_lib_output(ref_res.stderr)
    obf = parse_lib_output(obf_res.stderr)
    n_bad = 0
    for tag in tags:
        if tag not in ref:
            continue
        kw = kw_for(tag)
        if obf.get(tag) == ref[tag]:
            continue
        n_bad += 1
        as_pred = False
        if tag == "range-string-multibyte" and obf.get(tag) == [f1_expected_wrong()]:
            as_pred = True
        if tag == "recover-named-results" and obf.get(tag) == [F2_EXPECTED_WRONG]:
            as_pred = True
        if tag == "defer-modifies-named-result" and obf.get(tag) == [F2B_EXPECTED_WRONG]:
            as_pred = True
        if tag == "select-recv-commaok" and obf.get(tag) == [F111_EXPECTED_WRONG]:
            as_pred = True
        witness = {"kind": "lib", "shape": tag, "as_predicted": as_pred, "config_class": config_class(kw), "how": how,
                   "symptom": "hang-or-crash" if tag not in obf else "wrong-output"}
        report(ctx, chk, witness, dict(files, **{"expected_vs_observed.json": json.dumps(
            {"template": tag, "regular": ref[tag], "obfuscated": obf.get(tag), "params": kw}, indent=1)}),
            what=f"{how}: template {tag} with {kw}: prints {obf.get(tag)} instead of {ref[tag]}")
    # the program ends with an uncaught panic: exit status and panic message must agree
    tail_ref = [l for l in ref_res.stderr.splitlines() if l.startswith("panic:")]
    tail_obf = [l for l in obf_res.stderr.splitlines() if l.startswith("panic:")]
    if (ref_res.returncode, tail_ref[:1]) != (obf_res.returncode, tail_obf[:1]) and not n_bad:
        chk.violation({"kind": "lib", "shape": "uncaught-panic", "as_predicted": False, "config_class": "plain", "how": how,
                       "symptom": "exit-status"},
                      dict(files, **{"expected_vs_observed.json": json.dumps(
                          {"regular": [ref_res.returncode, tail_ref[:1]], "obfuscated": [obf_res.returncode, tail_obf[:1]]})}),
                      what=f"{how}: exit status / panic message differ: {obf_res.returncode} {tail_obf[:1]} vs {ref_res.returncode} {tail_ref[:1]}")
        n_bad += 1
    return n_bad


def inprocess(ctx, chk, name, files, seed0, tries=10):
    """cfdrv + regular compiler + run.  Returns (run Result|None, outdir, status)."""
    src = ctx.root / f"src-{name}"
    write_module(src, files, module=MODULE)
    for attempt in range(tries):
        seed = seed0 + 1000 * attempt
        out = ctx.root / f"obf-{name}-{seed}"
        cfgp = ctx.root / f"obf-{name}-{seed}.cfg.ndjson"
        res = cfdrv(src, out, seed, cfg=cfgp)
        if res.returncode == 3:
            ctx.rejected += 1
            continue
        if res.returncode != 0:
            raise Inconclusive(f"cfdrv failed on {name}: rc={res.returncode}\n{res.stderr[-1500:]}")
        ctx.cfg_dumps.append(cfgp)
        b, r = go_build_run(ctx.sb, out, ctx.root / f"obf-{name}-{seed}.bin", timeout_run=30)
        if b.returncode != 0:
            ctx.compile_rejected += 1
            ctx.compile_errors.append((name, seed, b.stderr[-600:]))
            return None, out, "compile-error"
        return r, out, "ok"
    return None, None, "rejected"


def check_cfg_dumps(ctx, chk):
    """Structural observations on the REAL transformed CFGs (the spec's structural invariants
    evaluated on dumps of the real ssa.Function after ctrlflow ran).  A failure here with
    correct behaviour is model drift, not a verdict."""
    n = 0
    problems = []
    for p in ctx.cfg_dumps:
        d = read_cfg_dump(p)
        for (stage, fn), blocks in d.items():
            if stage != "obf":
                continue
            n += 1
            nb = len(blocks)
            for b in blocks:
                for phi in b["phis"]:
                    if len(phi["edges"]) > len(b["preds"]):
                        problems.append((fn, "PhiEdgesMatchPreds", b["pos"]))
                    if phi.get("comment") == "ctrflow.phi":
                        keys = [e.split(":")[0] for e in phi["edges"]]
                        if len(set(keys)) != len(keys) or "0" in keys:
                            problems.append((fn, "KeysDistinctNonZero", keys))
                for s in b["succs"] + b["preds"]:
                    if not (0 <= s < nb):
                        problems.append((fn, "dangling-edge", b["pos"]))
                if b.get("marker"):
                    # trash blocks are entered only from their guard or from themselves
                    for q in blocks:
                        # (dispatcher comparison blocks carry no comment, original go/ssa blocks always do)
                        if b["pos"] in q["succs"] and q["pos"] != b["pos"] and q["comment"] and not q["comment"].startswith("ctrflow."):
                            problems.append((fn, "TrashOnlyBehindGuard", q["pos"]))
    ctx.real_cfgs_checked = n
    if problems:
        print(f"MODEL-MISMATCH: property={PID} structural invariants fail on {len(problems)} real CFG dumps, first: {problems[0]}", flush=True)
    return problems


def scripted_key_collision(ctx, chk):
    """TLC's what-if HonourBlacklist=FALSE says: a dispatcher key equal to the xor global key breaks
    the dispatch.  Force exactly that draw on the real code: the real generateKeys must skip it."""
    files = {"main.go": """package main

//garble:controlflow flatten_passes=1 flatten_hardening=xor
func hard(n int) int {
	println("enter", n)
	s := n*3 + 1
	for i := 1; i < n; i++ {
		if i%2 == 0 {
			s += i
		} else {
			s -= 1
		}
	}
	return s
}

func main() { println("hard", hard(0), hard(1), hard(7)) }
"""}
    src = ctx.root / "src-keycol"
    write_module(src, files, module=MODULE)
    _, ref = ref_build(ctx, "keycol", files)
    out0 = ctx.root / "obf-keycol-0"
    log0 = ctx.root / "keycol.draws"
    res = cfdrv(src, out0, 7, drawlog=log0)
    if res.returncode != 0:
        raise Inconclusive(f"cfdrv failed on the key collision program: {res.stderr[-800:]}")
    draws = [json.loads(l) for l in log0.read_text().splitlines()]
    # draws of xorHardening.Apply: 2x getRandomName (Uint64 = 2 draws each) are attributed to getRandomName,
    # then Int31 firstKey, then Read (secondKey), then generateKeys/Int31 ...
    first_key = next((d for d in draws if "xorHardening" in d["by"] and d["by"].endswith("/Int31")), None)
    reads = [d for d in draws if "xorHardening" in d["by"] and d["by"].endswith("/Read")]
    gen = [d for d in draws if "generateKeys" in d["by"]]
    if first_key is None or not gen:
        print(f"MODEL-MISMATCH: property={PID} draw log has no xorHardening/generateKeys draws (code structure changed); "
              f"the forced-key replay is skipped", flush=True)
        return
    script = {"force": {str(d["i"]): 0 for d in reads}, "copy": {str(gen[0]["i"]): first_key["i"]}}
    out1 = ctx.root / "obf-keycol-1"
    res = cfdrv(src, out1, 7, script=script, drawlog=ctx.root / "keycol.draws2")
    ctx.scripted_runs += 1
    if res.returncode == 3:
        ctx.rejected += 1
        return
    if res.returncode != 0:
        raise Inconclusive(f"cfdrv (scripted) failed: {res.stderr[-800:]}")
    b, r = go_build_run(ctx.sb, out1, ctx.root / "obf-keycol.bin", timeout_run=15)
    chk.case(["scripted", "key=globalKey"], sample={"scripted": "first generateKeys draw := xor global key", "draws": len(draws)})
    if b.returncode != 0:
        ctx.compile_rejected += 1
        return
    if (r.returncode, r.stderr) != (ref.returncode, ref.stderr) or r.timed_out:
        chk.violation({"kind": "scripted", "shape": "xor-key-equals-global-key", "as_predicted": False, "config_class": "plain",
                       "how": "inprocess", "symptom": "hang-or-crash" if r.timed_out else "wrong-output"},
                      {"src": src, "obf": out1, "script.json": json.dumps(script),
                       "expected_vs_observed.json": json.dumps({"regular": ref.stderr, "obfuscated": r.stderr, "timed_out": r.timed_out})},
                      what="xor hardening with a drawn key equal to the global key: the dispatcher misroutes")


def main(tier, seed):
    chk = Check(PID, tier, seed)
    chk.rule = ("one evaluation = one execution of a program built from code that the real ctrlflow.Obfuscate+ssa2ast produced "
                "(in-process via cfdrv or whole `garble build`); distinct = distinct (program, directive parameter set, path) cells; "
                "each program holds 49 TLC shapes x 7 argument vectors or 26 library templates")
    chk.assumptions = [
        "the abstract CFG family (<= 7 blocks, <= 3 phis per block, integer add/compare ops) stands for the property's 'all function bodies'; "
        "constructs outside it are covered only by the hand-written template library",
        "the regular go toolchain is the reference semantics",
        "in-process runs compile the emitted Go without garble's later renaming passes",
    ]
    ctx = Ctx()
    ctx.root = mkscratch("c11")
    ctx.sb = Sandbox(ctx.root / "sb-go", gocache=CACHE / "gobuild")
    ctx.rejected = ctx.compile_rejected = ctx.scripted_runs = 0
    ctx.compile_errors = []
    ctx.cfg_dumps = []
    ctx.mismatch_reported = {}
    rng = chk.rng

    # ------------------------------------------------------------------ 1. the model
    tlc_out = {}

    def run_tlc():
        try:
            w = mkscratch("c11-tlc")
            tlc_out["main"] = (tlc("CtrlFlow", f"CtrlFlow-{tier}.cfg", workdir=w, timeout=2400), w)
            if tier == "thorough":
                tlc_out["twopass"] = (tlc("CtrlFlow", "CtrlFlow-twopass.cfg", workdir=mkscratch("c11-tlc2"), timeout=1500), None)
        except BaseException as e:  # surfaced in the main thread
            tlc_out["error"] = e

    # the leads are needed first: a small constant-level run that only serialises the table
    lw = mkscratch("c11-leads")
    r0 = tlc_must_pass("CtrlFlow", "CtrlFlow-leads.cfg", workdir=lw, timeout=600)
    chk.add_tlc(r0)
    leads = json.loads((lw / "ctrlflow_leads.json").read_text())
    th = threading.Thread(target=run_tlc)
    th.start()

    # the lead run: trash + split together is expected to break SameAsLowered (F110)
    rt = tlc("CtrlFlow", "CtrlFlow-trace.cfg", workdir=mkscratch("c11-tlc-trace"), timeout=600, workers=4)
    f14_lead = rt.violated == "SameAsLowered"
    if rt.error:
        raise Inconclusive(f"TLC CtrlFlow-trace.cfg failed: {rt.error}\n{rt.out[-1500:]}")
    chk.add_tlc(rt)
    chk.extra["tlc_leads"] = {"lowering_miscompiled_shapes": sorted(i for i, l in leads.items() if l["cause"] != "none"),
                              "trash_then_split_breaks_SameAsLowered": f14_lead}

    # ------------------------------------------------------------------ 2. templates vs model (binding)
    nosplit = param_sets(tier)
    prog0 = shapes_program(leads, lambda i: directive(passes=0))
    _, ref_sh = ref_build(ctx, "shapes", prog0)
    ref_out = parse_shape_output(ref_sh.stderr)
    drift = 0
    for sid, l in leads.items():
        for k_i, inp in enumerate(l["inputs"]):
            if ref_out.get((sid, inp["n"], inp["a"], inp["b"])) != (l["ssa"][k_i]["tr"], l["ssa"][k_i]["ret"]):
                drift += 1
    if drift:
        print(f"MODEL-MISMATCH: property={PID} {drift} regular-build results of shape templates differ from TLC's SSA prediction "
              f"(templates and spec constructors are out of step)", flush=True)
    chk.extra["ssa_prediction_mismatches"] = drift

    lib_all = [t for t, _, _ in LIB]
    lib_files0 = lib_program(lambda t: directive(passes=0))
    _, ref_lib = ref_build(ctx, "lib", add_final_panic(lib_files0))

    # ------------------------------------------------------------------ 3. in-process replay
    skeleton_checked = False
    for (pname, kw, progs, nseeds, small) in nosplit:
        for s in [seed * 7919 + k for k in range(nseeds)]:
            wi = bool(kw.get("trash"))
            if "shapes" in progs:
                ids = [i for i in SMALL_SHAPES if i in leads] if small else sorted(leads)
                sub = {i: leads[i] for i in ids}
                files = shapes_program(sub, lambda i: directive(**kw), with_import=wi)
                r, out, st = inprocess(ctx, chk, f"shapes-{pname}-{s}", files, s)
                if st == "ok":
                    chk.case(["inprocess", "shapes", pname], sample={"program": f"{len(ids)} shapes", "params": kw, "seed": s, "path": "cfdrv"})
                    judge_shapes(ctx, chk, leads, ref_out, r, kw, "inprocess", {"src": ctx.root / f"src-shapes-{pname}-{s}", "obf": out}, ids=ids)
                    if not skeleton_checked and not small:
                        skeleton_checked = True
                        dump = read_cfg_dump(ctx.cfg_dumps[-1])
                        sk = sum(1 for sid, l in leads.items()
                                 if skeleton_of(dump.get(("ssa", MODULE + "." + go_ident(sid)), [])) != l["skeleton"])
                        chk.extra["cfg_skeleton_mismatches"] = sk
                        if sk:
                            print(f"MODEL-MISMATCH: property={PID} {sk} real go/ssa CFG skeletons differ from the spec's shapes", flush=True)
            if "lib" in progs:
                # (the trash generator emits conversions to a type parameter that do not compile: a rejected build;
                #  keep the generic templates out of the trash variants so that the other templates are still covered)
                ltags = [t for t in lib_all if not (wi and t in GENERIC_TAGS)]
                files = add_final_panic(lib_program(lambda t: directive(**kw), tags=ltags, with_import=wi))
                r, out, st = inprocess(ctx, chk, f"lib-{pname}-{s}", files, s)
                if st == "ok":
                    chk.case(["inprocess", "lib", pname], sample={"program": "lib", "params": kw, "seed": s, "path": "cfdrv"})
                    judge_lib(ctx, chk, ref_lib, r, lambda t: kw, "inprocess", {"src": ctx.root / f"src-lib-{pname}-{s}", "obf": out}, ltags)

    # block splitting: a split inside a phi group panics (F10, a rejected build), so splits go to a few
    # functions per program and rejected seeds are retried
    split_ids_pool = [i for i in sorted(leads) if leads[i]["shape"]["fam"] in ("while", "loopbreak", "dowhile", "ifmerge", "loopif")]
    n_split_progs = 6 if tier == "quick" else 24
    for k in range(n_split_progs):
        pname, kw = SPLIT_SETS[k % len(SPLIT_SETS)] if k % 4 != 3 else TRASH_SPLIT
        ids = rng.sample(split_ids_pool, 3)
        sub = {i: leads[i] for i in ids}
        files = shapes_program(sub, lambda i: directive(**kw), with_import=bool(kw.get("trash")))
        r, out, st = inprocess(ctx, chk, f"split-{k}", files, seed * 31 + k, tries=14)
        if st == "ok":
            chk.case(["inprocess", "shapes-split", pname, tuple(ids)], sample={"program": ids, "params": kw, "path": "cfdrv"})
            judge_shapes(ctx, chk, leads, ref_out, r, kw, "inprocess", {"src": ctx.root / f"src-split-{k}", "obf": out}, ids=ids)
        tags = rng.sample([t for t in lib_all if t not in ("range-string-multibyte", "recover-named-results", "select-recv-commaok", "defer-modifies-named-result")], 4)
        files = lib_program(lambda t: directive(**kw), tags=tags, with_import=bool(kw.get("trash")))
        _, ref_sub = ref_build(ctx, f"libsub-{k}", files)
        r, out, st = inprocess(ctx, chk, f"libsplit-{k}", files, seed * 37 + k, tries=14)
        if st == "ok":
            chk.case(["inprocess", "lib-split", pname, tuple(tags)], sample={"program": tags, "params": kw, "path": "cfdrv"})
            judge_lib(ctx, chk, ref_sub, r, lambda t: kw, "inprocess", {"src": ctx.root / f"src-libsplit-{k}", "obf": out}, tags)

    # F110 lead replay: trash on the back edge + a split of the loop body (TLC's counterexample shape)
    f14_seen = False
    for k in range(8 if tier == "quick" else 20):
        ids = ["while-t-y-x", "while-t-t-x"]
        sub = {i: leads[i] for i in ids}
        kw = dict(splits=1, trash=3, passes=0)
        files = shapes_program(sub, lambda i: directive(**kw), with_import=True)
        r, out, st = inprocess(ctx, chk, f"f14-{k}", files, seed * 41 + k, tries=4)
        if st == "ok":
            chk.case(["inprocess", "f110-lead", k], sample={"program": ids, "params": kw, "path": "cfdrv"})
            if judge_shapes(ctx, chk, leads, ref_out, r, kw, "inprocess", {"src": ctx.root / f"src-f14-{k}", "obf": out}, ids=ids):
                f14_seen = True
                if tier == "quick":
                    break
    chk.extra["f110_lead_reproduced"] = f14_seen
    if f14_lead and not f14_seen:
        print(f"MODEL-MISMATCH: property={PID} TLC's trash+split counterexample was not reproduced on the real code", flush=True)

    scripted_key_collision(ctx, chk)
    problems = check_cfg_dumps(ctx, chk)
    chk.traces_validated = ctx.real_cfgs_checked if not problems else 0

    # ------------------------------------------------------------------ 4. whole-tool runs
    gsb = Sandbox(ctx.root / "sb-garble", template=True)
    env = {"GARBLE_EXPERIMENTAL_CONTROLFLOW": "1"}
    tool_sets = [("default", dict(passes=1), ("shapes", "lib")),
                 ("junk-both", dict(junk=4, passes=1, hardening="xor,delegate_table"), ("lib",))]
    if tier == "thorough":
        tool_sets = [("default", dict(passes=1), ("shapes", "lib")), ("junk-xor", dict(junk=6, passes=1, hardening="xor"), ("shapes", "lib")),
                     ("two-pass-both", dict(junk=1, passes=2, hardening="xor,delegate_table"), ("shapes", "lib")),
                     ("junk-deleg", dict(junk=3, passes=1, hardening="delegate_table"), ("shapes", "lib")),
                     ("trash", dict(junk=2, passes=1, trash=3), ("shapes", "lib")),
                     ("junk-max", dict(junk="max", passes=1), ("lib",)), ("split1", dict(splits=1, junk=2, passes=1), ("lib",)),
                     ("lower-only", dict(passes=0), ("shapes", "lib")), ("max-passes-small", dict(passes="max"), ("shapes",))]
    flagsets = [[]] if tier == "quick" else [[], ["-seed=" + "bXlzZWVkbXlzZWVk"], ["-literals"]]
    ok_builds = 0
    for flags in flagsets:
        for (pname, kw, progs) in tool_sets:
            for prog in progs:
                wi = bool(kw.get("trash"))
                if pname == "max-passes-small":
                    sub = {i: leads[i] for i in ("ifmerge-u-v-m", "dowhile-t-y-t")}
                    files = shapes_program(sub, lambda i: directive(**kw))
                elif prog == "shapes":
                    files = shapes_program(leads, lambda i: directive(**kw), with_import=wi)
                else:
                    # a directive on a method of a generic type makes garble itself panic while re-type-checking
                    # (nil dereference in go/types.collectRecv): a failed build, so it is kept out of the whole-tool program
                    ltags = [t for t in lib_all if t != "generic-method" and not (wi and t in GENERIC_TAGS)]
                    files = add_final_panic(lib_program(lambda t: directive(**kw), tags=ltags, with_import=wi))
                name = f"tool-{prog}-{pname}-{len(flags) and flags[0][:5].strip('-=')}"
                src = ctx.root / name
                write_module(src, files, module=MODULE)
                exe = ctx.root / (name + ".bin")
                rr = gsb.garble(flags + ["build", "-o", str(exe), "."], cwd=src, env=env, timeout=1500)
                if rr.returncode != 0:
                    ctx.rejected += 1
                    ctx.compile_errors.append((name, "garble", rr.stderr[-600:]))
                    continue
                ok_builds += 1
                r = run([exe], cwd=src, env=gsb.env(), timeout=30)
                chk.case(["garble", prog, pname, tuple(flags)], sample={"program": prog, "params": kw, "flags": flags, "path": "garble build"})
                fl = {"src": src, "cmd.txt": f"GARBLE_EXPERIMENTAL_CONTROLFLOW=1 garble {' '.join(flags)} build -o prog . && ./prog"}
                if prog == "shapes":
                    judge_shapes(ctx, chk, leads, ref_out, r, kw, "garble", fl, ids=None if pname != "max-passes-small" else list(sub))
                else:
                    judge_lib(ctx, chk, ref_lib, r, lambda t: kw, "garble", fl, ltags)
    if ok_builds == 0:
        raise Inconclusive("no whole-tool garble build with control-flow obfuscation succeeded:\n" +
                           "\n".join(str(e) for e in ctx.compile_errors[-3:]))

    # ------------------------------------------------------------------ 5. collect the model run
    th.join()
    if "error" in tlc_out:
        raise tlc_out["error"]
    for key, (r, _) in tlc_out.items():
        if not r.ok:
            raise Inconclusive(f"TLC CtrlFlow ({key}) did not pass: violated={r.violated} error={r.error}\n{r.out[-3000:]}")
        chk.add_tlc(r)
    chk.extra.update({
        "rejected_builds": ctx.rejected, "emitted_code_compile_errors": ctx.compile_rejected,
        "compile_error_samples": [str(e)[:400] for e in ctx.compile_errors[:3]],
        "scripted_runs": ctx.scripted_runs, "real_cfgs_structurally_checked": ctx.real_cfgs_checked,
        "whole_tool_builds": ok_builds, "shapes": len(leads), "library_templates": len(LIB),
    })
    chk.exhaustive = False
    return chk.finish()


def add_final_panic(files: dict) -> dict:
    """The library program ends with an uncaught panic raised inside an obfuscated function:
    exit status 2 and the `panic:` line must be the same as in the regular build."""
    files = dict(files)
    m = files["main.go"]
    idx = m.rstrip().rfind("}")
    files["main.go"] = m[:idx] + "\t{ lPanic(9) }\n}\n"
    return files


if __name__ == "__main__":
    main_wrapper(main)
