#!/usr/bin/env python3
"""C16 - Obfuscated names are well-formed, export-preserving and stable.

Spec: spec/NameHash.tla (transcription of hashWithCustomSalt's post-processing).
TLC checks ValidIdent / Len6to12 / Charset / ExportPreserved over every first
symbol x position x symbol x class x length and InjectiveEnough as ASSUME, and
serialises the complete fix-up table.  Binding (B3): the real hashWithCustomSalt /
randomName are called through `garble verif hash` on generated (salt, seed, name)
triples until every table row (first symbol x class x length) has been hit; the
property's predicates are evaluated on the REAL outputs (that is what decides a
violation), and the outputs are also compared with the table (model drift is
reported, not a verdict).  A real build's complete name map (H6 `name` events)
is checked with the same predicates and for distinctness inside each package.
"""
import base64
import hashlib
import json
import keyword
import os
import sys
import unicodedata

sys.path.insert(0, str(__import__("pathlib").Path(__file__).resolve().parent.parent))
from vf.core import *  # noqa

GO_KEYWORDS = {"break", "case", "chan", "const", "continue", "default", "defer", "else", "fallthrough", "for", "func",
               "go", "goto", "if", "import", "interface", "map", "package", "range", "return", "select", "struct",
               "switch", "type", "var"}


def go_is_letter(ch):
    return ch == "_" or unicodedata.category(ch).startswith("L")


def go_is_identifier(name):
    if not name or name in GO_KEYWORDS:
        return False
    for i, ch in enumerate(name):
        if go_is_letter(ch):
            continue
        if i > 0 and unicodedata.category(ch) == "Nd":
            continue
        return False
    return True


def go_is_exported(name):
    return unicodedata.category(name[0]) == "Lu"


def name_class(name):
    if not go_is_identifier(name):
        return "notident"
    return "exported" if go_is_exported(name) else "unexported"


def ascii_ident_ok(s):
    if not s:
        return False
    if not (s[0].isascii() and (s[0].isalpha() or s[0] == "_")):
        return False
    return all(c.isascii() and (c.isalnum() or c == "_") for c in s)


def expected_from_table(table, salt, seed, name):
    digest = hashlib.sha256(salt + seed + name.encode()).digest()
    n = table["len"][str(digest[9] % 7)]
    b64 = base64.urlsafe_b64encode(digest[:9]).decode()
    idx = {ch: i for i, ch in enumerate(table["alphabet"])}
    cls = name_class(name)
    out = table["first"][cls][idx[b64[0]]]
    for ch in b64[1:n]:
        out += table["rest"][idx[ch]]
    return out, (b64[0], cls, n), b64


def gen_names(rng, n):
    pools = {
        "exported": ["Foo", "Bar", "X", "Ünïcode", "ΑlphaGreek", "Exported_Name9", "T", "Z_", "Ωmega"],
        "unexported": ["foo", "bar", "x", "ünï", "世界", "_", "_x", "unexported_name9", "a1", "şey"],
        "notident": ["example.com/mod/pkg", "main.go:123", "file.go:1", "a b", "9lives", "func", "type", "net/http",
                     "pkg.Name", "x-y", "runtime/internal/sys", "é-", "foo.s"],
    }
    out = []
    for i in range(n):
        cls = ("exported", "unexported", "notident")[i % 3]
        base = rng.choice(pools[cls])
        if cls == "notident":
            name = base + ("/" + str(rng.randrange(10 ** 6)) if rng.random() < 0.7 else "")
            if go_is_identifier(name):
                name = name + ":1"
        else:
            name = base + (str(rng.randrange(10 ** 6)) if rng.random() < 0.8 else "")
        out.append(name)
    return out


PROGRAM = {
    "main.go": """package main

import (
	"example.com/c16prog/lib"
	"example.com/c16prog/lib/deep"
)

type localType struct{ fieldOne, FieldTwo int }

func (l localType) method() int { return l.fieldOne + l.FieldTwo }

var globalVar = 7

func main() {
	l := localType{1, 2}
	println(l.method(), lib.Exported(3), deep.Sum(1, 2), globalVar, lib.V.Name)
}
""",
    "lib/lib.go": "package lib\n\n" + "\n".join(
        f"//go:noinline\nfunc helper{i}(x int) int {{ return x + {i} }}\n\ntype Type{i} struct{{ Field{i} int; inner{i} string }}\n\nvar var{i} = {i}\n"
        for i in range(40)) + """
type Info struct{ Name string; id int }

var V = Info{"v", 1}

func Exported(x int) int {
	t := Type3{Field3: x}
	return helper1(helper2(t.Field3)) + var5
}
""",
    "lib/deep/deep.go": """package deep

type pair struct{ a, b int }

func Sum(a, b int) int { p := pair{a, b}; return p.a + p.b }
""",
}


def main(tier, seed):
    chk = Check("C16", tier, seed)
    chk.rule = ("(salt, seed, name) triples fed to the real hashWithCustomSalt; distinct = distinct table rows "
                "(first base64 symbol x name class x length) hit, plus distinct real-build names checked")
    chk.assumptions = ["sha256 and base64 of the Go standard library are correct (the harness recomputes them with Python's)",
                       "name classes are decided by a Python re-implementation of go/token.IsIdentifier/IsExported on the generated names"]

    # 1. model: invariants over the whole abstract domain + table extraction
    work = mkscratch("c16-tlc")
    r = tlc_must_pass("NameHash", f"NameHash-{tier}.cfg", workdir=work, timeout=1500)
    chk.add_tlc(r)
    table = json.loads((work / "namehash_table.json").read_text())

    # 2. table rows against the real function
    garble = build_garble("verif")
    rng = chk.rng
    n_target = 20000 if tier == "quick" else 300000
    rows_needed = {(a, c, n) for a in table["alphabet"] for c in ("exported", "unexported", "notident") for n in range(6, 13)}
    rows_hit = set()
    drift = 0
    total = 0
    outputs_by_salt = {}
    reqs_all = []
    rounds = 0
    while (rows_needed - rows_hit) and rounds < 12 or rounds == 0:
        rounds += 1
        names = gen_names(rng, n_target)
        salts = [rng.randbytes(rng.choice([1, 15, 32])) for _ in range(8)]
        seeds = [b"", rng.randbytes(8), rng.randbytes(12)]
        reqs = []
        for nm in names:
            reqs.append((rng.choice(salts), rng.choice(seeds), nm))
        payload = "".join(json.dumps({"salt": s.hex(), "seed": sd.hex(), "name": nm}) + "\n" for s, sd, nm in reqs)
        res = run([garble, "verif", "hash"], stdin=payload, timeout=600, env=base_env())
        if res.returncode != 0:
            raise Inconclusive(f"garble verif hash failed: {res.stderr[-1000:]}")
        outs = [json.loads(l) for l in res.stdout.splitlines()]
        if len(outs) != len(reqs):
            raise Inconclusive("garble verif hash: reply count mismatch")
        for (salt, sd, nm), o in zip(reqs, outs):
            total += 1
            if "panic" in o or "error" in o:
                chk.violation({"kind": "panic", "name_class": name_class(nm)}, {"request.json": json.dumps({"salt": salt.hex(), "seed": sd.hex(), "name": nm}), "reply.json": json.dumps(o)},
                              what="hashWithCustomSalt panicked on a valid input")
                continue
            got = o["out"]
            exp, row, b64 = expected_from_table(table, salt, sd, nm)
            rows_hit.add(row)
            cls = row[1]
            chk.case(list(row), sample={"salt": salt.hex(), "seed": sd.hex(), "name": nm, "out": got} if total % 5000 == 1 else None)
            preds = {
                "ValidIdent": ascii_ident_ok(got),
                "Len6to12": 6 <= len(got) <= 12,
                "ExportPreserved": (cls == "notident") or (got[:1].isupper() == (cls == "exported")),
            }
            for pn, ok in preds.items():
                if not ok:
                    chk.violation({"kind": "predicate", "pred": pn, "first_symbol": row[0], "name_class": cls, "len": len(got)},
                                  {"case.json": json.dumps({"salt": salt.hex(), "seed": sd.hex(), "name": nm, "out": got, "b64": b64, "model": exp})},
                                  what=f"{pn} fails on real output {got!r} for name {nm!r}")
            if got != exp:
                drift += 1
            outputs_by_salt.setdefault((salt, sd), {}).setdefault(got, set()).add((nm, b64))
        reqs_all = reqs
        first_outs = outs
        if tier == "quick" and rounds >= 3:
            break
    chk.extra["table_rows"] = len(rows_needed)
    chk.extra["table_rows_hit"] = len(rows_hit & rows_needed)
    chk.extra["model_drift_rows"] = drift
    if drift:
        print(f"MODEL-MISMATCH: property=C16 {drift} real outputs differ from the NameHash.tla table "
              f"(the property predicates are still evaluated on the real outputs)", flush=True)

    # collisions: two distinct names, same salt+seed, same output => must be a genuine base64-prefix collision
    for (salt, sd), outs_map in outputs_by_salt.items():
        for got, srcs in outs_map.items():
            names = {nm for nm, _ in srcs}
            if len(names) > 1:
                prefixes = {b[:6] for _, b in srcs}
                # a clash is excusable only if the 6-symbol prefixes agree up to the documented merges
                norm = {p.replace("-", "a").lower() for p in prefixes}
                if len(norm) > 1:
                    chk.violation({"kind": "collision"}, {"case.json": json.dumps({"salt": salt.hex(), "names": sorted(names), "out": got})},
                                  what="distinct names of one salt collide without a hash-prefix collision")

    # 3. purity: same requests, reversed order and interleaved with other seeds, must give the same outputs
    perm = list(range(len(reqs_all)))
    rng.shuffle(perm)
    payload = ""
    for i in perm:
        s, sd, nm = reqs_all[i]
        payload += json.dumps({"salt": rng.randbytes(3).hex(), "seed": rng.randbytes(9).hex(), "name": "noise" + nm}) + "\n"
        payload += json.dumps({"salt": s.hex(), "seed": sd.hex(), "name": nm}) + "\n"
    res = run([garble, "verif", "hash"], stdin=payload, timeout=600, env=base_env())
    if res.returncode != 0:
        raise Inconclusive(f"garble verif hash (purity pass) failed: {res.stderr[-1000:]}")
    outs2 = [json.loads(l) for l in res.stdout.splitlines()][1::2]
    impure = 0
    for k, i in enumerate(perm):
        if outs2[k].get("out") != first_outs[i].get("out"):
            impure += 1
            if impure <= 3:
                s, sd, nm = reqs_all[i]
                chk.violation({"kind": "impure"}, {"case.json": json.dumps({"salt": s.hex(), "seed": sd.hex(), "name": nm, "first": first_outs[i], "second": outs2[k]})},
                              what="hashWithCustomSalt result depends on call history")
    chk.extra["purity_calls_compared"] = len(perm)

    # randomName: deterministic in the generator state, and same predicates
    payload = "".join(json.dumps({"salt": "00", "seed": "", "name": nm, "randseed": i % 50}) + "\n" for i, nm in enumerate(gen_names(rng, 600)))
    res = run([garble, "verif", "hash"], stdin=payload * 2, timeout=300, env=base_env())
    outs = [json.loads(l) for l in res.stdout.splitlines()]
    half = len(outs) // 2
    for a, b in zip(outs[:half], outs[half:]):
        if a.get("random") != b.get("random") or not ascii_ident_ok(a.get("random", "")) or not (6 <= len(a.get("random", "")) <= 12):
            chk.violation({"kind": "randomName"}, {"case.json": json.dumps([a, b])}, what="randomName not deterministic or ill-formed")
            break

    # 4. a real build: every name the build computed (H6 `name` events)
    sbroot = mkscratch("c16-build")
    write_module(sbroot / "src", PROGRAM, module="example.com/c16prog")
    sb = Sandbox(sbroot / "sb", template=True)
    trace = sbroot / "trace.ndjson"
    configs = [[], ["-seed=bXlzZWVkbXlzZWVk"]] if tier == "quick" else [[], ["-seed=bXlzZWVkbXlzZWVk"], ["-tiny"], ["-literals"]]
    real_names = 0
    for cfg in configs:
        if trace.exists():
            trace.unlink()
        rr = sb.garble(cfg + ["build", "-o", str(sbroot / "prog"), "."], cwd=sbroot / "src", env={"GARBLE_VERIF_NAMES": "1"}, trace=trace)
        if rr.returncode != 0:
            raise Inconclusive(f"garble {cfg} build of the C16 program failed:\n{rr.stderr[-2000:]}")
        per_pkg = {}
        for ev in read_trace(trace):
            if ev.get("ev") != "name":
                continue
            orig, obf, pkg, kind = ev["orig"], ev["obf"], ev["pkg"], ev["kind"]
            real_names += 1
            cls = name_class(orig)
            ok = ascii_ident_ok(obf) and 6 <= len(obf) <= 12 and (cls == "notident" or obf[0].isupper() == (cls == "exported"))
            chk.case(["build", pkg, orig, kind], nontrivial=pkg.startswith("example.com"))
            if not ok:
                chk.violation({"kind": "build-name", "name_class": cls}, {"event.json": json.dumps(ev)},
                              what=f"real build gave {orig!r} the ill-formed or export-changing name {obf!r}")
            if kind != "field":
                per_pkg.setdefault(pkg, {}).setdefault(obf, set()).add(orig)
        for pkg, m in per_pkg.items():
            for obf, origs in m.items():
                if len(origs) > 1:
                    chk.violation({"kind": "build-collision"}, {"case.json": json.dumps({"pkg": pkg, "obf": obf, "origs": sorted(origs)})},
                                  what="two identifiers of one package share an obfuscated name")
    chk.extra["real_build_names_checked"] = real_names
    if real_names == 0:
        raise Inconclusive("no name events recorded from the real build")
    chk.traces_validated = len(configs)
    chk.exhaustive = (chk.extra["table_rows_hit"] == chk.extra["table_rows"])
    if not chk.exhaustive:
        raise Inconclusive(f"only {chk.extra['table_rows_hit']} of {chk.extra['table_rows']} table rows were hit")
    return chk.finish()


if __name__ == "__main__":
    main_wrapper(main)
