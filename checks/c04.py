#!/usr/bin/env python3
"""C04 - garble reverse restores obfuscated traces exactly.

Spec: spec/Position.tla.
  Part 1 transcribes printFile's two loops (pre-order: a CallExpr's original offset is taken by
  the next identifier; scanner: a /*line hash.go:1*/ directive is written before that
  identifier) over token streams of call statements, and reverse.go's pairs (from a fresh
  parse of the original file) with the replacer semantics.  TLC runs the loops for every
  frame kind x construct x -literals and checks ForwardReverseAgree (the position the binary
  reports for the frame is restored to the original line) outside the gap classes, and
  GapsAreReal (every gap class really is one).  It exports the call chains (sequences of
  frame kinds), the expectation per (kind, construct, -literals) and
  Part 2, the table of the replacement function (generic strings.NewReplacer algorithm +
  reverseContent's line loop) over byte sequences with CR LF / LF / no final newline.

Binding (B2): every chain becomes a set of functions of a generated multi-package program;
the leaf prints runtime.CallersFrames, debug.Stack() and (second run) panics.  The program is
built with `garble [flags] build` and with `go build -trimpath`; the garbled output is piped
through `garble [flags] reverse .` (same flags, same directory, stdin).  Verdict: the sequence
of (function, importpath/file.go:line) frames after reverse must equal the regular build's;
the exit status of reverse must say whether something was replaced; text without obfuscated
names must pass byte for byte.  (B3) every row of the replacement table is put through
`garble verif reversecontent`.
A differing frame is classified from the generator's knowledge of the source line the regular
build reports (which hop, which construct, which position-bearing token); only the classes
recorded in known_findings.jsonl (F12, F13 and the ones found with this check) are tolerated,
every other differing frame is a VIOLATION.  The model's expectation is compared with the
real outcome per hop, but only as MODEL-MISMATCH.
"""
import json
import os
import re
import sys
from concurrent.futures import ThreadPoolExecutor
from pathlib import Path

sys.path.insert(0, str(Path(__file__).resolve().parent.parent))
from vf.core import *  # noqa

MODULE = "example.com/c04prog"
LEVELS = ["", "l1", "l2", "l3"]           # package per level: main, l1, l2, l3
LITERAL_KINDS = ("closure", "goroutine", "iife")
METHOD_LIKE = ("method", "ptrmethod", "genmethod")
SEED_FLAG = "-seed=bXlzZWVkbXlzZWVk"

REP_GO = '''package rep

import (
	"os"
	"runtime"
	"runtime/debug"
	"strconv"
)

var Panic bool

//go:noinline
func Report(tag string) {
	w := os.Stdout
	w.WriteString("BEGIN " + tag + "\\n")
	pcs := make([]uintptr, 64)
	n := runtime.Callers(1, pcs)
	fr := runtime.CallersFrames(pcs[:n])
	for {
		f, more := fr.Next()
		w.WriteString("FRAME " + f.Function + " " + f.File + ":" + strconv.Itoa(f.Line) + "\\n")
		if !more {
			break
		}
	}
	w.WriteString("STACK\\n")
	w.Write(debug.Stack())
	w.WriteString("END " + tag + "\\n")
	if Panic {
		panic("chain " + tag)
	}
}
'''

HELPERS = '''package %s

type lit0 struct{ A, B int }

//go:noinline
func keep(a ...any) {}

//go:noinline
func pick(s string, f func(...any)) func(...any) { return f }
'''


class Line:
    __slots__ = ("text", "roles")

    def __init__(self, text, roles=None):
        self.text, self.roles = text, roles or []


class Gen:
    """Generates the program for a list of chains [(kinds, constructs)]."""

    def __init__(self, chains):
        self.chains = chains
        self.blocks = {}          # (level, fileidx) -> list of Line
        self.imports = {}         # (level, fileidx) -> set of import paths
        self.roles = {}           # "importpath/file.go" -> {line: [role, ...]}
        self.entries = []
        for i, (ks, cs) in enumerate(chains):
            self.gen_chain(i, ks, cs)

    # -- naming
    @staticmethod
    def pkgpath(level):
        return MODULE if level == 0 else MODULE + "/" + LEVELS[level]

    def use(self, place, path):
        self.imports.setdefault(place, set()).add(path)

    def gen_chain(self, i, ks, cs):
        n = len(ks)
        # placement of declared frames
        level = [0] * (n + 1)
        fidx = [0] * (n + 1)
        depth = [0] * (n + 1)
        for j in range(1, n + 1):
            k = ks[j - 1]
            level[j], fidx[j] = level[j - 1], fidx[j - 1]
            if k == "otherpkg" and level[j - 1] < len(LEVELS) - 1:
                level[j], fidx[j] = level[j - 1] + 1, 0
            elif k == "otherfile":
                fidx[j] = 1 - fidx[j - 1]
            depth[j] = depth[j - 1] + 1 if k in LITERAL_KINDS else 0
        info = dict(i=i, ks=ks, cs=cs, n=n, level=level, fidx=fidx, depth=depth)
        # declared frames: 0 (entry) and every j whose kind is not a literal kind
        for j in range(0, n + 1):
            if j > 0 and ks[j - 1] in LITERAL_KINDS:
                continue
            self.declare(info, j)
        self.entries.append(f"c{i}")

    def fname(self, info, j):
        exported = j > 0 and info["ks"][j - 1] == "otherpkg" and info["level"][j] != info["level"][j - 1]
        return ("C" if exported else "c") + f"{info['i']}x{j}f"

    def tname(self, info, j):
        return f"c{info['i']}x{j}t"

    def role(self, info, owner, role, hop=None):
        r = {"chain": info["i"], "owner": owner, "role": role, "depth": info["depth"][owner]}
        if hop is not None:
            r["callee_kind"], r["construct"], r["hop"] = info["ks"][hop - 1], info["cs"][hop - 1], hop
        return r

    def rb_role(self, info, j):
        if j < info["n"] and info["ks"][j] == "deferred":
            return self.role(info, j, "rb", hop=j + 1)
        return self.role(info, j, "rb")

    def declare(self, info, j):
        i, ks = info["i"], info["ks"]
        place = (info["level"][j], info["fidx"][j])
        out = self.blocks.setdefault(place, [])
        k = "func" if j == 0 else ks[j - 1]
        body = self.body(info, j, place, "\t")
        if k in ("func", "otherfile", "otherpkg", "deferred"):
            name = f"c{i}e" if j == 0 else self.fname(info, j)
            out.append(Line(f"func {name}(a ...any) {{"))
        elif k == "genfunc":
            out.append(Line(f"func {self.fname(info, j)}[X any](a ...any) {{"))
        elif k in ("method", "ptrmethod"):
            t = self.tname(info, j)
            out.append(Line(f"type {t} struct{{ V int }}"))
            out.append(Line(""))
            if k == "method":
                out.append(Line(f"func mk{t}(s string) {t} {{ return {t}{{V: len(s)}} }}"))
                out.append(Line(""))
                out.append(Line(f"func (t {t}) M(a ...any) {{"))
            else:
                out.append(Line(f"func mk{t}(s string) *{t} {{ return &{t}{{V: len(s)}} }}"))
                out.append(Line(""))
                out.append(Line(f"func (t *{t}) M(a ...any) {{"))
        elif k == "genmethod":
            t = self.tname(info, j)
            out.append(Line(f"type {t}[X any] struct{{ V X }}"))
            out.append(Line(""))
            out.append(Line(f"func mk{t}(s string) {t}[int] {{ return {t}[int]{{V: len(s)}} }}"))
            out.append(Line(""))
            out.append(Line(f"func (g {t}[X]) M(a ...any) {{"))
        else:
            raise AssertionError(k)
        out.extend(body)
        out.append(Line("}", [self.rb_role(info, j)]))
        out.append(Line(""))

    def callee(self, info, j):
        """single-line callee expression of declared frame j as seen from frame j-1, and (mk-expression, receiver) for method-like kinds"""
        k = info["ks"][j - 1]
        t = self.tname(info, j)
        if k in ("func", "otherfile", "deferred"):
            return self.fname(info, j), None, None
        if k == "otherpkg":
            if info["level"][j] != info["level"][j - 1]:
                return LEVELS[info["level"][j]] + "." + self.fname(info, j), None, None
            return self.fname(info, j), None, None
        if k == "genfunc":
            return self.fname(info, j) + "[int]", None, None
        if k == "method":
            return f"{t}{{V: 1}}.M", f"mk{t}", f"{t}{{V: 1}}"
        if k == "ptrmethod":
            return f"(&{t}{{V: 1}}).M", f"mk{t}", f"(&{t}{{V: 1}})"
        if k == "genmethod":
            return f"{t}[int]{{V: 1}}.M", f"mk{t}", f"{t}[int]{{V: 1}}"
        raise AssertionError(k)

    def body(self, info, j, place, ind):
        """lines of the body of frame j (declared function or func literal)"""
        i, ks, cs, n = info["i"], info["ks"], info["cs"], info["n"]
        lines = []
        pad = [self.role(info, j, "pad")]
        # the body of a parameterless func literal starts directly with its call (see L0 below): the first
        # identifier after `func` is then the one that carries the position of the call on the stack
        paramless = j >= 1 and ks[j - 1] in ("goroutine", "iife") and cs[j - 1] in ("none", "complit", "litprev") and j % 2 == 0
        if j == n:
            if not paramless:
                lines.append(Line(f"{ind}keep(0)", pad))
            self.use(place, MODULE + "/rep")
            lines.append(Line(f'{ind}rep.Report("c{i}")', [self.role(info, j, "leaf")]))
            lines.append(Line(f"{ind}keep(1)", pad))
            return lines
        h = j + 1
        k, con = ks[h - 1], cs[h - 1]
        lit = f"chain literal {i}.{h} long"
        call = [self.role(info, j, "call", hop=h)]
        if con == "litprev":
            lines.append(Line(f'{ind}keep("{lit}")', pad))
        if not paramless:
            lines.append(Line(f"{ind}keep(0)", pad))
        kw = "defer " if k == "deferred" else ("go " if k == "goroutine" else "")
        pre = "keep(lit0{A: 1, B: 2}); " if con == "complit" else ""
        if k not in LITERAL_KINDS or k == "closure":
            if k == "closure":
                lines.append(Line(f"{ind}cl{h} := func(a ...any) {{", [self.role(info, j, "def")]))
                lines.extend(self.body(info, h, place, ind + "\t"))
                lines.append(Line(f"{ind}}}", [self.rb_role(info, h)]))
                E, MK, RECV = f"cl{h}", None, None
            else:
                E, MK, RECV = self.callee(info, h)
                if info["level"][h] != info["level"][j]:
                    self.use(place, self.pkgpath(info["level"][h]))
            if con in ("none", "complit", "litprev"):
                st = [f"{pre}{kw}{E}()"]
            elif con == "litarg":
                st = [f'{kw}{E}("{lit}")']
            elif con == "mlargs":
                st = [f"{kw}{E}(", "\t1,", "\t2,", ")"]
            elif con == "litrecv":
                st = [f'{kw}{MK}("{lit}").M()'] if MK else [f'{kw}pick("{lit}", {E})()']
            elif con == "mlchain":
                st = [f"{kw}{RECV}.", "\tM()"] if MK else [f"{kw}pick(", '\t"s",', f"\t{E},", ")()"]
            else:
                raise AssertionError(con)
            for s in st:
                lines.append(Line(ind + s, call))
        else:
            # func literal called on the spot: iife / goroutine
            # every other literal without parameters (the first identifier after `func` is then in the body)
            L0 = "func() {" if (con in ("none", "complit", "litprev") and h % 2 == 0) else "func(a ...any) {"
            inner = self.body(info, h, place, ind + ("\t\t" if con == "mlchain" else "\t"))
            if k == "goroutine":
                lines.append(Line(f"{ind}done{h} := make(chan struct{{}})", pad))
                # signalled by a deferred close registered first: it runs after every other deferred call of the
                # goroutine (a later hop may be a deferred call), so the next chain never starts early
                inner.insert(0, Line(f"{ind}{chr(9) * (2 if con == 'mlchain' else 1)}defer close(done{h})", [self.role(info, h, "pad")]))
            rb = [self.rb_role(info, h)]
            if con in ("none", "complit", "litprev"):
                lines.append(Line(f"{ind}{pre}{kw}{L0}", call))
                lines.extend(inner)
                lines.append(Line(f"{ind}}}()", call + rb))
            elif con == "litarg":
                lines.append(Line(f"{ind}{kw}{L0}", call))
                lines.extend(inner)
                lines.append(Line(f'{ind}}}("{lit}")', call + rb))
            elif con == "mlargs":
                lines.append(Line(f"{ind}{kw}{L0}", call))
                lines.extend(inner)
                lines.append(Line(f"{ind}}}(", call + rb))
                lines.append(Line(f"{ind}\t1,", call))
                lines.append(Line(f"{ind}\t2,", call))
                lines.append(Line(f"{ind})", call))
            elif con == "litrecv":
                lines.append(Line(f'{ind}{kw}pick("{lit}", {L0}', call))
                lines.extend(inner)
                lines.append(Line(f"{ind}}})()", call + rb))
            elif con == "mlchain":
                lines.append(Line(f"{ind}{kw}pick(", call))
                lines.append(Line(f'{ind}\t"s",', call))
                lines.append(Line(f"{ind}\t{L0}", call))
                lines.extend(inner)
                lines.append(Line(f"{ind}\t}},", call + rb))
                lines.append(Line(f"{ind})()", call))
            else:
                raise AssertionError(con)
            if k == "goroutine":
                lines.append(Line(f"{ind}<-done{h}", pad))
        lines.append(Line(f"{ind}keep(1)", pad))
        return lines

    def files(self):
        out = {}
        for level in range(len(LEVELS)):
            pkg = "main" if level == 0 else LEVELS[level]
            d = "" if level == 0 else LEVELS[level] + "/"
            out[d + "helpers.go"] = HELPERS % pkg
            for fi in (0, 1):
                place = (level, fi)
                fn = d + ("a.go", "b.go")[fi]
                lines = [Line(f"package {pkg}"), Line("")]
                imps = sorted(self.imports.get(place, ()))
                if imps:
                    lines.append(Line("import ("))
                    lines.extend(Line(f'\t"{p}"') for p in imps)
                    lines.append(Line(")"))
                    lines.append(Line(""))
                lines.extend(self.blocks.get(place, []))
                out[fn] = "\n".join(l.text for l in lines) + "\n"
                key = self.pkgpath(level) + "/" + ("a.go", "b.go")[fi]
                self.roles[key] = {n + 1: l.roles for n, l in enumerate(lines) if l.roles}
        out["rep/rep.go"] = REP_GO
        disp = "\n".join(f'\t{{"{e}", {e}e}},' for e in self.entries)
        out["main.go"] = f'''package main

import (
	"os"

	"{MODULE}/rep"
)

var entries = []struct {{
	name string
	f    func(...any)
}}{{
{disp}
	{{"tag", tagHop}},
	{{"twin", twinHop}},
}}

func main() {{
	which, mode := "all", "report"
	if len(os.Args) > 1 {{
		which = os.Args[1]
	}}
	if len(os.Args) > 2 {{
		mode = os.Args[2]
	}}
	rep.Panic = mode == "panic"
	for _, e := range entries {{
		if which == "all" || which == e.name {{
			e.f()
		}}
	}}
	if rep.Panic {{
		// the panic is under way in another goroutine (its deferred close released us): wait for it to end the process
		select {{}}
	}}
}}
'''
        out["tag_on.go"] = f'''//go:build t

package main

import "{MODULE}/rep"

// with -tags t

func tagHop(a ...any) {{
	keep("built with the tag")
	rep.Report("tag")
}}
'''
        # two packages with the SAME package name (different import paths) declaring the same identifiers, both on one trace:
        # the reverse pairs of one must not shadow or replace those of the other (names are salted per package)
        twin = '''package twin

type Engine struct{ N int }

//go:noinline
func Hop(f func(...any)) {
	f("twin")
}

//go:noinline
func (e *Engine) Walk(f func(...any)) {
	e.walk(f)
}

//go:noinline
func (e *Engine) walk(f func(...any)) {
	f(e.N)
}
'''
        out["v1/twin/twin.go"] = twin
        out["v2/twin/twin.go"] = twin
        out["twin_main.go"] = f'''package main

import (
	"{MODULE}/rep"
	twin1 "{MODULE}/v1/twin"
	twin2 "{MODULE}/v2/twin"
)

func twinHop(a ...any) {{
	twin1.Hop(twinMid)
}}

func twinMid(a ...any) {{
	twin2.Hop(twinEng)
}}

func twinEng(a ...any) {{
	e := &twin1.Engine{{N: 1}}
	e.Walk(twinEng2)
}}

func twinEng2(a ...any) {{
	e := &twin2.Engine{{N: 2}}
	e.Walk(twinLeaf)
}}

func twinLeaf(a ...any) {{
	rep.Report("twin")
}}
'''
        out["tag_off.go"] = f'''//go:build !t

package main

import "{MODULE}/rep"

func tagHop(a ...any) {{
	rep.Report("tag")
}}
'''
        return out


# --------------------------------------------------------------------------- parsing of program output

RX_ARGS = re.compile(r"\((\{|0x|\.\.\.)[^)]*\)$|\(\)$")


def parse_report(text):
    """-> {tag: {"frames": [(func, pos)], "stack": [(func, pos)]}}; tolerant of CR LF"""
    out = {}
    cur = None
    mode = None
    pending = None
    for raw in text.split("\n"):
        line = raw.rstrip("\r")
        if line.startswith("BEGIN "):
            cur = {"frames": [], "stack": []}
            out[line[6:]] = cur
            mode = "frames"
            continue
        if cur is None:
            continue
        if line.startswith("END "):
            cur, mode = None, None
            continue
        if line == "STACK":
            mode, pending = "stack", None
            continue
        if mode == "frames" and line.startswith("FRAME "):
            parts = line[6:].rsplit(" ", 1)
            cur["frames"].append((parts[0], parts[1] if len(parts) > 1 else ""))
        elif mode == "stack":
            if line.startswith("goroutine ") or not line.strip():
                continue
            if line.startswith("\t"):
                pos = re.sub(r" \+0x[0-9a-f]+$", "", line.strip())
                cur["stack"].append((pending or "?", pos))
                pending = None
            else:
                f = line.strip()
                if f.startswith("created by "):
                    f = re.sub(r" in goroutine \d+$", "", f)
                else:
                    f = RX_ARGS.sub("", f)
                pending = f
    return out


def parse_panics(text):
    """-> {tag: [(func, pos)]} from concatenated panic traces separated by '=== tag ===' lines"""
    out = {}
    cur = None
    pending = None
    for raw in text.split("\n"):
        line = raw.rstrip("\r")
        m = re.match(r"=== (\S+) ===$", line)
        if m:
            cur = out.setdefault(m.group(1), [])
            pending = None
            continue
        if cur is None or not line.strip() or line.startswith("goroutine ") or line.startswith("panic: ") or line.startswith("exit status") \
                or line.startswith("[signal") or line.startswith("\tpanic: "):
            continue
        if line.startswith("\t"):
            cur.append((pending or "?", re.sub(r" \+0x[0-9a-f]+$", "", line.strip())))
            pending = None
        else:
            f = line.strip()
            f = re.sub(r" in goroutine \d+$", "", f) if f.startswith("created by ") else RX_ARGS.sub("", f)
            pending = f
    return out


# --------------------------------------------------------------------------- classification

RX_FUNCN = re.compile(r"\.func\d+(\.\d+)*")


def name_depth(fn):
    m = re.search(r"\.func\d+((?:\.\d+)*)$", fn)
    if not m:
        return 0
    return 1 + m.group(1).count(".")


def std_frame(fn, pos):
    """frame of a package outside the generated module"""
    return not (fn.startswith("main.") or fn.startswith(MODULE) or fn.startswith("created by main.") or fn.startswith("created by " + MODULE))


def frame_role(gen, frame):
    """the generator's role of the source line the regular build reports for this frame"""
    rf, rp = frame
    file, _, line = rp.rpartition(":")
    roles = gen.roles.get(file, {}).get(int(line) if line.isdigit() else -1, [])
    created = rf.startswith("created by ")
    if not roles:
        return None, created, file
    if created:
        cands = [r for r in roles if r["role"] == "call"]
    else:
        d = name_depth(rf)
        cands = [r for r in roles if r["depth"] == d]
    return (cands[0] if cands else roles[0]), created, file


def classify(gen, reg, rev, literals):
    """reg/rev: (func, pos) of the regular build and of the reversed garbled build at one frame index.
    Returns a list of witnesses (possibly empty)."""
    (rf, rp), (vf, vp) = reg, rev
    out = []
    base = {"literals": literals}
    role, created, file = frame_role(gen, reg)
    if std_frame(rf, rp):
        base["frame_pkg"] = "runtime-or-deps" if (rp.startswith("runtime/") and not rp.startswith("runtime/debug/")) or rp.startswith("internal/") else "std"
        base["point"] = "std"
    elif role is None:
        base["frame_pkg"] = "program"
        base["point"] = "infrastructure"          # main.main, rep.Report, tagHop: plain calls
    else:
        base["frame_pkg"] = "program"
        base["callee_kind"] = role.get("callee_kind", "leaf")
        base["construct"] = role.get("construct", "none")
        if role["role"] == "rb":
            base["point"] = "closing-brace"
        elif role["role"] == "call":
            base["point"] = "go-keyword" if created else "call-paren"
        else:
            base["point"] = role["role"]
    if vp != rp:
        w = dict(base, observable="frame-position")
        vfile = vp.rpartition(":")[0]
        if vfile == file:
            w["symptom"] = "wrong-line"
        elif "/" not in vfile and vfile.endswith(".go"):
            w["symptom"] = "unreversed"
        elif re.fullmatch(r"[A-Za-z0-9_]+/[A-Za-z0-9_.]+", vfile) and os.path.dirname(vfile) != os.path.dirname(file) and \
                (os.path.basename(vfile) == os.path.basename(file) or (vfile.endswith(".s") and file.endswith(".s"))):
            w["symptom"] = "unreversed-dir"         # <hash of the import path>/file.go: the directory of a never-obfuscated package
        else:
            w["symptom"] = "other"
        out.append(w)
    if vf != rf:
        w = dict(base, observable="frame-func")
        if RX_FUNCN.sub(".funcN", vf) == RX_FUNCN.sub(".funcN", rf):
            w["symptom"] = "closure-renumbered"
        else:
            w["symptom"] = "wrong-name"
        out.append(w)
    return out


# --------------------------------------------------------------------------- the experiment for one configuration

class Config:
    def __init__(self, name, gflags, bflags):
        self.name, self.gflags, self.bflags = name, gflags, bflags
        self.literals = "-literals" in gflags


def run_bin(binp, args, timeout=300):
    env = {"PATH": "/usr/bin:/bin", "HOME": "/nonexistent", "GOTRACEBACK": "single"}
    return run([binp] + args, env=env, timeout=timeout)


def reverse(sb, cfg, src, text):
    return sb.garble(cfg.gflags + ["reverse"] + cfg.bflags + ["."], cwd=src, stdin=text.encode("utf-8", "surrogateescape"), timeout=600)


def compare_sets(chk, gen, cfg, what, regd, revd, files, stats, hop_outcomes, budget):
    """regd / revd: {tag: [(func,pos)]}"""
    for tag in sorted(regd):
        a, b = regd[tag], revd.get(tag)
        chk.case([cfg.name, what, tag])
        if b is None or len(a) != len(b):
            w = {"observable": "frame-count", "config": cfg.name, "what": what, "literals": cfg.literals}
            report(chk, w, files(tag), f"{cfg.name}: {what} of chain {tag}: {len(a)} frames in the regular build, {len(b) if b is not None else 'no'} after reverse", stats, budget)
            continue
        for idx, (x, y) in enumerate(zip(a, b)):
            stats["frames"] += 1
            ws = classify(gen, x, y, cfg.literals) if x != y else []
            for w in ws:
                w["config"] = cfg.name
                w["what"] = what
                stats["differing"] += 1
                report(chk, w, files(tag), f"{cfg.name}: {what} of chain {tag}, frame {idx}: regular {x[0]} {x[1]} / reversed {y[0]} {y[1]}", stats, budget,
                       extra={"regular": x, "reversed": y, "chain": tag})
            # outcome per hop for the comparison with the model
            role, created, _ = frame_role(gen, x)
            if role is not None and "callee_kind" in role and role["role"] in ("call", "rb"):
                if (role["callee_kind"] == "goroutine") == created and (role["role"] == "rb") == (role["callee_kind"] == "deferred"):
                    key = (role["callee_kind"], role["construct"], cfg.literals)
                    hop_outcomes.setdefault(key, set()).add("restored" if x[1] == y[1] else "not-restored")


def report(chk, witness, files, what, stats, budget, extra=None):
    cls = "|".join(f"{k}={witness[k]}" for k in ("observable", "point", "callee_kind", "construct", "literals", "symptom", "frame_pkg") if k in witness)
    stats.setdefault("classes", {})
    stats["classes"][cls] = stats["classes"].get(cls, 0) + 1
    known = any(finding_matches(k, witness) for k in chk.known)
    if not known:
        stats["unknown"] += 1
        if budget[0] <= 0:
            return
        budget[0] -= 1
    f = dict(files)
    if extra:
        f["frame.json"] = json.dumps(extra, indent=1)
    chk.violation(witness, f, what)


PASS_INPUTS = (("crlf-nofinal", "plain text\r\nwith main.go:12 and example.com/x\r\nno newline at the end"),
               ("empty-lines", "\n\n\t\n \r\n"), ("binaryish", "caf\u00e9 \x00\x01 z\n"))


def collect(cfg, sb, src, root, regular_out, panic_tags, all_inputs=True):
    """everything that talks to garble for one configuration (runs in a worker thread; no bookkeeping here)"""
    d = {}
    tag = re.sub(r"[^a-z0-9]", "", cfg.name.lower()) or "default"
    binp = root / f"garbled_{tag}.bin"
    r = sb.garble(cfg.gflags + ["build"] + cfg.bflags + ["-o", str(binp), "."], cwd=src, timeout=1500)
    if r.returncode != 0:
        raise Inconclusive(f"garble {cfg.name} build of the C04 program failed:\n{r.stderr[-3000:]}")
    g = run_bin(binp, ["all", "report"])
    if g.returncode != 0:
        raise Inconclusive(f"the garbled program ({cfg.name}) failed: rc={g.returncode}\n{g.stderr[-2000:]}")
    d["garbled"] = g.stdout
    d["rev"] = reverse(sb, cfg, src, g.stdout)

    def one(t):
        return t, run_bin(binp, [t, "panic"])
    with ThreadPoolExecutor(4) as ex:
        runs = list(ex.map(one, panic_tags))
    text = ""
    for t, p in runs:
        if p.returncode != 2:
            raise Inconclusive(f"panic run of chain {t} ({cfg.name}) exits {p.returncode}")
        text += f"=== {t} ===\n" + p.stderr
    d["panics"] = text
    d["rev_panics"] = reverse(sb, cfg, src, text) if text else None
    crlf = g.stdout.replace("\n", "\r\n")
    if crlf.endswith("\r\n"):
        crlf = crlf[:-2]          # last line without a newline
    d["crlf"] = crlf
    d["rev_crlf"] = reverse(sb, cfg, src, crlf)
    inputs = (("regular-trace", regular_out),) + (PASS_INPUTS if all_inputs else ())
    d["pass"] = [(label, text, reverse(sb, cfg, src, text)) for label, text in inputs]
    return d


def judge(chk, gen, cfg, src, d, regular_out, regular_panics, model_expect, budget):
    stats = {"frames": 0, "differing": 0, "unknown": 0}
    rv = d["rev"]
    replay = {"commands.txt": f"cd src && garble {' '.join(cfg.gflags)} build {' '.join(cfg.bflags)} -o garbled . && ./garbled all report | garble {' '.join(cfg.gflags)} reverse {' '.join(cfg.bflags)} .\n"
                              f"go build -trimpath {' '.join(cfg.bflags)} -o regular . && ./regular all report\n",
              "garbled.out": d["garbled"], "reversed.out": rv.stdout, "reverse.stderr": rv.stderr, "regular.out": regular_out, "src": src}
    if rv.returncode != 0:
        chk.violation({"observable": "exit-status", "config": cfg.name, "expected": 0, "got": rv.returncode}, replay,
                      what=f"{cfg.name}: garble reverse exits {rv.returncode} on a trace full of obfuscated names")
    regd, revd = parse_report(regular_out), parse_report(rv.stdout)
    if set(regd) != set(revd):
        chk.violation({"observable": "chains-present", "config": cfg.name}, replay, what=f"{cfg.name}: reversed output lists other chains than the regular output")
    hop_outcomes = {}
    for part in ("frames", "stack"):
        compare_sets(chk, gen, cfg, part, {t: v[part] for t, v in regd.items()}, {t: v[part] for t, v in revd.items()},
                     lambda t: replay, stats, hop_outcomes, budget)
    # the program's own marker lines must be untouched
    skel = lambda s: [l for l in s.split("\n") if l.startswith(("BEGIN ", "END ", "STACK"))]
    if skel(regular_out) != skel(rv.stdout):
        chk.violation({"observable": "skeleton", "config": cfg.name}, replay, what=f"{cfg.name}: the program's own marker lines changed through reverse")
    # panic traces (one process per chain, concatenated, reversed in one go)
    if d["rev_panics"] is not None:
        rvp = d["rev_panics"]
        rp = dict(replay)
        rp.update({"garbled.panics": d["panics"], "reversed.panics": rvp.stdout, "regular.panics": regular_panics})
        if rvp.returncode != 0:
            chk.violation({"observable": "exit-status", "config": cfg.name, "expected": 0, "got": rvp.returncode}, rp,
                          what=f"{cfg.name}: garble reverse exits {rvp.returncode} on panic traces")
        compare_sets(chk, gen, cfg, "panic", parse_panics(regular_panics), parse_panics(rvp.stdout), lambda t: rp, stats, hop_outcomes, budget)
    # line endings: the same trace with CR LF and no final newline
    rc = d["rev_crlf"]
    want = rv.stdout.replace("\n", "\r\n")
    want = want[:-2] if want.endswith("\r\n") else want
    chk.case([cfg.name, "crlf"])
    if rc.stdout != want or rc.returncode != rv.returncode:
        chk.violation({"observable": "line-endings", "config": cfg.name}, {"input.txt": d["crlf"], "got.txt": rc.stdout, "want.txt": want, "src": src},
                      what=f"{cfg.name}: the same trace with CR LF endings and no final newline is not reversed to the same text with CR LF endings")
    # pass-through of text without obfuscated names
    for label, passtext, rp2 in d["pass"]:
        chk.case([cfg.name, "passthrough", label])
        if rp2.stdout != passtext:
            chk.violation({"observable": "pass-through", "config": cfg.name, "input": label}, {"input.txt": passtext, "got.txt": rp2.stdout, "src": src},
                          what=f"{cfg.name}: text without obfuscated names is changed by garble reverse ({label})")
        if rp2.returncode != 1:
            chk.violation({"observable": "exit-status", "config": cfg.name, "expected": 1, "got": rp2.returncode, "input": label},
                          {"input.txt": passtext, "got.txt": rp2.stdout, "stderr.txt": rp2.stderr, "src": src},
                          what=f"{cfg.name}: garble reverse exits {rp2.returncode} although nothing was replaced ({label})")
    # model comparison (never a verdict)
    mm = []
    for (k, c, l), seen in sorted(hop_outcomes.items()):
        e = model_expect.get((k, c, l))
        if not e:
            continue
        real = "restored" if seen == {"restored"} else "not-restored"
        model = "restored" if e["outcome"] == "restored" else "not-restored"
        if real != model:
            mm.append({"kind": k, "construct": c, "literals": l, "model": e["outcome"], "real": sorted(seen)})
    stats["model_mismatches"] = mm
    stats["hops_observed"] = len(hop_outcomes)
    return stats


# --------------------------------------------------------------------------- table rows (B3)

def table_rows(chk, model):
    garble = build_garble("verif")
    pairs = []
    for p in model["pairs"]:
        pairs += ["".join(p["old"]), "".join(p["new"])]
    rows = model["rows"]
    payload = "".join(json.dumps({"pairs": pairs, "input": "".join(r["input"])}) + "\n" for r in rows)
    res = run([garble, "verif", "reversecontent"], stdin=payload, timeout=600, env=base_env())
    if res.returncode != 0:
        raise Inconclusive(f"garble verif reversecontent failed: {res.stderr[-1000:]}")
    outs = [json.loads(l) for l in res.stdout.splitlines()]
    if len(outs) != len(rows):
        raise Inconclusive("garble verif reversecontent: reply count mismatch")
    bad = 0
    for r, o in zip(rows, outs):
        inp, want = "".join(r["input"]), "".join(r["out"])
        chk.case(["row", inp], nontrivial=r["haskey"])
        got, mod = o.get("out"), o.get("modified")
        if not r["haskey"]:
            if got != inp or mod:
                bad += 1
                if bad <= 3:
                    chk.violation({"observable": "pass-through", "config": "reversecontent-table"}, {"row.json": json.dumps({"row": r, "reply": o})},
                                  what=f"reverseContent changes text without a key: {inp!r} -> {got!r}")
        elif got != want or mod != r["modified"]:
            bad += 1
            if bad <= 3:
                chk.violation({"observable": "replacement", "config": "reversecontent-table"}, {"row.json": json.dumps({"row": r, "reply": o, "pairs": pairs})},
                              what=f"reverseContent({inp!r}) = {got!r}, modified={mod}; expected {want!r}, modified={r['modified']}")
    chk.extra["table_rows_checked"] = len(rows)
    chk.extra["table_rows_bad"] = bad


# --------------------------------------------------------------------------- main

def choose_chains(model, tier, rng):
    kinds = sorted(model["kinds"])
    cons = sorted(model["constructs"])
    chains = []
    for k in kinds:
        for c in cons:
            chains.append(([k], [c]))
    longer = sorted((ch for ch in model["chains"] if len(ch) >= 2), key=lambda ch: (len(ch), ch))
    if tier == "quick":
        pairs = [ch for ch in longer if len(ch) == 2]
        pairs = sorted(rng.sample(pairs, min(48, len(pairs))))      # quick: a seeded sample of the two-frame chains
        for ch in pairs:
            chains.append((list(ch), [rng.choice(cons) for _ in ch]))
    else:
        for ch in longer:
            chains.append((list(ch), [rng.choice(cons) for _ in ch]))
        for ch in (ch for ch in longer if len(ch) == 2):
            chains.append((list(ch), [rng.choice(cons) for _ in ch]))
    return chains


def main(tier, seed):
    chk = Check("C04", tier, seed)
    chk.rule = ("one real execution = one (config, output kind, chain) whose frames were compared after garble reverse, one pass-through / line-ending input, "
                "or one row of the replacement table; distinct = distinct such tuples")
    chk.assumptions = [
        "programs are the generated call chains (11 frame kinds x 7 constructs, depth <= 3) in 5 packages; other Go constructs are not covered",
        "frames are compared after stripping goroutine ids, +0x offsets and argument words; frames inside the Go standard library are compared too",
        "the classification of a differing frame uses the generator's map from source lines to hops; known findings are matched on that classification",
        "GOTRACEBACK=single for the generated program's runs",
    ]
    rng = chk.rng

    work = mkscratch("c04-tlc")
    r = tlc_must_pass("Position", f"Position-{tier}.cfg", workdir=work, timeout=1800)
    chk.add_tlc(r)
    log(f"TLC Position-{tier}: {r.distinct} states in {r.wall:.0f}s")
    model = json.loads((work / "position_cases.json").read_text())
    model_expect = {(e["kind"], e["construct"], e["literals"]): e for e in model["expect"]}
    chk.extra["model_gap_classes"] = sorted({e["gap"] for e in model["expect"]} - {"none"})

    table_rows(chk, model)

    chains = choose_chains(model, tier, rng)
    chk.extra["chains"] = len(chains)
    gen = Gen(chains)
    root = mkscratch("c04")
    src = root / "src"
    write_module(src, gen.files(), module=MODULE)
    (root / "roles.json").write_text(json.dumps(gen.roles))

    configs = [Config("default", [], []), Config("-literals", ["-literals"], []), Config(SEED_FLAG.split("=")[0], [SEED_FLAG], []),
               Config("-tags t", [], ["-tags", "t"])]
    sb = Sandbox(root / "sb", template=True)
    n_panic = 24 if tier == "quick" else 200
    panic_tags = sorted(rng.sample(gen.entries, min(n_panic, len(gen.entries)))) + ["tag", "twin"]

    # regular builds (with and without the tag)
    regular = {}
    for bflags in ([], ["-tags", "t"]):
        key = " ".join(bflags)
        binp = root / ("regular_t.bin" if bflags else "regular.bin")
        rr = sb.go(["build", "-trimpath"] + bflags + ["-o", str(binp), "."], cwd=src, timeout=900)
        if rr.returncode != 0:
            raise Inconclusive(f"go build -trimpath of the C04 program failed:\n{rr.stderr[-3000:]}")
        o = run_bin(binp, ["all", "report"])
        if o.returncode != 0:
            raise Inconclusive(f"the regular program failed: rc={o.returncode}\n{o.stderr[-2000:]}")
        sk = [l for l in o.stdout.split("\n") if l.startswith(("BEGIN ", "END ", "STACK"))]
        want_sk = [x for e in gen.entries + ["tag", "twin"] for x in (f"BEGIN {e}", "STACK", f"END {e}")]
        if sk != want_sk:
            raise Inconclusive("the regular program's output is not the expected sequence of BEGIN/STACK/END blocks (generator problem)")
        ptxt = ""
        for t in panic_tags:
            p = run_bin(binp, [t, "panic"])
            if p.returncode != 2:
                raise Inconclusive(f"regular panic run of chain {t} exits {p.returncode}")
            ptxt += f"=== {t} ===\n" + p.stderr
        regular[key] = (o.stdout, ptxt)
    log(f"regular builds done at {time.time()-chk.t0:.0f}s; {len(chains)} chains")

    budget = [10]
    allstats = {}
    build_garble("verif")

    def do(cfg):
        return collect(cfg, sb, src, root, regular[" ".join(cfg.bflags)][0], panic_tags, all_inputs=(tier == "thorough" or cfg.name == "default"))
    # the garble builds of the configurations run side by side (one GOCACHE / GARBLE_CACHE, as concurrent users do);
    # all bookkeeping happens afterwards in this thread
    with ThreadPoolExecutor(3) as ex:
        collected = list(ex.map(do, configs))
    log(f"garble builds, runs and reverse calls done at {time.time()-chk.t0:.0f}s")
    for cfg, d in zip(configs, collected):
        ro, rp = regular[" ".join(cfg.bflags)]
        st = judge(chk, gen, cfg, src, d, ro, rp, model_expect, budget)
        allstats[cfg.name] = st
        log(f"config {cfg.name}: {st['frames']} frames compared, {st['differing']} differing, {st['unknown']} not known")
    chk.extra["configs"] = allstats
    mm = sum(len(s["model_mismatches"]) for s in allstats.values())
    if mm:
        ex = [m for s in allstats.values() for m in s["model_mismatches"]][:4]
        print(f"MODEL-MISMATCH: property=C04 {mm} (kind, construct, -literals) hops whose real outcome differs from Position.tla: {ex}", flush=True)
    if sum(s["frames"] for s in allstats.values()) < 100 and not chk.violations:
        # (with violations recorded the verdict stands: e.g. a reverse that loses the line structure leaves no frame to compare)
        raise Inconclusive("fewer than 100 frames were compared")
    chk.exhaustive = tier == "thorough"
    return chk.finish()


import time  # noqa: E402

if __name__ == "__main__":
    main_wrapper(main)
