#!/usr/bin/env python3
"""C03 - Builds are reproducible bit for bit.

Spec: spec/Determinism.tla models the obfuscation of a package as a pipeline of choice points
(draws of the passed generator, draws of the process-global generator, iterations of Go maps as
explicit ArbitraryOrder / ArbitraryGlobal actions) for two independent builds, invariant
SameOutput.  TLC proves it for the non-control-flow configurations, and for control flow it is
EXPECTED to produce a counterexample plus the list of leaking choice points (leads for F5);
with those points repaired the invariant holds again.  (spec/CtrlFlow.tla has the choice points
of the transformations themselves.)

The real code decides: for every configuration in {default, -literals, -tiny, -seed, -literals
-tiny, control flow} at least three INDEPENDENT cold builds of the same multi-package program
(fresh GOCACHE copy / GARBLE_CACHE / TMPDIR / HOME each, different source directories, -p 1, -p 4,
-p 16) plus a rebuild on a half-warm cache (a random subset of the build's own GOCACHE and
GARBLE_CACHE entries deleted); sha256 of the binaries must agree.  On a difference the builds are
repeated with -debugdir and the garbled sources are diffed to localise it.  The leads are also
replayed in-process (cfdrv twice with the same seed).
"""
import concurrent.futures
import difflib
import json
import os
import re
import sys
import time

sys.path.insert(0, str(__import__("pathlib").Path(__file__).resolve().parent))
from cf_common import *  # noqa

PID = "C03"
MOD = "example.com/c03prog"

LIB_GO = """package lib

import "strings"

type Item struct {
	Name  string
	Count int
}

var Default = Item{"default item of the library", 3}

const sep = "::separator::"

//garble:controlflow flatten_passes=1 flatten_hardening=xor,delegate_table
func Fold(xs []int) int {
	acc := 1
	for i, x := range xs {
		if x%2 == 0 {
			acc = acc*3 + x
		} else {
			acc = acc - i
		}
	}
	return acc
}

//garble:controlflow flatten_passes=1 trash_blocks=2 junk_jumps=1
func Mix(s string, n int) string {
	out := ""
	ok := false
	for i := 0; i < n; i++ {
		if i%2 == 0 {
			out += strings.ToUpper(s)
			ok = true
		} else {
			out += sep
		}
	}
	if !ok {
		return "empty result of Mix"
	}
	return out
}

func Join(items []Item) string {
	var parts []string
	for _, it := range items {
		parts = append(parts, strings.Repeat(it.Name, it.Count))
	}
	return strings.Join(parts, sep)
}
"""

DEEP_GO = """package deep

type kind int

const (
	small kind = iota
	medium
	large
)

func (k kind) String() string {
	switch k {
	case small:
		return "a small number"
	case medium:
		return "a medium number"
	}
	return "a rather large number"
}

func Describe(v int) string {
	switch {
	case v < 5:
		return small.String()
	case v < 50:
		return medium.String()
	}
	return large.String()
}
"""

MAIN_A = """package main

import (
	"example.com/c03prog/lib"
	"example.com/c03prog/lib/deep"
)

type point struct{ X, Y int }

func (p point) norm() int { return p.X*p.X + p.Y*p.Y }

var greeting = "hello from the main package of the probe"

const banner = "C03 reproducibility probe, program A"

//garble:controlflow flatten_passes=1 junk_jumps=2
func classify(v int, f float64) string {
	r := "unclassified value"
	big := v > 100
	scale := f * 2
	for i := 0; i < 3; i++ {
		switch {
		case v < 0:
			r = "negative"
		case big && scale > 1:
			r = "big and scaled"
		case v%2 == 0:
			r = r + "+even"
		}
		v = v/2 - 1
	}
	return r
}

func main() {
	p := point{3, 4}
	println(banner, greeting, p.norm(), lib.Fold([]int{1, 2, 3, 4}), deep.Describe(7), classify(5, 0.75), lib.Mix("abc", 3))
	println(lib.Join([]lib.Item{lib.Default, {"x", 2}}))
}
"""

MAIN_B = """package main

import (
	"fmt"
	"reflect"

	"example.com/c03prog/lib"
	"example.com/c03prog/lib/deep"
)

type Alpha struct {
	Name string
	N    int
}
type Beta struct {
	Flag  bool
	Inner Alpha
}
type Gamma struct{ Values []int }
type Delta struct{ M map[string]int }
type Epsilon struct {
	P *Alpha
	F float64
}
type Zeta struct{ Tag string }
type Eta struct{ A, B, C int }
type Theta struct{ Items []lib.Item }

// one reflected parameter per function: single-path reflection flows only
func show(v any) {
	t := reflect.TypeOf(v)
	fmt.Printf("%s %d %+v\\n", t.Name(), t.NumField(), v)
}

func main() {
	fmt.Println("C03 reproducibility probe, program B", deep.Describe(70), lib.Fold([]int{2, 4}))
	show(Alpha{"alpha", 1})
	show(Beta{true, Alpha{"inner", 2}})
	show(Gamma{[]int{1, 2, 3}})
	show(Delta{map[string]int{"k": 1}})
	show(Epsilon{nil, 1.5})
	show(Zeta{"zeta tag string"})
	show(Eta{1, 2, 3})
	show(Theta{[]lib.Item{lib.Default}})
}
"""


# an assembly file in the main package: its path is recorded through -trimpath only (no //line directive)
ASM_GO = """package main

func asmTwice(x int64) int64

func init() {
	if asmTwice(21) != 42 {
		panic("asm")
	}
}
"""
ASM_S = """#include "textflag.h"

// func asmTwice(x int64) int64
TEXT ·asmTwice(SB),NOSPLIT,$0-16
	MOVQ x+0(FP), AX
	ADDQ AX, AX
	MOVQ AX, ret+8(FP)
	RET
"""


def program(which):
    return {"main.go": MAIN_A if which == "A" else MAIN_B, "lib/lib.go": LIB_GO, "lib/deep/deep.go": DEEP_GO,
            "twice.go": ASM_GO, "twice_amd64.s": ASM_S}


SEED = "-seed=Y2hlY2tjMDNzZWVkMDEyMw"


def configs(tier):
    cs = [("default", [], {}, "B"), ("literals", ["-literals"], {}, "A"), ("tiny", ["-tiny"], {}, "A"),
          ("seed", [SEED], {}, "A"), ("literals-tiny", ["-literals", "-tiny"], {}, "A"),
          ("ctrlflow", [], {"GARBLE_EXPERIMENTAL_CONTROLFLOW": "1"}, "A")]
    if tier == "thorough":
        cs += [("default", [], {}, "A"), ("literals", ["-literals"], {}, "B"), ("seed-literals", [SEED, "-literals"], {}, "B"),
               ("tiny", ["-tiny"], {}, "B"),
               ("ctrlflow-seed", [SEED], {"GARBLE_EXPERIMENTAL_CONTROLFLOW": "1"}, "A"),
               ("ctrlflow-literals", ["-literals"], {"GARBLE_EXPERIMENTAL_CONTROLFLOW": "1"}, "A")]
    return cs


def new_cache_files(root: Path, since: float):
    out = []
    for dp, _, fns in os.walk(root):
        for fn in fns:
            p = Path(dp) / fn
            try:
                if p.stat().st_mtime >= since and fn not in ("trim.txt", "README", "link", "link.version", "testexpire.txt"):
                    out.append(p)
            except FileNotFoundError:
                pass
    return out


LINKER_TOOL = None


def one_build(root: Path, name: str, idx: int, flags, env, prog, pflag, rng_seed, half_warm, fraction=0.5):
    """An independent cold build in its own sandbox; optionally followed by a half-warm rebuild.
    Returns a list of dict(label, sha, rc, stderr, sb_root, src, flags, env)."""
    import random
    rng = random.Random(rng_seed)
    base = root / f"{name}-{prog}-{idx}"
    # different source locations (depth and names differ), different TMPDIR (inside the sandbox)
    src = base / ("work" + "x" * idx) / ("nested" if idx % 2 else "") / f"checkout-{idx}"
    write_module(src, program(prog), module=MOD)
    t0 = time.time() - 1
    # TMPDIR: somewhere else each time; for the last build of a configuration INSIDE the directory of the main
    # package (the go command's own -trimpath rewrite of that directory is then a prefix of garble's temp dir)
    tmpdir = (src / f"tmp-in-src-{rng.randrange(10**6)}") if idx == 2 else base / f"tmp-{idx}-{rng.randrange(10**6)}"
    sb = Sandbox(base / "sb", template=True, tmpdir=tmpdir)
    if LINKER_TOOL is not None and not (name == "default" and idx == 0):
        # all but one build start from an already patched linker (it is not part of the output;
        # the remaining build patches and builds its own, which covers that path)
        copytree(LINKER_TOOL, sb.gcache / "tool")
    res = []
    exe = base / "prog.bin"
    r = sb.garble(list(flags) + ["build", f"-p={pflag}", "-o", str(exe), "."], cwd=src, env=env, timeout=2400)
    res.append({"label": f"cold-p{pflag}", "rc": r.returncode, "stderr": r.stderr[-1500:], "sha": sha256_file(exe) if r.returncode == 0 else None,
                "sb": sb, "src": src, "wall": r.wall})
    if half_warm and r.returncode == 0:
        victims = new_cache_files(sb.gocache, t0) + new_cache_files(sb.gcache / "build", t0)
        rng.shuffle(victims)
        gone = victims[: max(1, int(len(victims) * fraction))]
        for p in gone:
            try:
                p.unlink()
            except FileNotFoundError:
                pass
        exe2 = base / "prog-halfwarm.bin"
        r2 = sb.garble(list(flags) + ["build", f"-p={pflag}", "-o", str(exe2), "."], cwd=src, env=env, timeout=2400)
        res.append({"label": f"halfwarm-p{pflag}-del{len(gone)}of{len(victims)}", "rc": r2.returncode, "stderr": r2.stderr[-1500:],
                    "sha": sha256_file(exe2) if r2.returncode == 0 else None, "sb": sb, "src": src, "wall": r2.wall})
    return res


def debugdir_diff(a, b, flags, env, root: Path, tag: str):
    """Rebuild a and b with -debugdir and diff the garbled sources.  Returns (sorted differing
    relative paths, unified diff text)."""
    outs = []
    for k, x in enumerate((a, b)):
        dd = root / f"debug-{tag}-{k}"
        r = x["sb"].garble([f"-debugdir={dd}"] + list(flags) + ["build", "-o", str(root / f"debug-{tag}-{k}.bin"), "."],
                           cwd=x["src"], env=env, timeout=2400)
        if r.returncode != 0:
            return None, f"rebuild with -debugdir failed: {r.stderr[-800:]}"
        outs.append(dd / "garbled")
    da, db = tree_digest(outs[0]), tree_digest(outs[1])
    differing = sorted(k for k in set(da) | set(db) if da.get(k) != db.get(k))
    text = ""
    for rel in differing[:4]:
        pa, pb = outs[0] / rel, outs[1] / rel
        if pa.is_file() and pb.is_file():
            la = pa.read_text(errors="replace").splitlines()
            lb = pb.read_text(errors="replace").splitlines()
            text += "\n".join(list(difflib.unified_diff(la, lb, str(pa), str(pb), lineterm="", n=1))[:120]) + "\n"
    return differing, text


# --------------------------------------------------------------------------- in-process replay of the leads

INPROC = {
    # cause -> (program, what TLC leak ids it stands for)
    "var-spec-map-order": ("""package main

//garble:controlflow flatten_passes=1
func f(n int, s string) (int, string, float64) {
	t := 0
	u := s
	w := 0.5
	ok := false
	for i := 0; i < n; i++ {
		if i%3 == 0 {
			t += i
			ok = !ok
		} else {
			u += "x"
			w *= 1.5
		}
	}
	if ok {
		t++
	}
	return t, u, w
}

func main() { a, b, c := f(7, "s"); println(a, b, int(c*100)) }
""", {"cf.varspecs"}),
    "trash-map-order": ("""package main

import "strings"

var _ = strings.ToUpper

//garble:controlflow flatten_passes=1 trash_blocks=4
func g(n int) int {
	if n > 3 {
		return n * 2
	}
	return n + 1
}

func main() { println(g(1), g(9)) }
""", {"tr.packages", "tr.members", "tr.vars", "tr.generators"}),
    "hardening-global-rand": ("""package main

//garble:controlflow flatten_passes=1 flatten_hardening=xor
func h(n int) int {
	if n > 3 {
		return n * 2
	}
	return n + 1
}

//garble:controlflow flatten_passes=1 flatten_hardening=delegate_table
func k(n int) int {
	if n > 3 {
		return n * 5
	}
	return n + 7
}

func main() { println(h(1), h(9), k(1), k(9)) }
""", {"hd.xorlen", "hd.tablelen"}),
    "none-expected": ("""package main

//garble:controlflow flatten_passes=2 junk_jumps=3
func p(n int) int {
	if n > 3 {
		return n * 2
	}
	return n + 1
}

func main() { println(p(1), p(9)) }
""", set()),
}


def normalise_var_specs(text: str) -> str:
    """Sort the specs inside `var ( ... )` groups: removes the var-spec-order effect so that the other
    causes can be told apart."""
    out, buf, inside = [], [], False
    for line in text.splitlines():
        if re.match(r"^\s*var \($", line):
            inside = True
            out.append(line)
            continue
        if inside and re.match(r"^\s*\)$", line):
            out += sorted(re.sub(r"\s+", " ", x.strip()) for x in buf)
            buf, inside = [], False
            out.append(line)
            continue
        (buf if inside else out).append(line)
    return "\n".join(out)


def inprocess_leads(chk, root: Path, tlc_leaks: set, runs=4):
    seen = {}
    for cause, (src_text, leak_ids) in INPROC.items():
        src = root / f"ip-{cause}"
        write_module(src, {"main.go": src_text}, module=MODULE)
        texts, draws = [], []
        for k in range(runs):
            out = root / f"ip-{cause}-out{k}"
            dl = root / f"ip-{cause}-draws{k}"
            r = cfdrv(src, out, 12345, drawlog=dl)
            if r.returncode != 0:
                raise Inconclusive(f"cfdrv failed on the in-process determinism program {cause}: rc={r.returncode} {r.stderr[-600:]}")
            texts.append((out / "GARBLE_controlflow.go").read_text())
            draws.append(len(dl.read_text().splitlines()))
        chk.case(["inprocess", cause], sample={"program": cause, "runs": runs, "same_seed": 12345, "draw_counts": draws})
        chk.traces_validated += runs     # draw logs of the passed generator recorded and compared
        raw_differs = len(set(texts)) > 1
        norm_differs = len({normalise_var_specs(t) for t in texts}) > 1
        differs = raw_differs if cause == "var-spec-map-order" else norm_differs
        seen[cause] = differs
        if cause == "hardening-global-rand":
            chk.extra["hardening_draw_counts_same_seed"] = draws
        if differs:
            a, b = texts[0], next(t for t in texts if (t != texts[0] if cause == "var-spec-map-order" else normalise_var_specs(t) != normalise_var_specs(texts[0])))
            diff = "\n".join(list(difflib.unified_diff(a.splitlines(), b.splitlines(), "run0", "runk", lineterm="", n=1))[:200])
            chk.violation({"config": "ctrlflow-inprocess", "cause": cause, "localised": "GARBLE_controlflow.go"},
                          {"src": src, "diff.txt": diff, "run0.go": a, "runk.go": b},
                          what=f"ctrlflow.Obfuscate called twice with the same seed emits different code ({cause})")
        predicted = bool(leak_ids & tlc_leaks)
        if predicted != differs and cause != "none-expected":
            print(f"MODEL-MISMATCH: property={PID} Determinism.tla {'predicts' if predicted else 'does not predict'} a leak for "
                  f"{sorted(leak_ids)} but {runs} same-seed runs of the real code {'differ' if differs else 'agree'}", flush=True)
    return seen


def main(tier, seed):
    chk = Check(PID, tier, seed)
    chk.rule = ("one evaluation = one real `garble build` (independent cold build or half-warm rebuild) or one same-seed in-process "
                "obfuscation; distinct = distinct (configuration, program, build variant) cells")
    chk.assumptions = [
        "the go toolchain itself is reproducible (regular `go build` of the same source in different directories with -trimpath)",
        "two multi-package programs (println-only with control-flow directives; fmt+reflect with single-path reflection flows) stand for 'all programs'",
        "GOOS/GOARCH, toolchain and garble binary are fixed during one run of the check",
    ]
    root = mkscratch("c03")
    rng = chk.rng

    # ------------------------------------------------------------------ model
    w = mkscratch("c03-tlc")
    r = tlc_must_pass("Determinism", "Determinism-quick.cfg", workdir=w, workers=2, timeout=600)
    chk.add_tlc(r)
    plain_leaks = set(json.loads((w / "determinism_leaks_plain.json").read_text())["leaks"])
    w2 = mkscratch("c03-tlc-trace")
    rt = tlc("Determinism", "Determinism-trace.cfg", workdir=w2, workers=2, timeout=600)
    if rt.error:
        raise Inconclusive(f"TLC Determinism-trace.cfg failed: {rt.error}\n{rt.out[-1500:]}")
    chk.add_tlc(rt)
    cf_leaks = set(json.loads((w2 / "determinism_leaks_ctrlflow.json").read_text())["leaks"])
    chk.extra["tlc_leads"] = {"ctrlflow_SameOutput_violated": rt.violated == "SameOutput", "leaking_choice_points": sorted(cf_leaks),
                              "plain_configs_leaks": sorted(plain_leaks)}
    if tier == "thorough":
        r3 = tlc_must_pass("Determinism", "Determinism-thorough.cfg", workdir=mkscratch("c03-tlc3"), workers=2, timeout=600)
        chk.add_tlc(r3)
        for wi in ("clock", "reflmap", "prefix"):
            rw = tlc("Determinism", f"Determinism-whatif-{wi}.cfg", workdir=mkscratch("c03-tlcw"), workers=2, timeout=600)
            chk.add_tlc(rw)
            chk.extra.setdefault("whatif_models_violated", {})[wi] = rw.violated

    # ------------------------------------------------------------------ in-process replay of the leads
    build_harness("cfdrv")
    seen = inprocess_leads(chk, root, cf_leaks)
    chk.extra["inprocess_same_seed_differs"] = seen

    # ------------------------------------------------------------------ the real builds
    build_garble("verif")
    template_gocache()
    global LINKER_TOOL
    import proto_common
    LINKER_TOOL = proto_common.make_linker_cache(root)
    tasks = []
    for (name, flags, env, prog) in configs(tier):
        for idx, pflag in enumerate((1, 4, 16)):
            if tier == "quick" and idx == 1 and name not in ("default", "ctrlflow"):
                continue        # quick: two independent cold builds (-p 1, -p 16 + half-warm rebuild) per configuration
            tasks.append((name, flags, env, prog, idx, pflag, rng.randrange(10**9), idx == 2))
    results = {}
    workers = 6 if tier == "quick" else 8
    with concurrent.futures.ThreadPoolExecutor(max_workers=workers) as ex:
        futs = {ex.submit(one_build, root, name, idx, flags, env, prog, pflag, rs, hw, 0.25 if tier == "quick" else 0.5): (name, prog, tuple(flags), tuple(sorted(env.items())))
                for (name, flags, env, prog, idx, pflag, rs, hw) in tasks}
        for f in concurrent.futures.as_completed(futs):
            results.setdefault(futs[f], []).extend(f.result())

    summary = {}
    for (name, prog, flags, envt), builds in sorted(results.items()):
        env = dict(envt)
        failed = [b for b in builds if b["rc"] != 0]
        if failed:
            raise Inconclusive(f"garble {list(flags)} build of program {prog} ({name}) failed:\n{failed[0]['stderr']}")
        for b in builds:
            chk.case([name, prog, b["label"].split("-del")[0]], sample={"config": name, "program": prog, "build": b["label"], "sha256": b["sha"][:16]})
        shas = {}
        for b in builds:
            shas.setdefault(b["sha"], []).append(b)
        summary[f"{name}/{prog}"] = {b["label"]: b["sha"][:16] for b in builds}
        if len(shas) == 1:
            continue
        groups = list(shas.values())
        a, b = groups[0][0], groups[1][0]
        differing, text = debugdir_diff(a, b, flags, env, root, f"{name}-{prog}")
        if differing is None:
            localised = "debugdir-rebuild-failed"
        elif not differing:
            localised = "binary-only"
        else:
            bases = sorted({os.path.basename(d) for d in differing if not d.endswith("/")})
            localised = bases[0] if len(bases) == 1 else ",".join(bases)
        cf_differs = bool(differing) and any(os.path.basename(d) == "GARBLE_controlflow.go" for d in differing)
        chk.violation({"config": name, "program": prog, "localised": localised, "ctrlflow_file_differs": cf_differs},
                      {"diff.txt": text or "", "shas.json": json.dumps({x["label"]: x["sha"] for x in builds}, indent=1),
                       "src": a["src"],
                       "cmd.txt": f"garble {' '.join(flags)} build -p=N -o prog .   (env {env}); builds: {[x['label'] for x in builds]}"},
                      what=f"config {name}, program {prog}: {len(shas)} different binaries among {len(builds)} builds of identical inputs "
                           f"(differing garbled sources: {localised})")
    chk.extra["sha256_by_config"] = summary
    chk.exhaustive = False
    return chk.finish()


if __name__ == "__main__":
    main_wrapper(main)
