#!/usr/bin/env python3
"""C05 - Obfuscated literals evaluate to their original values.

Spec: spec/Literals.tla.
  Part A  rewrite/skip decision table of literals.Obfuscate (context x form x size), exported as JSON.
  Part B  transcription of the five obfuscators, the ext-key helpers and the three wrappers; encode is a
          PlusCal procedure with one `with` per math/rand draw, the emitted decode program is a data
          structure interpreted by Run*; TLC checks RoundTrip exhaustively over Z_4 (configs
          Literals-quick-*.cfg) and simulates complete choice vectors at the code's constants (Literals-replay.cfg).
Binding:
  B3  every table row against the real literals.Obfuscate through harness/cmd/litdrv (which declarations
      gained function literals); drift is MODEL-MISMATCH, never a verdict.
  B2  TLC's choice vectors are turned into scripts for the scripted math/rand source of litdrv; the real
      Obfuscate must visit the model's choice points in the model's order (draw log) - again only drift -
      and the printed program, compiled by the regular toolchain, must print the original bytes.
Oracle (the only source of verdicts): bytes printed by the obfuscated program (litdrv + go build, and real
garble -literals builds with each obfuscator forced, default choice, several -seed values) differ from the
regular build / the source literal, or the obfuscated program does not compile where the regular one does.
"""
import json
import random
import sys
import threading
import time

sys.path.insert(0, str(__import__("pathlib").Path(__file__).resolve().parent))
from lit_common import *  # noqa


def cell_of_error(obf_file, pkgname, stderr, cells):
    """Attribute a compiler error in a printed file to a cell through the `// cell N` comments."""
    ids = {c.id: c for c in cells}
    try:
        lines = Path(obf_file).read_text().splitlines()
    except OSError:
        return None
    for m in re.finditer(re.escape(pkgname) + r"/p\.go:(\d+)", stderr):
        ln = min(int(m.group(1)), len(lines))
        for k in range(ln - 1, -1, -1):
            mm = re.match(r"// cell (\d+):", lines[k])
            if mm:
                return ids.get(int(mm.group(1)))
    return None


def driver_phase(chk, tier, table, vecs, rng, work):
    drv = Driver()
    sb = Sandbox(work / "sb-go", template=True)
    stats = {}

    # ---- B3: the whole decision table against the real rewrite decision
    nrows, drift = table_binding(chk, table, drv, rng, work / "table")
    stats["table_rows_checked"] = nrows
    stats["table_rows_drifting"] = len(drift)
    if drift:
        print(f"MODEL-MISMATCH: property=C05 {len(drift)} of {nrows} rows of the Literals.tla decision table differ from the "
              f"real literals.Obfuscate, e.g. {json.dumps(drift[:3])}", flush=True)

    # ---- packages for the value round trip
    mod = DriverModule(work / "drvmod", drv)
    ctxs = sorted(table["contexts"])
    nseeds = 2 if tier == "quick" else 12
    next_id = 0
    for k in range(nseeds):
        full = ["var_init"] + rng.sample([c for c in ctxs if c != "var_init"], 1 if tier == "quick" else 3)
        rows = plan_mix(table, rng, full if (tier != "quick" or k == 0) else [], leads=("none", "hide-gap"))
        cells = make_cells(rows, rng, start_id=next_id)
        next_id += len(cells)
        mod.add(f"s{k}", cells, rng, {"seed": rng.randrange(1 << 40)}, meta={"kind": "seed"})
    # boundary choice vectors: constant draws, each obfuscator in turn
    quick = tier == "quick"
    sizes_b = [8, 9, 13, 16, 64, 255, 256] if quick else [8, 9, 10, 11, 12, 13, 15, 16, 17, 31, 32, 64, 127, 255, 256, 257, 2048]
    forms_b = ("string", "byte_slice", "ptr_byte_array") if quick else ("string", "byte_slice", "byte_array", "ptr_byte_slice", "ptr_byte_array", "concat")
    index = table_index(table)
    for pi, prof in enumerate(BOUNDARY_PROFILES):
        rows = []
        for form in forms_b:
            for s in sizes_b:
                for rep in range(5 if s <= 256 else 2):    # one literal per obfuscator (pickObfuscator scripted 0..4)
                    rows.append(size_class_row(index, "var_init", form, s))
        if quick:   # every profile gets the short literals; the long ones are shared out (whole groups of 5)
            rows = [r for i, r in enumerate(rows) if r["size"] <= 13 or (i // 5) % len(BOUNDARY_PROFILES) == pi]
        cells = make_cells(rows, rng, start_id=next_id)
        next_id += len(cells)
        lits = [{"pickObfuscator/Intn": [str(i % 5)]} for i in range(len(cells))]
        mod.add(f"b{pi}", cells, rng, {"seed": rng.randrange(1 << 40), "const": prof, "literals": lits},
                meta={"kind": "boundary", "profile": pi}, log=False)
    # TLC's choice vectors
    vcells = vector_cells(vecs, rng, start_id=next_id)
    next_id += len(vcells)
    mod.add("v0", vcells, rng, {"seed": rng.randrange(1 << 40), "literals": [vector_to_script(v, rng) for v in vecs]},
            meta={"kind": "tlc"}, log=True)

    res = mod.obfuscate()
    for (name, cells, job, meta), r in zip(mod.pkgs, res):
        if not r["ok"]:
            # a panic inside the real Obfuscate on a program the regular toolchain accepts
            chk.violation({"kind": "obfuscate-panic", "where": "driver", "package_kind": meta["kind"]},
                          {"input.go": Path(job["src"]), "error.txt": r.get("error", "")},
                          what=f"literals.Obfuscate failed on generated package {name}: {r.get('error')}")
    stats["driver_literals_obfuscated"] = sum(r.get("literals", 0) for r in res)
    stats["driver_draws"] = sum(r.get("draws", 0) for r in res)
    stats["driver_draws_scripted"] = sum(r.get("scripted", 0) for r in res)

    # ---- draw log of the TLC package against the model's choice points
    vdrift = []
    if res[-1]["ok"]:
        logs = read_draw_log(mod.root / "v0.log.ndjson")
        if res[-1]["literals"] != len(vecs):
            vdrift.append(f"{res[-1]['literals']} literals obfuscated, {len(vecs)} vectors")
        else:
            for i, v in enumerate(vecs):
                d = compare_logs(v, logs.get(i, []))
                if d:
                    vdrift.append(f"vector {i} ({v['layer']}/{v['obf']}/n={v['n']}): {d}")
                else:
                    chk.traces_validated += 1
    stats["tlc_vectors"] = len(vecs)
    stats["tlc_vectors_log_matches_model"] = chk.traces_validated
    if vdrift:
        print(f"MODEL-MISMATCH: property=C05 the real draw order differs from Literals.tla on {len(vdrift)} of {len(vecs)} "
              f"choice vectors, e.g. {vdrift[0]}", flush=True)

    # ---- compile and run both variants
    t0 = time.time()
    out = mod.build_and_run(sb)
    log(f"driver module: {sum(len(c) for _, c, _, _ in mod.pkgs)} cells in {len(mod.pkgs)} packages, {stats['driver_literals_obfuscated']} literals "
        f"obfuscated; regular build {out['orig'][0].wall:.0f}s, build of the printed program {out['obf'][0].wall:.0f}s")
    ob, oout, orun = out["orig"]
    gb, gout, grun = out["obf"]
    if ob.returncode != 0:
        raise Inconclusive(f"generated driver module does not build with the regular toolchain:\n{ob.stderr[-3000:]}")
    if gb.returncode != 0:
        culprit = None
        for name, cells, job, meta in mod.pkgs:
            culprit = culprit or cell_of_error(job["out"], name, gb.stderr, cells)
        w = {"kind": "compile-fail", "where": "driver"}
        if culprit:
            w.update({"ctx": culprit.ctx, "form": culprit.form, "size": culprit.size})
        chk.violation(w, {"obf": mod.root / "obf", "orig": mod.root / "orig", "stderr.txt": gb.stderr[-20000:]},
                      what="the program printed by literals.Obfuscate does not compile, the original does")
    else:
        for name, cells, job, meta in mod.pkgs:
            vecmap = {c.id: v for c, v in zip(cells, vecs)} if meta["kind"] == "tlc" else {}
            for ci, c in enumerate(cells):
                exp = c.data if c.ctx == "xvar_decl" else c.expected()
                ref = oout.get((name, c.id))
                got = gout.get((name, c.id))
                if ref != exp:
                    raise Inconclusive(f"generator: regular build prints {ref!r:.80} for cell {c.key()}, expected {exp!r:.80}")
                obf = vecmap[c.id]["obf"] if c.id in vecmap else (OBF_NAMES[ci % 5] if meta["kind"] == "boundary" and c.size <= 256 else None)
                chk.case(["driver", meta["kind"], c.ctx, c.form, min(c.size, 2050), obf],
                         sample={"where": "driver", "package": meta["kind"], "cell": c.key(), "printed": (got or b"").hex()[:32], "equal": got == exp}
                         if ci == 0 else None, nontrivial=c.row["rewritten"])
                if got != exp:
                    chk.violation({"kind": "value", "where": "driver", "package_kind": meta["kind"], "ctx": c.ctx, "form": c.form,
                                   "size": c.size, "obf": obf},
                                  {"orig.go": Path(job["src"]), "obf.go": Path(job["out"]), "script.json": json.dumps(job["script"])[:2000000],
                                   "case.json": json.dumps({"cell": c.key(), "id": c.id, "package": name, "expected": exp.hex(),
                                                            "printed": None if got is None else got.hex()})},
                                  what=f"obfuscated literal {c.key()} evaluates to different bytes (driver, {meta['kind']})")
                    if len(chk.violations) >= 20:
                        return stats

    # ---- const-break leads of the model: each on its own (a failing build would mask the rest)
    lrows = lead_rows(table, "const-break", sizes=(9,) if tier == "quick" else (8, 9, 2048))
    lmod_root = work / "leads"
    for i, row in enumerate(lrows):
        cells = make_cells([row], rng, start_id=0)
        d = lmod_root / f"l{i}"
        (d / "orig").mkdir(parents=True)
        (d / "obf").mkdir()
        (d / "orig" / "main.go").write_text(gen_file("main", cells, rng, tag="lead"))
        for v in ("orig", "obf"):
            (d / v / "go.mod").write_text("module example.com/lead\n\ngo 1.26\n")
        r = drv.run([{"src": str(d / "orig" / "main.go"), "out": str(d / "obf" / "main.go"), "plain": True,
                      "script": {"seed": rng.randrange(1 << 31)}}], d)
        b0 = sb.go(["build", "-o", str(d / "orig.bin"), "."], cwd=d / "orig")
        if b0.returncode != 0 or not r[0]["ok"]:
            raise Inconclusive(f"lead cell {row['ctx']}/{row['form']} does not build regularly: {b0.stderr[-800:]} {r[0]}")
        b1 = sb.go(["build", "-o", str(d / "obf.bin"), "."], cwd=d / "obf")
        chk.case(["driver", "lead", row["ctx"], row["form"], row["size"]], nontrivial=True)
        if b1.returncode != 0:
            chk.violation({"kind": "compile-fail", "where": "driver", "ctx": row["ctx"], "form": row["form"], "size": row["size"]},
                          {"orig.go": d / "orig" / "main.go", "obf.go": d / "obf" / "main.go", "stderr.txt": b1.stderr[-5000:]},
                          what=f"literal in a position that must stay constant was rewritten: {row['ctx']}/{row['form']} no longer compiles")
    rmtree(work / "sb-go")
    return stats


def whole_tool_phase(chk, tier, table, rng, work, result):
    try:
        nseeds = 2 if tier == "quick" else 6
        sb, runs = whole_tool(chk, tier, table, work / "wt", nseeds, rng)
        leads = lead_programs(chk, table, sb, work / "wt-leads", rng)
        result["runs"], result["leads"], result["sb"] = runs, leads, sb
    except BaseException as e:
        result["error"] = e


def judge_whole_tool(chk, runs, leads):
    for prog, ref, g in runs:
        if not g.ok:
            chk.violation({"kind": "compile-fail", "where": "garble", "config": g.name},
                          {"program": prog.root, "stderr.txt": g.build.stderr[-20000:], "cmd.txt": " ".join(g.flags) + " build " + prog.ldflags + f"\nenv {g.env}"},
                          what=f"garble {' '.join(g.flags)} build fails on a program the regular toolchain builds")
            continue
        if g.runres.returncode != ref.runres.returncode:
            chk.violation({"kind": "exit-status", "where": "garble", "config": g.name}, {"program": prog.root, "stderr.txt": g.runres.stderr[-5000:]},
                          what="garbled program exits differently from the regular build")
        for c in prog.cells:
            exp = c.expected()
            r, got = ref.out.get((c.pkg, c.id)), g.out.get((c.pkg, c.id))
            if r != exp:
                raise Inconclusive(f"generator: regular build prints {r!r:.80} for cell {c.pkg}/{c.key()}, expected {exp!r:.80}")
            forced = OBF_NAMES[FORCED[c.pkg]] if c.pkg in FORCED else "default"
            chk.case(["garble", g.name.rstrip("0123456789"), c.ctx, c.form, min(c.size, 2050), forced],
                     sample={"where": "garble " + " ".join(g.flags), "cell": c.key(), "pkg": c.pkg, "equal": got == r} if c.id % 400 == 0 else None,
                     nontrivial=c.row["rewritten"] or c.row["constreq"] or c.row["prune"] != "none")
            if got != r:
                chk.violation({"kind": "value", "where": "garble", "config": g.name, "ctx": c.ctx, "form": c.form, "size": c.size, "obf": forced},
                              {"program": prog.root, "cmd.txt": " ".join(g.flags) + " build " + prog.ldflags + f"\nenv {g.env}",
                               "case.json": json.dumps({"cell": c.key(), "pkg": c.pkg, "id": c.id, "regular": r.hex(), "garbled": None if got is None else got.hex()})},
                              what=f"literal {c.key()} in package {c.pkg} prints different bytes under garble {' '.join(g.flags)}")
                if len(chk.violations) >= 20:
                    return
    for cell, d, rb, gb in leads:
        if rb.returncode != 0:
            raise Inconclusive(f"lead program {cell.key()} does not build regularly: {rb.stderr[-800:]}")
        chk.case(["garble", "lead", cell.ctx, cell.form, cell.size], nontrivial=True)
        if gb.returncode != 0:
            chk.violation({"kind": "compile-fail", "where": "garble", "ctx": cell.ctx, "form": cell.form, "size": cell.size},
                          {"program": d, "stderr.txt": gb.stderr[-5000:]},
                          what=f"garble -literals build fails: {cell.ctx}/{cell.form} must stay a compile-time constant but is rewritten")


def main(tier, seed):
    chk = Check("C05", tier, seed)
    chk.rule = ("one evaluation = one literal cell (context x form x size x obfuscator/seed kind) obfuscated by the real code, compiled, "
                "run and compared; distinct = distinct (where, kind, context, form, size, obfuscator) tuples whose literal was rewritten "
                "or sits in a position that must stay constant")
    chk.assumptions = [
        "bytes live in Z_4 in the exhaustive configs (Z_256 in the code); every step of the transcription is a bijection of Z_m "
        "applied and undone, which is what carries the result to m = 256; boundary lengths are replayed on the real code, not exhausted",
        "the scripted math/rand source controls literals.Obfuscate in process; real builds use garble's own seeding",
        "generated programs cover the contexts and forms of the decision table only (cells outside it are not decided)",
    ]
    table = load_table(chk)
    models = ModelRuns(chk, tier, workers=2 if tier == "quick" else 4)
    work = mkscratch("c05")
    rng_wt, rng_drv = random.Random(chk.rng.getrandbits(64)), random.Random(chk.rng.getrandbits(64))

    wt = {}
    t = threading.Thread(target=whole_tool_phase, args=(chk, tier, table, rng_wt, work, wt), daemon=True)
    t.start()

    vecs = replay_vectors(chk, 40 if tier == "quick" else 300, seed)
    if tier != "quick":
        chk.extra["tlc_simulation_states"] = {
            "Literals-sim4.cfg": simulate_check(chk, "Literals-sim4.cfg", 6000, seed),
            "Literals-sim4-long.cfg": simulate_check(chk, "Literals-sim4-long.cfg", 2000, seed),
        }
        vecs += replay_vectors(chk, 8, seed, cfg="Literals-replay-long.cfg", depth=40000)
    stats = driver_phase(chk, tier, table, vecs, rng_drv, work)
    chk.extra.update(stats)

    t.join()
    if "error" in wt:
        raise wt["error"]
    judge_whole_tool(chk, wt["runs"], wt["leads"])
    chk.extra["whole_tool_builds"] = [{"config": g.name, "flags": g.flags, "cells": len(p.cells), "garble_s": round(g.build.wall, 1), "reused_from_cache": g.reused} for p, _, g in wt["runs"]]
    chk.extra["tlc_configs"] = models.join()
    chk.exhaustive = False   # exhaustive over Z_4 / short data only; real sizes are sampled
    return chk.finish()


if __name__ == "__main__":
    main_wrapper(main)
