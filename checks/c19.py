#!/usr/bin/env python3
"""C19 - garble touches only its own files.

Spec: spec/Lifecycle.tla - every top-level command {build, run, test, reverse, map} x where it
stops {garble flag after the command, help flag, go list error, unknown flag (reverse/map), go
command fails after the shared dir exists, success} x inherited GARBLE_SHARED {unset, foreign
directory} x pre-state of the -debugdir target {not requested, absent, empty, owned, foreign files,
foreign sub-directories, symlink, regular file} x debugdir artifact cache {none, partial, all}.
Invariants: OnlyOwnRemoved, TmpClean, ForeignSharedKept, ForeignDebugDirUntouched, ForeignRejected,
OwnedComplete; liveness Terminates.  TLC enumerates all reachable cells and prints each with the
expected end state.
Binding: B2 - every cell (quick: a stratified sample plus all cells TLC flags) is set up for real and
run; recursive digests of the source tree, of the foreign directories and of the -debugdir target are
taken before and after; TMPDIR is listed.  B1 - `shared-created` / `shared-remove` / `debugdir-*`
events of each run are compared with the spec's expectation (exit class, -a forced).
Oracle: source tree byte-identical; no garble-shared* directory left in TMPDIR; foreign directories
byte-identical; a foreign -debugdir target rejected with an error; an owned target holds source and
garbled files of every package of the module.
"""
import os
import sys

sys.path.insert(0, str(__import__("pathlib").Path(__file__).resolve().parent))
from proto_common import *  # noqa

TEST_FILE = """package leaf

import "testing"

func TestSum(t *testing.T) {
	if Sum(Make(3)) != 5 {
		t.Fatal("bad sum")
	}
}
"""

MODULE_PKGS = {"example.com/proto": ["main.go", "extra_default.go"], "example.com/proto/mid": ["mid.go"],
               "example.com/proto/leaf": ["leaf.go", "add.go", "add_amd64.s"]}


def tlc_cells(chk, fixed):
    cfg = "Lifecycle-fixed.cfg" if fixed else "Lifecycle-asis.cfg"
    text = (SPEC / "cfg" / cfg).read_text()
    if "Emit" not in text:
        text = text.replace("OwnedComplete", "OwnedComplete Emit")
    # the as-is model violates invariants (F9): enumerate cells with the invariants that hold, report the rest as leads
    r = tlc("Lifecycle", "Lifecycle-gen.cfg", files={"Lifecycle-gen.cfg": text}, workers=1, timeout=900)
    lead = None
    if r.violated and r.violated != "Emit":
        lead = r.violated
        text2 = re.sub(r"INVARIANTS.*", "INVARIANTS Emit", text)
        r = tlc("Lifecycle", "Lifecycle-gen.cfg", files={"Lifecycle-gen.cfg": text2}, workers=1, timeout=900)
    if r.error:
        raise Inconclusive(f"TLC failed on Lifecycle: {r.error}\n{r.out[-2000:]}")
    chk.add_tlc(r)
    cells = []
    for line in r.out.splitlines():
        if line.startswith('<<"CELL"'):
            js = line[line.index(',') + 1:].strip()
            js = js[:-2].strip()
            cells.append(json.loads(json.loads(js)))
    return cells, lead


def probe_fix_inherited(work):
    """Does a top-level command forget an inherited GARBLE_SHARED? (decides which model variant describes the code)"""
    foreign = work / "probe-foreign"
    foreign.mkdir()
    (foreign / "keep.txt").write_text("keep")
    src = write_proto(work / "probe-src")
    sb = Sandbox(work / "probe-sb", template=True)
    sb.garble(["build", "-tiny", "."], cwd=src, env={"GARBLE_SHARED": str(foreign)}, timeout=120)
    kept = (foreign / "keep.txt").exists()
    rmtree(work / "probe-sb")
    return kept


class World:
    """One warm sandbox per artifact state; cells run against copies of its caches."""

    def __init__(self, work, tool):
        self.work = work
        self.tool = tool
        self.warm = {}

    def warm_caches(self, artifacts):
        """GOCACHE+GARBLE_CACHE after successful builds: "none" = built and tested without -debugdir;
        "all" = additionally built and tested with -debugdir (artifacts of every package cached);
        "partial" = "all" minus the artifacts of one package."""
        if artifacts in self.warm:
            return self.warm[artifacts]
        root = self.work / ("warm-" + artifacts)
        src = write_proto(root / "src")
        (src / "leaf" / "leaf_test.go").write_text(TEST_FILE)
        if artifacts == "none":
            sb = Sandbox(root / "sb", template=True)
            copytree(self.tool, sb.gcache / "tool")
            for args in (["build", "-o", str(root / "prog"), "."], ["test", "./..."]):
                r = sb.garble(args, cwd=src, timeout=3000)
                if r.returncode != 0:
                    raise Inconclusive(f"warming build failed ({artifacts}, {args}): rc={r.returncode} timed_out={r.timed_out} {r.stderr[-2000:]}")
        else:
            base = self.warm_caches("none" if artifacts == "all" else "all")
            sb = Sandbox(root / "sb", gocache=None)
            rmtree(sb.gocache)
            copytree(base.gocache, sb.gocache)
            rmtree(sb.gcache)
            copytree(base.gcache, sb.gcache)
            if artifacts == "all":
                trace = root / "t.ndjson"
                dflag = "-debugdir=" + str(root / "dbg")
                for args in ([dflag, "build", "-o", str(root / "prog"), "."], [dflag, "test", "./..."]):
                    r = sb.garble(args, cwd=src, trace=trace, timeout=3000)
                    if r.returncode != 0:
                        raise Inconclusive(f"warming build failed ({artifacts}, {args}): rc={r.returncode} timed_out={r.timed_out} {r.stderr[-2000:]}")
                self.mid_keys = [e["key"] for e in read_trace(trace) if e["ev"] == "debugdir-put" and e["pkg"] == "example.com/proto/mid"]
                self.hashes = {(e["pkg"], e["file"]): e["content_sha256"] for e in read_trace(trace) if e["ev"] == "write-source" and "content_sha256" in e}
                if not self.mid_keys:
                    raise Inconclusive("could not locate debugdir artifact entries")
            else:
                for k in self.mid_keys:
                    p = sb.gcache / "build" / k[:2] / (k + "-a")
                    if p.exists():
                        p.unlink()
        self.warm[artifacts] = sb
        return sb


def setup_dbg(path: Path, state: str, foreign_target: Path):
    if state == "absent":
        return
    if state == "empty":
        path.mkdir()
    elif state == "owned":
        path.mkdir()
        (path / ".garble-debugdir").write_text("")
        (path / "source").mkdir()
        (path / "source" / "stale.go").write_text("package stale\n")
    elif state == "foreignFiles":
        path.mkdir()
        (path / "precious.txt").write_text("precious")
    elif state == "foreignDirs":
        path.mkdir()
        (path / "sub").mkdir()
        (path / "sub" / "deep.txt").write_text("deep")
    elif state == "symlink":
        foreign_target.mkdir()
        (foreign_target / "linked.txt").write_text("linked")
        os.symlink(foreign_target, path)
    elif state == "file":
        path.write_text("i am a file")


def concretise_cell(cell, root: Path, src: Path):
    """-> (garble args, env additions, expectation helpers)"""
    cmd, outcome = cell["cmd"], cell["outcome"]
    gflags, args, env = [], [], {}
    dbgpath = root / "dbgtarget"
    if cell["dbgpre"] != "notrequested":
        gflags.append("-debugdir=" + str(dbgpath))
    pkg = "." if cmd in ("build", "run", "reverse", "map") else "./..."
    tail = [pkg]
    if cmd == "build":
        args = ["-o", str(root / "out-prog")]
    if outcome == "garbleflag":
        args = ["-tiny"] + args
    elif outcome == "helpflag":
        args = ["-h"] + args
    elif outcome == "golist":
        (src / "broken.go").write_text("package main\n\nimport _ \"example.com/proto/doesnotexist\"\n")
    elif outcome == "unknownflag":
        args = ["-nonexistentflag"] + args
    elif outcome == "gofails":
        # fails after the shared dir exists: an undefined linknamed symbol is only noticed by the linker
        (src / "linkerr.go").write_text("package main\n\nimport _ \"unsafe\"\n\n//go:linkname missingFn example.com/proto/nowhere.missingFn\nfunc missingFn() int\n\nfunc init() { if len(version) > 100 { println(missingFn()) } }\n")
        (src / "empty.s").write_text("")
    return gflags + [cmd] + args + tail, env, dbgpath


def version_gate(chk, work):
    """Extension of the lifecycle model: goVersionOK (VersionGate.tla) stops a command in the List step.
    The table is bound with a stub go reporting each toolchain class; the C19 oracle (nothing created or
    left behind) is evaluated on every row.  Accept/reject drift is MODEL-MISMATCH only."""
    import c20
    tw = mkscratch("c19-vg")
    r = tlc_must_pass("VersionGate", "VersionGate.cfg", workdir=tw, workers=1)
    chk.add_tlc(r)
    table = json.loads((tw / "versiongate_table.json").read_text())
    tool = {"empty": "", "invalid": "devel +abcdef123", "tooOld": "go1.25.9", "ok": "go1.26.2", "tooNew": "go1.27.0"}
    built = {"invalid": "devel", "older": "go1.26.1", "sameOrNewer": "go1.26.2"}
    root = work / "vg-stub"
    c20.make_stub(root)
    garble = build_garble("verif")
    drift = []
    for t, tv in tool.items():
        for b, bv in built.items():
            stub = c20.STUB_GO.replace('"GOVERSION": "go1.26.2"', '"GOVERSION": ' + json.dumps(tv))
            for pth in (root / "bin" / "go", root / "goroot" / "bin" / "go"):
                pth.write_text(stub)
            calls = root / "calls.ndjson"
            if calls.exists():
                calls.unlink()
            env = base_env()
            env.update({"PATH": f"{root}/bin:" + env["PATH"], "VERIF_STUB_ROOT": str(root), "TMPDIR": str(root / "tmp"),
                        "GARBLE_CACHE": str(root / "gcache"), "HOME": str(root), "GARBLE_TEST_GOVERSION": bv})
            before = tree_digest(root / "src")
            r2 = run([garble, "build", "."], cwd=root / "src", env=env, timeout=120)
            reached_go = any(json.loads(l)[:1] == ["build"] for l in calls.read_text().splitlines()) if calls.exists() else False
            chk.case(["versiongate", t, b], nontrivial=True)
            left = [x for x in os.listdir(root / "tmp") if x.startswith("garble-shared")]
            if left or tree_digest(root / "src") != before:
                chk.violation({"kind": "tmp-leftover" if left else "source-modified", "cmd": "build", "outcome": "versiongate", "toolchain": t, "built": b},
                              {"stderr.txt": r2.stderr[-2000:]}, what=f"garble build with toolchain class {t}/{b} left {left} behind or modified the source")
            exp = table[t][b]
            if (r2.returncode == 0 and reached_go) != exp["accept"] or (exp["message"] and exp["message"] not in r2.stderr):
                drift.append({"toolchain": t, "built": b, "rc": r2.returncode, "reached_go": reached_go, "expected": exp, "stderr": r2.stderr[-200:]})
            else:
                chk.traces_validated += 1
    if drift:
        chk.extra["versiongate_drift"] = drift
        print(f"MODEL-MISMATCH: property=C19 {len(drift)} rows of VersionGate.tla differ from the real goVersionOK (not a verdict)", flush=True)


def main(tier, seed):
    chk = Check("C19", tier, seed)
    chk.rule = ("cell = command x outcome x inherited GARBLE_SHARED x -debugdir pre-state x artifact cache state, enumerated by TLC; "
                "one evaluation per cell run on the real garble; non-trivial = the command got past flag parsing or touched a directory")
    chk.assumptions = ["go-build* directories of cmd/go itself in TMPDIR are not garble's", "the requested output (-o) is placed outside the source tree"]
    work = mkscratch("c19")
    build_garble("verif")
    fixed = probe_fix_inherited(work)
    chk.extra["top_level_forgets_inherited_GARBLE_SHARED"] = fixed
    cells, lead = tlc_cells(chk, fixed)
    if lead:
        chk.extra["tlc_lead"] = lead
        log(f"TLC lead: {lead} violated in the model of the code as it is")
    chk.extra["cells_enumerated"] = len(cells)
    # the same rules with the toolexec children that depend on the shared directory, and a nested command (Pipeline.tla);
    # the what-if "an inherited GARBLE_SHARED is not forgotten" must be rejected
    chk.add_tlc(tlc_must_pass("PipelineMC", "Pipeline-c19.cfg", timeout=1800))
    rwp = tlc("PipelineMC", "Pipeline-mutant-inherit.cfg", timeout=900)
    chk.add_tlc(rwp)
    chk.extra["pipeline_whatif_inherited_shared_violates"] = rwp.violated
    if not rwp.violated:
        raise Inconclusive("Pipeline.tla what-if (inherited GARBLE_SHARED not forgotten) is no longer rejected")
    # -debugdir in the process-tree model: claim, artifact check (-a), per-package artifacts stored by the children,
    # restore after the go command.  What-if "no -a although artifacts are missing" must break PDebugComplete.
    rwd = tlc("PipelineMC", "Pipeline-mutant-noforce.cfg", timeout=900)
    chk.add_tlc(rwd)
    chk.extra["pipeline_whatif_no_forced_rebuild_violates"] = rwd.violated
    if rwd.violated != "PDebugComplete":
        raise Inconclusive(f"Pipeline.tla what-if (no -a with missing -debugdir artifacts) is no longer rejected by PDebugComplete: {rwd.violated}")
    if tier == "thorough":
        chk.add_tlc(tlc_must_pass("PipelineMC", "Pipeline-debugdir.cfg", timeout=3000))
        chk.add_tlc(tlc_must_pass("PipelineMC", "Pipeline-debugdir-warm.cfg", timeout=3000))

    tool = make_linker_cache(work)
    world = World(work, tool)
    for a in ("none", "all", "partial"):
        world.warm_caches(a)
    wlock = threading.Lock()

    # quick: a stratified sample (every command x outcome x inherited; every dbgpre x artifacts for build; a few for run/test)
    rng = chk.rng
    if tier == "quick":
        chosen, seen = [], set()
        rng.shuffle(cells)
        for c in cells:
            cell = c["cell"]
            strata = [("co", cell["cmd"], cell["outcome"], cell["inherited"]),
                      ("dbg", cell["dbgpre"], cell["artifacts"], cell["outcome"] in ("ok", "gofails")) if cell["cmd"] == "build" else None,
                      ("dbg2", cell["cmd"], cell["dbgpre"]) if cell["outcome"] == "ok" and cell["cmd"] in ("run", "test") and cell["artifacts"] == "all" else None]
            new = [s for s in strata if s and s not in seen]
            if new:
                seen.update(new)
                chosen.append(c)
        cells = chosen
    chk.extra["cells_run"] = len(cells)
    lock = threading.Lock()
    pipeline_budget = [4 if tier == "quick" else 24]

    def run_cell(idx_c):
        idx, c = idx_c
        cell, expect = c["cell"], c["expect"]
        root = work / f"cell{idx}"
        src = write_proto(root / "src")
        (src / "leaf" / "leaf_test.go").write_text(TEST_FILE)
        warm = world.warm_caches(cell["artifacts"])
        sb = Sandbox(root / "sb", gocache=None)
        rmtree(sb.gocache)
        copytree(warm.gocache, sb.gocache)
        rmtree(sb.gcache)
        copytree(warm.gcache, sb.gcache)
        args, env, dbgpath = concretise_cell(cell, root, src)
        foreign_shared = root / "foreign-shared"
        if cell["inherited"] == "foreign":
            foreign_shared.mkdir()
            (foreign_shared / "main-cache.bin").write_text("not yours")
            (foreign_shared / "sub").mkdir()
            (foreign_shared / "sub" / "x").write_text("x")
            env["GARBLE_SHARED"] = str(foreign_shared)
        foreign_target = root / "foreign-target"
        if cell["dbgpre"] != "notrequested":
            setup_dbg(dbgpath, cell["dbgpre"], foreign_target)
        before_src = tree_digest(src)
        before_foreign = tree_digest(foreign_shared)
        before_dbg = tree_digest(dbgpath) if cell["dbgpre"] in ("foreignFiles", "foreignDirs", "file") else None
        if cell["dbgpre"] == "file":
            before_dbg = {"": ("file", sha256_file(dbgpath))}
        before_target = tree_digest(foreign_target)
        trace = root / "trace.ndjson"
        stdin = "nothing obfuscated here\n" if cell["cmd"] == "reverse" else None
        r = sb.garble(args, cwd=src, env=env, trace=trace, timeout=1500, stdin=stdin)
        events = read_trace(trace)
        witness = dict(cell, kind="")
        files = {"trace.ndjson": trace, "stderr.txt": r.stderr[-4000:], "cell.json": json.dumps(c, indent=1), "argv.json": json.dumps(args)}
        nontrivial = any(e["ev"] in ("shared-created", "debugdir-rejected", "debugdir-claimed") for e in events) or cell["inherited"] == "foreign"
        with lock:
            chk.case(cell, sample={"cell": cell, "argv": args, "rc": r.returncode} if idx % 25 == 0 else None, nontrivial=nontrivial)
            # -- oracle
            if tree_digest(src) != before_src:
                chk.violation(dict(witness, kind="source-modified"), files, what=f"source tree changed by garble {args}")
            left = [x for x in sb.tmp_leftovers() if x.startswith("garble-shared")]
            if left:
                chk.violation(dict(witness, kind="tmp-leftover"), files, what=f"garble left {left} in TMPDIR after {args}")
            if cell["inherited"] == "foreign" and tree_digest(foreign_shared) != before_foreign:
                chk.violation(dict(witness, kind="foreign-shared-removed", early_exit=not any(e["ev"] == "shared-created" for e in events)), files,
                              what=f"the directory named by an inherited GARBLE_SHARED was modified or deleted by garble {args}")
            if cell["dbgpre"] in ("foreignFiles", "foreignDirs", "symlink", "file"):
                after = tree_digest(dbgpath) if cell["dbgpre"] != "file" else ({"": ("file", sha256_file(dbgpath))} if dbgpath.is_file() else {})
                touched = (before_dbg is not None and after != before_dbg) or tree_digest(foreign_target) != before_target or \
                          (cell["dbgpre"] == "symlink" and not dbgpath.is_symlink())
                if touched:
                    chk.violation(dict(witness, kind="foreign-debugdir-touched"), files, what=f"a -debugdir target garble does not own was modified by {args}")
                reached = any(e["ev"] in ("debugdir-rejected", "debugdir-claimed", "debugdir-empty-owned") for e in events) or \
                    any(e["ev"] == "shared-created" for e in events)
                if reached and r.returncode == 0:
                    chk.violation(dict(witness, kind="foreign-debugdir-accepted"), files, what=f"garble {args} reused a non-empty -debugdir target without its marker")
            if cell["dbgpre"] in ("absent", "empty", "owned") and r.returncode == 0 and cell["outcome"] == "ok":
                missing = []
                for pkg, fl in MODULE_PKGS.items():
                    for sub in ("source", "garbled"):
                        for f in fl:
                            if not (dbgpath / sub / pkg / f).exists():
                                missing.append(f"{sub}/{pkg}/{f}")
                if (dbgpath / "source" / "stale.go").exists():
                    missing.append("stale content of the previous run kept")
                # contents: the garbled file must be the text that was compiled (digest logged by the write-source
                # hook, in this run or - when restored from the artifact cache - in the warming run), the source
                # file must be the original
                expected = dict(world.hashes)
                expected.update({(e["pkg"], e["file"]): e["content_sha256"] for e in events if e["ev"] == "write-source" and "content_sha256" in e})
                wrong = []
                for pkg, fl in MODULE_PKGS.items():
                    pdir = src if pkg == "example.com/proto" else src / pkg.replace("example.com/proto/", "")
                    for f in fl:
                        g = dbgpath / "garbled" / pkg / f
                        if g.exists() and (pkg, f) in expected and sha256_file(g) != expected[(pkg, f)]:
                            wrong.append(f"garbled/{pkg}/{f}")
                        o = dbgpath / "source" / pkg / f
                        if o.exists() and sha256_file(o) != sha256_file(pdir / f):
                            wrong.append(f"source/{pkg}/{f}")
                if wrong:
                    chk.violation(dict(witness, kind="debugdir-wrong-content"), dict(files, **{"wrong.json": json.dumps(wrong)}),
                                  what=f"-debugdir files differ from what was compiled / from the source after {args}: {wrong[:4]}")
                if missing:
                    chk.violation(dict(witness, kind="debugdir-incomplete"), dict(files, **{"missing.json": json.dumps(missing)}),
                                  what=f"owned -debugdir incomplete after {args}: {missing[:4]}")
            # -- B1: the whole process tree of a successful -debugdir build against Pipeline.tla (claim, artifact check,
            # artifacts stored before each tool run, restore of this command's own keys, PDebugComplete at the end)
            if cell["cmd"] == "build" and cell["dbgpre"] in ("absent", "empty", "owned") and r.returncode == 0 and cell["outcome"] == "ok" \
                    and cell["inherited"] != "foreign" and pipeline_budget[0] > 0:
                pipeline_budget[0] -= 1
                try:
                    validate_pipeline(chk, events, src, sb, label=f"debugdir-{cell['dbgpre']}-{cell['artifacts']}", cold_gk=False)
                except Inconclusive as ex:
                    log(f"pipeline validation of cell {idx} inconclusive: {ex}")
            # -- B1: events vs the spec's expectation (model drift is not a verdict)
            exp_exit = expect["exit"]
            got_exit = "ok" if r.returncode == 0 else "error"
            if cell["cmd"] == "reverse" and cell["outcome"] == "ok":
                got_exit = "ok" if r.returncode in (0, 1) else "error"   # exit 1 = nothing replaced
            forced = any(e["ev"] == "debugdir-needs-rebuild" and e.get("needs") for e in events)
            if got_exit != exp_exit or (cell["dbgpre"] in ("absent", "empty", "owned") and cell["outcome"] in ("ok", "gofails") and forced != expect["forcedA"]):
                chk.extra.setdefault("model_mismatch_cells", []).append({"cell": cell, "exit": got_exit, "expected": exp_exit, "forcedA": forced, "rc": r.returncode,
                                                                           "stderr": r.stderr[-200:]})
            else:
                chk.traces_validated += 1
        rmtree(root)

    parallel(run_cell, list(enumerate(cells)), workers=4)
    version_gate(chk, work)
    mm = chk.extra.get("model_mismatch_cells", [])
    if mm:
        print(f"MODEL-MISMATCH: property=C19 {len(mm)} cells ended differently from Lifecycle.tla's expectation (exit class or forced -a); see evidence", flush=True)
    chk.exhaustive = tier == "thorough"
    return chk.finish()


if __name__ == "__main__":
    main_wrapper(main)
