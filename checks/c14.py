#!/usr/bin/env python3
"""C14 - GOGARBLE selects exactly which packages are obfuscated.

Spec: spec/Packages.tla.  Strings are character sequences, so module.MatchPrefixPatterns
and the ToObfuscate switch / "does not match any packages" test of appendListedPackages are
transcribed literally; the specification side is an independent element-wise reading of the
pattern language plus garble's special rules.  TLC enumerates every pattern list of <= 2
entries over a 20-pattern alphabet (exact, prefix, glob inside an element, "*" element,
trailing slash, element prefix, suffix, std patterns, runtime, listed-but-not-built std,
empty entries) x 4 import-graph orientations x {build, test, file} and checks Exact,
NeverRuntime, SiblingNotPrefix, TestVariants, EmptyMatchRejectedListed; it serialises the
(pattern list -> per-package ToObfuscate, rejected) table.  The strict reading of the
property (nothing BUILT is selected => rejected) is checked by Packages-leads.cfg: TLC's
counterexample is a lead that is concretised below.

Binding
  B3  `GOGARBLE=<list> garble map ./cmd` runs the real go list loop (no build) and prints
      exactly the packages with ToObfuscate: compared with the table row (a disagreement is a
      lead and schedules a real build of that row).
  B1  traced real builds: `compile-start` events (pkg, obfuscate) against the row; runtime and
      every package of the real runtimeAndDeps table must have obfuscate=false.
  B2  for sampled rows x graphs the generated module is built with `garble -literals build`
      and with `go build -trimpath`: exit/stdout/stderr equal (position lines apart), and for
      every package its carriers (noinline function name, type name, field name, import path,
      file name, >= 8-byte literal) are searched in the binary: present verbatim for packages
      not selected, absent for selected ones (a carrier missing from the plain reference
      binary is not counted).  Rejected rows must fail with the error and leave no binary.
"""
import concurrent.futures
import json
import os
import re
import sys

sys.path.insert(0, str(__import__("pathlib").Path(__file__).resolve().parent.parent))
from vf.core import *  # noqa

MOD = "example.com/mod"
PKGDIR = {"cmd": "cmd", "lib": "lib", "libx": "libx", "sub": "lib/sub"}
PKGNAME = {"cmd": "main", "lib": "lib", "libx": "libx", "sub": "sub"}
CAP = {"cmd": "Cmd", "lib": "Lib", "libx": "Libx", "sub": "Sub"}
LITERAL = {p: f"literal-{p}-ZQXJ-verbatim" for p in PKGDIR}
SRCFILE = {p: f"z{p}srcfile.go" for p in PKGDIR}


def carriers(p):
    c = {"func": f"Fn{CAP[p]}CarrierQ", "type": f"Ty{CAP[p]}CarrierQ", "field": f"Field{CAP[p]}Q",
         "literal": LITERAL[p], "file": SRCFILE[p], "helper": f"show{CAP[p]}HelperQ"}
    if p != "cmd":
        c["importpath"] = f"{MOD}/{PKGDIR[p]}."
    return c


STD_CARRIERS = {"unicode/utf8": ["unicode/utf8.DecodeRuneInString", "unicode/utf8.RuneCountInString", "unicode/utf8."],
                "runtime": ["runtime.mallocgc", "runtime.gopanic", "runtime.newobject"],
                "internal/abi": ["internal/abi."],
                "math/bits": ["math/bits."]}


def gen_module(edges):
    """source files of example.com/mod for one import-graph orientation"""
    files = {}
    for p in PKGDIR:
        deps = sorted(q for (a, q) in edges if a == p)
        imports = ['"runtime"']
        if p == "lib":
            imports.append('"unicode/utf8"')
        if p == "sub":
            imports.append('"math/bits"')
        imports += [f'"{MOD}/{PKGDIR[q]}"' for q in deps]
        c = carriers(p)
        body = [f"package {PKGNAME[p]}", "", "import (", *["\t" + i for i in imports], ")", "",
                f"type {c['type']} struct{{ {c['field']} int }}", "",
                f"func (t {c['type']}) Describe() string {{ return \"{c['literal']}\" }}", "",
                "type describer interface{ Describe() string }", "",
                "//go:noinline", f"func {c['helper']}(d describer) string {{ return d.Describe() }}", "",
                "//go:noinline", f"func {c['func']}(t {c['type']}) string {{", f"\tout := {c['helper']}(t)"]
        for q in deps:
            cq = carriers(q)
            body += [f"\tv{q} := {PKGNAME[q]}.{cq['type']}{{{cq['field']}: t.{c['field']} + 1}} // composite literal of a foreign struct",
                     f"\tv{q}.{cq['field']} += 2 // field selection across the boundary",
                     f"\tout += {PKGNAME[q]}.{cq['func']}(v{q}) + v{q}.Describe() // function and method calls across the boundary"]
        if p == "lib":
            body += ["\tr, n := utf8.DecodeRuneInString(out)", "\tif r == utf8.RuneError || n != 1 || utf8.RuneCountInString(out) != len(out) {", '\t\tout += "!"', "\t}"]
        if p == "sub":
            body += [f"\tif bits.OnesCount64(uint64(t.{c['field']})) > 60 {{", '\t\tout += "!"', "\t}"]
        body += ["\treturn out", "}", "",
                 "//go:noinline",
                 f"func WhereAll{CAP[p]}(ids *[]string, files *[]string, lines *[]int) {{",
                 "\t_, f, l, _ := runtime.Caller(0)",
                 f'\t*ids, *files, *lines = append(*ids, "{p}"), append(*files, f), append(*lines, l)']
        for q in deps:
            body.append(f"\t{PKGNAME[q]}.WhereAll{CAP[q]}(ids, files, lines)")
        body += ["}", ""]
        if p == "cmd":
            body += ["func main() {",
                     f"\tprintln({c['func']}({c['type']}{{{c['field']}: 1}}))",
                     "\tvar ids, files []string", "\tvar lines []int",
                     "\tWhereAllCmd(&ids, &files, &lines)",
                     "\tfor i := range ids {", '\t\tprintln("pos", ids[i], files[i], lines[i])', "\t}", "}", ""]
        files[f"{PKGDIR[p]}/{SRCFILE[p]}"] = "\n".join(body)
    cl = carriers("lib")
    files["lib/lib_internal_test.go"] = f"""package lib

import "testing"

func TestInternal(t *testing.T) {{
	if {cl['func']}({cl['type']}{{{cl['field']}: 1}}) == "" {{
		t.Fatal("empty")
	}}
}}
"""
    files["lib/lib_x_test.go"] = f"""package lib_test

import (
	"testing"

	"{MOD}/lib"
)

func TestExternal(t *testing.T) {{
	v := lib.{cl['type']}{{{cl['field']}: 2}}
	if lib.{cl['func']}(v) == "" || v.Describe() == "" {{
		t.Fatal("empty")
	}}
}}
"""
    return files


FILE_MAIN = """package main

type TyFileCarrierQ struct{ FieldFileQ int }

func (t TyFileCarrierQ) Describe() string { return "literal-file-ZQXJ-verbatim" }

type describer interface{ Describe() string }

//go:noinline
func showFileHelperQ(d describer) string { return d.Describe() }

func main() { println(showFileHelperQ(TyFileCarrierQ{1})) }
"""


def real_runtime_and_deps():
    src = (REPO / "go_std_tables.go").read_text()
    m = re.search(r"var runtimeAndDeps = map\[string\]bool\{(.*?)\n\}", src, re.S)
    if not m:
        return None
    return set(re.findall(r'"([^"]+)":\s*true', m.group(1)))


def split_pos(text):
    """(other lines, {id: [(file, line), ...]}) of a program's stderr"""
    other, pos = [], {}
    for ln in text.splitlines():
        m = re.match(r"^pos (\S+) (\S+) (\d+)$", ln)
        if m:
            pos.setdefault(m.group(1), []).append((m.group(2), int(m.group(3))))
        else:
            other.append(ln)
    return other, pos


def main(tier, seed):
    chk = Check("C14", tier, seed)
    chk.rule = ("one evaluation = one real garble invocation (map, build or test) for one GOGARBLE value; distinct = distinct "
                "(pattern list, graph, command); a build is non-trivial when at least one carrier of every module package is in the plain reference binary")
    chk.assumptions = [
        "pattern alphabet of 20 patterns, lists of <= 2 entries, a 4-package module, 4 import-graph orientations, std sampled by runtime, internal/abi, math/bits, unicode/utf8, net, math, internal/syscall/windows",
        "path.Match is modelled for patterns made of literal characters and '*' only",
        "absence of a package's names is tested through its carriers (function, helper, type, field, import path, file name, literal), not through every identifier"]
    rng = chk.rng
    tlc_workers = int(os.environ.get("VERIF_TLC_WORKERS", "4"))

    # ---------------------------------------------------------------- 1. model
    work = mkscratch("c14-tlc")
    r = tlc_must_pass("Packages", f"Packages-{tier}.cfg", workdir=work, timeout=2400, workers=tlc_workers)
    chk.add_tlc(r)
    table = json.loads((work / "packages_table.json").read_text())
    rows = table["rows"]
    log(f"TLC Packages-{tier}: {r.distinct} states, {len(rows)} rows, {r.wall:.0f}s")
    rl = tlc("Packages", "Packages-leads.cfg", workdir=mkscratch("c14-tlc-leads"), timeout=900, workers=tlc_workers)
    if rl.error:
        raise Inconclusive(f"TLC failed on Packages-leads.cfg: {rl.error}")
    chk.add_tlc(rl)
    chk.extra["tlc_lead"] = rl.violated  # EmptyMatchRejectedBuild: concretised below
    if tier == "thorough":
        ru = tlc_must_pass("Packages", "Packages-unfolded.cfg", workdir=mkscratch("c14-tlc-unf"), timeout=900, workers=tlc_workers)
        chk.add_tlc(ru)
    real_rt = real_runtime_and_deps()
    if real_rt is None or not set(table["runtime_and_deps"]) <= real_rt:
        print(f"MODEL-MISMATCH: property=C14 the model's runtimeAndDeps sample {table['runtime_and_deps']} is not contained in go_std_tables.go", flush=True)
        real_rt = real_rt or set(table["runtime_and_deps"])
    mod_ids = ["cmd", "lib", "libx", "sub"]
    std_sample = [i for i, p in table["packages"]["build"].items() if p["std"]]
    paths = {i: p["path"] for i, p in table["packages"]["build"].items()}

    # ---------------------------------------------------------------- sandboxes
    garble = build_garble("verif")
    root = mkscratch("c14")
    # private sandboxes used in parallel (VERIF_JOBS=1 on a busy machine)
    nworkers = int(os.environ.get("VERIF_JOBS", "4" if tier == "quick" else "6"))
    graphs = {g: [tuple(e) for e in es] for g, es in table["graphs"].items()}
    srcs = {}
    for g, edges in graphs.items():
        srcs[g] = root / f"src-{g}"
        write_module(srcs[g], gen_module(edges), module=MOD)
    sb0 = Sandbox(root / "sb0", template=True)
    # plain references, one per graph
    refs = {}
    for g in graphs:
        rr = sb0.go(["build", "-trimpath", "-o", str(root / f"ref-{g}"), "./cmd"], cwd=srcs[g])
        if rr.returncode != 0:
            raise Inconclusive(f"generated module does not build with go build:\n{rr.stderr[-2000:]}")
        run_ref = run([root / f"ref-{g}"], timeout=60)
        data = (root / f"ref-{g}").read_bytes()
        have = {p: {k: v for k, v in carriers(p).items() if v.encode() in data} for p in mod_ids}
        have_std = {p: [c for c in cs if c.encode() in data] for p, cs in STD_CARRIERS.items()}
        refs[g] = {"run": run_ref, "have": have, "have_std": have_std}
        if run_ref.returncode != 0:
            raise Inconclusive(f"reference program fails: {run_ref.stderr[-500:]}")
    chk.extra["carriers_in_reference"] = {p: sorted(refs["diamond"]["have"][p]) for p in mod_ids}

    def expected(row):
        return {i: bool(row["obfuscate"].get(i)) for i in mod_ids + std_sample}

    # ---------------------------------------------------------------- real runs
    def do_map(sb, row):
        res = sb.garble(["map", "./cmd"], cwd=srcs["diamond"], env={"GOGARBLE": row["gogarble"] or None}, timeout=900)
        if res.timed_out:
            raise Inconclusive("garble map timed out")
        out = {"rc": res.returncode, "stderr": res.stderr[-600:], "keys": None}
        if res.returncode == 0:
            try:
                out["keys"] = set(json.loads(res.stdout))
            except ValueError:
                raise Inconclusive(f"garble map printed no JSON: {res.stdout[:300]}")
        return out

    def do_build(sb, row, g, tag, literals=True, target="./cmd", src=None):
        trace = root / f"trace-{tag}.ndjson"
        outbin = root / f"bin-{tag}"
        for p in (trace, outbin):
            if p.exists():
                p.unlink()
        args = (["-literals"] if literals else []) + ["build", "-o", str(outbin), target]
        res = sb.garble(args, cwd=src or srcs[g], env={"GOGARBLE": row["gogarble"] or None}, trace=trace, timeout=1800)
        if res.timed_out:
            raise Inconclusive("garble build timed out")
        if res.returncode != 0 and any(m in res.stderr for m in ("no space left", "cannot allocate memory", "signal: killed")):
            raise Inconclusive(f"garble build failed for infrastructure reasons: {res.stderr[-600:]}")
        evs = {ev["pkg"]: ev["obfuscate"] for ev in read_trace(trace) if ev.get("ev") == "compile-start"}
        return {"res": res, "events": evs, "bin": outbin, "trace": trace}

    reported = set()

    def report(witness, files, what):
        # one report per kind of failure (not one per GOGARBLE value / graph that shows it)
        sig = json.dumps({k: v for k, v in witness.items() if k not in ("gogarble", "graph")}, sort_keys=True, default=str)
        if sig in reported:
            return
        reported.add(sig)
        chk.violation(witness, files, what)

    pool_sbs = [sb0]

    def parallel(jobs):
        """jobs: list of callables taking a sandbox; runs them on nworkers private sandboxes"""
        while len(pool_sbs) < min(nworkers, max(1, len(jobs))):
            k = len(pool_sbs)
            sbk = Sandbox(root / f"sb{k}", template=True)
            if (sb0.gcache / "tool").exists():
                copytree(sb0.gcache / "tool", sbk.gcache / "tool")
            pool_sbs.append(sbk)
        free = list(pool_sbs)
        import threading
        lock = threading.Lock()

        def wrap(job):
            with lock:
                sb = free.pop()
            try:
                return job(sb)
            finally:
                with lock:
                    free.append(sb)
        with concurrent.futures.ThreadPoolExecutor(max_workers=len(pool_sbs)) as ex:
            return list(ex.map(wrap, jobs))

    # ---- the first build also builds the patched linker, once, before the sandboxes are cloned
    by_part = {}
    for row in rows:
        key = (tuple(sorted(i for i, v in row["obfuscate"].items() if v)), row["rejected"])
        by_part.setdefault(key, []).append(row)
    part_keys = sorted(by_part)
    chk.extra["table_rows"] = len(rows)
    chk.extra["distinct_partitions"] = len(part_keys)

    def pick(pred, n=1):
        c = [row for row in rows if pred(row)]
        rng.shuffle(c)
        return c[:n]

    def text_is(t):
        return lambda row: row["gogarble"] == t

    # rows to build for real: mandatory cells + one representative of further partitions
    build_rows = []
    build_rows += pick(text_is(MOD + "/lib"))                       # sibling prefix: lib + lib/sub, not libx
    build_rows += pick(text_is(MOD + "/libx"))                      # the other sibling
    build_rows += pick(text_is("*"))                                # everything; runtime must stay plain
    build_rows += pick(lambda r_: r_["patterns"] == ["libstar"] or r_["patterns"] == ["starsub"])
    build_rows += pick(lambda r_: len(r_["patterns"]) == 2 and "cmd" in r_["patterns"] and not r_["obfuscate"]["lib"] and not r_["rejected"])
    n_builds = 8 if tier == "quick" else 50
    rest = [k for k in part_keys if not k[1] and any(i in mod_ids for i in k[0])]
    rng.shuffle(rest)
    for k in rest:
        if len(build_rows) >= n_builds:
            break
        if not any((tuple(sorted(i for i, v in br["obfuscate"].items() if v)), br["rejected"]) == k for br in build_rows):
            build_rows.append(rng.choice(by_part[k]))
    while tier == "thorough" and len(build_rows) < n_builds:
        cand = rng.choice(rows)
        if not cand["rejected"] and any(cand["obfuscate"][i] for i in mod_ids) and cand not in build_rows:
            build_rows.append(cand)
    # graph per build: rotate, but make sure a sibling edge crosses in both directions
    gnames = sorted(graphs)
    build_cells = []
    for n, row in enumerate(build_rows):
        exp = expected(row)
        g = gnames[(n + seed) % len(gnames)]
        if exp["lib"] != exp["libx"]:
            # lib -> libx in libfirst/chain, libx -> lib in diamond/chainx: alternate
            g = ("libfirst", "diamond", "chain", "chainx")[(n + seed) % 4]
        build_cells.append((row, g))

    # ---------------------------------------------------------------- 2. B3: garble map on table rows
    first = do_build(sb0, build_cells[0][0], build_cells[0][1], "b0")
    if tier == "quick":
        map_rows = [rng.choice(by_part[k]) for k in part_keys]
    else:
        map_rows = list(rows)
    map_res = parallel([(lambda sb, row=row: do_map(sb, row)) for row in map_rows])
    map_leads = []
    for row, mr in zip(map_rows, map_res):
        exp = expected(row)
        chk.case(["map", row["gogarble"]], sample={"gogarble": row["gogarble"], "map_rc": mr["rc"], "expected": sorted(i for i, v in exp.items() if v)} if len(chk.samples) < 2 else None)
        if row["rejected"]:
            ok = mr["rc"] != 0 and "does not match any packages" in mr["stderr"]
            if not ok:
                map_leads.append((row, f"expected the empty-match error, got rc={mr['rc']}"))
            continue
        if mr["rc"] != 0:
            map_leads.append((row, f"garble map failed: {mr['stderr'][-200:]}"))
            continue
        got = {i: (paths[i] in mr["keys"]) for i in exp}
        bad_mod = [i for i in mod_ids if got[i] != exp[i]]
        bad_std = [i for i in std_sample if got[i] != exp[i]]
        if bad_mod:
            map_leads.append((row, f"garble map disagrees on module packages {bad_mod}: real {sorted(k for k in mr['keys'] if k.startswith(MOD))}"))
        elif bad_std:
            print(f"MODEL-MISMATCH: property=C14 GOGARBLE={row['gogarble']!r}: garble map disagrees with Packages.tla on std packages {bad_std}", flush=True)
        never = sorted(k for k in mr["keys"] if k in real_rt)
        if never:
            report({"kind": "runtime-obfuscated", "via": "map"}, {"case.json": json.dumps({"gogarble": row["gogarble"], "packages": never})},
                   f"GOGARBLE={row['gogarble']!r}: runtime dependencies {never} are marked to be obfuscated")
    chk.extra["map_rows_checked"] = len(map_rows)
    chk.extra["map_leads"] = [(row["gogarble"], why) for row, why in map_leads]
    for row, why in map_leads:
        # a lead: the real build of that row decides
        if not row["rejected"] and all(row is not br for br, _ in build_cells):
            build_cells.append((row, "diamond"))
        log(f"lead from garble map: GOGARBLE={row['gogarble']!r}: {why}")

    # ---------------------------------------------------------------- 3. B1 + B2: real builds
    results = [first] + parallel([(lambda sb, row=row, g=g, n=n: do_build(sb, row, g, f"b{n + 1}")) for n, (row, g) in enumerate(build_cells[1:])])
    cross_seen = set()
    for (row, g), br in zip(build_cells, results):
        exp = expected(row)
        ref = refs[g]
        res = br["res"]
        nontrivial = all(ref["have"][p] for p in mod_ids)
        chk.case(["build", row["gogarble"], g], nontrivial=nontrivial,
                 sample={"gogarble": row["gogarble"], "graph": g, "rc": res.returncode, "obfuscated": sorted(i for i in mod_ids if exp[i])})
        art = {"src": srcs[g], "gogarble.txt": row["gogarble"], "garble_stderr.txt": res.stderr[-8000:], "row.json": json.dumps(row, indent=1),
               "cmd.txt": f"GOGARBLE='{row['gogarble']}' garble -literals build -o prog ./cmd  # in src/; reference: go build -trimpath ./cmd"}
        if res.returncode != 0:
            report({"kind": "build-failed", "gogarble": row["gogarble"], "graph": g}, art,
                   f"GOGARBLE={row['gogarble']!r} garble build fails on a module go build accepts: {res.stderr.strip()[-300:]}")
            continue
        chk.traces_validated += 1
        evs = br["events"]
        # B1: the real decision
        for i in mod_ids:
            if paths[i] in evs and evs[paths[i]] != exp[i]:
                report({"kind": "decision", "pkg": i, "gogarble": row["gogarble"], "real": evs[paths[i]]}, {**art, "events.json": json.dumps(evs, indent=1)},
                       f"GOGARBLE={row['gogarble']!r}: package {paths[i]} compiled with obfuscate={evs[paths[i]]}, the pattern semantics say {exp[i]}")
        for i in std_sample:
            if paths[i] in evs and evs[paths[i]] != exp[i]:
                print(f"MODEL-MISMATCH: property=C14 GOGARBLE={row['gogarble']!r}: std package {paths[i]} compiled with obfuscate={evs[paths[i]]}, model {exp[i]}", flush=True)
        never = sorted(p for p, o in evs.items() if o and p in real_rt)
        if never:
            report({"kind": "runtime-obfuscated", "via": "build"}, {**art, "events.json": json.dumps(evs, indent=1)},
                   f"GOGARBLE={row['gogarble']!r}: runtime dependencies {never} were compiled with obfuscate=true")
        if "runtime" not in evs:
            raise Inconclusive("no compile-start event for runtime in a traced build")
        # B2: bytes of the binary
        data = br["bin"].read_bytes()
        for p in mod_ids:
            for kind, text in ref["have"][p].items():
                present = text.encode() in data
                if exp[p] and present:
                    report({"kind": "leak", "carrier": kind, "pkg": p, "gogarble": row["gogarble"]}, art,
                           f"GOGARBLE={row['gogarble']!r} selects {paths[p]} but its {kind} {text!r} is in the binary")
                if not exp[p] and not present:
                    report({"kind": "plain-altered", "carrier": kind, "pkg": p, "gogarble": row["gogarble"]}, art,
                           f"GOGARBLE={row['gogarble']!r} does not select {paths[p]} but its {kind} {text!r} is missing from the binary")
        for p, cs in ref["have_std"].items():
            for text in cs:
                present = text.encode() in data
                want_obf = bool(row["obfuscate"].get(p))
                if p in real_rt and not present:
                    report({"kind": "runtime-altered", "pkg": p, "gogarble": row["gogarble"]}, art,
                           f"GOGARBLE={row['gogarble']!r}: {text!r} of the never-obfuscated {p} is missing from the binary")
                elif p not in real_rt and want_obf and present:
                    report({"kind": "leak", "carrier": "std-symbol", "pkg": p, "gogarble": row["gogarble"]}, art,
                           f"GOGARBLE={row['gogarble']!r} selects {p} but {text!r} is in the binary")
                elif p not in real_rt and not want_obf and not present:
                    report({"kind": "plain-altered", "carrier": "std-symbol", "pkg": p, "gogarble": row["gogarble"]}, art,
                           f"GOGARBLE={row['gogarble']!r} does not select {p} but {text!r} is missing from the binary")
        # behaviour
        grun = run([br["bin"]], timeout=60)
        g_other, g_pos = split_pos(grun.stderr)
        r_other, r_pos = split_pos(ref["run"].stderr)
        if (grun.returncode, grun.stdout, g_other) != (ref["run"].returncode, ref["run"].stdout, r_other):
            report({"kind": "output-differs", "gogarble": row["gogarble"], "graph": g}, {**art, "garbled_output.txt": grun.stderr + grun.stdout, "ref_output.txt": ref["run"].stderr + ref["run"].stdout},
                   f"GOGARBLE={row['gogarble']!r}: the mixed program's output differs from the regular build")
        for p in mod_ids:
            if exp[p]:
                continue
            gp, rp = g_pos.get(p, []), r_pos.get(p, [])
            if len(gp) != len(rp) or [f.rsplit("/", 1)[-1] for f, _ in gp] != [f.rsplit("/", 1)[-1] for f, _ in rp]:
                report({"kind": "plain-position", "part": "file", "pkg": p, "gogarble": row["gogarble"]}, {**art, "positions.json": json.dumps({"garble": gp, "go": rp})},
                       f"GOGARBLE={row['gogarble']!r}: file names in positions of the plain package {paths[p]} differ: {gp} vs {rp}")
                continue
            deltas = sorted({gl - rl for (_, gl), (_, rl) in zip(gp, rp)})
            if deltas != [0]:
                report({"kind": "plain-position", "part": "line", "main": p == "cmd", "delta": deltas[0] if len(deltas) == 1 else "mixed"},
                       {**art, "positions.json": json.dumps({"garble": gp, "go": rp})},
                       f"GOGARBLE={row['gogarble']!r}: line numbers of the plain package {paths[p]} differ: {gp} vs {rp}")
            if [f for f, _ in gp] != [f for f, _ in rp]:
                report({"kind": "plain-position", "part": "directory"}, {**art, "positions.json": json.dumps({"garble": gp, "go": rp})},
                       f"positions of a package that is not selected keep their file name but lose their directory: {gp[:1]} vs {rp[:1]}")
        for (a, b) in graphs[g]:
            if exp[a] != exp[b]:
                cross_seen.add(("op" if exp[a] else "po", a, b))
    chk.extra["cross_edges_built"] = sorted("%s:%s->%s" % c for c in cross_seen)
    chk.extra["builds"] = len(build_cells)

    # ---------------------------------------------------------------- 4. empty matches, leads, information rows
    rejected_rows = pick(lambda r_: r_["rejected"], 3 if tier == "quick" else 12)
    lead_rows = pick(lambda r_: r_["no_built_selected"] and not r_["rejected"] and len(r_["patterns"]) == 1, 1 if tier == "quick" else 2) + \
        (pick(lambda r_: r_["no_built_selected"] and not r_["rejected"] and len(r_["patterns"]) == 2, 2) if tier == "thorough" else [])
    info_rows = pick(lambda r_: r_["nothing_obfuscated"] and not r_["rejected"] and not r_["no_built_selected"] and len(r_["patterns"]) == 1, 1 if tier == "quick" else 3)
    special = [(row, "rejected") for row in rejected_rows] + [(row, "lead") for row in lead_rows] + [(row, "info") for row in info_rows]
    sres = parallel([(lambda sb, row=row, n=n: do_build(sb, row, "diamond", f"s{n}")) for n, (row, _) in enumerate(special)])
    info = []
    for (row, kind), br in zip(special, sres):
        res = br["res"]
        chk.case(["build-special", kind, row["gogarble"]])
        art = {"src": srcs["diamond"], "gogarble.txt": row["gogarble"], "garble_stderr.txt": res.stderr[-4000:], "row.json": json.dumps(row, indent=1)}
        unobf = res.returncode == 0 and br["bin"].exists() and all(
            t.encode() in br["bin"].read_bytes() for p in mod_ids for t in refs["diamond"]["have"][p].values())
        if kind == "rejected":
            if res.returncode == 0 or "does not match any packages" not in res.stderr or br["bin"].exists():
                report({"kind": "empty-match-accepted", "matched": "nothing-listed", "gogarble": row["gogarble"]}, art,
                       f"GOGARBLE={row['gogarble']!r} matches no package but garble build exits {res.returncode}" + (" and produced a binary" if br["bin"].exists() else ""))
        elif kind == "lead":
            # the TLC lead: the pattern selects only packages that are listed (folded-in linknamed std) but not built
            if unobf:
                chk.violation({"kind": "empty-match-accepted", "matched": "listed-not-built-std"}, art,
                              f"GOGARBLE={row['gogarble']!r} selects nothing that is built, yet garble build succeeds and the binary is entirely unobfuscated")
            elif res.returncode == 0:
                print(f"MODEL-MISMATCH: property=C14 GOGARBLE={row['gogarble']!r} was expected to leave everything plain", flush=True)
        else:
            info.append({"gogarble": row["gogarble"], "rc": res.returncode, "binary_entirely_unobfuscated": unobf})
    chk.extra["nothing_obfuscated_but_accepted_info"] = info

    # ---------------------------------------------------------------- 5. test variants (ForTest) and command-line-arguments
    def do_test(sb, row, tag):
        trace = root / f"trace-{tag}.ndjson"
        if trace.exists():
            trace.unlink()
        res = sb.garble(["test", "./lib"], cwd=srcs["diamond"], env={"GOGARBLE": row["gogarble"] or None}, trace=trace, timeout=2400)
        evs = {ev["pkg"]: ev["obfuscate"] for ev in read_trace(trace) if ev.get("ev") == "compile-start"}
        return {"res": res, "events": evs}

    trow = {tuple(r_["patterns"]): r_ for r_ in table["test_rows"]}
    test_pats = [("lib",)] if tier == "quick" else [("lib",), ("libx",), ("sub",), ("other",)]
    tres = parallel([(lambda sb, pt=pt, n=n: do_test(sb, trow[pt], f"t{n}")) for n, pt in enumerate(test_pats)])
    tpaths = {i: p["path"] for i, p in table["packages"]["test"].items()}
    for pt, tr in zip(test_pats, tres):
        row, res, evs = trow[pt], tr["res"], tr["events"]
        chk.case(["test", row["gogarble"]], sample={"gogarble": row["gogarble"], "command": "garble test ./lib", "rc": res.returncode,
                                                     "events": {k: v for k, v in evs.items() if k.startswith(MOD)}})
        art = {"src": srcs["diamond"], "gogarble.txt": row["gogarble"], "garble_out.txt": res.stdout[-3000:] + res.stderr[-3000:], "events.json": json.dumps(evs, indent=1)}
        if res.timed_out:
            raise Inconclusive("garble test timed out")
        if row["rejected"]:
            if res.returncode == 0 or "does not match any packages" not in res.stderr:
                report({"kind": "empty-match-accepted", "matched": "nothing-listed", "command": "test", "gogarble": row["gogarble"]}, art,
                       f"GOGARBLE={row['gogarble']!r} matches nothing that `garble test ./lib` builds, but the command exits {res.returncode}")
            continue
        if res.returncode != 0 or "ok" not in res.stdout:
            report({"kind": "test-failed", "gogarble": row["gogarble"]}, art, f"GOGARBLE={row['gogarble']!r} garble test ./lib fails: {(res.stdout + res.stderr)[-300:]}")
            continue
        chk.traces_validated += 1
        for i in ("lib[test]", "lib_test", "lib.test", "sub"):
            if tpaths[i] not in evs:
                if i != "sub":
                    print(f"MODEL-MISMATCH: property=C14 no compile-start event for test variant {tpaths[i]!r}: {sorted(k for k in evs if k.startswith(MOD))}", flush=True)
                continue
            want = bool(row["obfuscate"][i])
            if evs[tpaths[i]] == want:
                continue
            if i in ("lib[test]", "sub"):
                # the package under test itself (recompiled with its test files) / a dependency: their code is what GOGARBLE selects
                report({"kind": "decision", "pkg": i, "gogarble": row["gogarble"], "real": evs[tpaths[i]], "command": "test"}, art,
                       f"GOGARBLE={row['gogarble']!r} garble test: {tpaths[i]} compiled with obfuscate={evs[tpaths[i]]}, expected {want}")
            else:
                # external test package and generated test main: garble's own special rules, not the property's
                print(f"MODEL-MISMATCH: property=C14 GOGARBLE={row['gogarble']!r} garble test: {tpaths[i]} compiled with obfuscate={evs[tpaths[i]]}, Packages.tla says {want}", flush=True)
    if tier == "thorough":
        fsrc = root / "src-file"
        write_module(fsrc, {"main.go": FILE_MAIN}, module="example.com/filemod")
        frow = {tuple(r_["patterns"]): r_ for r_ in table["file_rows"]}[("other",)]
        fr = do_build(sb0, frow, None, "file", target="main.go", src=fsrc)
        chk.case(["file", frow["gogarble"]])
        evs = fr["events"]
        if fr["res"].returncode != 0 or evs.get("command-line-arguments") is not True:
            report({"kind": "decision", "pkg": "command-line-arguments", "gogarble": frow["gogarble"]}, {"src": fsrc, "stderr.txt": fr["res"].stderr[-3000:], "events.json": json.dumps(evs)},
                   f"garble build main.go with GOGARBLE={frow['gogarble']!r}: command-line-arguments must always be obfuscated (rc={fr['res'].returncode}, event={evs.get('command-line-arguments')})")
        elif b"TyFileCarrierQ" in fr["bin"].read_bytes():
            report({"kind": "leak", "pkg": "command-line-arguments", "gogarble": frow["gogarble"]}, {"src": fsrc}, "command-line-arguments main package is not obfuscated")

    # ---------------------------------------------------------------- std closure under the default GOGARBLE=*
    # Every package the build compiles is matched by "*": it must be obfuscated unless it is the runtime or one of
    # its dependencies (go_std_tables.go), runtime/cgo, or crypto/internal/fips140 and the packages below it - the
    # documented exceptions of appendListedPackages, read here as path ELEMENTS (crypto/internal/fips140only is a
    # sibling, not an exception).  One program that pulls in a wide slice of std, traced.
    ssrc = root / "src-stdclosure"
    write_module(ssrc, {"main.go": """package main

import (
	"crypto/hmac"
	"crypto/md5"
	"crypto/sha256"
	"encoding/hex"
	"os"
)

func main() {
	m := hmac.New(sha256.New, []byte("k"))
	m.Write([]byte("msg"))
	s := md5.Sum([]byte("x"))
	os.Stdout.WriteString(hex.EncodeToString(m.Sum(nil))[:8] + hex.EncodeToString(s[:])[:4] + "\\n")
}
"""}, module="example.com/stdclosure")
    sbs = Sandbox(root / "sb-stdclosure", template=True)
    strace = root / "stdclosure.ndjson"
    rs = sbs.garble(["build", "-o", str(root / "stdclosure.bin"), "."], cwd=ssrc, trace=strace, timeout=2400)
    rg = sbs.go(["build", "-trimpath", "-o", str(root / "stdclosure.ref"), "."], cwd=ssrc)
    chk.case(["std-closure", "*"], sample={"program": "hmac+sha256+md5", "rc": rs.returncode})
    if rg.returncode != 0:
        raise Inconclusive(f"std-closure program does not build with go build: {rg.stderr[-1000:]}")
    if rs.returncode != 0:
        report({"kind": "build-failed", "gogarble": "*", "graph": "std-closure"}, {"src": ssrc, "stderr.txt": rs.stderr[-4000:]},
               f"garble build of the std-closure program fails: {rs.stderr.strip()[-300:]}")
    else:
        sev = {ev["pkg"]: ev["obfuscate"] for ev in read_trace(strace) if ev.get("ev") == "compile-start"}

        def excepted(path):
            return (path in real_rt or path == "runtime/cgo" or path == "crypto/internal/fips140" or path.startswith("crypto/internal/fips140/"))
        plain = sorted(p for p, o in sev.items() if not o and not excepted(p))
        wrongly = sorted(p for p, o in sev.items() if o and excepted(p))
        chk.extra["std_closure"] = {"compiled": len(sev), "obfuscated": sum(1 for o in sev.values() if o), "fips140_siblings_seen": sorted(p for p in sev if p.startswith("crypto/internal/fips140") and not excepted(p))}
        out_g, out_r = run([root / "stdclosure.bin"], timeout=60), run([root / "stdclosure.ref"], timeout=60)
        if plain:
            report({"kind": "decision", "pkg": "std", "gogarble": "*", "real": False}, {"src": ssrc, "events.json": json.dumps(sev, indent=1)},
                   f"default GOGARBLE=*: packages {plain[:6]} are matched but were compiled with obfuscate=false (not the runtime, its dependencies or crypto/internal/fips140/...)")
        if wrongly:
            report({"kind": "runtime-obfuscated", "via": "std-closure"}, {"src": ssrc, "events.json": json.dumps(sev, indent=1)},
                   f"default GOGARBLE=*: never-obfuscated packages {wrongly[:6]} were compiled with obfuscate=true")
        if (out_g.returncode, out_g.stdout) != (out_r.returncode, out_r.stdout):
            report({"kind": "behaviour", "gogarble": "*", "graph": "std-closure"}, {"src": ssrc}, f"std-closure program prints {out_g.stdout!r}, regular build {out_r.stdout!r}")

    chk.exhaustive = (tier == "thorough")
    return chk.finish()


if __name__ == "__main__":
    main_wrapper(main)
