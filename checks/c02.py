#!/usr/bin/env python3
"""C02 - The binary carries no original names, paths, positions or build metadata.

Spec: spec/Naming.tla gives, for every object of the generated programs and every
ToObfuscate combination, MustVanish / MayRemain (exceptions of the property: exported
methods, main/init, names that reach reflection, packages outside GOGARBLE; the runtime
is never planted) / Unlisted (constants, labels, locals: not in the property's list), the
classes of package-level strings (import path, package name, file names, directories) and
the tool surface (NoLeakSurface: -trimpath with the shared temp dir first, -p obfuscated,
sources under the shared dir, assembly file names hashed, link with -buildid= -w -s
-X=runtime.buildVersion=unknown).  TLC checks VanishRenamed and NoLeakSurface.

Binding B2: the C01 programs (checks/naming_common.py), every identifier / file /
directory / module / package name unique and recognisable, built with `go build`
(to show that a name IS in a regular binary, otherwise its absence is trivial) and with
garble under {default, -tiny, -seed, -literals} x GOGARBLE scopes x TMPDIR outside / inside
the source directory.  Binding B1: `tool-run` events against the spec's surface
(a difference is MODEL-MISMATCH unless the binary shows the leak).

Oracle: bytes of the garbled binary contain no MustVanish string (UTF-8, UTF-16LE and the
assembly spelling with "∕" / "·"), no source / TMPDIR / cache directory; `go version -m`
reports nothing but "unknown"; `go tool buildid` is empty; the ELF has no .symtab, no
.debug_* / .zdebug_* section and no build-id note.
"""
import json
import struct
import sys
from concurrent.futures import ThreadPoolExecutor
from pathlib import Path

sys.path.insert(0, str(Path(__file__).resolve().parent.parent))
sys.path.insert(0, str(Path(__file__).resolve().parent))
from vf.core import *  # noqa
import naming_common as nc

MODULE_SIZE = 60


def elf_sections(path):
    """name -> (type, offset, size) of a 64-bit little-endian ELF file."""
    data = Path(path).read_bytes()
    if data[:4] != b"\x7fELF" or data[4] != 2 or data[5] != 1:
        raise Inconclusive(f"{path}: not a 64-bit little-endian ELF file")
    shoff, = struct.unpack_from("<Q", data, 0x28)
    shentsize, shnum, shstrndx = struct.unpack_from("<HHH", data, 0x3A)
    secs = []
    for i in range(shnum):
        name, typ, _flags, _addr, off, size = struct.unpack_from("<IIQQQQ", data, shoff + i * shentsize)
        secs.append((name, typ, off, size))
    stroff = secs[shstrndx][2]
    out = {}
    for name, typ, off, size in secs:
        end = data.index(b"\0", stroff + name)
        out[data[stroff + name:end].decode()] = (typ, off, size)
    return out, data


def forms(s):
    """Encodings under which a string could survive in a binary."""
    f = {"utf8": s.encode(), "utf16le": s.encode("utf-16-le")}
    if "/" in s or "." in s:
        f["asm-spelling"] = nc.asm_path(s).encode()
    return f


def found_in(data, s):
    return [k for k, b in forms(s).items() if b in data]


def string_classes(prog, cfg, pkrows, by_key, mx_root, built):
    """(must_vanish, may_remain, unlisted): lists of (string, description)."""
    row = pkrows[cfg.toobf]["strings"]
    must, may, unl = [], [], []
    for o in prog.planted:
        if not o.unique or o.home not in ("main", "dep"):
            continue
        v = nc.verdict_for(by_key, o, cfg.toobf)
        if v is None:
            continue
        item = (o.name, f"{o.kind}/{'exp' if o.exported else 'unexp'}/{o.name_class}/{o.home}")
        {"MustVanish": must, "MayRemain": may, "Unlisted": unl}[v["vanish"]].append(item)
    for s, pkg, what in prog.strings:
        if pkg == "module":
            cls = "MustVanish" if cfg.toobf == "TT" else "MayRemain"
        else:
            cls = row[pkg][what]
        (must if cls == "MustVanish" else may).append((s, f"{what}/{pkg}"))
    # directories: always trimmed
    must.append((str(built.cwd), "srcdir-path"))
    must.append((Path(built.tmpdir).name, "tmpdir-name"))
    must.append((str(mx_root), "scratch-root"))
    must.append(("garble-shared", "shared-dir-name"))
    # a string that is part of a string that may remain cannot be required to vanish
    may_strings = [m for m, _ in may]
    must = [(s, d) for s, d in must if not any(s in m for m in may_strings)]
    return must, may, unl


def surface_of(ev, prog, built):
    """Project a recorded tool-run event onto the slots of Naming.tla's Surface."""
    argv, tool = ev["argv"], ev["tool"]
    shared = str(Path(built.tmpdir) / ev.get("sh", "garble-shared"))

    def val(flag):
        for i, a in enumerate(argv):
            if a == flag and i + 1 < len(argv):
                return argv[i + 1]
            if a.startswith(flag + "="):
                return a[len(flag) + 1:]
        return None
    s = {"p": "n/a", "trimpath_first": "n/a", "file_dir": "n/a", "file_base": "n/a", "importcfg_dir": "n/a", "buildid": "n/a",
         "strip": "n/a", "buildversion": "n/a", "dwarf": "n/a"}
    if tool in ("compile", "asm"):
        ext = ".go" if tool == "compile" else ".s"
        files = [a for a in argv if a.endswith(ext) and a.startswith("/")]
        s["p"] = val("-p")
        tp = val("-trimpath") or ""
        s["trimpath_first"] = "shared" if tp.split(";")[0] == shared + "=>" else "other:" + tp.split(";")[0][:80]
        s["file_dir"] = "shared" if files and all(f.startswith(shared + "/") for f in files) else ("source" if any(str(built.cwd) in f for f in files) else "other")
        if built.tmpdir and str(built.cwd) in str(built.tmpdir) and s["file_dir"] == "source":
            s["file_dir"] = "shared" if all(f.startswith(shared + "/") for f in files) else "source"
        origs = [Path(f).name for f in prog.files if f.endswith(ext)]
        s["file_base"] = "orig" if any(Path(f).name in origs for f in files) else "hashed"
    if tool == "compile":
        ic = val("-importcfg") or ""
        s["importcfg_dir"] = "shared" if ic.startswith(shared + "/") else "other"
        s["dwarf"] = "off" if "-dwarf=false" in argv else "on"
    if tool == "link":
        ic = val("-importcfg") or ""
        s["importcfg_dir"] = "shared" if ic.startswith(shared + "/") else "other"
        bids = [a for a in argv if a.startswith("-buildid")]
        s["buildid"] = "empty" if bids == ["-buildid="] else "set:" + ",".join(bids)[:60]
        s["strip"] = "w+s" if "-w" in argv and "-s" in argv else "missing"
        s["buildversion"] = "unknown" if "-X=runtime.buildVersion=unknown" in argv else "missing"
    return s


def check_surface(prog, cfg, built, pkrows, drift):
    """B1: NoLeakSurface on the recorded argv.  Returns the number of events checked."""
    model = pkrows[cfg.toobf]["surface"]
    pkgs = {prog.mainpath: "main", prog.deppath: "dep", prog.leafpath: "dep", prog.basepath: "dep"}
    n = 0
    seen_link = False
    for ev in read_trace(built.trace):
        if ev.get("ev") != "tool-run" or ev.get("pkg") not in pkgs or ev.get("tool") not in ("compile", "asm", "link"):
            continue
        n += 1
        cls = pkgs[ev["pkg"]]
        want = dict(model[ev["tool"]][cls])
        got = surface_of(ev, prog, built)
        seen_link |= ev["tool"] == "link"
        # the symbolic -p term
        wp, gp = want.pop("p"), got.pop("p")
        if wp == "literal-main":
            p_ok = gp == "main"
        elif wp == "keep":
            p_ok = gp == ev["pkg"]
        elif wp.startswith("pkghash"):
            p_ok = gp is not None and gp != ev["pkg"] and "zqv" not in gp
        else:
            p_ok = True
        if not p_ok:
            drift.append({"module": prog.tag, "config": cfg.name, "tool": ev["tool"], "pkg": cls, "slot": "p", "spec": wp, "real": gp})
        for k, w in want.items():
            if got[k] != w:
                drift.append({"module": prog.tag, "config": cfg.name, "tool": ev["tool"], "pkg": cls, "slot": k, "spec": w, "real": got[k]})
    if not seen_link:
        drift.append({"module": prog.tag, "config": cfg.name, "slot": "link", "spec": "one link event", "real": "none recorded"})
    return n


def main(tier, seed):
    chk = Check("C02", tier, seed)
    rng = chk.rng
    chk.rule = ("one evaluation = one garbled binary scanned; distinct = distinct (planted string, configuration) pairs required to vanish "
                "whose string IS present in the regular binary of the same program (non-trivial absence)")
    chk.assumptions = ["programs are those of checks/naming_common.py (cells of spec/Naming.tla); 'every program' is covered up to that closure",
                       "linux/amd64 ELF binaries only", "constants, labels, locals and type parameters are not in the property's list: a hit is reported as a note, not as a violation",
                       "strings injected with -ldflags=-X and the initial values of those variables are data, not names"]

    work = mkscratch("c02-tlc")
    cells, pkrows, r = nc.load_cells(work, f"Naming-{tier}.cfg")
    chk.add_tlc(r)
    by_key = {nc.cell_key(c): c for c in cells}
    normal, leads, tests = nc.split_cells(cells)
    # names such as main / init cannot be told apart in a binary: those cells add nothing here (and their
    # fixed names would force more, smaller modules)
    normal = [c for c in normal if c["nameClass"] in ("plain", "reflected")]
    mods = nc.pack(normal, MODULE_SIZE, rng)
    progs = [nc.generate(m, f"s{seed}v{i}", rng) for i, m in enumerate(mods)]
    cfgs = nc.configs_for(tier, rng)
    mx = nc.Matrix("c02")
    mx.want_names = False
    log(f"{len(normal)} cells in {len(progs)} modules; configs {cfgs}")

    with ThreadPoolExecutor(max_workers=nc.parallelism()) as ex:
        refs = dict(zip([p.tag for p in progs], ex.map(mx.regular, progs)))
    for p in progs:
        if not refs[p.tag].ok:
            raise Inconclusive(f"generated module {p.tag} does not build with the regular toolchain:\n{refs[p.tag].res.stderr[-3000:]}")
    # TMPDIR inside the source directory for every other (module, configuration)
    built = mx.garble_all(progs, cfgs, tmp_inside=lambda pi, ci: (pi + ci) % 2 == 0, select=nc.quick_select(tier, seed))

    drift, notes = [], []
    trivial = nontrivial = events = 0
    for p in progs:
        ref_data = refs[p.tag].binary.read_bytes()
        for cfg in cfgs:
            b = built.get((p.tag, cfg.name))
            if b is None:
                continue
            if not b.ok:
                raise Inconclusive(f"garble {cfg.name} does not build module {p.tag} (that is property C01, not C02):\n{b.res.stderr[-2000:]}")
            secs, data = elf_sections(b.binary)
            must, may, unl = string_classes(p, cfg, pkrows, by_key, mx.root, b)
            tmp_where = "inside-srcdir" if str(b.cwd) in str(b.tmpdir) else "outside"
            chk.case([p.tag, cfg.name], nontrivial=False,
                     sample={"module": p.tag, "config": cfg.name, "tmpdir": tmp_where, "must_vanish_strings": len(must)} if len(chk.samples) < 4 else None)
            files = {"module": b.cwd, "garble-command.txt": b.describe() + "\n", "binary": b.binary}
            # 1. planted strings
            for s, desc in must:
                hit = found_in(data, s)
                in_ref = bool(found_in(ref_data, s))
                if in_ref:
                    nontrivial += 1
                    chk.distinct.add(json.dumps([s, cfg.name]))
                else:
                    trivial += 1
                if hit:
                    chk.violation({"kind": "string-in-binary", "what": desc, "config": cfg.name, "toobf": cfg.toobf, "tmpdir": tmp_where, "form": hit[0]},
                                  dict(files, **{"hit.json": json.dumps({"string": s, "class": desc, "forms": hit, "in_regular_binary": in_ref})}),
                                  what=f"{desc} {s!r} is readable ({', '.join(hit)}) in the binary of module {p.tag} built with garble {cfg.name} (TMPDIR {tmp_where})")
            for s, desc in unl:
                if found_in(data, s):
                    notes.append({"string": s, "class": desc, "config": cfg.name})
            # 2. build metadata
            ver = mx.sandbox("go").go(["version", "-m", str(b.binary)], cwd=mx.root)
            vlines = [l for l in ver.stdout.splitlines() if l.strip()]
            if ver.returncode != 0 or len(vlines) != 1 or not vlines[0].endswith(": unknown"):
                chk.violation({"kind": "go-version-m", "config": cfg.name}, dict(files, **{"go-version-m.txt": ver.stdout + ver.stderr}),
                              what=f"`go version -m` reports build information for the {cfg.name} binary of {p.tag}: {vlines[:4]}")
            bid = mx.sandbox("go").go(["tool", "buildid", str(b.binary)], cwd=mx.root)
            if bid.stdout.strip():
                chk.violation({"kind": "buildid", "config": cfg.name}, dict(files, **{"buildid.txt": bid.stdout}),
                              what=f"`go tool buildid` is not empty for the {cfg.name} binary of {p.tag}: {bid.stdout.strip()[:80]}")
            bad_secs = [n for n in secs if n in (".symtab", ".strtab", ".dynsym") or n.startswith(".debug_") or n.startswith(".zdebug_")]
            notes_secs = [n for n in secs if n in (".note.go.buildid", ".note.gnu.build-id") and secs[n][2] > 0]
            if bad_secs or notes_secs:
                chk.violation({"kind": "elf-sections", "config": cfg.name, "sections": sorted(bad_secs + notes_secs)[0]},
                              dict(files, **{"sections.json": json.dumps({k: list(v) for k, v in secs.items()}, indent=1)}),
                              what=f"ELF sections that carry symbols / DWARF / a build id in the {cfg.name} binary of {p.tag}: {sorted(bad_secs + notes_secs)}")
            gover = (goroot() / "VERSION").read_text().split()[0].encode() if (goroot() / "VERSION").exists() else b"go1.26"
            if gover in data:
                chk.violation({"kind": "go-version-string", "config": cfg.name}, files,
                              what=f"the Go version {gover.decode()} is readable in the {cfg.name} binary of {p.tag}")
            # 3. tool surface (B1)
            events += check_surface(p, cfg, b, pkrows, drift)
            chk.traces_validated += 1
    chk.extra["must_vanish_checks_nontrivial"] = nontrivial
    chk.extra["must_vanish_checks_trivial"] = trivial
    chk.extra["tool_run_events_checked"] = events
    chk.extra["garble_builds"] = mx.garble_builds
    if notes:
        chk.extra["unlisted_names_found"] = notes[:20]
        print(f"NOTE: property=C02 {len(notes)} names outside the property's list (constants, labels, locals) are readable in a garbled binary, e.g. {notes[0]}", flush=True)
    if drift:
        chk.extra["model_mismatches"] = drift[:40]
        print(f"MODEL-MISMATCH: property=C02 {len(drift)} tool-surface slots differ from spec/Naming.tla (first: {json.dumps(drift[0])[:300]}); "
              f"the binaries were still scanned", flush=True)
    if nontrivial == 0:
        raise Inconclusive("no planted string was found in any regular binary: the absence test would be vacuous")
    chk.exhaustive = (tier == "thorough")
    return chk.finish()


if __name__ == "__main__":
    main_wrapper(main)
