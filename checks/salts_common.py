"""Shared pieces of the salting checks (C12, C13): fixture programs, observation of the
complete name map of a real build (H6 `name` events, compile `-p` flags, asm file names,
position file names printed by the program itself, the pclntab magic number of the linked
binary; -debugdir helpers are kept for inspection only: the garbled files of a package overwrite
each other's beginnings on the unchanged tree), `garble map` / `garble reverse` drivers."""
import json
import os
import re
import struct
import sys
import threading
from concurrent.futures import ThreadPoolExecutor

sys.path.insert(0, str(__import__("pathlib").Path(__file__).resolve().parent.parent))
from vf.core import *  # noqa

MOD = "example.com/salts"


def finish_replay(chk):
    """finish() of a --replay run: the evidence of the last full run stays in place, the replay's goes to <id>.replay.json."""
    p = EVIDENCE / f"{chk.pid}.json"
    old = p.read_bytes() if p.exists() else None
    rc = chk.finish()
    (EVIDENCE / f"{chk.pid}.replay.json").write_bytes(p.read_bytes())
    if old is not None:
        p.write_bytes(old)
    return rc


def parallel(fn, items, workers=3):
    with ThreadPoolExecutor(max_workers=workers) as ex:
        return list(ex.map(fn, items))


# --------------------------------------------------------------------------- C12 fixture
# main -> lib -> dep ; main -> libtwin -> dep ; main -> other          (println only)
#   lib      the observed package P: funcs, types, vars, methods, struct fields, an asm file,
#            call sites whose position file names the program prints (runtime.Caller),
#            a second file (target of the "unrelated edit"), a pair of tagged files
#   libtwin  byte-identical sources under another import path ("package path" input)
#   dep      dependency of lib (and of libtwin)
#   other    imported by main only: a non-dependency of lib

LIB_GO = """package lib

import (
	"runtime"

	"example.com/salts/dep"
)

type Shape struct {
	Width  int
	height int
}

type measurer interface{ measure() int }

type Box[T any] struct{ boxed T }

func (s Shape) measure() int { return s.Width * s.height }

func (s Shape) Area() int { return s.measure() }

var PkgCounter = 5

var pkgHidden = 6

//go:noinline
func helperOne(x int) int { return x + pkgHidden }

//go:noinline
func helperTwo(m measurer) int { return m.measure() + second() + tagged() }

func Exported(x int) int {
	s := Shape{Width: x, height: 2}
	b := Box[int]{boxed: x}
	asmNop()
	return helperOne(helperTwo(s)) + dep.DepFunc(b.boxed) + PkgCounter
}

//go:noinline
func Where() {
	_, file, line, _ := runtime.Caller(0)
	println("POS", "w0", file, line)
	whereInner()
}

//go:noinline
func whereInner() {
	_, file, line, _ := runtime.Caller(0)
	println("POS", "w1", file, line)
}
"""

LIB2_GO = """package lib

//go:noinline
func second() int { return 40 }
"""

LIB_NOP_GO = """package lib

func asmNop()
"""

LIB_NOP_S = """#include "textflag.h"

// func asmNop()
TEXT ·asmNop(SB),NOSPLIT,$0-0
	RET
"""

LIB_TAG_ON = """//go:build salttag

package lib

func tagged() int { return 1 }
"""

LIB_TAG_OFF = """//go:build !salttag

package lib

func tagged() int { return 2 }
"""

DEP_GO = """package dep

type DepRecord struct {
	DepField int
	depInner int
}

var depVar = 3

//go:noinline
func depHelper(x int) int { return x * depVar }

func DepFunc(x int) int {
	r := DepRecord{DepField: x, depInner: 1}
	return depHelper(r.DepField + r.depInner)
}
"""

OTHER_GO = """package other

import "runtime"

type OtherRecord struct{ OtherField int }

var otherVar = 9

//go:noinline
func otherHelper(x int) int { return x - otherVar }

func OtherFunc(x int) int {
	r := OtherRecord{OtherField: x}
	return otherHelper(r.OtherField)
}

//go:noinline
func Where() {
	_, file, line, _ := runtime.Caller(0)
	println("POS", "w0", file, line)
}
"""

MAIN_GO = """package main

import (
	"runtime"

	"example.com/salts/lib"
	twin "example.com/salts/libtwin"
	"example.com/salts/other"
)

type mainRecord struct {
	mainFieldA int
	MainFieldB int
}

var mainCounter = 3

//go:noinline
func mainHelper(x int) int { return x + mainCounter }

//go:noinline
func where() {
	_, file, line, _ := runtime.Caller(0)
	println("POS", "w0", file, line)
}

func main() {
	r := mainRecord{1, 2}
	println("OUT", lib.Exported(2), twin.Exported(2), other.OtherFunc(1), mainHelper(r.mainFieldA+r.MainFieldB))
	println("AT", "example.com/salts/lib")
	lib.Where()
	println("AT", "example.com/salts/libtwin")
	twin.Where()
	println("AT", "example.com/salts/other")
	other.Where()
	println("AT", "example.com/salts")
	where()
}
"""

PKGS = {"main": MOD, "lib": MOD + "/lib", "libtwin": MOD + "/libtwin", "dep": MOD + "/dep", "other": MOD + "/other"}


def salts_program() -> dict:
    files = {"main.go": MAIN_GO, "dep/dep.go": DEP_GO, "other/other.go": OTHER_GO}
    for d in ("lib", "libtwin"):
        files[f"{d}/lib.go"] = LIB_GO
        files[f"{d}/lib2.go"] = LIB2_GO
        files[f"{d}/nop.go"] = LIB_NOP_GO
        files[f"{d}/nop.s"] = LIB_NOP_S
        files[f"{d}/tag_on.go"] = LIB_TAG_ON
        files[f"{d}/tag_off.go"] = LIB_TAG_OFF
    return files


def write_salts(dirp):
    write_module(dirp, salts_program(), module=MOD)
    return Path(dirp)


EDIT_FILES = {"lib": "lib/lib2.go", "dep": "dep/dep.go", "other": "other/other.go", "libtwin": "libtwin/lib2.go"}


def edit_pkg(src: Path, pkg: str, n: int):
    """An edit that changes the package's source and its compiled output (a new exported variable),
    appended to a file that holds none of the observed call sites, so that no observed identifier,
    struct shape or call-site offset changes."""
    f = src / EDIT_FILES[pkg]
    if pkg == "lib":
        # the weakest source change there is: a comment (the compiled object stays byte-identical, so only a
        # salt taken from the build INPUTS moves; one taken from the build output would not)
        f.write_text(f.read_text() + f"\n// edit {n} of {pkg}\n")
    else:
        f.write_text(f.read_text() + f"\nvar Edit{n}{pkg.capitalize()} = {n}\n")


# --------------------------------------------------------------------------- observation

def elf_pclntab_magic(path: Path):
    """First 4 bytes (little endian) of the .gopclntab section of a 64-bit little-endian ELF file."""
    data = Path(path).read_bytes()
    if data[:4] != b"\x7fELF" or data[4] != 2 or data[5] != 1:
        return None
    shoff = struct.unpack_from("<Q", data, 0x28)[0]
    shentsize, shnum, shstrndx = struct.unpack_from("<HHH", data, 0x3A)
    secs = []
    for i in range(shnum):
        off = shoff + i * shentsize
        name, typ, flags, addr, offset, size = struct.unpack_from("<IIQQQQ", data, off)
        secs.append((name, offset, size))
    stroff = secs[shstrndx][1]
    for name, offset, size in secs:
        end = data.index(b"\0", stroff + name)
        if data[stroff + name:end] == b".gopclntab" and size >= 4:
            return struct.unpack_from("<I", data, offset)[0]
    return None


RX_LINE = re.compile(r"/\*line ([A-Za-z0-9_]*)\.go:1\*/")


def debugdir_positions(debugdir: Path, pkgs=PKGS):
    """pkg label -> {file -> [position file names in order of appearance]} from garbled sources."""
    out = {}
    for label, ip in pkgs.items():
        d = Path(debugdir) / "garbled" / ip
        per = {}
        if d.is_dir():
            for f in sorted(d.iterdir()):
                if f.suffix == ".go" and f.is_file():
                    per[f.name] = [m.group(1) for m in RX_LINE.finditer(f.read_text(errors="replace"))]
        out[label] = per
    return out


def debugdir_runtime_keys(debugdir: Path):
    """The magic value and entry-offset key as written into the garbled runtime sources (text match on
    what updateMagicValue / updateEntryOffset produce); None when not found."""
    res = {}
    p = Path(debugdir) / "garbled" / "internal" / "abi" / "symtab.go"
    if p.exists():
        m = re.search(r"Go120PCLnTabMagic\s+\w*\s*=\s*(0x[0-9a-fA-F]+|\d+)", p.read_text(errors="replace"))
        if m:
            res["magic"] = int(m.group(1), 0)
    p = Path(debugdir) / "garbled" / "runtime" / "symtab.go"
    if p.exists():
        m = re.search(r"\^\s*(?:uint32\()?(0x[0-9a-fA-F]+|\d+)", p.read_text(errors="replace"))
        if m:
            res["entryoff"] = int(m.group(1), 0)
    return res


class Observation:
    """The abstract name map of one real build, per package label."""

    def __init__(self):
        self.scoped = {}      # label -> {(kind, orig): obf}   func/method/type/variable objects of the package
        self.fields = {}      # label -> {orig: obf}
        self.importpath = {}  # label -> obfuscated import path (compile -p)
        self.asm = {}         # label -> {orig .s name: obf name}  (only orig known by position in argv)
        self.positions = {}   # label -> {site: file name} printed by the program / set of names from debugdir
        self.magic = None
        self.entryoff = None
        self.compiled = set()  # labels whose compile ran in this build
        self.conflicts = []

    def to_json(self):
        return {
            "scoped": {l: {f"{k[0]}:{k[1]}": v for k, v in m.items()} for l, m in self.scoped.items()},
            "fields": self.fields, "importpath": self.importpath, "asm": self.asm, "positions": self.positions,
            "magic": self.magic, "entryoff": self.entryoff, "compiled": sorted(self.compiled),
        }


def observe_trace(events, obs: Observation, pkgs=PKGS):
    by_path = {ip: label for label, ip in pkgs.items()}
    for ev in events:
        name = ev.get("ev")
        if name == "name":
            label = by_path.get(ev["pkg"])
            if label is None:
                continue
            if ev["kind"] == "field":
                m = obs.fields.setdefault(label, {})
                key = ev["orig"]
            else:
                m = obs.scoped.setdefault(label, {})
                key = (ev["kind"], ev["orig"])
            if key in m and m[key] != ev["obf"]:
                obs.conflicts.append({"pkg": label, "key": str(key), "a": m[key], "b": ev["obf"]})
            m[key] = ev["obf"]
        elif name == "tool-run":
            label = by_path.get(ev.get("pkg"))
            if label is None:
                continue
            argv = ev.get("argv") or []
            if ev.get("tool") == "compile":
                obs.compiled.add(label)
                if "-p" in argv:
                    obs.importpath[label] = argv[argv.index("-p") + 1]
            elif ev.get("tool") == "asm" and "-gensymabis" not in argv:
                names = [os.path.basename(a) for a in argv if a.endswith(".s")]
                if names:
                    obs.asm[label] = {"nop.s": names[0]} if len(names) == 1 else {f"#{i}": n for i, n in enumerate(names)}


def observe_run(binary: Path, obs: Observation, pkgs=PKGS):
    """Run the program: it prints the position file name of known call sites of each package."""
    r = run([binary], timeout=60, env={"PATH": os.environ.get("PATH", ""), "GOTRACEBACK": "none"})
    if r.returncode != 0:
        raise Inconclusive(f"the obfuscated program failed: rc={r.returncode} {r.stderr[-500:]}")
    by_path = {ip: label for label, ip in pkgs.items()}
    cur = None
    out_line = None
    for line in r.stderr.splitlines():
        f = line.split()
        if not f:
            continue
        if f[0] == "AT":
            cur = by_path.get(f[1])
        elif f[0] == "POS" and cur is not None and len(f) >= 3:
            # under -tiny there is no position information at all: the runtime reports "" or "??"
            fname = f[2] if len(f) >= 4 and f[2].endswith(".go") else ""
            obs.positions.setdefault(cur, {})[f[1]] = fname
        elif f[0] == "OUT":
            out_line = line
    return out_line


# --------------------------------------------------------------------------- C13 fixture
# One object per row of the Salts.tla object table (kind x exported) in each of three packages:
#   main (role main), lib (role lib), excl (role lib, or "excluded" when GOGARBLE leaves it out).
# All names are unique across the module (prefix per package), so build-side `name` events, map
# entries and reverse output can be matched by name alone.

MOD13 = "example.com/saltmap"
PKGS13 = {"main": MOD13, "lib": MOD13 + "/lib", "excl": MOD13 + "/excl"}
TAG13 = "saltmaptag"


class Obj:
    def __init__(self, kind, exported, orig, evkind, key, owner=None, build_as=None, when="always"):
        self.kind, self.exported, self.orig, self.evkind, self.key = kind, exported, orig, evkind, key
        self.owner = owner          # struct / interface / variable the object belongs to
        self.build_as = build_as    # (evkind, orig) whose build name the identifier really gets (embedded fields)
        self.when = when            # always | tag | notag

    def to_json(self):
        return dict(self.__dict__)


def gen_pkg13(P: str, pkgname: str, imports: list, extra_use: str = ""):
    """Returns (files, objects) for one package; P is the unique upper-case prefix."""
    p = P.lower()
    objs = []

    def o(kind, exported, orig, evkind, key, **kw):
        objs.append(Obj(kind, exported, orig, evkind, key, **kw))

    T, t = f"{P}ExpType", f"{p}unexpType"
    o("type", True, T, "type", T)
    o("type", False, t, "type", t)
    o("field", True, f"{P}ExpTypeFieldE", "field", f"{T}.UF0", owner=T)
    o("field", False, f"{p}expTypeFieldU", "field", f"{T}.UF1", owner=T)
    o("field", True, f"{P}UnexpTypeFieldE", "field", f"{t}.UF0", owner=t)
    o("field", False, f"{p}unexpTypeFieldU", "field", f"{t}.UF1", owner=t)
    o("alias", True, f"{P}ExpAlias", "type", f"{P}ExpAlias")
    o("alias", False, f"{p}unexpAlias", "type", f"{p}unexpAlias")
    o("func", True, f"{P}ExpFunc", "func", f"{P}ExpFunc")
    o("func", False, f"{p}unexpFunc", "func", f"{p}unexpFunc")
    o("var", True, f"{P}ExpVar", "variable", f"{P}ExpVar")
    o("var", False, f"{p}unexpVar", "variable", f"{p}unexpVar")
    o("const", True, f"{P}ExpConst", None, f"{P}ExpConst")
    o("const", False, f"{p}unexpConst", None, f"{p}unexpConst")
    E = f"{P}ExpEmbedded"
    o("type", True, E, "type", E)
    o("embedded", True, T, "field", f"{E}.UF0", owner=E, build_as=("type", T))
    o("embedded", True, t, "field", f"{E}.UF1", owner=E, build_as=("type", t))
    # methods of a concrete type, in source order (objectpath indexes concrete methods in source order)
    o("method", True, f"{P}ExpTypeXMethod", "method", f"{T}.M0", owner=T)
    o("method", False, f"{p}expTypeUMethod", "method", f"{T}.M1", owner=T)
    o("method", False, f"{p}unexpTypeUMethod", "method", f"{t}.M0", owner=t)
    I, IM = f"{P}ExpIface", f"{P}ExpImpl"
    o("type", True, I, "type", I)
    o("imethod", True, f"{P}ExpIfaceXMethod", "method", f"{I}.UM0", owner=I)
    o("imethod", False, f"{p}expIfaceUMethod", "method", f"{I}.UM1", owner=I)
    o("type", True, IM, "type", IM)
    o("field", True, f"{P}ExpImplField", "field", f"{IM}.UF0", owner=IM)
    # the implementation's methods carry the interface methods' names (and therefore their obfuscated names)
    o("method", True, f"{P}ExpIfaceXMethod", "method", f"{IM}.M0", owner=IM)
    o("method", False, f"{p}expIfaceUMethod", "method", f"{IM}.M1", owner=IM)
    L = f"{P}ExpLoneIface"
    o("type", True, L, "type", L)
    o("imethodlone", True, f"{P}ExpLoneXMethod", "method", f"{L}.UM0", owner=L)
    o("imethodlone", False, f"{p}expLoneUMethod", "method", f"{L}.UM1", owner=L)
    G, g = f"{P}ExpGen", f"{p}unexpGen"
    o("gentype", True, G, "type", G)
    o("gentype", False, g, "type", g)
    o("typeparam", True, f"{P}ExpGenParam", "type", f"{G}.T0", owner=G)
    o("typeparam", True, f"{P}UnexpGenParam", "type", f"{g}.T0", owner=g)
    o("genfield", True, f"{P}ExpGenFieldE", "field", f"{G}.UF0", owner=G)
    o("genfield", False, f"{p}expGenFieldU", "field", f"{G}.UF1", owner=G)
    o("genfield", True, f"{P}UnexpGenFieldE", "field", f"{g}.UF0", owner=g)
    o("genmethod", True, f"{P}ExpGenXMethod", "method", f"{G}.M0", owner=G)
    o("genmethod", False, f"{p}expGenUMethod", "method", f"{G}.M1", owner=G)
    o("typeparam", True, f"{P}ExpGenRecvParam", "type", None, owner=G)
    o("genfunc", True, f"{P}ExpGenFunc", "func", f"{P}ExpGenFunc")
    o("genfunc", False, f"{p}unexpGenFunc", "func", f"{p}unexpGenFunc")
    o("typeparam", True, f"{P}ExpGenFuncParam", "type", None, owner=f"{P}ExpGenFunc")
    A, a = f"{P}ExpAnon", f"{p}unexpAnon"
    o("var", True, A, "variable", A)
    o("var", False, a, "variable", a)
    o("anonfield", True, f"{P}ExpAnonFieldE", "field", f"{A}.F0", owner=A)
    o("anonfield", True, f"{p}expAnonFieldU", "field", f"{A}.F1", owner=A)
    o("anonfield", False, f"{P}UnexpAnonFieldE", "field", f"{a}.F0", owner=a)
    o("local", True, f"{p}localVar", "variable", None, owner=f"{P}ExpFunc")
    o("func", True, f"{P}Use", "func", f"{P}Use")
    o("func", True, f"{P}TagOnFunc", "func", f"{P}TagOnFunc", when="tag")
    o("type", True, f"{P}TagOnType", "type", f"{P}TagOnType", when="tag")
    o("field", True, f"{P}TagOnField", "field", f"{P}TagOnType.UF0", owner=f"{P}TagOnType", when="tag")
    o("func", True, f"{P}TagOffFunc", "func", f"{P}TagOffFunc", when="notag")
    o("type", True, f"{P}TagOffType", "type", f"{P}TagOffType", when="notag")
    o("field", True, f"{P}TagOffField", "field", f"{P}TagOffType.UF0", owner=f"{P}TagOffType", when="notag")

    imp = "".join(f'\t"{i}"\n' for i in imports)
    main_go = f"""package {pkgname}

import (
{imp})

type {T} struct {{
	{P}ExpTypeFieldE int
	{p}expTypeFieldU int
}}

type {t} struct {{
	{P}UnexpTypeFieldE int
	{p}unexpTypeFieldU int
}}

type {P}ExpAlias = {T}

type {p}unexpAlias = {t}

func {P}ExpFunc() int {{
	{p}localVar := {p}unexpFunc()
	return {p}localVar + {P}ExpConst
}}

func {p}unexpFunc() int {{ return {p}unexpVar + {p}unexpConst{extra_use} }}

var {P}ExpVar = 1

var {p}unexpVar = 2

const {P}ExpConst = 1

const {p}unexpConst = 2

type {E} struct {{
	{T}
	{t}
}}

func (v {T}) {P}ExpTypeXMethod() int {{ return v.{p}expTypeUMethod() }}

func (v {T}) {p}expTypeUMethod() int {{ return v.{p}expTypeFieldU }}

func (v {t}) {p}unexpTypeUMethod() int {{ return v.{p}unexpTypeFieldU }}

type {I} interface {{
	{P}ExpIfaceXMethod() int
	{p}expIfaceUMethod() int
}}

type {IM} struct{{ {P}ExpImplField int }}

func (v {IM}) {P}ExpIfaceXMethod() int {{ return v.{P}ExpImplField }}

func (v {IM}) {p}expIfaceUMethod() int {{ return v.{P}ExpImplField + 1 }}

type {L} interface {{
	{P}ExpLoneXMethod() int
	{p}expLoneUMethod() int
}}

type {G}[{P}ExpGenParam any] struct {{
	{P}ExpGenFieldE {P}ExpGenParam
	{p}expGenFieldU int
}}

type {g}[{P}UnexpGenParam any] struct {{
	{P}UnexpGenFieldE {P}UnexpGenParam
}}

func (v {G}[{P}ExpGenRecvParam]) {P}ExpGenXMethod() int {{ return v.{p}expGenUMethod() }}

func (v {G}[{P}ExpGenRecvParam]) {p}expGenUMethod() int {{ return v.{p}expGenFieldU }}

func {P}ExpGenFunc[{P}ExpGenFuncParam any](x {P}ExpGenFuncParam) {P}ExpGenFuncParam {{ return {p}unexpGenFunc(x) }}

func {p}unexpGenFunc[{P}UnexpGenFuncParam any](x {P}UnexpGenFuncParam) {P}UnexpGenFuncParam {{ return x }}

var {A} struct {{
	{P}ExpAnonFieldE int
	{p}expAnonFieldU int
}}

var {a} struct{{ {P}UnexpAnonFieldE int }}

func {P}Use(lone {L}) int {{
	e := {E}{{{T}{{1, 2}}, {t}{{3, 4}}}}
	var i {I} = {IM}{{5}}
	gv := {G}[int]{{{P}ExpGenFieldE: 7, {p}expGenFieldU: 8}}
	ug := {g}[int]{{{P}UnexpGenFieldE: 9}}
	{A}.{p}expAnonFieldU = 10
	{A}.{P}ExpAnonFieldE = 11
	{a}.{P}UnexpAnonFieldE = 12
	var al {P}ExpAlias = e.{T}
	var ual {p}unexpAlias = e.{t}
	n := 0
	if lone != nil {{
		n = lone.{P}ExpLoneXMethod() + lone.{p}expLoneUMethod()
	}}
	return n + e.{T}.{P}ExpTypeXMethod() + e.{t}.{p}unexpTypeUMethod() + e.{P}UnexpTypeFieldE + e.{P}ExpTypeFieldE +
		i.{P}ExpIfaceXMethod() + i.{p}expIfaceUMethod() + gv.{P}ExpGenXMethod() + gv.{P}ExpGenFieldE + ug.{P}UnexpGenFieldE +
		{P}ExpGenFunc({A}.{p}expAnonFieldU) + {A}.{P}ExpAnonFieldE + {a}.{P}UnexpAnonFieldE + al.{P}ExpTypeFieldE +
		ual.{p}unexpTypeFieldU + {P}ExpVar + {P}ExpFunc() + {p}tagPick()
}}
"""
    tag_on = f"""//go:build {TAG13}

package {pkgname}

type {P}TagOnType struct{{ {P}TagOnField int }}

func {P}TagOnFunc() int {{ return {P}TagOnType{{1}}.{P}TagOnField }}

func {p}tagPick() int {{ return {P}TagOnFunc() }}
"""
    tag_off = f"""//go:build !{TAG13}

package {pkgname}

type {P}TagOffType struct{{ {P}TagOffField int }}

func {P}TagOffFunc() int {{ return {P}TagOffType{{2}}.{P}TagOffField }}

func {p}tagPick() int {{ return {P}TagOffFunc() }}
"""
    return {"objs.go": main_go, "tag_on.go": tag_on, "tag_off.go": tag_off}, objs


def saltmap_program():
    """-> (files, {label: [Obj]})"""
    files, objects = {}, {}
    lf, objects["lib"] = gen_pkg13("L", "lib", ["strings"], extra_use=' + len(strings.Repeat("x", 2))')
    xf, objects["excl"] = gen_pkg13("X", "excl", [])
    mf, objects["main"] = gen_pkg13("M", "main", [MOD13 + "/excl", MOD13 + "/lib"])
    for n, c in lf.items():
        files["lib/" + n] = c
    for n, c in xf.items():
        files["excl/" + n] = c
    for n, c in mf.items():
        files[n] = c
    files["main.go"] = """package main

import (
	"example.com/saltmap/excl"
	"example.com/saltmap/lib"
)

func main() {
	println(MUse(nil), lib.LUse(nil), excl.XUse(nil), lib.LExpVar, excl.XExpVar)
}
"""
    # the generated main package file only needs its imports in main.go
    files["objs.go"] = files["objs.go"].replace('import (\n\t"example.com/saltmap/excl"\n\t"example.com/saltmap/lib"\n)\n', "")
    return files, objects


def write_saltmap(dirp):
    files, objects = saltmap_program()
    write_module(dirp, files, module=MOD13)
    return Path(dirp), objects
