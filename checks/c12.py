#!/usr/bin/env python3
"""C12 - Name salting: fixed by -seed, otherwise tied to the build inputs.

Spec: spec/Salts.tla (Mode = "c12").  Every name is a term H(salt, seed, ident) with the salt chosen as
hashWithPackage / hashWithStruct / runtimeHashWithCustomSalt choose it and GarbleActionID as
addGarbleToHash computes it.  TLC evaluates each name class's term under every pair of abstract
environments that differ in exactly one input (all base environments = the state space), checks that
the derived dependency matrix Dep agrees with Required (the property's text) and does not depend on
the base, and serialises both matrices.

Binding (B2): for every matrix cell of the tier two REAL builds of a five-package program that differ
in exactly that input.  The complete name map of each build comes from the H6 `name` events (grouped by
the compiling process), the compile `-p` flag (import path), the asm tool's argv (assembly file names),
the position file names the program prints about its own call sites (runtime.Caller; for the
cross-compiled build: whether `garble reverse` under that configuration restores the amd64 build's
position names), and the pclntab magic of the linked ELF file.  Observed
changed/unchanged per name class is compared with the cell.  Also bound: the recorded `hash-input`
bytes against the model's GarbleInputs, and (seeded builds) every name against the term recomputed from
(seed, identifier, import path | struct shape) alone.

Oracle: the property's statement (Required).  A violated cell is a VIOLATION with witness
{nameClass, input, seeded}; a real build that only differs from Dep where the text is silent is a
MODEL-MISMATCH.
"""
import base64
import hashlib
import sys

sys.path.insert(0, str(__import__("pathlib").Path(__file__).resolve().parent))
from salts_common import *  # noqa

CLASSES = ["scoped", "importpath", "field", "position", "asm", "magic", "entryoff"]
DEPS = {"lib": {"dep"}, "libtwin": {"dep"}, "main": {"lib", "libtwin", "other", "dep"}, "dep": set(), "other": set()}
GO_KEYWORDS = {"break", "case", "chan", "const", "continue", "default", "defer", "else", "fallthrough", "for", "func", "go", "goto", "if",
               "import", "interface", "map", "package", "range", "return", "select", "struct", "switch", "type", "var"}


# --------------------------------------------------------------------------- terms recomputed outside garble

def is_ident(name):
    return bool(re.fullmatch(r"[A-Za-z_][A-Za-z0-9_]*", name)) and name not in GO_KEYWORDS


def go_hash_name(salt: bytes, seed: bytes, name: str) -> str:
    """hashWithCustomSalt for ASCII names."""
    d = hashlib.sha256(salt + seed + name.encode()).digest()
    n = 6 + d[9] % 7
    b = bytearray(base64.urlsafe_b64encode(d[:9])[:n])
    if 0x30 <= b[0] <= 0x39:
        b[0] += ord("A") - ord("0")
    b = bytearray(ord("a") if c == ord("-") else c for c in b)
    if is_ident(name):
        if name[0].isupper():
            if b[0] == ord("_"):
                b[0] = ord("Z")
            elif chr(b[0]).islower():
                b[0] = ord(chr(b[0]).upper())
        elif chr(b[0]).isupper():
            b[0] = ord(chr(b[0]).lower())
    return b.decode()


def fnv(s):
    h = 0
    for c in s.encode():
        h ^= c
        h = (h * 16777619) & 0xFFFFFFFF
    return h


def struct_salt(fields):
    """typeutil_hash of a struct (bundled_typeutil.go) as base-32 text, as hashWithStruct formats it."""
    h = 9059
    for i, f in enumerate(fields):
        h = (h + (1 + i) * fnv(f)) & 0xFFFFFFFF
    digits = "0123456789abcdefghijklmnopqrstuv"
    out = ""
    while True:
        out = digits[h % 32] + out
        h //= 32
        if h == 0:
            return out.encode()


STRUCTS = {"lib": [["Width", "height"], ["boxed"]], "libtwin": [["Width", "height"], ["boxed"]],
           "dep": [["DepField", "depInner"]], "other": [["OtherField"]], "main": [["mainFieldA", "MainFieldB"]]}


# --------------------------------------------------------------------------- running builds

class Built:
    def __init__(self, name, mode, cfg):
        self.name, self.mode, self.cfg = name, mode, cfg
        self.defs = Observation()     # effective name map (fresh where compiled, carried otherwise)
        self.fresh = set()            # labels compiled in this build
        self.refs = 0
        self.ref_conflicts = []
        self.tails = []
        self.binary = None
        self.dbgpos = None
        self.out = None
        self.wall = 0.0


def observe_build(events, prev: Built | None, b: Built):
    pidpkg = {}
    for ev in events:
        if ev.get("ev") == "compile-start":
            pidpkg[ev["pid"]] = ev["pkg"]
    own = [ev for ev in events if ev.get("ev") != "name" or pidpkg.get(ev["pid"]) == ev["pkg"]]
    fresh = Observation()
    observe_trace(own, fresh)
    d = b.defs
    for attr in ("scoped", "fields", "importpath", "asm"):
        cur = getattr(fresh, attr)
        old = getattr(prev.defs, attr) if prev else {}
        merged = {}
        for label in PKGS:
            if label in fresh.compiled and label in cur:
                merged[label] = cur[label]
            elif label in old:
                merged[label] = old[label]
            elif label in cur:
                merged[label] = cur[label]
        setattr(d, attr, merged)
    d.compiled = fresh.compiled
    b.fresh = set(fresh.compiled)
    by_path = {ip: label for label, ip in PKGS.items()}
    for ev in events:
        if ev.get("ev") == "name" and pidpkg.get(ev["pid"]) != ev["pkg"] and ev["pkg"] in by_path:
            label = by_path[ev["pkg"]]
            b.refs += 1
            if ev["kind"] == "field":
                have = d.fields.get(label, {}).get(ev["orig"])
            else:
                have = d.scoped.get(label, {}).get((ev["kind"], ev["orig"]))
            if have is not None and have != ev["obf"]:
                b.ref_conflicts.append({"pkg": label, "orig": ev["orig"], "defined": have, "referenced": ev["obf"]})
        if ev.get("ev") == "hash-input":
            b.tails.append((ev.get("tail", ""), bool(ev.get("has_binary_id"))))


class Chain:
    """A sequence of builds and edits over one sandbox and one copy of the program."""
    count = 0

    def __init__(self, work: Path, name: str, steps: list, linker: Path | None = None, template=True, after_first=None):
        self.work, self.name, self.steps, self.linker, self.template = work, name, steps, linker, template
        self.after_first = after_first
        self.keep = False
        self.results = {}
        Chain.count += 1
        self.index = Chain.count

    def run(self):
        root = self.work / f"chain{self.index}"
        src = write_salts(root / "src")
        sb = Sandbox(root / "sb", template=self.template)
        self.src = src
        if self.linker is not None and self.linker.exists() and not (sb.gcache / "tool").exists():
            copytree(self.linker, sb.gcache / "tool")
        self.sb = sb
        prev = None
        nedit = nbuild = 0
        for st in self.steps:
            if st["do"] == "edit":
                nedit += 1
                edit_pkg(src, st["pkg"], nedit)
                continue
            b = Built(st["name"], st["mode"], st)
            nbuild += 1
            gflags = list(st.get("gflags", []))
            dbg = None
            # file names must not end in something that looks like a garble flag (finding F14 of C20)
            if st.get("debugdir"):
                dbg = root / f"dbg{nbuild}"
                gflags = ["-debugdir", str(dbg)] + gflags
            env = {"GARBLE_VERIF_NAMES": "1"}
            env.update(st.get("env", {}))
            out = root / f"prog{nbuild}.bin"
            trace = root / f"trace{nbuild}.ndjson"
            r = sb.garble(gflags + ["build"] + list(st.get("goflags", [])) + ["-o", str(out), "."], cwd=src, env=env, trace=trace,
                          timeout=2400, garble_bin=st.get("garble_bin"))
            b.wall = r.wall
            if r.returncode != 0:
                raise Inconclusive(f"build {st['name']} (garble {gflags} env {st.get('env')}) failed:\n{r.stderr[-3000:]}")
            observe_build(read_trace(trace), prev, b)
            b.binary = out
            b.defs.magic = elf_pclntab_magic(out)
            if st.get("runnable", True):
                b.out = observe_run(out, b.defs)
            if dbg is not None:
                b.dbgpos = debugdir_positions(dbg)
                rmtree(dbg)
            trace.unlink()
            self.results[st["name"]] = b
            if prev is None and self.after_first is not None:
                self.after_first(self)
            prev = b
            log(f"  built {st['name']} in {r.wall:.0f}s (compiled {sorted(b.fresh)})")
        if not self.keep:
            rmtree(sb.gocache)
        return self


# --------------------------------------------------------------------------- comparison

def class_map(b: Built, label: str, cls: str, use_dbg=False):
    d = b.defs
    if cls == "scoped":
        return {f"{k[0]}:{k[1]}": v for k, v in d.scoped.get(label, {}).items()}
    if cls == "importpath":
        return {} if label == "main" else ({"path": d.importpath[label]} if label in d.importpath else {})
    if cls == "field":
        return dict(d.fields.get(label, {}))
    if cls == "asm":
        return dict(d.asm.get(label, {}))
    if cls == "position":
        if use_dbg:
            if b.dbgpos is None:
                return {}
            return {f"{f}#{i}": n for f, names in b.dbgpos.get(label, {}).items() for i, n in enumerate(names)}
        return {k: (v[:-3] if v.endswith(".go") else v) for k, v in d.positions.get(label, {}).items()}
    return {}


def compare_maps(ma, mb):
    common = sorted(set(ma) & set(mb))
    if not common:
        return None, 0, []
    if any(ma[k] == "" or mb[k] == "" for k in common):
        return "absent", len(common), []
    same = [k for k in common if ma[k] == mb[k]]
    diff = [k for k in common if ma[k] != mb[k]]
    if not diff:
        return "same", len(common), []
    if not same:
        return "changes", len(common), []
    return "mixed", len(common), [{"key": k, "a": ma[k], "b": mb[k]} for k in (same[:3] + diff[:3])]


def merge_obs(values):
    vals = [v for v in values if v is not None]
    if not vals:
        return None
    if all(v == vals[0] for v in vals):
        return vals[0]
    if set(vals) <= {"same", "absent"}:
        return "same"
    if set(vals) <= {"changes", "absent"}:
        return "changes"
    return "mixed"


def entryoff_key(seed: bytes) -> bytes:
    return hashlib.sha256(seed + b"entryOffKey").digest()[:4]


def main(tier, seed, replay=None):
    replay_cell = None
    if replay:
        # re-run only the cell of a recorded violation: --replay <replay dir>
        w = json.loads((Path(replay) / "witness.json").read_text())["witness"]
        replay_cell = ("seeded" if w["seeded"] else "unseeded", w["input"])
        if w["input"] in ("garblever", "platform", "gover", "cachestate"):
            tier = "thorough"
    chk = Check("C12", tier, seed)
    chk.rule = ("one evaluation per (mode, input, name class) cell observed on a pair of real builds differing in exactly that input; "
                "distinct = distinct cells; every cell aggregates all names of the class in all observed packages")
    chk.assumptions = [
        "sha256 is collision free on the names compared (two different terms never give the same 6-12 symbol name)",
        "names of a package that cmd/go did not recompile in the second build are those of the cached object of the first build "
        "(they are cross-checked against the references the recompiled dependants make to them)",
        "the entry-offset key is observed only in seeded builds (the 4 key bytes predicted from the seed occur / do not occur in the binary); "
        "unseeded it shares runtimeHashWithCustomSalt with the magic number, which is read from the ELF .gopclntab header of every build",
        "-ctrlflow and the -X names hashed under -literals are outside Salts.tla (the fixture never sets them)",
    ]
    work = mkscratch("c12")
    rng = chk.rng

    # ---- 1. model
    tw = mkscratch("c12-tlc")
    r = tlc_must_pass("Salts", f"Salts-c12-{tier}.cfg", workdir=tw, timeout=1500)
    chk.add_tlc(r)
    matrix = json.loads((tw / "salts_matrix.json").read_text())
    dep, req = matrix["dep"], matrix["required"]
    if tier == "thorough":
        leads = {}
        for cfgname in ("Salts-c12-mutant-seeded.cfg", "Salts-c12-mutant-struct.cfg"):
            mr = tlc("Salts", cfgname, timeout=900)
            leads[cfgname] = mr.violated
            if not mr.violated:
                raise Inconclusive(f"TLC does not reject the deviation {cfgname}: the invariants are vacuous")
        chk.extra["tlc_rejects_deviations"] = leads

    # ---- 2. plan
    garble = build_garble("verif")
    # seeds longer than 8 bytes that differ in their last byte only: a name must depend on the whole seed,
    # in the top-level process (garble map / reverse) and in every toolexec child alike
    seed_a = rng.randbytes(12)
    seed_b = seed_a[:11] + bytes([seed_a[11] ^ 0x55])
    b64 = lambda s: base64.b64encode(s).decode().rstrip("=")
    SEEDED = ["-seed=" + b64(seed_a)]
    flagsets = {
        "literals": (["-literals"], {}),
        "tiny": (["-tiny"], {}),
        "gogarble": ([], {"GOGARBLE": MOD}),
    }
    if replay_cell and replay_cell[1] in flagsets:
        picks = {"U": [replay_cell[1]], "S": [replay_cell[1]]}
    elif tier == "quick":
        picks = {"U": [rng.choice(sorted(flagsets))], "S": [rng.choice(sorted(flagsets))]}
    else:
        picks = {"U": sorted(flagsets), "S": sorted(flagsets)}

    def base_steps(m, gflags):
        mode = "seeded" if m == "S" else "unseeded"
        mk = lambda n, **kw: dict({"do": "build", "name": f"{m}{n}", "mode": mode, "gflags": gflags}, **kw)
        return [mk(0), {"do": "edit", "pkg": "lib"}, mk(1), {"do": "edit", "pkg": "other"}, mk(2),
                {"do": "edit", "pkg": "dep"}, mk(3), mk(4, goflags=["-tags=salttag"])]

    chains = {"U": base_steps("U", []), "S": base_steps("S", SEEDED)}
    pairs = []  # (mode, input, build A, build B, label views or None)
    for m, base in (("U", []), ("S", SEEDED)):
        mode = "seeded" if m == "S" else "unseeded"
        pairs += [(mode, "edit:lib", f"{m}0", f"{m}1"), (mode, "edit:other", f"{m}1", f"{m}2"), (mode, "edit:dep", f"{m}2", f"{m}3"),
                  (mode, "tag", f"{m}3", f"{m}4"), (mode, "pkgpath", f"{m}0", f"{m}0")]
        for f in picks[m]:
            gf, env = flagsets[f]
            chains[f"{m}-{f}"] = [{"do": "build", "name": f"{m}-{f}", "mode": mode, "gflags": base + gf, "env": env}]
            pairs.append((mode, f, f"{m}0", f"{m}-{f}"))
    chains["S-seed"] = [{"do": "build", "name": "S-seed", "mode": "seeded", "gflags": ["-seed=" + b64(seed_b)]}]
    pairs.append(("seeded", "seed", "S0", "S-seed"))
    seeds_of = {"S-seed": seed_b}

    if tier == "thorough":
        # garble version: the same sources plus one comment line => another binary content ID
        alt = work / "garble-alt"
        copytree(REPO, alt)
        rmtree(alt / ".git")
        with open(alt / "main.go", "a") as f:
            f.write("\n// verif: no-op change that only alters the content ID of the garble binary\n")
        env = base_env()
        env["GOCACHE"] = str(CACHE / "gobuild")
        alt_bin = work / "garble-alt-bin"
        rr = run(["go", "build", "-tags", "verif", "-o", str(alt_bin), "."], cwd=alt, env=env, timeout=900)
        if rr.returncode != 0:
            raise Inconclusive(f"the no-op variant of garble does not build: {rr.stderr[-2000:]}")
        if sha256_file(alt_bin) == sha256_file(garble):
            raise Inconclusive("the no-op variant of garble is byte-identical to the original")
        gopath = f"{FALLBACK_TOOLCHAIN}/bin:" + os.environ.get("PATH", "")
        chains["garblever"] = [{"do": "build", "name": "U-garblever", "mode": "unseeded", "gflags": [], "garble_bin": alt_bin},
                               {"do": "build", "name": "S-garblever", "mode": "seeded", "gflags": SEEDED, "garble_bin": alt_bin}]
        # cross-compiling switches cgo off, as the go command itself does by default
        XENV = {"GOARCH": "arm64", "CGO_ENABLED": "0"}
        chains["platform"] = [{"do": "build", "name": "U-platform", "mode": "unseeded", "gflags": [], "env": XENV, "runnable": False},
                              {"do": "build", "name": "S-platform", "mode": "seeded", "gflags": SEEDED, "env": XENV, "runnable": False}]
        goenv = {"PATH": gopath, "GARBLE_TEST_GOVERSION": "go1.26.8"}
        chains["gover"] = [{"do": "build", "name": "U-gover", "mode": "unseeded", "gflags": [], "env": goenv},
                           {"do": "build", "name": "S-gover", "mode": "seeded", "gflags": SEEDED, "env": goenv}]
        chains["cold"] = [{"do": "build", "name": "U-cachestate", "mode": "unseeded", "gflags": []},
                          {"do": "build", "name": "S-cachestate", "mode": "seeded", "gflags": SEEDED}]
        for inp in ("garblever", "platform", "gover", "cachestate"):
            pairs += [("unseeded", inp, "U0", f"U-{inp}"), ("seeded", inp, "S0", f"S-{inp}")]
        if not FALLBACK_TOOLCHAIN.exists():
            raise Inconclusive(f"the second Go toolchain {FALLBACK_TOOLCHAIN} is missing")

    if replay_cell:
        def views_of(inp):
            return {"editSame", "editOther", "editDep"} if inp.startswith("edit:") else {inp}
        pairs = [p for p in pairs if p[0] == replay_cell[0] and replay_cell[1] in views_of(p[1])]
        needed = {n for p in pairs for n in p[2:4]}
        chains = {cn: st for cn, st in chains.items() if any(s.get("name") in needed for s in st)}
        if not pairs:
            raise Inconclusive(f"nothing to replay for {replay_cell}")
    leader = "U" if "U" in chains else sorted(chains)[0]

    # ---- 3. real builds: the unseeded base chain first (it also builds the patched linker), the rest in parallel
    linker = work / "linker-tool"
    ready = threading.Event()
    failed = []

    def snapshot_linker(chain):
        copytree(chain.sb.gcache / "tool", linker)
        ready.set()

    def run_chain(c):
        try:
            if c.name != leader:
                ready.wait()
                if failed:
                    return c
            return c.run()
        except BaseException as e:
            failed.append(e)
            ready.set()
            return c

    all_chains = [Chain(work, leader, chains[leader], after_first=snapshot_linker)]
    all_chains += [Chain(work, n, st, linker=linker) for n, st in chains.items() if n != leader]
    for c in all_chains:
        c.keep = c.name == "platform"
    parallel(run_chain, all_chains, workers=5 if tier == "quick" else 4)
    if failed:
        raise failed[0]
    built = {}
    for c in all_chains:
        built.update(c.results)

    # The cross-compiled program cannot run here: its position names are observed through `garble reverse`
    # under the same configuration, fed the position names of the amd64 build (reversed = the same name
    # denotes the same call site under GOARCH=arm64; printed back unchanged = it does not).
    for c in all_chains:
        if c.name != "platform":
            continue
        for m, gf in (("U", []), ("S", SEEDED)):
            A, B = built.get(f"{m}0"), built.get(f"{m}-platform")
            if A is None or B is None:
                continue
            keys = [(label, site, fname) for label, sites in sorted(A.defs.positions.items()) for site, fname in sorted(sites.items()) if fname]
            if not keys:
                continue
            rr = c.sb.garble(gf + ["reverse", "."], cwd=c.src, env=XENV, stdin="".join(k[2] + ":1\n" for k in keys), timeout=1800)
            if rr.returncode not in (0, 1):
                raise Inconclusive(f"garble reverse under GOARCH=arm64 failed: {rr.stderr[-2000:]}")
            outl = rr.stdout.split("\n")
            for (label, site, fname), o in zip(keys, outl):
                hit = o != fname + ":1" and o.startswith(PKGS[label] + "/")
                B.defs.positions.setdefault(label, {})[site] = fname if hit else "not-reversed-under-arm64.go"
        rmtree(c.sb.gocache)
    chk.extra["builds"] = {n: {"wall_s": round(b.wall, 1), "recompiled": sorted(b.fresh)} for n, b in built.items()}
    chk.extra["references_cross_checked"] = sum(b.refs for b in built.values())
    conflicts = [dict(c, build=n) for n, b in built.items() for c in b.ref_conflicts]
    if conflicts:
        chk.extra["reference_conflicts"] = conflicts[:10]

    # ---- 4. B1: recorded hash inputs vs GarbleInputs of the model
    drift = []
    if matrix["garbleInputs"] != ["binary", "gogarble", "literals", "tiny", "seed"]:
        drift.append("the model's GarbleInputs changed; update expected_tail")
    for n, b in built.items():
        st = b.cfg
        gf = st.get("gflags", [])
        exp = " GOGARBLE=" + st.get("env", {}).get("GOGARBLE", "*")
        exp += "".join(f" {f}" for f in ("-literals", "-tiny") if f in gf)
        exp += "".join(" " + f for f in gf if f.startswith("-seed="))
        for tail, hasbin in set(b.tails):
            if tail != exp or not hasbin:
                drift.append(f"{n}: recorded {tail!r} binary_id={hasbin}, model expects {exp!r}")
        if b.tails:
            chk.traces_validated += 1
    if drift:
        print(f"MODEL-MISMATCH: property=C12 the bytes garble adds to its hashes differ from GarbleInputs of Salts.tla: {drift[:3]}", flush=True)
        chk.extra["hash_input_drift"] = drift[:20]

    # ---- 5. B3-like: seeded names recomputed from (seed, identifier, import path | struct shape) alone
    term_checked = term_drift = 0
    drift_samples = []
    for n, b in built.items():
        if b.mode != "seeded":
            continue
        sd = seeds_of.get(n, seed_a)
        for label, ip in PKGS.items():
            for cls in ("scoped", "importpath", "asm", "position"):
                for key, obf in class_map(b, label, cls).items():
                    if cls == "scoped":
                        ident = key.split(":", 1)[1]
                    elif cls == "importpath":
                        ident = ip
                    elif cls == "asm":
                        ident, obf = key, obf[:-2] if obf.endswith(".s") else obf
                    else:
                        continue  # the call-site offset is not known to the harness
                    term_checked += 1
                    if go_hash_name((ip + "|").encode(), sd, ident) != obf:
                        term_drift += 1
                        drift_samples.append([n, label, cls, key, obf])
            fmap = b.defs.fields.get(label, {})
            for fields in STRUCTS[label]:
                for f in fields:
                    if f in fmap:
                        term_checked += 1
                        if go_hash_name(struct_salt(fields), sd, f) != fmap[f]:
                            term_drift += 1
                            drift_samples.append([n, label, "field", f, fmap[f]])
        magic = int.from_bytes(hashlib.sha256(sd + b"magic").digest()[:4], "little")
        term_checked += 1
        if b.defs.magic != magic:
            term_drift += 1
            drift_samples.append([n, "runtime", "magic", magic, b.defs.magic])
    chk.extra["seeded_terms_recomputed"] = term_checked
    if term_drift:
        print(f"MODEL-MISMATCH: property=C12 {term_drift} of {term_checked} seeded names are not H(ImportPath| or StructId, seed, ident) "
              f"as Salts.tla has them, e.g. {drift_samples[:3]}", flush=True)
        chk.extra["seeded_term_drift"] = drift_samples[:20]

    # ---- 6. the cells
    cells = {}   # (mode, input, cls) -> list of observations

    def add(mode, inp, cls, obs, n, detail, pair):
        if obs is None:
            return
        cells.setdefault((mode, inp, cls), []).append({"obs": obs, "names": n, "detail": detail, "pair": pair})

    for mode, inp, an, bn in pairs:
        if an not in built or bn not in built:
            raise Inconclusive(f"build {an} or {bn} missing")
        A, B = built[an], built[bn]
        pair = [an, bn]
        use_dbg = False   # -debugdir output is not used: its garbled files overwrite each other's beginnings
        if inp.startswith("edit:"):
            x = inp.split(":")[1]
            views = {}
            for label in PKGS:
                views[label] = "editSame" if label == x else ("editDep" if x in DEPS[label] else "editOther")
            for label, vin in views.items():
                for cls in ("scoped", "importpath", "field", "position", "asm"):
                    o, n, det = compare_maps(class_map(A, label, cls), class_map(B, label, cls))
                    add(mode, vin, cls, o, n, dict(label=label, mixed=det), pair)
            prog_inputs = {"editSame", "editOther", "editDep"}
        elif inp == "pkgpath":
            for cls in ("scoped", "importpath", "field", "position", "asm"):
                o, n, det = compare_maps(class_map(A, "lib", cls), class_map(A, "libtwin", cls))
                add(mode, inp, cls, o, n, dict(label="lib|libtwin", mixed=det), pair)
            prog_inputs = set()
        else:
            labels = ["lib", "libtwin", "main"] if inp == "tag" else list(PKGS)
            for label in labels:
                for cls in ("scoped", "importpath", "field", "position", "asm"):
                    o, n, det = compare_maps(class_map(A, label, cls, use_dbg and cls == "position"), class_map(B, label, cls, use_dbg and cls == "position"))
                    add(mode, inp, cls, o, n, dict(label=label, mixed=det), pair)
            prog_inputs = {inp}
        for pin in prog_inputs:
            if A.defs.magic is not None and B.defs.magic is not None:
                add(mode, pin, "magic", "same" if A.defs.magic == B.defs.magic else "changes", 1, dict(a=A.defs.magic, b=B.defs.magic), pair)
            if mode == "seeded":
                ka, kb = entryoff_key(seeds_of.get(an, seed_a)), entryoff_key(seeds_of.get(bn, seed_a))
                da, db = A.binary.read_bytes(), B.binary.read_bytes()
                if ka in da and kb in db:
                    o = "same" if ka == kb else ("changes" if (ka not in db and kb not in da) else None)
                    add(mode, pin, "entryoff", o, 1, dict(a=ka.hex(), b=kb.hex()), pair)
                elif inp != "platform":
                    chk.extra.setdefault("entryoff_key_not_found", []).append(pair)

    mismatches = []
    table = {}
    for (mode, inp, cls), lst in sorted(cells.items()):
        obs = merge_obs([x["obs"] for x in lst])
        want, model = req[mode][cls][inp], dep[mode][cls][inp]
        nn = sum(x["names"] for x in lst)
        table[f"{mode}/{inp}/{cls}"] = {"observed": obs, "dep": model, "required": want, "names": nn}
        chk.case([mode, inp, cls], sample={"cell": [mode, inp, cls], "observed": obs, "dep": model, "required": want, "names_compared": nn}
                 if cls in ("scoped", "field") and inp in ("editSame", "tiny", "literals", "seed") else None)
        bad = (want == "must change" and obs not in ("changes", "absent")) or (want == "must not change" and obs not in ("same", "absent"))
        if bad:
            witness = {"nameClass": cls, "input": inp, "seeded": mode == "seeded", "observed": obs, "required": want}
            files = {"cell.json": json.dumps({"cell": [mode, inp, cls], "observations": lst, "required": want, "dep": model}, indent=1, default=str)}
            for x in lst:
                for bn in x["pair"]:
                    files[f"names-{bn}.json"] = json.dumps(built[bn].defs.to_json(), indent=1, default=str)
                    files[f"build-{bn}.json"] = json.dumps({k: str(v) for k, v in built[bn].cfg.items()}, indent=1)
            chk.violation(witness, files, what=f"{mode} builds differing only in {inp}: {cls} names {obs}, the property says {want}")
        elif obs != model and "absent" not in (obs, model):
            mismatches.append(f"{mode}/{inp}/{cls}: observed {obs}, Dep {model}")
    chk.extra["cells"] = table
    chk.extra["cells_observed"] = len(table)
    specified = [(m, c, i) for m in req for c in req[m] for i in req[m][c] if req[m][c][i] in ("must change", "must not change")]
    seen_spec = [k for k in specified if (k[0], k[2], k[1]) in cells]
    chk.extra["specified_cells"] = len(specified)
    chk.extra["specified_cells_observed"] = len(seen_spec)
    # the key bytes cannot be located in an arm64 instruction stream (split over MOVZ/MOVK immediates)
    unobservable = {("seeded", "entryoff", "platform")}
    chk.extra["specified_cells_unobserved"] = sorted(f"{m}/{i}/{c}" for (m, c, i) in set(specified) - set(seen_spec) - unobservable)
    chk.extra["specified_cells_unobservable"] = sorted(f"{m}/{i}/{c}" for (m, c, i) in unobservable)
    if mismatches:
        print(f"MODEL-MISMATCH: property=C12 {len(mismatches)} cells where the real builds differ from Dep of Salts.tla "
              f"while the property's text holds: {mismatches[:6]}", flush=True)
        chk.extra["model_mismatch_cells"] = mismatches
    if not table:
        raise Inconclusive("no cell was observed")
    chk.exhaustive = tier == "thorough" and not replay_cell and not chk.extra["specified_cells_unobserved"]
    return finish_replay(chk) if replay_cell else chk.finish()


if __name__ == "__main__":
    main_wrapper(main)
