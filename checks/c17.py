#!/usr/bin/env python3
"""C17 - Concurrent garble processes never interfere.

Spec: spec/Linker.tla (PatchLinker protocol + the caller's unlock-after-run), exhaustive for
3 link processes in rename and copy mode from every built/unbuilt/foreign-version cache state:
NeverHalfWritten, Mutex, LockHolder, StampImpliesBin, AllDone (liveness under weak fairness).
Binding: B1 - every real concurrent scenario is traced and its lock-protected events are
validated against LinkerTrace.tla (with all invariants evaluated at every step); a corrupted
copy of one recorded trace must be rejected (binding self-test).  B2 - TLC's critical windows
(holder between build-done and stamp-written; holder just before unlock) are widened with
hold gates while the other processes queue on the lock.
Oracle: every concurrent build exits 0 and its binary is byte-identical to the binary the same
command produces alone (isolated reference build).
"""
import os
import sys
import time

sys.path.insert(0, str(__import__("pathlib").Path(__file__).resolve().parent))
from proto_common import *  # noqa


def scenario_list(tier, rng):
    # (name, initial linker state, [ (variant, gflags, env, -p) per process ], gate)
    S = []
    S.append(("identical-cold", ("none", "none"), [(0, [], {}, 4)] * 3, None))
    S.append(("flags-differ-linkerless", ("none", "none"), [(0, [], {}, 2), (0, ["-tiny"], {}, 16), (0, ["-literals"], {}, 1)], None))
    S.append(("projects-differ-oldlinker-held", ("old", "old"), [(0, [], {}, 4), (1, [], {}, 4), (2, ["-tiny"], {}, 2)], "hold@link-build-done#1"))
    if tier == "thorough":
        S.append(("identical-warm", ("cur", "cur"), [(0, [], {}, 16)] * 4, None))
        S.append(("seeded-cold-held-before-unlock", ("none", "none"), [(0, ["-seed=bXlzZWVkbXlzZWVk"], {}, 4), (0, ["-seed=bXlzZWVkbXlzZWVk"], {}, 1), (1, [], {}, 2)], "hold@link-stamp-written#1"))
        S.append(("stale-stamp", ("cur", "none"), [(0, [], {}, 4), (1, ["-literals"], {}, 4)], "hold@link-build-start#1"))
        S.append(("partial-bin", ("old", "partial"), [(0, ["-tiny"], {}, 2), (0, [], {}, 2), (0, ["-tiny"], {}, 16)], None))
        for i in range(3):
            procs = [(rng.choice([0, 1, 2]), rng.choice([[], ["-tiny"], ["-literals"], ["-seed=bXlzZWVkbXlzZWVk"]]), {}, rng.choice([1, 2, 4, 16])) for _ in range(rng.choice([2, 3, 4]))]
            S.append((f"random-{i}", rng.choice([("none", "none"), ("cur", "cur"), ("old", "old"), ("none", "old")]), procs, rng.choice([None, "hold@link-build-done#1", "hold@link-lock-acquired#2"])))
    return S


def main(tier, seed):
    chk = Check("C17", tier, seed)
    chk.rule = ("scenario = initial linker-cache state x 2-4 concurrent garble builds (project variant, flags, -p) x hold gate; "
                "one evaluation per concurrent process; distinct = (scenario, process configuration)")
    chk.assumptions = ["entries younger than the trim limit are never trimmed by the concurrent cache trim (go-internal/cache)",
                       "'old' linker is concretised as a stand-in executable that records being used and fails",
                       "cross-device copy mode of `go build -o` is covered by the model (CopyMode=TRUE) only"]
    for cfg in ("Linker-c17-copy.cfg", "Linker-c17-rename.cfg"):
        chk.add_tlc(tlc_must_pass("Linker", cfg, timeout=900))
    # the whole process tree: two concurrent commands over shared TMPDIR / caches (Pipeline.tla); a shared
    # directory with a fixed name (what-if) must be rejected
    chk.add_tlc(tlc_must_pass("PipelineMC", "Pipeline-thorough.cfg" if tier == "thorough" else "Pipeline-c17.cfg", timeout=1800))
    rw = tlc("PipelineMC", "Pipeline-mutant-fixedname.cfg", timeout=900)
    chk.add_tlc(rw)
    chk.extra["pipeline_whatif_fixed_dir_name_violates"] = rw.violated
    if not rw.violated:
        raise Inconclusive("Pipeline.tla what-if (fixed shared directory name) is no longer rejected")

    work = mkscratch("c17")
    build_garble("verif")
    tool = make_linker_cache(work)
    ref = Reference(work / "refs", tool)
    scenarios = scenario_list(tier, chk.rng)

    # isolated references, in parallel
    ref_keys = []
    for _, _, procs, _ in scenarios:
        for variant, gflags, env, p in procs:
            k = (variant, tuple(gflags))
            if k not in ref_keys:
                ref_keys.append(k)
    parallel(lambda k: ref.build(k[0], list(k[1])), ref_keys, workers=3)

    first_trace = None
    pipeline_done = 0
    for name, (st, bn), procs, gate in scenarios:
        root = work / ("sc-" + name)
        shared = Sandbox(root / "shared", template=True)
        set_linker_state(shared.gcache, tool, st, bn)
        trace = root / "trace.ndjson"
        gatedir = root / "gate"
        gatedir.mkdir(parents=True)
        results = [None] * len(procs)

        def runproc(i):
            variant, gflags, env, p = procs[i]
            src = write_proto(root / f"src{i}", variant)
            e = dict(env)
            if gate:
                e["GARBLE_VERIF_GATE"] = gate
                e["GARBLE_VERIF_GATE_DIR"] = str(gatedir)
            out = root / f"prog{i}"
            r = shared.garble(list(gflags) + ["build", f"-p={p}", "-o", str(out), "."], cwd=src, env=e, trace=trace, ident=f"P{i}", timeout=1500)
            results[i] = (r, out)

        threads = [threading.Thread(target=runproc, args=(i,)) for i in range(len(procs))]
        for t in threads:
            t.start()
        if gate:
            # release the held process once the others have had time to queue up on the lock
            ev, n = gate.split("@")[1].split("#")
            base = gatedir / f"hold.{ev}.{n}"
            deadline = time.time() + 600
            while time.time() < deadline and not (base.parent / (base.name + ".reached")).exists() and any(t.is_alive() for t in threads):
                time.sleep(0.2)
            time.sleep(8 if tier == "quick" else 15)
            (base.parent / (base.name + ".release")).write_text("go\n")
        for t in threads:
            t.join()
        events = read_trace(trace)
        for i, (variant, gflags, env, p) in enumerate(procs):
            r, out = results[i]
            want = ref.build(variant, list(gflags))
            witness = {"scenario": name, "init": [st, bn], "proc": i, "gflags": list(gflags), "variant": variant, "p": p, "gate": gate}
            chk.case([name, variant, gflags, p], sample=witness if i == 0 else None)
            files = {"trace.ndjson": trace, "stderr.txt": r.stderr[-4000:]}
            if r.returncode != 0:
                chk.violation(dict(witness, kind="build-failed"), files, what=f"concurrent build {i} of scenario {name} failed: {r.stderr[-300:]}")
                continue
            got = sha256_file(out)
            if got != want["sha"]:
                rc, so, se = run_binary(out)
                chk.violation(dict(witness, kind="binary-differs", stdout_same=(so == want["stdout"])), files,
                              what=f"concurrent build {i} of scenario {name} produced a different binary than when run alone")
        if (shared.gcache / "tool" / "old-linker-used").exists():
            chk.violation({"scenario": name, "kind": "foreign-linker-used"}, {"trace.ndjson": trace}, what="a linker of another version was executed")
        # B1: the lock-protected events must be a behaviour of Linker.tla
        ok, out = validate_linker_trace(chk, events, label=name)
        if not ok:
            # a rejected trace is a lead; the verdict comes from the observable above
            print(f"MODEL-MISMATCH: property=C17 scenario {name}: recorded linker events are not a behaviour of Linker.tla", flush=True)
            chk.extra.setdefault("rejected_traces", []).append(name)
        elif first_trace is None and any(e["ev"] == "link-build-done" for e in events):
            first_trace = events
        # B1 (whole process trees): every event of every process of the scenario against Pipeline.tla -
        # shared directories alive while children run, writes only under the writer's own directory,
        # cache keys stable, imports compiled first, link last and under the lock, clean-up last
        if tier == "thorough" or pipeline_done < 2:
            pipeline_done += 1
            validate_pipeline(chk, events, root / "src0", shared, label=f"scenario-{name}", cold_gk=True, linker_init=(st, bn))
        left = [x for x in shared.tmp_leftovers() if x.startswith("garble-shared")]
        if left:
            chk.extra.setdefault("tmp_leftovers", []).append([name, left])
        rmtree(root)

    # ---- B2: TLC's interleaving "another process rebuilds the linker between this process's version check
    # and its use of the linker" (only possible if Mutex / LockHolder is broken).  The other process is a garble
    # of ANOTHER version, played by the harness: it follows the protocol (takes the flock on link.lock) and then
    # does what PatchLinker does on a version mismatch - replace link and its stamp.  The real garble is held at
    # its tool-run event of the link step, i.e. after the check and right before it executes the linker.
    root = work / "foreign-rebuild"
    shared = Sandbox(root / "shared", template=True)
    set_linker_state(shared.gcache, tool, "cur", "cur")
    src = write_proto(root / "src", 0)
    rwarm = shared.garble(["build", "-o", str(root / "prog-warm"), "."], cwd=src, timeout=1500)
    if rwarm.returncode != 0:
        raise Inconclusive(f"warming build of the foreign-rebuild scenario failed: {rwarm.stderr[-1500:]}")
    mainfile = src / "main.go"
    mainfile.write_text(mainfile.read_text().replace('"main-record"', '"main-record-2"', 1))   # only main is recompiled, then linked
    gatedir = root / "gate"
    gatedir.mkdir()
    trace = root / "trace.ndjson"
    res = {}

    def held_build():
        res["r"] = shared.garble(["build", "-o", str(root / "prog"), "."], cwd=src, trace=trace, ident="P0", timeout=1500,
                                 env={"GARBLE_VERIF_GATE": "hold@tool-run#2", "GARBLE_VERIF_GATE_DIR": str(gatedir)})

    th = threading.Thread(target=held_build)
    th.start()
    base = gatedir / "hold.tool-run.2"
    deadline = time.time() + 900
    while time.time() < deadline and not Path(str(base) + ".reached").exists() and th.is_alive():
        time.sleep(0.1)
    reached = Path(str(base) + ".reached").exists()
    held_is_link = False
    got_lock = None
    if reached:
        evs = read_trace(trace)
        runs = [e for e in evs if e["ev"] == "tool-run"]
        held_is_link = len(runs) == 2 and runs[-1].get("tool") == "link"
        if held_is_link:
            import fcntl
            lockf = open(shared.gcache / "tool" / "link.lock", "a+")
            try:
                fcntl.flock(lockf, fcntl.LOCK_EX | fcntl.LOCK_NB)
                got_lock = True
            except OSError:
                got_lock = False
            if got_lock:
                # the foreign-version garble now owns the cache: it installs its own linker and stamp
                standin = (tool / "old-linker-standin").read_bytes()
                tmpf = shared.gcache / "tool" / "link.foreign"
                tmpf.write_bytes(standin)
                tmpf.chmod(0o755)
                os.replace(tmpf, shared.gcache / "tool" / "link")
                (shared.gcache / "tool" / "link.version").write_bytes(b"go1.0.0 some-other-patch-version\n")
                fcntl.flock(lockf, fcntl.LOCK_UN)
            lockf.close()
    Path(str(base) + ".release").write_text("go\n")
    th.join()
    r = res.get("r")
    witness = {"scenario": "foreign-version-rebuild-in-link-window", "init": ["cur", "cur"], "lock_free_while_linker_about_to_run": got_lock}
    chk.case(["foreign-version-rebuild-in-link-window"], sample=witness, nontrivial=bool(held_is_link))
    chk.extra["foreign_rebuild_scenario"] = {"held_at_link": held_is_link, "harness_got_lock": got_lock, "rc": getattr(r, "returncode", None)}
    if not held_is_link:
        raise Inconclusive(f"foreign-rebuild scenario: the build was not held at its link step (reached={reached})")
    files = {"trace.ndjson": trace, "stderr.txt": (r.stderr[-4000:] if r else "")}
    if got_lock:
        # the real garble went on to execute whatever was installed under it
        if (shared.gcache / "tool" / "old-linker-used").exists() or r is None or r.returncode != 0:
            chk.violation(dict(witness, kind="foreign-linker-used"), files,
                          what="another garble (other version) could take link.lock and replace the linker while this build was between its version "
                               "check and the execution of the linker; the build then executed the foreign linker / failed: " + (r.stderr[-200:] if r else ""))
        else:
            chk.violation(dict(witness, kind="lock-not-held"), files,
                          what="link.lock was free while the build was about to execute the cached linker (the foreign linker installed meanwhile was not executed)")
    elif r is None or r.returncode != 0:
        chk.violation(dict(witness, kind="build-failed"), files, what=f"held build failed: {r.stderr[-300:] if r else ''}")
    rmtree(root)

    # binding self-test: a corrupted trace must be rejected
    if first_trace is not None:
        bad = list(first_trace)
        i = next(k for k, e in enumerate(bad) if e["ev"] == "link-build-done")
        j = next(k for k, e in enumerate(bad) if e["ev"] == "link-stamp-written")
        bad[i], bad[j] = bad[j], bad[i]
        before = chk.traces_validated
        ok, _ = validate_linker_trace(chk, bad, label="corrupted")
        chk.traces_validated = before
        chk.extra["corrupted_trace_rejected"] = not ok
        if ok:
            raise Inconclusive("binding self-test failed: a trace with stamp-written before build-done was accepted")
    return chk.finish()


if __name__ == "__main__":
    main_wrapper(main)
