#!/usr/bin/env python3
"""C06 - Cached builds never go stale.

Spec: spec/BuildCache.tla - cmd/go's action-ID rule as perturbed by garble's tool ID, the inputs the
obfuscator reads per package, GARBLE_CACHE entries; invariants NoStale, NoRework, FactsComplete over
all histories of <= 3 builds / 1 edit over 13 configurations.
Binding:
  B1  `hash-input` events of the real garble (the exact bytes added to every build hash) are parsed
      into the set of configuration fields actually keyed; that recorded set is the KeyFields constant
      of the TLC run, so a key that stops covering an input makes TLC produce the stale history.
      Every replayed history is also validated, build by build (configuration, set of recompiled
      packages), against BuildCacheTrace.tla.
  B2  histories are replayed on real shared caches: two opposite orders over the whole configuration
      alphabet (every ordered pair of configurations is covered), edits in between, TLC's own
      counterexample history if it has one, and (thorough) TLC-simulated random histories.
Oracle: sha256 of each build equals the isolated cold build of the same (configuration, source); a
repeated build recompiles nothing (no compile/asm tool runs).
"""
import base64
import sys

sys.path.insert(0, str(__import__("pathlib").Path(__file__).resolve().parent))
from proto_common import *  # noqa

# two seeds that differ only in their last byte (garble documents that only part of a long seed is used:
# a key that hashes a prefix of the seed must not make them collide)
SEEDS = {"A": base64.b64encode(b"seed-seed-seed-A").decode().rstrip("="), "B": base64.b64encode(b"seed-seed-seed-B").decode().rstrip("=")}
BASE = {"tiny": False, "lit": False, "seed": "none", "gogarble": "all", "ctrl": False, "tags": False, "tagsrt": False, "xname": "none", "xval": "none"}


def C(**kw):
    d = dict(BASE)
    d.update(kw)
    return d


CFGS = {
    "Base": C(), "CTiny": C(tiny=True), "CLit": C(lit=True), "CSeedA": C(seed="A"), "CSeedB": C(seed="B"),
    "CSub": C(gogarble="sub"), "CCtrl": C(ctrl=True), "CTags": C(tags=True), "CTagsRt": C(tagsrt=True),
    "CX1": C(xname="v", xval="v1"), "CX2": C(xname="v", xval="v2"),
    "CLitX1": C(lit=True, xname="v", xval="v1"), "CLitX2": C(lit=True, xname="v", xval="v2"),
    "CSeedTiny": C(seed="A", tiny=True), "CLitXc": C(lit=True, xname="c", xval="v1"), "CLitXvc": C(lit=True, xname="vc", xval="v1"), "CTinyLit": C(tiny=True, lit=True),
}


def cfg_name(cfg):
    for k, v in CFGS.items():
        if v == cfg:
            return k
    return json.dumps(cfg, sort_keys=True)


def concretise(cfg):
    """-> (garble flags, env, go flags)"""
    g, env, go = [], {}, []
    if cfg["lit"]:
        g.append("-literals")
    if cfg["tiny"]:
        g.append("-tiny")
    if cfg["seed"] != "none":
        g.append("-seed=" + SEEDS[cfg["seed"]])
    if cfg["gogarble"] == "sub":
        env["GOGARBLE"] = "example.com/proto/leaf,example.com/proto/mid"
    if cfg["ctrl"]:
        env["GARBLE_EXPERIMENTAL_CONTROLFLOW"] = "1"
    tags = (["prototag"] if cfg["tags"] else []) + (["debuglog"] if cfg.get("tagsrt") else [])   # debuglog selects other files of package runtime
    if tags:
        go.append("-tags=" + ",".join(tags))
    if cfg["xname"] != "none":
        val = cfg["xval"]
        targets = {"v": ["main.version"], "c": ["main.commit"], "vc": ["main.version", "main.commit"]}[cfg["xname"]]
        if cfg["xname"] == "v" and val == "v2":
            go.append("-ldflags=-X main.version=" + val)          # the two-word spelling of -X
        else:
            go.append("-ldflags=" + " ".join(f"-X={t}={val}" for t in targets))
    return g, env, go


def edit_source(src: Path, p: str, n: int, kind: str = "api"):
    """api: a new exported declaration (export data changes); body: only the inside of a function changes -
    for leaf the body of Peek starts to reflect on its argument (new reflection fact, same export data)."""
    f = {"leaf": src / "leaf" / "leaf.go", "mid": src / "mid" / "mid.go", "main": src / "main.go"}[p]
    text = f.read_text()
    if kind == "api":
        f.write_text(text + f"\nvar Edit{n}{p} = {n}\n")
    elif p == "leaf":
        if "// PEEK-BODY" not in text:
            raise Inconclusive("fixture: leaf.Peek marker not found")
        f.write_text(text.replace('return "-" // PEEK-BODY', f'return reflect.TypeOf(v).Name() + "/" + reflect.TypeOf(v).Field(0).Name // edit {n}'))
    elif p == "mid":
        f.write_text(text.replace("b - a\n}", f"b - a + 0*{n}\n}}", 1))
    else:
        f.write_text(text.replace('"main-record"', f'"main-record-{n}"', 1))


def pkgname(path: str):
    if path == "internal/abi":
        return "abi"
    if path == "runtime":
        return "rt"
    if path.startswith("example.com/proto"):
        return path.replace("example.com/proto/", "").replace("example.com/proto", "main")
    return None


def probe_key_fields(work, chk):
    """B1: which configuration fields does the real garble add to its build hashes?"""
    src = write_proto(work / "probe-src")
    sb = Sandbox(work / "probe-sb", template=True)
    trace = work / "probe.ndjson"
    g, env, go = concretise(C(tiny=True, lit=True, seed="A", ctrl=True, xname="v", xval="v1"))
    env["GOGARBLE"] = "nomatch.example/none"
    r = sb.garble(g + ["build"] + go + ["."], cwd=src, env=env, trace=trace, timeout=600)
    tails = [e for e in read_trace(trace) if e["ev"] == "hash-input"]
    if not tails:
        raise Inconclusive(f"no hash-input event recorded by the probe: {r.stderr[-500:]}")
    fields = set()
    xkeyed = False
    hasbin = all(e["has_binary_id"] for e in tails)
    for e in tails:
        t = e["tail"]
        if " -tiny" in t:
            fields.add("tiny")
        if " -literals" in t:
            fields.add("lit")
        if " -seed=" + SEEDS["A"] in t:
            fields.add("seed")
        if " GOGARBLE=nomatch.example/none" in t:
            fields.add("gogarble")
        if " -ctrlflow" in t:
            fields.add("ctrl")
        if "main.version" in t:
            xkeyed = True
    rmtree(work / "probe-sb")
    chk.traces_validated += 1
    return sorted(fields), xkeyed, hasbin


class Replayer:
    def __init__(self, chk, work, tool, ref, name):
        self.chk, self.name = chk, name
        self.root = work / ("hist-" + name)
        self.src = write_proto(self.root / "src")
        self.sb = Sandbox(self.root / "sb", template=True)
        copytree(tool, self.sb.gcache / "tool")
        self.ref = ref
        self.srcver = {"leaf": 0, "mid": 0, "main": 0}
        self.edits = []
        self.n = 0
        self.steps = []      # normalised trace for BuildCacheTrace
        self.results = []    # (cfg name, srcver tuple, sha, stdout)
        self.last = None

    def edit(self, p, kind="api"):
        self.srcver[p] += 1
        self.edits.append(p if kind == "api" else p + ":body")
        edit_source(self.src, p, len(self.edits), kind)
        self.steps.append({"ev": "edit", "p": p, "kind": kind})
        self.last = None

    def build(self, cfg):
        self.n += 1
        g, env, go = concretise(cfg)
        out = self.root / f"prog{self.n}"
        trace = self.root / f"trace{self.n}.ndjson"
        r = self.sb.garble(g + ["build"] + go + ["-o", str(out), "."], cwd=self.src, env=env, trace=trace, timeout=1500)
        evs = read_trace(trace)
        compiled = sorted({pkgname(e["pkg"]) for e in evs if e["ev"] == "compile-start" and pkgname(e["pkg"])})
        tools = [e for e in evs if e["ev"] == "tool-run" and e.get("tool") in ("compile", "asm")]
        recomputed = sorted({pkgname(e["pkg"]) for e in evs if e["ev"] == "pkgcache-put" and pkgname(e["pkg"]) in ("leaf", "mid", "main")})
        self.steps.append({"ev": "build", "cfg": cfg, "compiled": compiled, "recomputed": recomputed})
        res = {"cfg": cfg_name(cfg), "srcver": dict(self.srcver), "rc": r.returncode, "compiled": compiled, "tool_runs": len(tools),
               "stderr": r.stderr[-3000:], "edits": list(self.edits)}
        if r.returncode == 0:
            res["sha"] = sha256_file(out)
            res["run"] = run_binary(out)
        repeat = self.last == cfg_name(cfg)
        res["repeat"] = repeat
        self.last = cfg_name(cfg)
        self.results.append(res)
        return res


def reference_for(ref_base, lock, memo, tool, cfg, edits):
    """isolated cold build of (cfg, source after `edits`)"""
    key = cfg_name(cfg) + "|" + ",".join(edits)
    with lock:
        if key in memo:
            return memo[key]
    root = ref_base / ("ref-" + str(abs(hash(key)) % 10 ** 10))
    src = write_proto(root / "src")
    for i, p in enumerate(edits):
        edit_source(src, p.split(":")[0], i + 1, "body" if p.endswith(":body") else "api")
    sb = Sandbox(root / "sb", template=True)
    copytree(tool, sb.gcache / "tool")
    g, env, go = concretise(cfg)
    out = root / "prog"
    r = sb.garble(g + ["build"] + go + ["-o", str(out), "."], cwd=src, env=env, timeout=1500)
    if r.returncode != 0:
        raise Inconclusive(f"cold reference build failed for {key}: {r.stderr[-2000:]}")
    res = {"sha": sha256_file(out), "run": run_binary(out)}
    rmtree(root)
    with lock:
        memo[key] = res
    return res


def main(tier, seed):
    chk = Check("C06", tier, seed)
    chk.rule = ("history = sequence of builds (configuration) and source edits over one shared GOCACHE+GARBLE_CACHE; one evaluation per "
                "build step; distinct = (configuration, source version vector, set of configurations built before)")
    chk.assumptions = ["the control-flow configuration is compared by program output and by being different from the non-controlflow binary "
                       "(finding F5: its bytes are not reproducible), all other configurations bit for bit",
                       "quick tier: most references are the opposite-order history (cross-comparison), 3 isolated cold references; thorough: all isolated"]
    work = mkscratch("c06")
    build_garble("verif")

    # ---- B1: recorded key inputs -> TLC constants
    key_fields, xkeyed, hasbin = probe_key_fields(work, chk)
    chk.extra["recorded_key_fields"] = key_fields
    chk.extra["x_names_keyed_with_literals"] = xkeyed
    chk.extra["binary_id_keyed"] = hasbin
    def gen_cfg(name):
        t = (SPEC / "cfg" / name).read_text()
        t = re.sub(r"KeyFields = \{.*\}", "KeyFields = {" + ", ".join(json.dumps(f) for f in key_fields) + "}", t)
        t = re.sub(r"XNameKeyed = (TRUE|FALSE)", "XNameKeyed = " + ("TRUE" if xkeyed else "FALSE"), t)
        return t

    def run_model(name, edits2=False):
        t = gen_cfg(name)
        if edits2:
            t = t.replace("MaxEdits = 1", "MaxEdits = 2")
        tw = mkscratch("c06-tlc")
        r = tlc("BuildCache", "BuildCache-gen.cfg", workdir=tw, files={"BuildCache-gen.cfg": t}, timeout=2400,
                extra=["-dumpTrace", "json", str(tw / "cex.json")])
        if r.error:
            raise Inconclusive(f"TLC failed on BuildCache/{name}: {r.error}\n{r.out[-2000:]}")
        chk.add_tlc(r)
        cex = None
        if r.violated:
            cex = json.loads((tw / "cex.json").read_text())["counterexample"]["state"][-1][1]["hist"]
        return r, cex

    def describe(h):
        return [cfg_name(a["cfg"]) if a["a"] == "build" else f"edit-{a.get('kind', 'api')}:{a['p']}" for a in h if a["a"] in ("build", "edit")]

    # (i) the model as the code is, with the recorded key fields; function bodies are edited in main and in its direct
    #     import only: any counterexample is a NEW staleness (a key that misses an input)
    r, lead = run_model("BuildCache-c06.cfg", edits2=(tier == "thorough"))
    if lead:
        chk.extra["tlc_lead"] = {"invariant": r.violated, "history": describe(lead)}
        log(f"TLC lead ({r.violated}): {chk.extra['tlc_lead']['history']}")
    # (ii) the same with body edits of an INDIRECT dependency too (two configurations, unseeded and seeded)
    r2, lead_asis = run_model("BuildCache-c06-asis.cfg")
    if lead_asis:
        chk.extra["tlc_lead_indirect_body_edit"] = {"invariant": r2.violated, "history": describe(lead_asis)}
    # (iii) what-ifs that must be rejected: entries keyed by the package's own action ID only (before the fix of F19a),
    #       the magic derived from runtime's action ID (before the fix of F20); their histories are replayed on the real
    #       code as regression guards (they must NOT reproduce)
    r3, lead_magic = run_model("BuildCache-c06-magicrt.cfg")
    r4, lead_own = run_model("BuildCache-c06-ownkey.cfg")
    chk.extra["whatif_rejected"] = {"magic_from_runtime": r3.violated, "facts_keyed_by_own_id": r4.violated}
    if not r3.violated or not r4.violated:
        raise Inconclusive("a BuildCache.tla what-if is no longer rejected: the invariants do not bite")

    # ---- B2: histories on real caches
    tool = make_linker_cache(work)
    names = ["Base", "CTiny", "CLit", "CSeedA", "CSeedB", "CSub", "CCtrl", "CTags", "CLitX1", "CLitX2", "CLitXc", "CLitXvc", "CX1"]
    if tier == "thorough":
        names += ["CX2", "CTinyLit"]
    else:
        names.remove("CX1")
    order = list(names)
    chk.rng.shuffle(order)
    histories = {
        "fwd": [("build", n) for n in order] + [("edit", "leaf"), ("build", order[0]), ("build", order[1]), ("build", order[1])],
        "rev": [("build", n) for n in reversed(order)] + [("edit", "leaf"), ("build", order[1]), ("build", order[0]), ("build", order[0])],
    }
    def as_history(h):
        return [("build", cfg_name(a["cfg"])) if a["a"] == "build" else ("edit", a["p"], a.get("kind", "api")) for a in h if a["a"] in ("build", "edit")]
    if lead:
        histories["lead"] = as_history(lead)
    if lead_asis:
        histories["lead-asis"] = as_history(lead_asis)
    # the magic what-if's history is replayed on the real code too: it must NOT reproduce (regression guard for F20)
    if lead_magic and tier == "thorough":
        histories["lead-magic"] = as_history(lead_magic)          # quick: covered by the rt-tag history below
    if lead_own and tier == "thorough":
        histories["lead-ownkey"] = as_history(lead_own)          # quick: covered by the bodyedit history below
    # a tag that selects other files of package runtime, back and forth (kept out of the long histories)
    histories["rt-tag"] = [("build", "Base"), ("build", "CTagsRt"), ("build", "Base")] + ([("build", "CTagsRt"), ("build", "CTagsRt")] if tier == "thorough" else [])
    # body edit of an indirect dependency under the default configuration and under -seed
    bcfgs = ["Base", "CSeedA"] + (["CSeedTiny"] if tier == "thorough" else [])
    histories["bodyedit"] = [("build", c) for c in bcfgs] + [("edit", "leaf", "body")] + [("build", c) for c in bcfgs]
    if tier == "thorough":
        for i in range(3):
            h = []
            for _ in range(10):
                h.append(("edit", chk.rng.choice(["leaf", "mid", "main"])) if chk.rng.random() < 0.2 else ("build", chk.rng.choice(names)))
            histories[f"rand{i}"] = h + [("build", "Base"), ("build", "Base")]

    refs_memo, refs_lock = {}, threading.Lock()
    reps = {}

    def replay(name):
        rep = Replayer(chk, work, tool, None, name)
        reps[name] = rep
        for step in histories[name]:
            if step[0] == "edit":
                rep.edit(step[1], step[2] if len(step) > 2 else "api")
            else:
                rep.build(CFGS[step[1]])
        rmtree(rep.sb.root)

    parallel(replay, list(histories), workers=4)

    # which (cfg, edits) pairs need an isolated cold reference?
    groups = {}
    for name, rep in reps.items():
        for res in rep.results:
            groups.setdefault((res["cfg"], tuple(res["edits"])), []).append((name, res))
    need = []
    for key, lst in groups.items():
        shas = {res.get("sha") for _, res in lst}
        if tier == "thorough" or len(shas) > 1 or len(lst) == 1 or key[0] in ("Base",) or any(":body" in e for e in key[1]) \
                or any(key[0] in [h[1] for h in histories.get(ln, [])] for ln in ("lead", "lead-asis", "lead-magic", "lead-ownkey", "rt-tag")):
            need.append(key)
    extra_refs = [k for k in groups if k not in need][:2]
    need += extra_refs
    parallel(lambda k: reference_for(work / "refs", refs_lock, refs_memo, tool, CFGS[k[0]], list(k[1])), need, workers=4)
    base_ref = refs_memo.get("Base|")

    for key, lst in groups.items():
        cfgname, edits = key
        refres = refs_memo.get(cfgname + "|" + ",".join(edits))
        ctrl = CFGS[cfgname]["ctrl"]
        for hname, res in lst:
            before = []
            for x in reps[hname].results:
                if x is res:
                    break
                before.append(x["cfg"])
            witness = {"config": cfgname, "edits": list(edits), "history": hname, "built_before": sorted(set(before)),
                       "body_edit_of_indirect_dep": any(e in ("leaf:body",) for e in edits) and cfgname in before and CFGS[cfgname]["gogarble"] == "all",
                       "seeded": CFGS[cfgname]["seed"] != "none", "tiny": CFGS[cfgname]["tiny"],
                       "lit_and_xname_changed": bool(CFGS[cfgname]["lit"] and any(CFGS[b]["lit"] and CFGS[b]["xname"] != CFGS[cfgname]["xname"] for b in before))}
            chk.case([cfgname, edits, sorted(set(before))], sample=witness if len(before) in (1, 5) else None, nontrivial=bool(before))
            files = {"history.json": json.dumps(histories[hname]), "result.json": json.dumps({k: v for k, v in res.items()}, default=str)}
            if res["rc"] != 0:
                chk.violation(dict(witness, kind="build-failed"), files, what=f"build of {cfgname} failed in history {hname}: {res['stderr'][-300:]}")
                continue
            if ctrl:
                if base_ref and res["sha"] == base_ref["sha"]:
                    chk.violation(dict(witness, kind="stale"), files, what="control-flow build is byte-identical to the non-controlflow binary")
                continue
            if refres is not None:
                if res["sha"] != refres["sha"]:
                    files["reference.json"] = json.dumps(refres, default=str)
                    chk.violation(dict(witness, kind="stale", output_differs=res["run"][1] != refres["run"][1]), files,
                                  what=f"{cfgname} built after {sorted(set(before))} differs from its cold-cache build")
            else:
                others = {r2["sha"] for _, r2 in lst}
                if len(others) > 1:
                    raise Inconclusive("cross-history disagreement without a reference (internal error)")
            if res["repeat"] and res["tool_runs"] > 0:
                chk.violation(dict(witness, kind="rework"), files, what=f"rebuilding {cfgname} with nothing changed ran {res['tool_runs']} compile/asm steps")

    # ---- B1: each replayed history against BuildCacheTrace.tla
    tcfg = (SPEC / "cfg" / "BuildCacheTrace.cfg").read_text().replace(
        "CONSTANTS\n", "CONSTANTS\n  KeyFields = {" + ", ".join(json.dumps(f) for f in key_fields) + "}\n  XNameKeyed = " + ("TRUE" if xkeyed else "FALSE") + "\n")
    for name, rep in reps.items():
        nd = "".join(json.dumps(s) + "\n" for s in rep.steps)
        tr = tlc("BuildCacheTrace", "BuildCacheTrace-gen.cfg", files={"BuildCacheTrace-gen.cfg": tcfg, "buildcache_trace.ndjson": nd}, workers=1, timeout=900)
        chk.states += tr.distinct
        chk.transitions += tr.states
        if tr.ok:
            chk.traces_validated += 1
        else:
            print(f"MODEL-MISMATCH: property=C06 history {name}: the recorded recompilation sets are not a behaviour of BuildCache.tla "
                  f"({tr.violated or tr.error})", flush=True)
            chk.extra.setdefault("rejected_traces", []).append(name)
            (REPLAYS / "C06").mkdir(parents=True, exist_ok=True)
            (REPLAYS / "C06" / f"rejected-{tier}-{seed}-{name}.ndjson").write_text(nd)
    chk.extra["histories"] = {k: [":".join(a[1:]) for a in v] for k, v in histories.items()}
    chk.extra["cold_references"] = len(refs_memo)
    return chk.finish()


if __name__ == "__main__":
    main_wrapper(main)
