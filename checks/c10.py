#!/usr/bin/env python3
"""C10 - -tiny silences every crash but keeps crash semantics.

Spec: spec/Tiny.tla.  The strip rules of stripRuntime / linker patch 0002 / printFile are
transcribed as data, the Go 1.26 runtime's crash procedure as a call tree whose leaves are
the places that write to descriptor 2 or run user code; an interpreter runs the tree under a
rule set (the -tiny build) and under no rule (the regular build).  TLC enumerates
kind x goroutine context x GOTRACEBACK x recovered, checks Silent / SemanticsKept /
GapsAreDerived / NonVacuous on every case and exports the case list, the model's expectation
per (kind, GOTRACEBACK), the rule table, and for every single rule the kinds predicted to
start printing (or to change exit status / own output) when only that rule is removed.

Binding (B2): ONE generated program implements every kind (switch on os.Args[1]) in every
context (os.Args[2]), with or without a recover (os.Args[3]).  It is built once with
`garble -tiny build` and once with `go build`; every enumerated case is run on both binaries.
Verdicts come only from the runs:
  * stderr of the -tiny binary must be exactly the program's own stderr writes (the OWN: lines
    of the regular run, which the program writes with os.Stderr, print and println),
  * stdout (program's own output, recover() values included) must equal the regular binary's,
  * the exit status must equal the regular binary's,
  * position queries (runtime.Caller, FuncForPC, CallersFrames) must report no file name and
    line 1 ("??"/1 is what tiny.txtar documents).
The model's expectations are compared with the real runs too, but a difference there is only a
MODEL-MISMATCH line.  The thorough tier adds `-tiny -literals`, `-tiny -seed=...` and the
per-rule binding: a scratch copy of the repository with one strip rule disabled must make
exactly the kinds print that the model predicts (self-test of the path/rule map, recorded in
the evidence, never a verdict).
"""
import json
import os
import re
import resource
import shutil
import subprocess
import sys
import time
from concurrent.futures import ThreadPoolExecutor
from pathlib import Path

sys.path.insert(0, str(Path(__file__).resolve().parent.parent))
from vf.core import *  # noqa

MODULE = "example.com/c10prog"

LIB_GO = r'''package lib

import "runtime"

type LibErr struct{ Code int }

func (e *LibErr) Error() string { return "lib error" }

//go:noinline
func Where() (string, int, string) {
	pc, file, line, _ := runtime.Caller(0)
	return file, line, runtime.FuncForPC(pc).Name()
}

//go:noinline
func Crash(f func()) { f() }
'''

MAIN_GO = r'''package main

import (
	"os"
	"runtime"
	"runtime/debug"
	"sync"
	"syscall"
	_ "unsafe"

	"example.com/c10prog/lib"
)

// Path-binding probe for the writeErrStr rule: the runtime's direct writer for
// "fatal: morestack on gsignal" (built with -ldflags=-checklinkname=0).
//
//go:linkname badmorestackgsignal runtime.badmorestackgsignal
func badmorestackgsignal()

func own(s string)  { os.Stderr.WriteString("OWN:" + s + "\n") }
func outl(s string) { os.Stdout.WriteString("OUT:" + s + "\n") }
func posl(s string) { os.Stdout.WriteString("POS:" + s + "\n") }

func itoa(n int) string {
	if n == 0 {
		return "0"
	}
	neg := n < 0
	if neg {
		n = -n
	}
	var b [24]byte
	i := len(b)
	for n > 0 {
		i--
		b[i] = byte('0' + n%10)
		n /= 10
	}
	if neg {
		i--
		b[i] = '-'
	}
	return string(b[i:])
}

type myErr struct{ msg string }

func (e myErr) Error() string { return "myErr:" + e.msg }

type myStringer struct{ n int }

func (s myStringer) String() string { return "myStringer#" + itoa(s.n) }

type noisyErr struct{}

func (noisyErr) Error() string { outl("noisyErr.Error called"); return "noisy" }

type noisyStringer struct{}

func (noisyStringer) String() string { outl("noisyStringer.String called"); return "noisy" }

type badErr struct{}

func (badErr) Error() string { panic("Error method panics") }

type myStruct struct {
	A string
	B int
}
type myInt int
type myString string

var sink int
var zero int
var nilPtr *myStruct
var nilMap map[string]int
var arr = []int{1, 2, 3}
var idx = 5
var anyStr any = "a string"
var anyInt any = 42

func describe(v any) string {
	switch x := v.(type) {
	case nil:
		return "nil"
	case runtime.Error:
		return "runtime.Error:" + x.Error()
	case error:
		return "error:" + x.Error()
	case interface{ String() string }:
		return "stringer:" + x.String()
	case string:
		return "string:" + x
	case int:
		return "int:" + itoa(x)
	case float64:
		return "float64*1000:" + itoa(int(x*1000))
	case myInt:
		return "myInt:" + itoa(int(x))
	case myString:
		return "myString:" + string(x)
	case myStruct:
		return "myStruct:" + x.A + "/" + itoa(x.B)
	case *myStruct:
		return "*myStruct:" + x.A + "/" + itoa(x.B)
	}
	return "other"
}

//go:noinline
func pad() { sink++ }

//go:noinline
func recurse(n int) int {
	var buf [128]byte
	buf[n%128] = byte(n)
	return recurse(n+1) + int(buf[(n+1)%128])
}

func crash(kind string) {
	switch kind {
	case "return":
	case "panic_string":
		panic("boom string")
	case "panic_multiline":
		panic("line one\nline two\nline three")
	case "panic_error":
		panic(myErr{"custom error"})
	case "panic_liberror":
		panic(&lib.LibErr{Code: 3})
	case "panic_stringer":
		panic(myStringer{7})
	case "panic_struct":
		panic(myStruct{"field", 9})
	case "panic_ptr":
		panic(&myStruct{"pfield", 11})
	case "panic_int":
		panic(12345)
	case "panic_float":
		panic(1.5)
	case "panic_customint":
		panic(myInt(77))
	case "panic_customstring":
		panic(myString("custom string value"))
	case "panic_nil":
		panic(nil)
	case "panic_error_noisy":
		panic(noisyErr{})
	case "panic_stringer_noisy":
		panic(noisyStringer{})
	case "panic_error_panics":
		panic(badErr{})
	case "nil_deref":
		sink = nilPtr.B
	case "nil_func":
		var f func()
		f()
	case "index_oob":
		sink = arr[idx]
	case "slice_oob":
		sink = len(arr[idx:])
	case "slice3_oob":
		sink = len(arr[1:2:idx])
	case "array_conv":
		a := [4]int(arr)
		sink = a[0]
	case "div_zero":
		sink = 10 / zero
	case "neg_shift":
		sink = 1 << (zero - 1)
	case "makeslice_neg":
		sink = len(make([]int, zero-1))
	case "type_assert":
		sink = anyStr.(int)
	case "type_assert_iface":
		sink = len(anyInt.(error).Error())
	case "nil_map_write":
		nilMap["k"] = 1
	case "unhashable_key":
		m := map[any]int{}
		m[arr] = 1
	case "chan_send_closed":
		c := make(chan int, 1)
		close(c)
		c <- 1
	case "chan_close_closed":
		c := make(chan int)
		close(c)
		close(c)
	case "chan_close_nil":
		var c chan int
		close(c)
	case "deadlock_chan":
		var c chan int
		<-c
	case "deadlock_select":
		select {}
	case "deadlock_mutex":
		var mu sync.Mutex
		mu.Lock()
		mu.Lock()
	case "deadlock_wg":
		var wg sync.WaitGroup
		wg.Add(1)
		wg.Wait()
	case "repanic_defer":
		defer func() { panic("second panic in defer") }()
		panic("first panic")
	case "recover_repanic":
		defer func() {
			r := recover()
			panic(r)
		}()
		panic("recovered then repanicked")
	case "recover_newpanic":
		defer func() {
			recover()
			panic("new panic after recover")
		}()
		panic("original")
	case "fatal_unlock":
		var mu sync.Mutex
		mu.Unlock()
	case "fatal_runlock":
		var mu sync.RWMutex
		mu.RUnlock()
	case "fatal_during_panic":
		defer func() {
			var mu sync.Mutex
			mu.Unlock()
		}()
		panic("panic before fatal")
	case "stack_overflow":
		debug.SetMaxStack(1 << 16)
		sink = recurse(0)
	case "goexit":
		runtime.Goexit()
	case "exit_0":
		os.Exit(0)
	case "exit_3":
		os.Exit(3)
	case "exit_125":
		os.Exit(125)
	case "sigquit_self":
		runtime.LockOSThread()
		syscall.Tgkill(syscall.Getpid(), syscall.Gettid(), syscall.SIGQUIT)
		for {
			runtime.Gosched()
		}
	case "sigterm_self":
		runtime.LockOSThread()
		syscall.Tgkill(syscall.Getpid(), syscall.Gettid(), syscall.SIGTERM)
		for {
			runtime.Gosched()
		}
	case "direct_writer_probe":
		badmorestackgsignal()
	default:
		own("unknown kind " + kind)
		os.Exit(99)
	}
}

func guarded(label string, f func()) {
	defer func() {
		r := recover()
		outl("recovered[" + label + "]=" + describe(r))
	}()
	f()
}

func runIn(ctx string, rec bool, f func()) {
	g := f
	if rec {
		g = func() { guarded(ctx, f) }
	}
	switch ctx {
	case "main":
		lib.Crash(g)
	case "child":
		done := make(chan struct{})
		go func() {
			g()
			close(done)
		}()
		<-done
	case "defer":
		if rec {
			func() {
				defer func() {
					r := recover()
					outl("recovered[defer]=" + describe(r))
				}()
				defer f()
				pad()
			}()
		} else {
			func() {
				defer f()
				pad()
			}()
		}
	default:
		own("unknown ctx " + ctx)
		os.Exit(98)
	}
}

type posT struct{}

//go:noinline
func (posT) where() (string, int, string) {
	pc, file, line, _ := runtime.Caller(0)
	return file, line, runtime.FuncForPC(pc).Name()
}

func positions() {
	_, file, line, _ := runtime.Caller(0)
	posl("main.caller0 " + file + " " + itoa(line) + " [-]")
	f, l, n := posT{}.where()
	posl("main.method " + f + " " + itoa(l) + " [" + n + "]")
	f, l, n = lib.Where()
	posl("lib.func " + f + " " + itoa(l) + " [" + n + "]")
	func() {
		pc, file, line, _ := runtime.Caller(0)
		posl("main.closure " + file + " " + itoa(line) + " [" + runtime.FuncForPC(pc).Name() + "]")
	}()
	_, file, line, _ = runtime.Caller(1)
	posl("main.caller1 " + file + " " + itoa(line) + " [-]")
	done := make(chan struct{})
	go func() {
		defer close(done)
		defer func() {
			recover()
			pcs := make([]uintptr, 16)
			n := runtime.Callers(0, pcs)
			fr := runtime.CallersFrames(pcs[:n])
			for {
				f, more := fr.Next()
				posl("frames " + f.File + " " + itoa(f.Line) + " [" + f.Function + "]")
				if !more {
					break
				}
			}
		}()
		panic("position probe")
	}()
	<-done
}

func main() {
	if len(os.Args) < 4 {
		own("usage: prog kind ctx rec")
		os.Exit(97)
	}
	kind, ctx, rec := os.Args[1], os.Args[2], os.Args[3] == "rec"
	if kind == "positions" {
		positions()
		return
	}
	own("start " + kind + " " + ctx)
	println("OWN:println", kind, 42, 1.5, true)
	print("OWN:print ", ctx, "\n")
	outl("start " + kind + " " + ctx)
	runIn(ctx, rec, func() { crash(kind) })
	outl("survived " + kind)
	own("survived " + kind)
	if kind == "goexit" {
		// Goexit in a child goroutine or a nested call only ends that goroutine;
		// now end main the same way with no other goroutine left.
		runtime.Goexit()
	}
	os.Exit(0)
}
'''

PROGRAM = {"main.go": MAIN_GO, "lib/lib.go": LIB_GO}
BUILD_FLAGS = ["-ldflags=-checklinkname=0"]
RUN_TIMEOUT = 90

SIGNAMES = {6: "SIGABRT", 15: "SIGTERM", 9: "SIGKILL", 11: "SIGSEGV", 3: "SIGQUIT", 5: "SIGTRAP", 4: "SIGILL", 7: "SIGBUS"}


def exit_name(rc):
    if rc is None:
        return "TIMEOUT"
    if rc < 0:
        return SIGNAMES.get(-rc, f"SIG{-rc}")
    return str(rc)


def run_case(binp, kind, ctx, rec, tb):
    env = {"PATH": "/usr/bin:/bin", "HOME": "/nonexistent"}
    if tb != "unset":
        env["GOTRACEBACK"] = tb
    cmd = [str(binp), kind, ctx, "rec" if rec else "norec"]     # RLIMIT_CORE is 0 (set in main)
    try:
        p = subprocess.run(cmd, env=env, stdin=subprocess.DEVNULL, capture_output=True, timeout=RUN_TIMEOUT)
        return p.returncode, p.stdout.decode("utf-8", "replace"), p.stderr.decode("utf-8", "replace")
    except subprocess.TimeoutExpired as e:
        return None, (e.stdout or b"").decode("utf-8", "replace"), (e.stderr or b"").decode("utf-8", "replace")


def own_lines(stderr):
    return "".join(l for l in stderr.splitlines(True) if l.startswith("OWN:"))


def strip_pos(stdout):
    return "".join(l for l in stdout.splitlines(True) if not l.startswith("POS:"))


# --------------------------------------------------------------------------- rule table drift

def rules_from_source(src: str) -> dict:
    """Extract {file: set(names or prefixes)} from stripRuntime's switch (drift check only)."""
    out = {}
    m = re.search(r"func stripRuntime\(.*?\n}\n", src, re.S)
    body = m.group(0) if m else ""
    parts = re.split(r'\n\t\tcase "([a-z0-9_]+\.go)":', body)
    for i in range(1, len(parts), 2):
        fname, blk = parts[i], parts[i + 1]
        blk = blk.split("\n\t}\n")[0]
        names = set(re.findall(r'"([A-Za-z0-9_]+)"', blk))
        out[fname] = names
    return out


def check_rule_drift(chk, model_rules):
    src_path = REPO / "runtime_patch.go"
    try:
        src = src_path.read_text()
    except OSError:
        return
    real = rules_from_source(src)
    model = {}
    for r in model_rules:
        for f in r["funcs"]:
            fname, fn = f.split(":")
            model.setdefault(fname, set()).add(fn)
    drift = []
    goroot_rt = goroot() / "src" / "runtime"
    for fname, names in sorted(real.items()):
        prefixes = {n for n in names if n in ("trace", "print")}
        plain = names - prefixes - {"false"}
        mnames = model.get(fname, set())
        for n in sorted(plain):
            if n not in mnames:
                drift.append(f"{fname}:{n} stripped by the code, not in Tiny.tla")
        for n in sorted(mnames):
            if n not in plain and not any(n.startswith(p) for p in prefixes):
                drift.append(f"{fname}:{n} in Tiny.tla, not stripped by the code")
    for fname in sorted(model):
        if fname not in real:
            drift.append(f"{fname}: case in Tiny.tla, not in the code")
    if ('case "print", "println":' in src) != any(r["id"] == "hidePrint" for r in model_rules):
        drift.append("print/println rewrite differs")
    # rules that no longer match a function of this Go version (information only)
    unmatched = []
    for fname, names in sorted(model.items()):
        p = goroot_rt / fname
        text = p.read_text() if p.exists() else ""
        for n in sorted(names):
            if not re.search(r"^func (\([^)]*\) )?" + re.escape(n) + r"\(", text, re.M):
                unmatched.append(f"{fname}:{n}")
    chk.extra["rule_table_drift"] = drift
    chk.extra["rules_without_target_in_this_go_version"] = unmatched
    if drift:
        print(f"MODEL-MISMATCH: property=C10 the rule table of Tiny.tla differs from runtime_patch.go: {drift[:6]}", flush=True)


# --------------------------------------------------------------------------- builds

def build_pair(chk, root, sb, flags, garble_bin=None, need_regular=True):
    src = root / "src"
    if not src.exists():
        write_module(src, PROGRAM, module=MODULE)
    # (no "-tiny"/"-seed" inside the output name: garble rejects arguments that look like its own flags)
    tag = "_".join(re.sub(r"[^a-z0-9]", "", f.lower()) for f in flags) or "default"
    tiny = root / f"prog_{tag}.bin"
    r = sb.garble(list(flags) + ["build"] + BUILD_FLAGS + ["-o", str(tiny), "."], cwd=src, timeout=1500, garble_bin=garble_bin)
    if r.returncode != 0:
        raise Inconclusive(f"garble {' '.join(flags)} build of the C10 program failed:\n{r.stderr[-3000:]}")
    regular = root / "prog_regular.bin"
    if need_regular and not regular.exists():
        r = sb.go(["build"] + BUILD_FLAGS + ["-o", str(regular), "."], cwd=src, timeout=900)
        if r.returncode != 0:
            raise Inconclusive(f"go build of the C10 program failed:\n{r.stderr[-3000:]}")
    return tiny, regular


def run_all(cases, tiny, regular, workers, regular_cache):
    def do(c):
        key = (c["kind"], c["ctx"], c["rec"], c["tb"])
        if key not in regular_cache:
            regular_cache[key] = run_case(regular, *key)
        return c, regular_cache[key], run_case(tiny, *key)
    with ThreadPoolExecutor(workers) as ex:
        return list(ex.map(do, cases))


def judge(chk, results, config, expect, srcdir, budget):
    """Compare -tiny runs with regular runs. Returns counters."""
    stats = {"cases": 0, "regular_printed": 0, "model_mismatch": 0}
    for c, reg, tin in results:
        kind, ctx, tb, rec = c["kind"], c["ctx"], c["tb"], c["rec"]
        stats["cases"] += 1
        if reg[0] is None:
            raise Inconclusive(f"the regular binary timed out on {kind}/{ctx}/{tb}/rec={rec}")
        own = own_lines(reg[2])
        regular_printed = reg[2] != own
        if regular_printed:
            stats["regular_printed"] += 1
        chk.case([config, kind, ctx, tb, rec], nontrivial=True,
                 sample={"config": config, "case": [kind, ctx, tb, rec], "exit": exit_name(tin[0]), "regular_runtime_bytes": len(reg[2]) - len(own),
                         "tiny_stderr": tin[2][-200:]} if stats["cases"] % 400 == 7 else None)
        problems = []
        if tin[0] is None:
            problems.append(("hang", "the -tiny binary did not terminate"))
        else:
            if tin[2] != own:
                problems.append(("stderr", "stderr of the -tiny binary is not exactly the program's own writes"))
            if strip_pos(tin[1]) != strip_pos(reg[1]):
                obs = "recover-value" if c["recovers"] and "recovered[" in reg[1] and [l for l in reg[1].splitlines() if l.startswith("OUT:recovered")] != [l for l in tin[1].splitlines() if l.startswith("OUT:recovered")] else "own-output"
                problems.append((obs, "stdout of the -tiny binary differs from the regular binary's"))
            if tin[0] != reg[0]:
                problems.append(("exit-status", f"exit status {exit_name(tin[0])} instead of {exit_name(reg[0])}"))
        for obs, what in problems:
            witness = {"observable": obs, "kind": kind, "ctx": ctx, "tb": tb, "rec": rec, "class": c["class"], "config": config,
                       "exit_regular": exit_name(reg[0]), "exit_tiny": exit_name(tin[0])}
            known = any(finding_matches(k, witness) for k in chk.known)
            if not known:
                stats["unknown_problems"] = stats.get("unknown_problems", 0) + 1
                if budget[0] <= 0:
                    continue        # enough replay directories written; the verdict is already exit 1
                budget[0] -= 1
            files = {"case.json": json.dumps({"argv": [kind, ctx, "rec" if rec else "norec"], "GOTRACEBACK": tb, "config": config,
                                              "build": f"garble {config} build {' '.join(BUILD_FLAGS)} / go build {' '.join(BUILD_FLAGS)}"}, indent=1),
                     "regular.stdout": reg[1], "regular.stderr": reg[2], "tiny.stdout": tin[1], "tiny.stderr": tin[2],
                     "expected_own_stderr": own, "src": srcdir}
            chk.violation(witness, files, what=f"{config}: {kind}/{ctx}/GOTRACEBACK={tb}/rec={rec}: {what}")
        # model drift (never a verdict)
        e = expect.get((kind, tb))
        if e and not c["recovers"]:
            if e["regular_prints"] != regular_printed or e["exit_regular"] != exit_name(reg[0]) or \
                    (tin[0] is not None and e["exit_tiny"] != exit_name(tin[0])) or e["tiny_prints"] != (tin[2] != own_lines(tin[2])):
                stats["model_mismatch"] += 1
    return stats


def check_positions(chk, tiny, regular, config, srcdir):
    reg = run_case(regular, "positions", "x", False, "unset")
    tin = run_case(tiny, "positions", "x", False, "unset")
    if reg[0] != 0 or tin[0] != 0:
        chk.violation({"observable": "position", "frame": "n/a", "config": config}, {"regular.stdout": reg[1], "tiny.stdout": tin[1], "tiny.stderr": tin[2]},
                      what=f"{config}: the position-query run exits {exit_name(tin[0])} / regular {exit_name(reg[0])}")
        return
    # which frames lie in the never-obfuscated runtime: decided from the regular run (files under GOROOT)
    gr = str(goroot())
    reg_pos = [l for l in reg[1].splitlines() if l.startswith("POS:")]
    tin_pos = [l for l in tin[1].splitlines() if l.startswith("POS:")]
    reg_is_rt = [(l.split(" ")[1].startswith(gr) or "/src/runtime/" in l.split(" ")[1]) for l in reg_pos]
    rt_base = {os.path.basename(l.split(" ")[1]) for l, rt in zip(reg_pos, reg_is_rt) if rt}
    aligned = len(reg_pos) == len(tin_pos) and [l.split(" ")[0] for l in reg_pos] == [l.split(" ")[0] for l in tin_pos]
    n_user = n_rt = 0
    for i, l in enumerate(tin_pos):
        m = re.match(r"POS:(\S+) (.*) (-?\d+) \[(.*)\]$", l)
        if not m:
            chk.violation({"observable": "position", "frame": "unparsable", "config": config}, {"tiny.stdout": tin[1]}, what=f"unparsable position line {l!r}")
            continue
        label, file, line, fn = m.group(1), m.group(2), int(m.group(3)), m.group(4)
        if aligned:
            is_rt = reg_is_rt[i]
        else:   # the two builds inlined differently: fall back to the shape <hash dir>/<runtime file or assembly file>
            is_rt = label == "frames" and re.fullmatch(r"[A-Za-z0-9_]+/[A-Za-z0-9_.]+", file) is not None and \
                (os.path.basename(file) in rt_base or file.endswith(".s"))
        chk.case([config, "position", label, "rt" if is_rt else "user", file, line])
        if is_rt:
            n_rt += 1
            if file not in ("??", "") or line not in (0, 1):
                chk.violation({"observable": "position", "frame": "runtime-or-deps", "config": config},
                              {"regular.stdout": reg[1], "tiny.stdout": tin[1], "src": srcdir},
                              what=f"{config}: frame inside the never-obfuscated runtime reports {file}:{line}")
            continue
        n_user += 1
        if file not in ("??", "") or line not in (0, 1):
            chk.violation({"observable": "position", "frame": "user", "label": label, "config": config},
                          {"regular.stdout": reg[1], "tiny.stdout": tin[1], "src": srcdir},
                          what=f"{config}: position query {label} reports {file!r}:{line} (expected no file name and line 1)")
    chk.extra.setdefault("position_queries", {})[config] = {"user_frames": n_user, "runtime_frames": n_rt}
    if n_user < 5:
        raise Inconclusive("position probe printed fewer user frames than expected")


# --------------------------------------------------------------------------- per-rule binding (thorough)

RULE_EDITS = {
    "hidePrint": [('case "print", "println":', 'case "print-rule-disabled":')],
    "runtime.writeErrStr": [('if funcDecl.Name.Name == "writeErrStr" {', 'if funcDecl.Name.Name == "writeErrStr-rule-disabled" {'),
                            ('\t"runtime.go":  {"writeErrStr"},\n', '')],
    "panic.preprintpanics+panic.printpanics": [('case "preprintpanics", "printpanics":', 'case "rule-disabled-a", "rule-disabled-b":')],
}


def copy_repo(dst: Path):
    dst.mkdir(parents=True)
    for p in REPO.iterdir():
        if p.name in (".git", "testdata", "docs", ".github"):
            continue
        if p.is_dir():
            shutil.copytree(p, dst / p.name, symlinks=True)
        else:
            shutil.copy2(p, dst / p.name)


def build_garble_from(tree: Path, out: Path) -> Path:
    env = base_env()
    env["GOCACHE"] = str(CACHE / "gobuild")
    r = subprocess.run(["go", "build", "-tags", "verif", "-o", str(out), "."], cwd=tree, env=env, capture_output=True, text=True)
    if r.returncode != 0:
        raise Inconclusive(f"mutated garble does not build:\n{r.stderr[-2000:]}")
    return out


def rule_binding(chk, root, cases, regular, regular_cache, model, gcache):
    out = []
    subset = [c for c in cases if c["tb"] == "unset" and not c["rec"]]
    base = model["baseline"]
    for rule, edits in RULE_EDITS.items():
        tree = root / ("repo-" + re.sub(r"[^a-z]", "", rule.lower()))
        copy_repo(tree)
        p = tree / "runtime_patch.go"
        src = p.read_text()
        if any(a not in src for a, _ in edits):
            out.append({"rule": rule, "skipped": "the source text of the rule was not found (refactored?)"})
            rmtree(tree)
            continue
        for a, b in edits:
            src = src.replace(a, b)
        p.write_text(src)
        gb = build_garble_from(tree, root / ("garble-" + tree.name))
        sb = Sandbox(root / ("sb-" + tree.name), template=True, gcache=gcache)
        tiny, _ = build_pair(chk, root / ("build-" + tree.name), sb, ["-tiny"], garble_bin=gb, need_regular=False)
        res = run_all(subset, tiny, regular, 8, regular_cache)
        printing, exitdiff, owndiff = set(), set(), set()
        for c, reg, tin in res:
            if tin[2] != own_lines(reg[2]):
                printing.add(c["kind"])
            if tin[0] != reg[0]:
                exitdiff.add(c["kind"])
            if strip_pos(tin[1]) != strip_pos(reg[1]):
                owndiff.add(c["kind"])
        pred_print = set(model["predict"][rule]["prints"])
        pred_own = set(model["predict"][rule]["own_output_differs"])
        pred_print |= set(base["prints"])
        agree = printing == pred_print and owndiff == pred_own
        out.append({"rule": rule, "predicted_printing": sorted(pred_print), "observed_printing": sorted(printing),
                    "predicted_own_output_differs": sorted(pred_own), "observed_own_output_differs": sorted(owndiff),
                    "observed_exit_differs_at_GOTRACEBACK_unset": sorted(exitdiff), "agree": agree, "runs": len(res)})
        if not agree:
            print(f"MODEL-MISMATCH: property=C10 rule {rule} removed: predicted printing {sorted(pred_print)[:5]}... observed {sorted(printing)[:5]}...", flush=True)
        rmtree(tree)
        rmtree(sb.root)
    return out


# --------------------------------------------------------------------------- main

def main(tier, seed):
    chk = Check("C10", tier, seed)
    # no core files: GOTRACEBACK=crash aborts the regular binary (inherited by every child process)
    resource.setrlimit(resource.RLIMIT_CORE, (0, resource.getrlimit(resource.RLIMIT_CORE)[1]))
    chk.rule = ("one real execution = one (config, kind, goroutine context, GOTRACEBACK, recovered) case run on the -tiny binary "
                "and on the regular binary; distinct = distinct such tuples plus distinct position queries")
    chk.assumptions = [
        "the crash kinds are those of one generated program (50 kinds incl. os.Exit, Goexit, self-sent SIGQUIT/SIGTERM); cgo tracebacks, "
        "externally delivered signals and runtime-internal throws that a pure Go program cannot trigger deterministically are not run",
        "concurrent map writes are left out (detection is not deterministic); the same fatal() path is exercised by sync: unlock of unlocked mutex",
        "the writeErrStr path is reached by calling runtime.badmorestackgsignal through go:linkname (-ldflags=-checklinkname=0 in both builds)",
        "the program's own stderr writes are identified by the OWN: prefix of the regular run; no panic value or runtime message contains it",
        "GOTRACEBACK=crash is run with core files disabled (ulimit -c 0)",
    ]

    # 1. model
    work = mkscratch("c10-tlc")
    r = tlc_must_pass("Tiny", f"Tiny-{tier}.cfg", workdir=work, timeout=1500)
    chk.add_tlc(r)
    log(f"TLC Tiny-{tier}: {r.distinct} states in {r.wall:.0f}s")
    model = json.loads((work / "tiny_cases.json").read_text())
    cases = sorted(model["cases"], key=lambda c: (c["kind"], c["ctx"], c["tb"], c["rec"]))
    expect = {(e["kind"], e["tb"]): e for e in model["expect"]}
    chk.extra["model_cases"] = len(cases)
    chk.extra["model_gaps"] = {"user_method_not_called": sorted({c["kind"] for c in cases if c["gap_user_method"]}),
                               "crash_abort_lost": "GOTRACEBACK=crash on every crashing kind"}
    chk.extra["model_predict_rule_removed"] = {rid: {k: v for k, v in p.items()} for rid, p in model["predict"].items()
                                                if p["prints"] or set(p["own_output_differs"]) != set(model["baseline"]["own_output_differs"])
                                                or set(p["exit_differs"]) != set(model["baseline"]["exit_differs"])}
    check_rule_drift(chk, model["rules"])
    if tier == "thorough":
        rm = tlc("Tiny", "Tiny-mutant.cfg", workdir=mkscratch("c10-tlc-mut"), timeout=1500)
        chk.extra["model_sensitivity"] = {"cfg": "Tiny-mutant.cfg (hidePrint removed)", "violated": rm.violated}
        if rm.violated != "Silent":
            print("MODEL-MISMATCH: property=C10 Tiny.tla with the hidePrint rule removed does not violate Silent", flush=True)

    # 2. the two builds
    build_garble("verif")
    root = mkscratch("c10")
    sb = Sandbox(root / "sb", template=True)
    tiny, regular = build_pair(chk, root / "build", sb, ["-tiny"])
    srcdir = root / "build" / "src"
    regular_cache = {}
    budget = [8]
    workers = 12

    # quick: every case; the kinds x contexts x GOTRACEBACK product is small enough
    log(f"builds done at {time.time()-chk.t0:.0f}s; running {len(cases)} cases on both binaries")
    results = run_all(cases, tiny, regular, workers, regular_cache)
    log(f"runs done at {time.time()-chk.t0:.0f}s")
    stats = {"-tiny": judge(chk, results, "-tiny", expect, srcdir, budget)}
    check_positions(chk, tiny, regular, "-tiny", srcdir)

    configs = []
    if tier == "thorough":
        configs = [["-tiny", "-literals"], ["-tiny", "-seed=bXlzZWVkbXlzZWVk"]]
    for cfg in configs:
        name = " ".join(cfg)
        t2, _ = build_pair(chk, root / "build", sb, cfg)
        res = run_all(cases, t2, regular, workers, regular_cache)
        stats[name] = judge(chk, res, name, expect, srcdir, budget)
        check_positions(chk, t2, regular, name, srcdir)

    chk.extra["runs"] = stats
    mm = sum(s["model_mismatch"] for s in stats.values())
    chk.extra["model_expectation_mismatches"] = mm
    if mm:
        print(f"MODEL-MISMATCH: property=C10 {mm} cases where Tiny.tla's expectation (who prints, exit status) differs from the real runs", flush=True)
    nonvac = stats["-tiny"]["regular_printed"]
    if nonvac < 0.5 * stats["-tiny"]["cases"]:
        raise Inconclusive("the regular binary printed runtime output in fewer than half of the cases: the program does not crash as intended")

    if tier == "thorough":
        chk.extra["rule_binding"] = rule_binding(chk, root, cases, regular, regular_cache, model, sb.gcache)

    chk.traces_validated = 0
    chk.exhaustive = True
    return chk.finish()


if __name__ == "__main__":
    main_wrapper(main)
