"""Shared pieces of the C11 / C03 checks: Go program templates for the CFG shapes of
spec/CtrlFlow.tla, the hand-written template library for the language constructs the
property names, and helpers around the in-process driver harness/cmd/cfdrv."""
import json
import os
import re
import sys
from pathlib import Path

sys.path.insert(0, str(Path(__file__).resolve().parent.parent))
from vf.core import *  # noqa

MODULE = "example.com/cfprog"

# --------------------------------------------------------------------------- TLC shape family -> Go


def go_ident(shape_id: str) -> str:
    return "sh_" + shape_id.replace("-", "_")


def shape_go(shape_id: str, sh: dict, directive: str) -> str:
    """Go source of the template for one shape of CtrlFlow.tla (same parameters as the
    TLA+ constructor WhileCfg/DoWhileCfg/IfMergeCfg/LoopIfCfg/LoopBreakCfg)."""
    name = go_ident(shape_id)
    fam, ex, ey, ret = sh["fam"], sh["ex"], sh["ey"], sh["ret"]
    head = f"{directive}\nfunc {name}(n, a, b int) int {{\n"
    if fam == "while":
        return head + f"""	x, y := a, b
	for i := 0; i < n; i++ {{
		t := x + y
		emit(t)
		u := t + i
		emit(u)
		x, y = {ex}, {ey}
	}}
	return {ret}
}}
"""
    if fam == "dowhile":
        return head + f"""	x, y := a, b
	i := 0
	r := 0
	for {{
		t := x + y
		emit(t)
		r = {ret}
		x, y = {ex}, {ey}
		i++
		if i >= n {{
			break
		}}
	}}
	return r
}}
"""
    if fam == "ifmerge":
        return head + f"""	var m, w int
	if a < n {{
		u := a + 1
		m, w = u, {ex}
	}} else {{
		v := b + 2
		m, w = v, v
	}}
	emit(m)
	return m + w
}}
"""
    if fam == "loopif":
        return head + """	x, y := a, b
	for i := 0; i < n; i++ {
		if x < y {
			x = x + y
		} else {
			y = y + 1
		}
		emit(x)
	}
	return x + y
}
"""
    if fam == "loopbreak":
        return head + """	x := a
	for i := 0; i < n; i++ {
		x = x + b
		emit(x)
		if x > 4 {
			break
		}
	}
	return x
}
"""
    raise Inconclusive(f"no Go template for shape family {fam!r}")


EXTRA_ARGS = [(4, 3, 5), (2, 5, 1), (5, 0, 0)]   # beyond the inputs TLC evaluates


def shapes_program(leads: dict, directive_for, with_import=False) -> dict:
    """One main package holding every shape of the TLC family.  Output: one line per call:
    `<shape id> <n> <a> <b> : <emit trace> -> <result>`."""
    ids = sorted(leads)
    funcs = "".join(shape_go(i, leads[i]["shape"], directive_for(i)) + "\n" for i in ids)
    calls = []
    for i in ids:
        args = [(inp["n"], inp["a"], inp["b"]) for inp in leads[i]["inputs"]] + EXTRA_ARGS
        for (n, a, b) in args:
            calls.append(f'\tcall("{i}", {go_ident(i)}, {n}, {a}, {b})')
    imp = 'import "strings"\n\nvar _ = strings.ToUpper\n\n' if with_import else ""
    main = f"""package main

{imp}var trace []int

func emit(v int) {{ trace = append(trace, v) }}

func call(id string, f func(n, a, b int) int, n, a, b int) {{
	trace = trace[:0]
	r := f(n, a, b)
	print(id, " ", n, " ", a, " ", b, " :")
	for _, v := range trace {{
		print(" ", v)
	}}
	println(" ->", r)
}}

func main() {{
{chr(10).join(calls)}
}}
"""
    return {"main.go": main, "shapes.go": "package main\n\n" + funcs}


def parse_shape_output(text: str) -> dict:
    """{(id, n, a, b): (trace list, ret)} from the program's stderr (print/println)."""
    out = {}
    for line in text.splitlines():
        m = re.match(r"^(\S+) (-?\d+) (-?\d+) (-?\d+) :((?: -?\d+)*) -> (-?\d+)$", line)
        if m:
            out[(m.group(1), int(m.group(2)), int(m.group(3)), int(m.group(4)))] = (
                [int(x) for x in m.group(5).split()], int(m.group(6)))
    return out


# --------------------------------------------------------------------------- template library

# Every entry: tag (the "shape" of a witness), Go source with @CF@ where the directive goes,
# and the calls main makes; every call prints one line that starts with the tag.
LIB_HELPERS = """
type pair struct{ a, b int }

type acc struct {
	sum  int
	name string
}

func (p *acc) add(v int) { p.sum += v }

type shaper interface{ area() int }
type rect struct{ w, h int }
type sq struct{ s int }

func (r rect) area() int { return r.w * r.h }
func (s sq) area() int   { return s.s * s.s }

type number interface{ ~int | ~int64 | ~float64 }

var sink []string

func note(s string) { sink = append(sink, s) }
"""

LIB = [
    ("switch-int", """@CF@
func lSwitch(v int) string {
	switch {
	case v < 0:
		return "neg"
	case v == 0:
		return "zero"
	case v < 10:
		return "small"
	}
	switch v % 3 {
	case 0:
		return "big0"
	case 1:
		return "big1"
	default:
		return "big2"
	}
}
""", ["println(\"switch-int\", lSwitch(-5), lSwitch(0), lSwitch(7), lSwitch(12), lSwitch(13), lSwitch(14))"]),
    ("switch-fallthrough", """@CF@
func lFall(v int) int {
	r := 0
	switch v {
	case 1:
		r += 1
		fallthrough
	case 2:
		r += 10
	case 3:
		r += 100
	default:
		r = -1
	}
	return r
}
""", ["println(\"switch-fallthrough\", lFall(1), lFall(2), lFall(3), lFall(4))"]),
    ("range-slice", """@CF@
func lRangeSlice(xs []int) (int, int) {
	sum, last := 0, -1
	for i, v := range xs {
		sum += v * (i + 1)
		last = i
	}
	return sum, last
}
""", ["println(\"range-slice\", fmt2(lRangeSlice(nil)), fmt2(lRangeSlice([]int{4})), fmt2(lRangeSlice([]int{3, 1, 4, 1, 5})))"]),
    ("range-string-ascii", """@CF@
func lRangeAscii(s string) int {
	r := 0
	for i, c := range s {
		r = r*31 + i*7 + int(c)
	}
	return r
}
""", ["println(\"range-string-ascii\", lRangeAscii(\"\"), lRangeAscii(\"a\"), lRangeAscii(\"hello, world\"))"]),
    ("range-string-multibyte", """@CF@
func lRangeMulti(s string) int {
	r := 0
	for i, c := range s {
		r = r*31 + i*7 + int(c)
	}
	return r
}
""", ["println(\"range-string-multibyte\", lRangeMulti(\"a\\u00e9\\u4e16b\"))"]),
    ("range-map", """@CF@
func lRangeMap(m map[string]int) (int, int) {
	sum, n := 0, 0
	for k, v := range m {
		sum += len(k) * v
		n++
	}
	return sum, n
}
""", ["println(\"range-map\", fmt2(lRangeMap(nil)), fmt2(lRangeMap(map[string]int{\"a\": 1, \"bb\": 2, \"ccc\": 3})))"]),
    ("range-chan", """@CF@
func lRangeChan(n int) int {
	ch := make(chan int, n)
	for i := 0; i < n; i++ {
		ch <- i * i
	}
	close(ch)
	s := 0
	for v := range ch {
		s = s*3 + v
	}
	return s
}
""", ["println(\"range-chan\", lRangeChan(0), lRangeChan(1), lRangeChan(5))"]),
    ("range-int", """@CF@
func lRangeInt(n int) int {
	s := 0
	for i := range n {
		s += i * i
	}
	return s
}
""", ["println(\"range-int\", lRangeInt(0), lRangeInt(1), lRangeInt(6))"]),
    ("select", """@CF@
func lSelect(k int) string {
	a := make(chan int, 1)
	b := make(chan string, 1)
	switch k {
	case 0:
		a <- 7
	case 1:
		b <- "bee"
	}
	select {
	case v := <-a:
		if v > 5 {
			return "a-big"
		}
		return "a-small"
	case s := <-b:
		return "b-" + s
	default:
		return "none"
	}
}
""", ["println(\"select\", lSelect(0), lSelect(1), lSelect(2))"]),
    ("select-recv-commaok", """@CF@
func lSelectOk(k int) string {
	a := make(chan int, 1)
	b := make(chan string, 1)
	switch k {
	case 0:
		b <- "bee"
	case 1:
		close(b)
	default:
		a <- 3
	}
	select {
	case s, ok := <-b:
		if ok {
			return "open-" + s
		}
		return "closed"
	case v := <-a:
		return "a" + string(rune('0'+v))
	}
}
""", ["println(\"select-recv-commaok\", lSelectOk(0), lSelectOk(1), lSelectOk(2))"]),
    ("float-const", """@CF@
func lFloatConst(r float64) (float64, float32, bool) {
	const tau = 6.283185307179586476925286766559
	area := r * r * 3.14159265358979323846264338327950288
	small := float32(r) * 0.1234567891
	return area + tau, small, area > 3.1415926535
}
""", ["{ a, b, c := lFloatConst(1); println(\"float-const\", int64(a*1e12), int64(float64(b)*1e9), c) }"]),
    ("typed-const-iface", """@CF@
func lTypedConst(k int) string {
	var v any
	switch k {
	case 0:
		v = uint16(7)
	case 1:
		v = int64(30)
	case 2:
		v = float32(1.5)
	case 3:
		v = 2.0
	case 4:
		v = 'x'
	default:
		v = uintptr(9)
	}
	switch x := v.(type) {
	case uint16:
		return "uint16"
	case int64:
		if v == any(int64(30)) {
			return "int64-eq"
		}
		return "int64"
	case float32:
		return "float32"
	case float64:
		return "float64"
	case int32:
		return "rune"
	case uintptr:
		return "uintptr"
	case int:
		_ = x
		return "int"
	}
	return "other"
}
""", ["println(\"typed-const-iface\", lTypedConst(0), lTypedConst(1), lTypedConst(2), lTypedConst(3), lTypedConst(4), lTypedConst(5))"]),
    ("select-send", """@CF@
func lSelectSend(k int) int {
	c := make(chan int, 1)
	if k == 0 {
		c <- 1
	}
	select {
	case c <- 5:
		return 10 + <-c
	default:
		return 20 + <-c
	}
}
""", ["println(\"select-send\", lSelectSend(0), lSelectSend(1))"]),
    ("defer-order", """@CF@
func lDefer(n int) {
	for i := 0; i < n; i++ {
		defer note("d" + string(rune('0'+i)))
	}
	note("body")
}
""", ["sink = nil; lDefer(3); println(\"defer-order\", join(sink))"]),
    ("recover-plain", """@CF@
func lRecoverPlain(d int) (res string) {
	done := false
	func() {
		defer func() {
			if e := recover(); e != nil {
				done = true
			}
		}()
		_ = 10 / d
	}()
	if done {
		return "recovered"
	}
	return "fine"
}
""", ["println(\"recover-plain\", lRecoverPlain(1), lRecoverPlain(0))"]),
    ("recover-named-results", """@CF@
func lRecoverNamed(d int) (r int, s string) {
	defer func() {
		if e := recover(); e != nil {
			r, s = -1, "recovered"
		}
	}()
	return 10 / d, "ok"
}
""", ["println(\"recover-named-results\", fmt2s(lRecoverNamed(1)), fmt2s(lRecoverNamed(0)))"]),
    ("panic-value", """@CF@
func lPanic(v int) int {
	if v > 2 {
		panic("too big")
	}
	return v * 2
}
""", ["println(\"panic-value\", lPanic(1), catch(func() { lPanic(3) }))"]),
    ("closure-captured", """@CF@
func lClosure(n int) (int, int) {
	total := 0
	count := 0
	add := func(v int) {
		total += v
		count++
	}
	for i := 0; i < n; i++ {
		if i%2 == 0 {
			add(i)
		} else {
			add(-1)
		}
	}
	get := func() int { return total*100 + count }
	return get(), count
}
""", ["println(\"closure-captured\", fmt2(lClosure(0)), fmt2(lClosure(1)), fmt2(lClosure(6)))"]),
    ("closure-loopvar", """@CF@
func lLoopVar(n int) int {
	var fs []func() int
	for i := 0; i < n; i++ {
		fs = append(fs, func() int { return i * 10 })
	}
	s := 0
	for _, f := range fs {
		s += f()
	}
	return s
}
""", ["println(\"closure-loopvar\", lLoopVar(0), lLoopVar(4))"]),
    ("multi-results", """@CF@
func lDivmod(a, b int) (q, r int, ok bool) {
	if b == 0 {
		return 0, 0, false
	}
	q = a / b
	r = a % b
	ok = true
	return
}
""", ["q, r, ok := lDivmod(17, 5); q2, r2, ok2 := lDivmod(1, 0); println(\"multi-results\", q, r, ok, q2, r2, ok2)"]),
    ("generic-func", """@CF@
func lGeneric(xs []int, ys []float64) (int, float64) {
	return gsum(xs), gsum(ys)
}

func gsum[T number](xs []T) T {
	var s T
	for _, x := range xs {
		s += x
	}
	return s
}
""", ["gi, gf := lGeneric([]int{1, 2, 3}, []float64{0.5, 0.25}); println(\"generic-func\", gi, int(gf*100))"]),
    ("method-value-recv", """@CF@
func (p pair) lSum(k int) int {
	if k > 0 {
		return p.a*k + p.b
	}
	return p.a - p.b
}
""", ["println(\"method-value-recv\", pair{3, 4}.lSum(2), pair{3, 4}.lSum(0))"]),
    ("method-pointer-recv", """@CF@
func (p *acc) lAddAll(xs []int) int {
	for _, x := range xs {
		if x < 0 {
			continue
		}
		p.add(x)
	}
	return p.sum
}
""", ["ac := &acc{name: \"n\"}; println(\"method-pointer-recv\", ac.lAddAll([]int{1, -2, 3}), ac.lAddAll([]int{10}), ac.sum)"]),
    ("interface-call", """@CF@
func lAreas(ss []shaper) int {
	t := 0
	for _, s := range ss {
		switch v := s.(type) {
		case rect:
			t += v.area()
		case sq:
			t += 2 * v.area()
		default:
			t--
		}
	}
	return t
}
""", ["println(\"interface-call\", lAreas([]shaper{rect{2, 3}, sq{2}, nil}))"]),
    ("nested-loops-break-continue", """@CF@
func lNested(n int) int {
	r := 0
outer:
	for i := 0; i < n; i++ {
		for j := 0; j < n; j++ {
			if j > i {
				continue outer
			}
			if i+j > 6 {
				break outer
			}
			r = r*2 + i - j
		}
	}
	return r
}
""", ["println(\"nested-loops-break-continue\", lNested(0), lNested(3), lNested(6))"]),
    ("goto-label", """@CF@
func lGoto(n int) int {
	i, s := 0, 0
loop:
	if i < n {
		s += i
		i++
		goto loop
	}
	return s
}
""", ["println(\"goto-label\", lGoto(0), lGoto(5))"]),
    ("short-circuit", """@CF@
func lShort(a, b int) int {
	r := 0
	if a > 0 && b/a > 1 {
		r += 1
	}
	if a == 0 || b/a == 0 {
		r += 10
	}
	return r
}
""", ["println(\"short-circuit\", lShort(0, 5), lShort(2, 5), lShort(5, 2))"]),
    ("struct-and-slices", """@CF@
func lStruct(n int) string {
	ps := make([]pair, 0, n)
	for i := 0; i < n; i++ {
		ps = append(ps, pair{i, i * i})
	}
	m := map[int]pair{}
	for _, p := range ps {
		m[p.a] = p
	}
	s := ""
	for i := n - 1; i >= 0; i-- {
		s += string(rune('a' + m[i].b%26))
	}
	return s
}
""", ["println(\"struct-and-slices\", lStruct(0), lStruct(5))"]),
    ("defer-modifies-named-result", """@CF@
func lDeferMod(n int) (r int) {
	defer func() { r += 100 }()
	for i := 0; i < n; i++ {
		r += i
	}
	return r
}
""", ["println(\"defer-modifies-named-result\", lDeferMod(0), lDeferMod(4))"]),
    ("generic-directive", """@CF@
func lGmax[T number](xs []T) T {
	var m T
	for i, x := range xs {
		if i == 0 || x > m {
			m = x
		}
	}
	return m
}
""", ["println(\"generic-directive\", lGmax([]int{3, 9, 2}), int(lGmax([]float64{1.5, 0.5})*10))"]),
    ("generic-method", """type box[T any] struct{ v []T }

@CF@
func (b *box[T]) lCount(n int) int {
	c := 0
	for i := range b.v {
		if i < n {
			c++
		}
	}
	return c
}
""", ["bx := &box[string]{v: []string{\"a\", \"b\", \"c\"}}; println(\"generic-method\", bx.lCount(2), bx.lCount(9))"]),
    ("goroutine-channel", """@CF@
func lGo(n int) int {
	ch := make(chan int)
	done := make(chan bool)
	s := 0
	go func() {
		for v := range ch {
			s += v
		}
		done <- true
	}()
	for i := 0; i < n; i++ {
		ch <- i * 2
	}
	close(ch)
	<-done
	return s
}
""", ["println(\"goroutine-channel\", lGo(0), lGo(4))"]),
    ("map-ops", """@CF@
func lMaps(n int) (int, bool, int) {
	m := map[int]string{}
	for i := 0; i < n; i++ {
		m[i] = "v"
	}
	delete(m, 1)
	_, ok := m[1]
	v, ok2 := m[2]
	c := 0
	if ok2 {
		c = len(v)
	}
	return len(m), ok, c
}
""", ["m1, m2, m3 := lMaps(4); println(\"map-ops\", m1, m2, m3)"]),
    ("type-assert", """@CF@
func lAssert(v any) string {
	if s, ok := v.(string); ok {
		return "s:" + s
	}
	if i, ok := v.(int); ok && i > 2 {
		return "big"
	}
	switch v.(type) {
	case nil:
		return "nil"
	case float64, float32:
		return "float"
	}
	return "other"
}
""", ["println(\"type-assert\", lAssert(\"a\"), lAssert(3), lAssert(1), lAssert(nil), lAssert(1.5), lAssert(int8(1)))"]),
    ("variadic-recursion", """@CF@
func lVariadic(xs ...int) int {
	t := 0
	for _, x := range xs {
		t += x
	}
	if len(xs) > 2 {
		return lVariadic(xs[1:]...) + t
	}
	return t
}
""", ["println(\"variadic-recursion\", lVariadic(), lVariadic(1, 2), lVariadic(1, 2, 3, 4))"]),
    ("arrays-pointers", """@CF@
func lArrays(n int) int {
	var a [5]int
	for i := range a {
		a[i] = i * n
	}
	b := a
	b[0] = 99
	s := a[:3]
	s[1] = 7
	p := &a[4]
	*p += 1
	return a[0] + a[1] + a[4] + b[0] + len(s) + cap(s)
}
""", ["println(\"arrays-pointers\", lArrays(3))"]),
    ("bool-carried-loop", """@CF@
func lBoolLoop(n int) int {
	ok := true
	c := 0
	for ok {
		c++
		ok = c < n
	}
	return c
}
""", ["println(\"bool-carried-loop\", lBoolLoop(0), lBoolLoop(3))"]),
    ("tuple-assign-loop", """@CF@
func lFibGcd(n, a, b int) (int, int) {
	x, y := 0, 1
	for i := 0; i < n; i++ {
		x, y = y, x+y
	}
	for b != 0 {
		a, b = b, a%b
	}
	return x, a
}
""", ["println(\"tuple-assign-loop\", fmt2(lFibGcd(10, 48, 18)), fmt2(lFibGcd(0, 7, 0)))"]),
    ("numeric-conversions", """@CF@
func lShifts(x uint8, n uint) (uint8, int32, float64) {
	var f float64 = float64(x) / 3
	if n > 1 {
		f *= 2
	}
	return x << n >> 1, int32(x) << 20, f
}
""", ["s1, s2, s3 := lShifts(200, 2); println(\"numeric-conversions\", s1, s2, int(s3*1000))"]),
    ("side-effect-order", """@CF@
func lOrder(n int) int {
	note("start")
	r := 0
	for i := 0; i < n; i++ {
		if i%2 == 0 {
			note("even")
			r += i
		} else {
			note("odd")
			r -= i
		}
	}
	note("end")
	return r
}
""", ["sink = nil; ro := lOrder(3); println(\"side-effect-order\", ro, join(sink))"]),
]

LIB_MAIN_HELPERS = """
func fmt2(a, b int) string { return itoa(a) + "/" + itoa(b) }

func fmt2s(a int, s string) string { return itoa(a) + "/" + s }

func itoa(v int) string {
	if v == 0 {
		return "0"
	}
	neg := v < 0
	if neg {
		v = -v
	}
	s := ""
	for v > 0 {
		s = string(rune('0'+v%10)) + s
		v /= 10
	}
	if neg {
		s = "-" + s
	}
	return s
}

func join(ss []string) string {
	r := ""
	for i, s := range ss {
		if i > 0 {
			r += ","
		}
		r += s
	}
	return r
}

func catch(f func()) (msg string) {
	defer func() {
		if e := recover(); e != nil {
			msg = "panic:" + e.(string)
		}
	}()
	f()
	return "no-panic"
}
"""


def lib_program(directive_for, tags=None, with_import=False) -> dict:
    """The template library as one main package; directive_for(tag) -> directive line."""
    src = "package main\n\n"
    if with_import:
        src += 'import "strings"\n\nvar _ = strings.ToUpper\n'
    src += LIB_HELPERS + "\n"
    calls = []
    for tag, code, cs in LIB:
        if tags is not None and tag not in tags:
            continue
        src += code.replace("@CF@", directive_for(tag)) + "\n"
        for c in cs:
            calls.append("\t{ " + c + " }")
    main = "package main\n" + LIB_MAIN_HELPERS + "\nfunc main() {\n" + "\n".join(calls) + "\n}\n"
    return {"main.go": main, "lib.go": src}


def parse_lib_output(text: str) -> dict:
    out = {}
    for line in text.splitlines():
        tag, _, rest = line.partition(" ")
        if tag:
            out.setdefault(tag, []).append(rest)
    return out


# Expected WRONG outputs of the two known miscompilations that have no TLC shape
# (computed here independently of garble, so that a different misbehaviour of the same
# template is not mistaken for the known one).
def f1_expected_wrong() -> str:
    s = "aé世b"
    r = 0
    for i, c in enumerate(s):           # rune index instead of byte offset
        r = r * 31 + i * 7 + ord(c)
    return str(r)


F2_EXPECTED_WRONG = "10/ok 0/"
F2B_EXPECTED_WRONG = "0 6"                   # same root cause: deferred closure updates a named result
F111_EXPECTED_WRONG = "closed closed a3"          # ok of `case v, ok := <-ch` is never assigned


# --------------------------------------------------------------------------- directives

def directive(splits=0, junk=0, passes=1, hardening=None, trash=0) -> str:
    parts = ["//garble:controlflow", f"block_splits={splits}", f"junk_jumps={junk}", f"flatten_passes={passes}"]
    if hardening:
        parts.append("flatten_hardening=" + hardening)
    if trash:
        parts.append(f"trash_blocks={trash}")
    return " ".join(parts)


# --------------------------------------------------------------------------- cfdrv

def cfdrv(src: Path, out: Path, seed: int, script: dict | None = None, cfg: Path | None = None,
          drawlog: Path | None = None, timeout=120) -> Result:
    binp = build_harness("cfdrv")
    cmd = [binp, "-dir", src, "-out", out, "-seed", str(seed), "-pkgpath", MODULE]
    if script is not None:
        sp = Path(str(out) + ".script.json")
        sp.write_text(json.dumps(script))
        cmd += ["-script", sp]
    if cfg is not None:
        cmd += ["-cfg", cfg]
    if drawlog is not None:
        cmd += ["-drawlog", drawlog]
    env = base_env()
    env["GOCACHE"] = str(CACHE / "gobuild")
    env["GOFLAGS"] = "-mod=mod"
    return run(cmd, env=env, timeout=timeout)


def go_build_run(sb: "Sandbox", src: Path, exe: Path, timeout_run=20):
    """Regular toolchain build + run.  Returns (build Result, run Result|None)."""
    b = sb.go(["build", "-o", str(exe), "."], cwd=src)
    if b.returncode != 0:
        return b, None
    r = run([exe], cwd=src, env=sb.env(), timeout=timeout_run)
    return b, r


def read_cfg_dump(path: Path) -> dict:
    """{(stage, func name): [blocks]}"""
    out = {}
    if not Path(path).exists():
        return out
    for line in Path(path).read_text().splitlines():
        if line.strip():
            d = json.loads(line)
            out[(d["stage"], d["func"])] = d["blocks"]
    return out


def skeleton_of(blocks: list) -> list:
    return [{"nphis": len(b["phis"]), "exit": {"return": "ret"}.get(b["exit"], b["exit"]),
             "succs": b["succs"], "preds": b["preds"]} for b in blocks]
