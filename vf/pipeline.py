"""Trace validation against spec/Pipeline.tla (whole process tree of garble builds).

`project(events, ...)` maps the raw hook events of one trace file (file order = total order)
onto the abstract events of PipelineTrace.tla and derives the constants that describe the
build (tops, link children, packages).  The projection is per event: identifiers are
renamed (pid -> top / child), paths are reduced to "under the writer's shared dir or not";
no state is guessed.  The import graph comes from `go list`, not from the trace.

`validate(events, ...)` runs TLC on the generated instance and returns
(accepted: bool, info: dict) where info has TLC's state count, the line reached and, on
rejection, the first unconsumed event or the violated invariant.
"""
from __future__ import annotations

import json
import os
from pathlib import Path

from .core import Inconclusive, SPEC, mkscratch, tlc, run, base_env, log

INVARIANTS = ("NeverHalfWritten Mutex LockHolder POnlyOwnRemoved PTmpClean PSharedAlive PWriteOwn PNoOrphan "
              "PDepsFirst PLinkLast PFactsComplete PAsmNames POkMeansLinked PLinkUnderGo EndClean "
              "PDebugComplete PDebugOwnKey PForcedRebuilt DbgRestoredListed")


def tla_str(s: str) -> str:
    return '"' + s.replace("\\", "\\\\").replace('"', '\\"') + '"'


def tla_set(xs) -> str:
    return "{" + ", ".join(tla_str(x) for x in sorted(set(xs))) + "}"


def tla_fun(d: dict, val=tla_str) -> str:
    """explicit function as a chain of :> and @@ (TLC module)"""
    if not d:
        return "<<>>"
    return "(" + " @@ ".join(f"{tla_str(k)} :> {val(v)}" for k, v in sorted(d.items())) + ")"


def go_list(srcdir: Path, env: dict, args=("./...",), flags=()) -> dict:
    """import graph of a build from the go command: {pkg: {"imports": [...], "deps": [...]}}"""
    r = run(["go", "list", "-deps", "-json=ImportPath,Imports,Deps", *flags, *args], cwd=srcdir, env=env, timeout=300)
    if r.returncode != 0:
        raise Inconclusive(f"go list failed: {r.stderr[-1000:]}")
    out = {}
    dec = json.JSONDecoder()
    s, i = r.stdout, 0
    while i < len(s):
        while i < len(s) and s[i].isspace():
            i += 1
        if i >= len(s):
            break
        obj, j = dec.raw_decode(s, i)
        i = j
        out[obj["ImportPath"]] = {"imports": [x for x in obj.get("Imports", []) if x != "C"], "deps": obj.get("Deps", [])}
    return out


class Projection:
    def __init__(self):
        self.events = []      # abstract events
        self.tops = []        # top ids in cmd-start order
        self.links = []       # link child ids
        self.link_top = {}
        self.link_pkg = {}
        self.dir_of = {}      # top -> shared dir basename
        self.pkgs = []        # first-seen order
        self.asm = set()
        self.real_asm = {"asm2"}
        self.named_asm = set()
        self.obf_seen = {}
        self.compiled = {}    # top -> set of pkgs with a compile child
        self.kills = 0
        self.dropped = 0
        self.cmds = {}
        self.keys = {}        # (top, pkg) -> GarbleActionID as first logged
        self.dbg_tops = set() # commands run with -debugdir (they logged debugdir-claimed)


def project(events: list, kills: dict | None = None) -> Projection:
    """kills: {GARBLE_VERIF_ID or top index -> True}: the harness SIGKILLed that command's process
    group; a `kill` line is appended after its last recorded event."""
    P = Projection()
    top_of_pid, top_of_sh, dirpath = {}, {}, {}
    kid_of_pid = {}          # pid -> (t, p, tool) | ("link", lid)
    asm_count, real_count = {}, {}
    link_ok = {}
    ident_of_top = {}
    last_index = {}
    cache_dir = {}
    # asm children: -gensymabis decides which of the two runs it is
    gensym = {e["pid"] for e in events if e.get("ev") == "tool-run" and e.get("tool") == "asm" and "-gensymabis" in (e.get("argv") or [])}
    ran = {e["pid"] for e in events if e.get("ev") == "tool-run"}
    for e in events:
        ev, pid = e.get("ev"), e.get("pid")
        out = None
        if ev == "cmd-start":
            t = f"T{len(P.tops) + 1}"
            P.tops.append(t)
            top_of_pid[pid] = t
            ident_of_top[t] = e.get("id", "")
            P.cmds[t] = e.get("command")
            P.compiled[t] = set()
            out = {"ev": ev, "t": t}
        elif ev == "shared-created":
            t = top_of_pid.get(pid)
            if t is None:
                P.dropped += 1
                continue
            name = os.path.basename(e["dir"])
            top_of_sh[name] = t
            P.dir_of[t] = name
            dirpath[t] = e["dir"]
            cache_dir[t] = e.get("cache_dir", "")
            out = {"ev": ev, "t": t, "dir": name}
        elif ev in ("go-start", "go-done"):
            t = top_of_pid.get(pid)
            if t is None:
                P.dropped += 1
                continue
            out = {"ev": ev, "t": t}
            if ev == "go-done":
                out["ok"] = bool(e.get("ok"))
        elif ev == "shared-remove":
            t = top_of_pid.get(pid)
            if t is None:          # garble reverse / map: no cmd-start event, not part of this model
                P.dropped += 1
                continue
            out = {"ev": ev, "t": t, "dir": os.path.basename(e.get("dir") or "") or "unset"}
        elif ev == "toolexec-start":
            t = top_of_sh.get(e.get("sh", ""))
            if t is None:
                raise Inconclusive(f"toolexec child with unknown shared dir {e.get('sh')!r}")
            if e.get("version"):
                out = {"ev": "version-query", "t": t}
            elif e["tool"] == "link":
                lid = f"L{len(P.links) + 1}"
                P.links.append(lid)
                P.link_top[lid] = t
                P.link_pkg[lid] = e.get("pkg", "")
                kid_of_pid[pid] = ("link", lid)
                out = {"ev": ev, "t": lid, "tool": "link"}
            else:
                p = e.get("pkg", "")
                tool = e["tool"]
                if tool == "asm":
                    n = asm_count.get((t, p), 0) + 1
                    asm_count[(t, p)] = n
                    # one run with -gensymabis, then one real run per .s file
                    if pid in gensym or (pid not in ran and n == 1):
                        tool = "asm1"
                    else:
                        r = real_count.get((t, p), 0) + 1
                        real_count[(t, p)] = r
                        tool = f"asm{r + 1}"
                        P.real_asm.add(tool)
                    P.asm.add(p)
                else:
                    P.compiled[t].add(p)
                if p not in P.pkgs:
                    P.pkgs.append(p)
                kid_of_pid[pid] = (t, p, tool)
                out = {"ev": ev, "t": t, "p": p, "tool": tool}
        elif ev in ("debugdir-claimed", "debugdir-needs-rebuild", "debugdir-restore") and pid in top_of_pid:
            t = top_of_pid[pid]
            out = {"ev": ev, "t": t}
            if ev == "debugdir-claimed":
                P.dbg_tops.add(t)
            elif ev == "debugdir-needs-rebuild":
                out["needs"] = bool(e.get("needs"))
            else:
                if e.get("pkg", "") not in P.pkgs:
                    # artifacts of listed packages that are not part of this build's tool runs: outside the model's
                    # package set; restoring them is harmless (they are this command's own keys) - not projected
                    P.dropped += 1
                    continue
                out["p"], out["kind"] = e.get("pkg", ""), e.get("kind", "")
        elif ev in ("hash-input", "tool-version") or (ev or "").startswith("debugdir-") and pid not in kid_of_pid:
            P.dropped += 1
            continue
        elif pid in kid_of_pid:
            kid = kid_of_pid[pid]
            if kid[0] == "link":
                lid = kid[1]
                if ev == "tool-run":
                    t = P.link_top[lid]
                    want = os.path.join(cache_dir.get(t, ""), "tool", "link")
                    out = {"ev": ev, "t": lid, "tool": "link", "patched": e.get("exe") == want}
                elif ev == "tool-done":
                    link_ok[lid] = bool(e.get("ok"))
                    if not e.get("ok"):
                        P.dropped += 1
                        continue
                    out = {"ev": ev, "t": lid, "tool": "link", "ok": True}
                elif ev == "link-unlock":
                    out = {"ev": ev if link_ok.get(lid) else "link-unlock-failed", "t": lid}
                elif ev == "link-version-checked":
                    out = {"ev": ev, "t": lid, "stamp_ok": bool(e.get("stamp_ok"))}
                elif ev.startswith("link-"):
                    out = {"ev": ev, "t": lid}
                else:
                    P.dropped += 1
                    continue
            else:
                t, p, tool = kid
                base = {"t": t, "p": p, "tool": tool}
                if ev == "compile-start":
                    P.obf_seen[p] = bool(e.get("obfuscate"))
                    out = dict(base, ev=ev, obf=bool(e.get("obfuscate")), key=e.get("key", ""))
                    P.keys.setdefault((t, p), e.get("key", ""))
                elif ev == "pkgcache-get":
                    ident = e.get("aid") or e.get("key", "")     # identity of (configuration, source): the GarbleActionID
                    out = dict(base, ev=ev, hit=bool(e.get("hit")), key=ident)
                    P.keys.setdefault((t, p), ident)
                elif ev in ("pkgcache-dep", "pkgcache-put"):
                    ident = e.get("aid") or e.get("key", "")
                    out = dict(base, ev=ev, q=e.get("pkg", ""), key=ident)
                    P.keys.setdefault((t, e.get("pkg", "")), ident)
                    if e.get("pkg", "") not in P.pkgs:
                        P.pkgs.append(e.get("pkg", ""))
                elif ev == "pkgcache-dep-hit":
                    out = dict(base, ev=ev, q=e.get("pkg", ""))
                elif ev in ("asmnames-put", "asmnames-get"):
                    out = dict(base, ev=ev)
                    if ev == "asmnames-put":
                        P.named_asm.add(p)
                elif ev == "debugdir-put":
                    out = dict(base, ev=ev, kind=e.get("kind", ""))
                elif ev == "write-source":
                    d = dirpath.get(t, "\0")
                    out = dict(base, ev=ev, inshared=str(e.get("path", "")).startswith(d.rstrip("/") + "/"))
                elif ev == "tool-run":
                    out = dict(base, ev=ev)
                elif ev == "tool-done":
                    out = dict(base, ev=ev, ok=bool(e.get("ok")))
                else:
                    P.dropped += 1
                    continue
        else:
            # tool-run / tool-done of tools garble does not transform (cgo, pack, buildid, vet ...),
            # events of garble reverse / map / nested helper commands
            P.dropped += 1
            continue
        if out is not None:
            P.events.append(out)
            top = out["t"] if out["t"] in P.tops else P.link_top.get(out["t"])
            last_index[top] = len(P.events)
    if kills:
        # append the kill lines after the last event of the killed command (the process group is gone)
        for key in kills:
            for t in P.tops:
                if key in (t, ident_of_top.get(t)):
                    idx = last_index.get(t, len(P.events))
                    P.events.insert(idx, {"ev": "kill", "t": t})
                    P.kills += 1
                    for k2 in last_index:
                        if last_index[k2] >= idx and k2 != t:
                            last_index[k2] += 1
    return P


def instance(P: Projection, golist: dict | None = None, cfg_of: dict | None = None, cold_gk: bool = True,
             obf_pkgs=None, init_gk=(), inherit: dict | None = None, linker_init: tuple | None = None) -> tuple:
    """-> (module text of PipelineTraceMC, cfg text)"""
    pkgs = list(P.pkgs)
    pset = set(pkgs)
    golist = golist or {}
    imports = {p: sorted(set(golist.get(p, {}).get("imports", [])) & pset) for p in pkgs}
    trans = {p: sorted(set(golist.get(p, {}).get("deps", [])) & pset) for p in pkgs}
    reflect = [p for p in pkgs if "reflect" in golist.get(p, {}).get("deps", [])] if golist else []
    obf = sorted(obf_pkgs) if obf_pkgs is not None else sorted(p for p, v in P.obf_seen.items() if v)
    # identity of (configuration, source) per command and package: the GarbleActionID the command logged
    ident = {t: {p: P.keys.get((t, p)) or f"unseen:{t}:{p}" for p in pkgs} for t in P.tops}
    compiled_ids = {(p, ident[t][p]) for t in P.tops for p in P.compiled.get(t, set())}
    init_go = sorted({(p, ident[t][p]) for t in P.tops for p in pkgs} - compiled_ids)
    link_needs = {}
    for lid in P.links:
        lp = P.link_pkg.get(lid, "")
        deps = set(golist.get(lp, {}).get("deps", [])) | ({lp} if lp in golist else set())
        link_needs[lid] = sorted(deps & pset)
    inherit = inherit or {}

    def pair_set(pairs):
        return "{" + ", ".join(f"<<{tla_str(a)}, {tla_str(b)}>>" for a, b in pairs) + "}"

    procs = P.links or ["L0"]
    link_top = dict(P.link_top) if P.links else {"L0": (P.tops[0] if P.tops else "T0")}
    if not P.links:
        link_needs = {"L0": []}
    mod = f"""---- MODULE PipelineTraceMC ----
EXTENDS PipelineTrace
MCTops == {tla_set(P.tops)}
MCTopSeq == <<{", ".join(tla_str(t) for t in P.tops)}>>
MCLinkTop == {tla_fun(link_top)}
MCLinkNeeds == {tla_fun(link_needs, tla_set)}
MCPkgSeq == <<{", ".join(tla_str(p) for p in pkgs)}>>
MCImports == {tla_fun(imports, tla_set)}
MCTransDeps == {tla_fun(trans, tla_set)}
MCAsm == {tla_set(P.asm)}
MCReflect == {tla_set(reflect)}
MCObf == {tla_set(obf)}
MCNamedAsm == {tla_set(P.named_asm)}
MCCfgOf == {tla_fun(ident, tla_fun)}
MCDirName == {tla_fun({t: P.dir_of.get(t, "nodir-" + t) for t in P.tops})}
MCInherit == {tla_fun({t: inherit.get(t, "none") for t in P.tops})}
MCInitGo == {pair_set(init_go)}
MCInitGk == {pair_set(sorted(init_gk))}
MCDbgTops == {tla_set(P.dbg_tops)}
MCNoDk == {{}}
MCLinkerInit == {"{<<" + tla_str(linker_init[0]) + ", " + tla_str(linker_init[1]) + ">>}" if linker_init else "InitAny"}
====
"""
    cfg = f"""SPECIFICATION TraceSpec
CONSTANTS
  Procs = {{{", ".join(tla_str(x) for x in procs)}}}
  CopyMode = TRUE
  MaxKills = {P.kills}
  MaxDamage = 0
  InitStates <- MCLinkerInit
  TmpRename = TRUE
  Tops <- MCTops
  TopSeq <- MCTopSeq
  LinkTop <- MCLinkTop
  LinkNeeds <- MCLinkNeeds
  TransDeps <- MCTransDeps
  PkgSeq <- MCPkgSeq
  Imports <- MCImports
  AsmPkgs <- MCAsm
  RealAsm = {tla_set(P.real_asm)}
  CfgOf <- MCCfgOf
  MayFail = TRUE
  ReflectPkgs <- MCReflect
  ObfPkgs <- MCObf
  NamedAsmPkgs <- MCNamedAsm
  InitGo <- MCInitGo
  InitGk <- MCInitGk
  DirName <- MCDirName
  InheritFrom <- MCInherit
  ForgetInherited = TRUE
  DbgTops <- MCDbgTops
  InitDk <- MCNoDk
  ForceAll = TRUE
  ColdGk = {"TRUE" if cold_gk else "FALSE"}
INVARIANTS {INVARIANTS}
CONSTRAINT HighWater
POSTCONDITION TraceAccepted
CHECK_DEADLOCK FALSE
"""
    return mod, cfg


def validate(events: list, golist: dict | None = None, kills: dict | None = None, timeout=900, **kw):
    """-> (accepted, info).  A rejection is a lead (MODEL-MISMATCH unless a property observable fails)."""
    P = project(events, kills)
    if not P.tops:
        return True, {"events": 0, "note": "no top-level build command in the trace"}
    mod, cfg = instance(P, golist, **kw)
    nd = "".join(json.dumps(e) + "\n" for e in P.events)
    work = mkscratch("tlc-pipeline")
    r = tlc("PipelineTraceMC", "PipelineTrace-gen.cfg", workdir=work, workers=1, timeout=timeout,
            files={"PipelineTraceMC.tla": mod, "PipelineTrace-gen.cfg": cfg, "pipeline_trace.ndjson": nd},
            jvm=("-Dtlc2.tool.queue.IStateQueue=StateDeque",))
    info = {"events": len(P.events), "dropped": P.dropped, "tops": len(P.tops), "links": len(P.links), "pkgs": len(P.pkgs),
            "states": r.distinct, "generated": r.states, "violated": r.violated, "error": r.error}
    if not r.ok:
        info["tail"] = r.out[-1500:]
    info["_tlc"] = r
    info["_trace"] = nd
    return r.ok, info
