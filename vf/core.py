"""Common plumbing for the garble verification checks.

Everything a check needs that is not specific to one property lives here:

* toolchain environment (go1.26.2 from the module cache, offline)
* building garble from /repo's *current working tree* with -tags verif
* scratch directories (under /dev/shm or $VERIF_SCRATCH), removed at exit
* the template GOCACHE (plain std objects, independent of the garble binary)
* running garble / go in private GOCACHE / GARBLE_CACHE / TMPDIR / HOME
* TLC runner (exhaustive, simulate, trace validation) with summary parsing
* verdict bookkeeping: violations, known findings, evidence files

Verdict policy (DESIGN.md section 6): exit 0 = held; exit 1 + VIOLATION line = the
real garble showed the property's observable failing; exit 2 = inconclusive
(infrastructure failure) and never a verdict.
"""
from __future__ import annotations

import atexit
import fcntl
import hashlib
import json
import os
import random
import re
import shutil
import signal
import subprocess
import sys
import tempfile
import time
from pathlib import Path

VERIF = Path(__file__).resolve().parent.parent
REPO = Path(os.environ.get("VERIF_REPO", "/repo"))
CACHE = VERIF / ".cache"
SPEC = VERIF / "spec"
# VERIF_OUT redirects evidence and replay artifacts (used when the machinery is tried against a
# scratch worktree carrying a seeded change, so that the committed evidence is not overwritten)
_OUT = Path(os.environ["VERIF_OUT"]) if os.environ.get("VERIF_OUT") else VERIF
EVIDENCE = _OUT / "evidence"
REPLAYS = _OUT / "replays"
TOOLCHAIN = Path("/root/go/pkg/mod/golang.org/toolchain@v0.0.1-go1.26.2.linux-amd64")
FALLBACK_TOOLCHAIN = Path("/opt/veriftools/go1.26.8")
TLA_JAR = "/opt/veriftools/tla/tla2tools.jar"
COMMUNITY_JAR_GLOB = "/opt/veriftools/tla/*.jar"


class Inconclusive(Exception):
    """Infrastructure failure: maps to exit 2, never to a verdict."""


def log(*a):
    print("[verif]", *a, file=sys.stderr, flush=True)


# --------------------------------------------------------------------------- env

def goroot() -> Path:
    if TOOLCHAIN.exists():
        return TOOLCHAIN
    return FALLBACK_TOOLCHAIN


def base_env() -> dict:
    """Environment for building garble and the harness (normal module cache)."""
    env = dict(os.environ)
    env["PATH"] = f"{goroot()}/bin:" + env.get("PATH", "")
    env["GOTOOLCHAIN"] = "local"
    env["GOFLAGS"] = "-mod=mod"
    env["GOPROXY"] = "off"
    env["GOSUMDB"] = "off"
    env["GONOSUMDB"] = "*"
    env["CGO_ENABLED"] = env.get("CGO_ENABLED", "1")
    for k in list(env):
        if k.startswith("GARBLE_") or k in ("GOGARBLE",):
            del env[k]
    return env


# --------------------------------------------------------------------------- scratch

_scratch_root: Path | None = None


def scratch_root() -> Path:
    global _scratch_root
    if _scratch_root is None:
        parent = os.environ.get("VERIF_SCRATCH")
        if not parent:
            parent = "/dev/shm" if os.path.isdir("/dev/shm") and os.access("/dev/shm", os.W_OK) else tempfile.gettempdir()
        _scratch_root = Path(tempfile.mkdtemp(prefix="garble-verif.", dir=parent))
        atexit.register(_cleanup_scratch)
    return _scratch_root


def _cleanup_scratch():
    if _scratch_root is not None and not os.environ.get("VERIF_KEEP_SCRATCH"):
        # files in GOMODCACHE-like trees may be read-only
        subprocess.run(["chmod", "-R", "u+w", str(_scratch_root)], stderr=subprocess.DEVNULL)
        shutil.rmtree(_scratch_root, ignore_errors=True)


def mkscratch(name: str) -> Path:
    d = scratch_root() / name
    if d.exists():
        d = Path(tempfile.mkdtemp(prefix=name + ".", dir=scratch_root()))
    else:
        d.mkdir(parents=True)
    return d


def rmtree(p: Path | str):
    subprocess.run(["chmod", "-R", "u+w", str(p)], stderr=subprocess.DEVNULL)
    shutil.rmtree(p, ignore_errors=True)


class FileLock:
    def __init__(self, path: Path):
        self.path = path

    def __enter__(self):
        self.path.parent.mkdir(parents=True, exist_ok=True)
        self.f = open(self.path, "w")
        fcntl.flock(self.f, fcntl.LOCK_EX)
        return self

    def __exit__(self, *a):
        fcntl.flock(self.f, fcntl.LOCK_UN)
        self.f.close()


# --------------------------------------------------------------------------- building garble

_garble_bins: dict = {}


def build_garble(tags: str = "verif") -> Path:
    """Build garble from /repo's current working tree. Returns the binary path.

    The binary lives in the scratch root, so every check invocation rebuilds it
    (incrementally, through the Go build cache under /verif/.cache/gobuild).
    """
    if tags in _garble_bins:
        return _garble_bins[tags]
    out = scratch_root() / ("garble-" + tags.replace(",", "-") if tags else "garble-plain")
    out.mkdir(exist_ok=True)
    binp = out / "garble"
    env = base_env()
    env["GOCACHE"] = str(CACHE / "gobuild")
    (CACHE / "gobuild").mkdir(parents=True, exist_ok=True)
    cmd = ["go", "build", "-o", str(binp)]
    if tags:
        cmd += ["-tags", tags]
    cmd += ["."]
    t0 = time.time()
    r = subprocess.run(cmd, cwd=REPO, env=env, capture_output=True, text=True)
    if r.returncode != 0:
        raise Inconclusive(f"garble does not build (tags={tags}):\n{r.stdout}\n{r.stderr}")
    log(f"built garble tags={tags!r} in {time.time()-t0:.1f}s")
    _garble_bins[tags] = binp
    return binp


def garble_id(binp: Path) -> str:
    h = hashlib.sha256()
    with open(binp, "rb") as f:
        for chunk in iter(lambda: f.read(1 << 20), b""):
            h.update(chunk)
    return h.hexdigest()[:16]


_harness_bins: dict = {}


def build_harness(pkg: str, tags: str = "") -> Path:
    """Build a command of the harness Go module (/verif/harness/cmd/<pkg>).

    The module is copied to scratch and its go.mod generated with a replace
    directive to the repository under check (REPO), so VERIF_REPO is honoured."""
    key = (pkg, tags)
    if key in _harness_bins:
        return _harness_bins[key]
    out = scratch_root() / "harness-bin"
    out.mkdir(exist_ok=True)
    binp = out / (pkg + ("-" + tags.replace(",", "-") if tags else ""))
    env = base_env()
    env["GOCACHE"] = str(CACHE / "gobuild")
    hdir = scratch_root() / "harness-src"
    if not hdir.exists():
        shutil.copytree(VERIF / "harness", hdir)
        (hdir / "go.mod").write_text((VERIF / "harness" / "go.mod.tmpl").read_text().replace("@REPO@", str(REPO)))
        # go.sum must cover garble's dependencies
        shutil.copyfile(REPO / "go.sum", hdir / "go.sum")
    cmd = ["go", "build", "-o", str(binp)]
    if tags:
        cmd += ["-tags", tags]
    cmd += ["./cmd/" + pkg]
    r = subprocess.run(cmd, cwd=hdir, env=env, capture_output=True, text=True)
    if r.returncode != 0:
        raise Inconclusive(f"harness {pkg} does not build:\n{r.stdout}\n{r.stderr}")
    _harness_bins[key] = binp
    return binp


# --------------------------------------------------------------------------- sandboxes

TEMPLATE_PROGRAM = """package main

import (
	_ "bytes"
	_ "encoding/base64"
	_ "encoding/hex"
	_ "encoding/json"
	_ "errors"
	_ "fmt"
	_ "os"
	_ "reflect"
	_ "runtime"
	_ "runtime/debug"
	_ "sort"
	_ "strconv"
	_ "strings"
	_ "sync"
	_ "sync/atomic"
	_ "time"
	_ "unsafe"
)

func main() {}
"""


def template_gocache() -> Path:
    """A GOCACHE holding the plain (un-obfuscated) std objects that garble's own
    `go list -export -deps` produces. Independent of the garble binary, so it is
    built once (about 40 s) and copied for every 'cold' experiment."""
    tdir = CACHE / "template-gocache"
    stamp = CACHE / "template-gocache.ok"
    with FileLock(CACHE / "template.lock"):
        if stamp.exists() and tdir.exists():
            return tdir
        rmtree(tdir)
        tdir.mkdir(parents=True)
        work = mkscratch("template-build")
        (work / "src").mkdir()
        (work / "src" / "go.mod").write_text("module example.com/template\n\ngo 1.26\n")
        (work / "src" / "main.go").write_text(TEMPLATE_PROGRAM)
        sb = Sandbox(work / "sb", gocache=tdir)
        t0 = time.time()
        r = sb.garble(["build"], cwd=work / "src", env={"GOGARBLE": "nomatch.example/none"}, timeout=900)
        if "does not match any packages" not in r.stderr:
            raise Inconclusive(f"template GOCACHE build failed: rc={r.returncode}\n{r.stderr[-2000:]}")
        log(f"template GOCACHE built in {time.time()-t0:.1f}s")
        rmtree(work)
        stamp.write_text("ok\n")
        return tdir


def copytree(src: Path, dst: Path):
    dst.parent.mkdir(parents=True, exist_ok=True)
    r = subprocess.run(["cp", "-a", str(src), str(dst)], capture_output=True, text=True)
    if r.returncode != 0:
        raise Inconclusive(f"cp -a {src} {dst}: {r.stderr}")


class Result:
    def __init__(self, rc, stdout, stderr, wall, timed_out=False):
        self.returncode, self.stdout, self.stderr, self.wall, self.timed_out = rc, stdout, stderr, wall, timed_out

    def __repr__(self):
        return f"Result(rc={self.returncode}, wall={self.wall:.1f}s)"


def run(cmd, cwd=None, env=None, timeout=600, stdin=None, new_session=False, binary=False) -> Result:
    t0 = time.time()
    p = subprocess.Popen([str(c) for c in cmd], cwd=cwd, env=env, stdin=subprocess.PIPE if stdin is not None else subprocess.DEVNULL,
                         stdout=subprocess.PIPE, stderr=subprocess.PIPE, start_new_session=new_session)
    try:
        if stdin is not None and not isinstance(stdin, bytes):
            stdin = stdin.encode()
        out, err = p.communicate(stdin, timeout=timeout)
        to = False
    except subprocess.TimeoutExpired:
        try:
            if new_session:
                os.killpg(p.pid, signal.SIGKILL)
            else:
                p.kill()
        except ProcessLookupError:
            pass
        out, err = p.communicate()
        to = True
    if not binary:
        out, err = out.decode("utf-8", "replace"), err.decode("utf-8", "replace")
    return Result(p.returncode, out, err, time.time() - t0, to)


class Sandbox:
    """Private GOCACHE / GARBLE_CACHE / TMPDIR / HOME / GOMODCACHE for garble runs.

    GOMODCACHE is an empty scratch directory: generated programs have no module
    dependencies, and with GOROOT outside GOMODCACHE the patched linker can be
    built with -overlay (see DESIGN.md section 7).
    """

    def __init__(self, root: Path, gocache: Path | None = None, gcache: Path | None = None,
                 tmpdir: Path | None = None, template: bool = False, garble_bin: Path | None = None):
        self.root = Path(root)
        self.root.mkdir(parents=True, exist_ok=True)
        self.gocache = Path(gocache) if gocache else self.root / "gocache"
        self.gcache = Path(gcache) if gcache else self.root / "garblecache"
        self.tmpdir = Path(tmpdir) if tmpdir else self.root / "tmp"
        self.home = self.root / "home"
        self.modcache = self.root / "modcache"
        for d in (self.gcache, self.tmpdir, self.home, self.modcache):
            d.mkdir(parents=True, exist_ok=True)
        if template and not self.gocache.exists():
            copytree(template_gocache(), self.gocache)
        self.gocache.mkdir(parents=True, exist_ok=True)
        self.garble_bin = garble_bin

    def env(self, extra: dict | None = None) -> dict:
        env = base_env()
        env.update({
            "GOCACHE": str(self.gocache),
            "GARBLE_CACHE": str(self.gcache),
            "TMPDIR": str(self.tmpdir),
            "HOME": str(self.home),
            "GOMODCACHE": str(self.modcache),
            "GOFLAGS": "",
            "GOWORK": "off",
        })
        if extra:
            for k, v in extra.items():
                if v is None:
                    env.pop(k, None)
                else:
                    env[k] = str(v)
        return env

    def garble(self, args, cwd, env=None, timeout=3000, trace: Path | None = None, ident: str | None = None,
               stdin=None, new_session=False, garble_bin: Path | None = None) -> Result:
        binp = garble_bin or self.garble_bin or build_garble("verif")
        e = dict(env or {})
        if trace is not None:
            e["GARBLE_VERIF_TRACE"] = str(trace)
        if ident is not None:
            e["GARBLE_VERIF_ID"] = ident
        return run([binp] + list(args), cwd=cwd, env=self.env(e), timeout=timeout, stdin=stdin, new_session=new_session)

    def go(self, args, cwd, env=None, timeout=3000) -> Result:
        return run(["go"] + list(args), cwd=cwd, env=self.env(env), timeout=timeout)

    def tmp_leftovers(self) -> list:
        return sorted(p.name for p in self.tmpdir.iterdir())


def sha256_file(p: Path) -> str:
    h = hashlib.sha256()
    with open(p, "rb") as f:
        for chunk in iter(lambda: f.read(1 << 20), b""):
            h.update(chunk)
    return h.hexdigest()


def tree_digest(root: Path, exclude=()) -> dict:
    """Map relative path -> (kind, sha256|target) of a directory tree."""
    out = {}
    root = Path(root)
    if not root.exists():
        return out
    for dirpath, dirnames, filenames in os.walk(root):
        dirnames.sort()
        rel = os.path.relpath(dirpath, root)
        if rel != ".":
            out[rel + "/"] = ("dir", "")
        for fn in sorted(filenames):
            p = Path(dirpath) / fn
            r = os.path.relpath(p, root)
            if any(r == x or r.startswith(x + "/") for x in exclude):
                continue
            if p.is_symlink():
                out[r] = ("link", os.readlink(p))
            else:
                out[r] = ("file", sha256_file(p))
    return out


def write_module(dirp: Path, files: dict, module: str = "example.com/prog", gover: str = "1.26"):
    dirp = Path(dirp)
    dirp.mkdir(parents=True, exist_ok=True)
    if "go.mod" not in files:
        (dirp / "go.mod").write_text(f"module {module}\n\ngo {gover}\n")
    for rel, content in files.items():
        p = dirp / rel
        p.parent.mkdir(parents=True, exist_ok=True)
        if isinstance(content, bytes):
            p.write_bytes(content)
        else:
            p.write_text(content)


def read_trace(path: Path) -> list:
    evs = []
    if not Path(path).exists():
        return evs
    with open(path) as f:
        for line in f:
            line = line.strip()
            if line:
                evs.append(json.loads(line))
    return evs


# --------------------------------------------------------------------------- TLC

class TLCResult:
    def __init__(self, rc, out, states, distinct, depth, violated, wall, error):
        self.returncode, self.out = rc, out
        self.states, self.distinct, self.depth = states, distinct, depth
        self.violated, self.wall, self.error = violated, wall, error

    @property
    def ok(self):
        return self.returncode == 0 and not self.violated and not self.error


def _parse_tlc(out: str):
    states = distinct = depth = 0
    for m in re.finditer(r"(\d[\d,]*) states generated, (\d[\d,]*) distinct states found", out):
        states, distinct = int(m.group(1).replace(",", "")), int(m.group(2).replace(",", ""))
    m = re.search(r"The depth of the complete state graph search is (\d+)", out)
    if m:
        depth = int(m.group(1))
    violated = None
    m = re.search(r"Invariant (\S+) is violated", out)
    if m:
        violated = m.group(1)
    m2 = re.search(r"Action property (\S+) is violated|Temporal properties were violated", out)
    if m2 and not violated:
        violated = m2.group(1) or "temporal"
    if "The postcondition" in out and "false" in out and not violated:
        if re.search(r"postcondition.*(violated|false)", out, re.I | re.S):
            violated = "postcondition"
    if re.search(r"Deadlock reached", out) and not violated:
        violated = "deadlock"
    return states, distinct, depth, violated


def tlc(module: str, cfg: str, workdir: Path | None = None, workers: int | str = "auto", extra=(), timeout=1800,
        files: dict | None = None, jvm=(), deadlock=False, simulate: str | None = None, depth: int | None = None,
        seed: int | None = None) -> TLCResult:
    """Run TLC on spec/<module>.tla with spec/cfg/<cfg> in a scratch copy of spec/.

    `files` are extra files to drop into the scratch copy (e.g. trace.ndjson).
    Returns a TLCResult; raises Inconclusive on JVM failure / timeout.
    """
    work = Path(workdir) if workdir else mkscratch("tlc-" + module)
    for p in SPEC.glob("*.tla"):
        shutil.copyfile(p, work / p.name)
    cfgsrc = SPEC / "cfg" / cfg
    if not (files and cfg in files):
        shutil.copyfile(cfgsrc, work / cfgsrc.name)
    for name, content in (files or {}).items():
        if isinstance(content, (bytes, bytearray)):
            (work / name).write_bytes(content)
        else:
            (work / name).write_text(content)
    meta = work / "meta"
    cmd = ["java", "-XX:+UseParallelGC", "-Xss64m", *jvm, "-cp", TLA_JAR_CP(), "tlc2.TLC",
           "-metadir", str(meta), "-config", cfgsrc.name, "-workers", str(workers)]
    if not deadlock:
        cmd += ["-deadlock"]
    if simulate is not None:
        cmd += ["-simulate", simulate]
    if depth is not None:
        cmd += ["-depth", str(depth)]
    if seed is not None:
        cmd += ["-seed", str(seed)]
    cmd += list(extra) + [module + ".tla"]
    env = dict(os.environ)
    env.pop("JAVA_TOOL_OPTIONS", None)
    r = run(cmd, cwd=work, env=env, timeout=timeout)
    out = r.stdout + r.stderr
    if r.timed_out:
        raise Inconclusive(f"TLC timed out after {timeout}s on {module}/{cfg}")
    states, distinct, dep, violated = _parse_tlc(out)
    error = None
    if r.returncode != 0 and not violated:
        # 12 = safety violation, 13 = liveness; others are errors
        m = re.search(r"Error: (.*)", out)
        error = (m.group(1) if m else f"exit {r.returncode}")
        if "StackOverflowError" in out or "OutOfMemoryError" in out:
            raise Inconclusive(f"TLC resource failure on {module}/{cfg}: {error}")
    return TLCResult(r.returncode, out, states, distinct, dep, violated, r.wall, error)


def TLA_JAR_CP() -> str:
    import glob
    jars = sorted(glob.glob(COMMUNITY_JAR_GLOB))
    if TLA_JAR not in jars:
        jars.insert(0, TLA_JAR)
    else:
        jars.remove(TLA_JAR)
        jars.insert(0, TLA_JAR)
    return ":".join(jars)


def tlc_must_pass(module, cfg, **kw) -> TLCResult:
    r = tlc(module, cfg, **kw)
    if not r.ok:
        raise Inconclusive(f"TLC {module}/{cfg} did not pass: violated={r.violated} error={r.error}\n{r.out[-3000:]}")
    return r


# --------------------------------------------------------------------------- verdicts

_current_check = None


class Check:
    """Bookkeeping for one property check run."""

    def __init__(self, pid: str, tier: str, seed: int, level: str = "model_checking"):
        self.pid, self.tier, self.seed, self.level = pid, tier, seed, level
        self.t0 = time.time()
        self.rng = random.Random(seed)
        self.violations: list = []
        self.known_seen: list = []
        self.states = 0
        self.transitions = 0
        self.traces_validated = 0
        self.evaluations = 0
        self.distinct: set = set()
        self.samples: list = []
        self.extra: dict = {}
        self.assumptions: list = []
        self.rule = ""
        self.exhaustive = False
        self.known = [k for k in load_known_findings() if k.get("property") == pid and k.get("status", "open") == "open"]
        global _current_check
        _current_check = self

    # -- coverage
    def add_tlc(self, r: TLCResult):
        self.states += r.distinct
        self.transitions += r.states

    def case(self, key, sample=None, nontrivial=True):
        """Record one real execution (evaluation); key identifies distinct non-trivial cases."""
        self.evaluations += 1
        if nontrivial:
            self.distinct.add(json.dumps(key, sort_keys=True, default=str))
        if sample is not None and len(self.samples) < 8:
            self.samples.append(sample)

    # -- violations
    def violation(self, witness: dict, files: dict | None = None, what: str = ""):
        """Report a real-code violation. `witness` must carry the fields known-finding
        matchers look at. Returns True if it was new (not a known finding)."""
        for k in self.known:
            if finding_matches(k, witness):
                line = f"KNOWN-FINDING: property={self.pid} {k['id']}: {k['what']}"
                if line not in self.known_seen:
                    self.known_seen.append(line)
                    print(line, flush=True)
                return False
        n = len(self.violations) + 1
        if n > 25:
            # enough witnesses: count the rest without writing further replay directories
            self.violations.append({"what": what, "witness": witness, "replay": None})
            return True
        d = REPLAYS / self.pid / f"{self.tier}-{self.seed}-{n}"
        rmtree(d)
        d.mkdir(parents=True, exist_ok=True)
        (d / "witness.json").write_text(json.dumps({"property": self.pid, "what": what, "witness": witness}, indent=1, default=str))
        for name, content in (files or {}).items():
            p = d / name
            p.parent.mkdir(parents=True, exist_ok=True)
            if isinstance(content, (bytes, bytearray)):
                p.write_bytes(content)
            elif isinstance(content, Path):
                if content.is_dir():
                    copytree(content, p)
                elif content.exists():
                    shutil.copyfile(content, p)
            else:
                p.write_text(str(content))
        self.violations.append({"what": what, "witness": witness, "replay": str(d)})
        print(f"VIOLATION property={self.pid} replay={d}", flush=True)
        log(f"violation: {what}: {json.dumps(witness, default=str)[:600]}")
        return True

    # -- finish
    def finish(self) -> int:
        EVIDENCE.mkdir(parents=True, exist_ok=True)
        cov = {
            "states": self.states,
            "transitions": self.transitions,
            "traces_validated_against_impl": self.traces_validated,
            "samples": self.samples or ["(no sample recorded)"],
            "evaluations": self.evaluations,
            "distinct_nontrivial": len(self.distinct),
            "rule": self.rule,
            "exhaustive": self.exhaustive,
            "known_findings_seen": self.known_seen,
        }
        cov.update(self.extra)
        ev = {
            "property_id": self.pid,
            "tier": self.tier,
            "seed": self.seed,
            "level": self.level,
            "coverage": cov,
            "assumptions": self.assumptions,
            "wall_s": round(time.time() - self.t0, 2),
            "violations": len(self.violations),
        }
        (EVIDENCE / f"{self.pid}.json").write_text(json.dumps(ev, indent=1, default=str) + "\n")
        log(f"{self.pid} {self.tier} seed={self.seed}: states={self.states} evaluations={self.evaluations} "
            f"distinct={len(self.distinct)} traces={self.traces_validated} violations={len(self.violations)} "
            f"known={len(self.known_seen)} wall={ev['wall_s']}s")
        return 1 if self.violations else 0


def load_known_findings() -> list:
    p = VERIF / "known_findings.jsonl"
    out = []
    if p.exists():
        for line in p.read_text().splitlines():
            line = line.strip()
            if line and not line.startswith("#"):
                out.append(json.loads(line))
    return out


def finding_matches(k: dict, witness: dict) -> bool:
    """A known finding matches a witness iff every key of its `match` object equals
    the witness's value (lists: witness value must be in the list)."""
    m = k.get("match") or {}
    if not m:
        return False
    for key, want in m.items():
        got = witness.get(key)
        if isinstance(want, list):
            if got not in want:
                return False
        elif got != want:
            return False
    return True


def _exit_after_failure():
    """An infrastructure failure ends the run with exit 2 - unless the real tool had already shown a
    violation before it happened: that verdict stands (it was printed with its replay directory), the
    evidence file is written for the part that ran, and the exit status is 1."""
    c = _current_check
    if c is not None and c.violations:
        c.extra["aborted_after_violation"] = True
        try:
            c.finish()
        except Exception:
            pass
        sys.exit(1)
    sys.exit(2)


def main_wrapper(fn):
    """Run a check function(tier, seed) -> exit code with the exit-2 policy."""
    import argparse
    ap = argparse.ArgumentParser()
    ap.add_argument("--tier", default=os.environ.get("VERIF_TIER", "quick"), choices=["quick", "thorough"])
    ap.add_argument("--seed", type=int, default=int(os.environ.get("VERIF_SEED", "1")))
    ap.add_argument("--replay", default=None)
    a = ap.parse_args()
    if a.replay:
        # replays/<ID>/<tier>-<seed>-<n>/ : show the recorded witness, then re-run the check with the
        # tier and seed that produced it (all random choices derive from the seed, so the case recurs)
        d = Path(a.replay)
        w = d / "witness.json"
        if w.exists():
            print(w.read_text())
        m = re.match(r"(quick|thorough)-(\d+)-\d+$", d.name)
        if m:
            a.tier, a.seed = m.group(1), int(m.group(2))
    try:
        rc = fn(a.tier, a.seed, a.replay) if fn.__code__.co_argcount >= 3 else fn(a.tier, a.seed)
    except Inconclusive as e:
        log("INCONCLUSIVE:", e)
        _exit_after_failure()
    except SystemExit:
        raise
    except BaseException:  # a bug in the machinery is never a verdict
        import traceback
        traceback.print_exc()
        log("INCONCLUSIVE: internal error in the check")
        _exit_after_failure()
    sys.exit(rc)
