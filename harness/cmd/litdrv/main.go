// Command litdrv is the in-process driver for garble's internal/literals package
// (properties C05 and C09).
//
// For every job it parses and type-checks one Go source file, calls the REAL
// literals.Obfuscate with a *math/rand.Rand whose Source is scripted, logs every
// draw (which literals function asked for it, through which math/rand method, and
// what it got) and prints the obfuscated file.  The check then compiles the printed
// program with the regular toolchain, runs it and compares what it prints with the
// original literal values.
//
// The script addresses draws by *choice point* (site): the innermost function of
// the literals package on the call stack, optionally qualified by its caller
// ("randOperator<swap.obfuscate"), plus the math/rand method ("/Intn").  Each
// obfuscated literal has its own set of queues (a new literal starts at every draw
// of pickObfuscator); a choice point whose queue is empty falls back to a seeded
// generator, so a script may pin down only the draws it cares about.
//
// Semantic script values are converted to the 63-bit source values that make the
// real math/rand code return them (go1.26 math/rand):
//
//	Intn, Perm   k      -> Int63 = k<<32   (Int31n: Int31()=k; k<n  =>  result k)
//	Uint32       u      -> Int63 = u<<31
//	Shuffle      u      -> Int63 = u<<31   (u is the Uint32 fed to int31n; the check computes it from (j, n))
//	Float32      1 / 0  -> Int63 = 0 (0.0: Try succeeds) / 0.9*2^63 (Try fails for every probability used)
//	Uint64       x      -> two draws: (x&0xffffffff)<<31 and x>>32
//	Read         bytes  -> seven bytes per draw, low byte first
//
// Read keeps unread bytes of its last 63-bit value inside the Rand; to make every
// Read call start on a fresh value the source calls Rand.Seed (a no-op on the
// scripted source that only resets that buffer) on every non-Read draw.
package main

import (
	"bytes"
	"encoding/json"
	"flag"
	"fmt"
	"go/ast"
	"go/importer"
	"go/parser"
	"go/printer"
	"go/token"
	"go/types"
	mathrand "math/rand"
	"os"
	"runtime"
	"strconv"
	"strings"

	"mvdan.cc/garble/internal/literals"
)

type literalScript map[string][]json.Number

type script struct {
	Seed     int64           `json:"seed"`
	Literals []literalScript `json:"literals"`
	// Rest applies to every literal past the end of Literals (fresh copy per literal).
	Rest literalScript `json:"rest"`
	// Const gives a value for every draw at a choice point ("site/Method", "site<via/Method" or
	// "*/Method") whose queue is empty; used for boundary vectors (all zero, all ones, ...).
	Const map[string]json.Number `json:"const"`
}

type job struct {
	Src   string   `json:"src"`
	Out   string   `json:"out"`
	Log   string   `json:"log"`
	XVars []string `json:"xvars"`
	// Decls, if set, receives one [line, funcLitsBefore, funcLitsAfter] triple per top-level
	// declaration of the input: a declaration gained function literals iff something in it was rewritten.
	Decls string `json:"decls"`
	// Plain: use the seeded generator directly (no scripting, no draw log); for jobs that only
	// need the obfuscated file or the declaration report.
	Plain  bool   `json:"plain"`
	Script script `json:"script"`
}

type result struct {
	OK       bool   `json:"ok"`
	Error    string `json:"error,omitempty"`
	Literals int    `json:"literals"`
	Draws    int    `json:"draws"`
	Scripted int    `json:"scripted"`
}

const litPkg = "mvdan.cc/garble/internal/literals."

// tailSites are choice points of proxyDispatcher.AddToFile, which runs once per file
// after the last literal.
var tailSites = map[string]bool{"AddToFile": true, "junkValue": true, "generateStructLiteral": true}

type draw struct {
	Site, Via, Method string
	Scripted          bool
	Val               string
}

type scriptedSource struct {
	rnd      *mathrand.Rand
	fallback mathrand.Source
	sc       script

	cur     int // index of the literal being obfuscated, -1 before the first
	queues  literalScript
	pending []int64 // second half of a scripted Uint64

	perLit            [][]draw
	tail              []draw
	nDraws, nScripted int
	inSeed            bool
}

func (s *scriptedSource) Seed(int64) {}

func trimFunc(name string) string {
	name = strings.TrimPrefix(name, litPkg)
	name = strings.ReplaceAll(name, "(*", "")
	name = strings.ReplaceAll(name, ")", "")
	// obfRand.pickObfuscator -> pickObfuscator, proxyDispatcher.HideValue -> HideValue,
	// externalKeyProbability.Try -> Try; the obfuscators keep their receiver (swap.obfuscate).
	for _, recv := range []string{"obfRand.", "proxyDispatcher.", "externalKeyProbability.", "externalKey."} {
		name = strings.TrimPrefix(name, recv)
	}
	return name
}

func (s *scriptedSource) where() (site, via, method string) {
	var pcs [32]uintptr
	n := runtime.Callers(3, pcs[:])
	frames := runtime.CallersFrames(pcs[:n])
	for {
		fr, more := frames.Next()
		fn := fr.Function
		switch {
		case strings.HasPrefix(fn, "math/rand."):
			m := fn[strings.LastIndexByte(fn, '.')+1:]
			if m != "read" {
				method = m
			}
		case strings.HasPrefix(fn, litPkg):
			if site == "" {
				site = trimFunc(fn)
			} else if via == "" {
				via = trimFunc(fn)
				return
			}
		}
		if !more {
			return
		}
	}
}

func (s *scriptedSource) pop(site, via, method string) (json.Number, bool) {
	keys := [...]string{site + "<" + via + "/" + method, site + "/" + method, "*/" + method}
	for _, key := range keys[:2] {
		if q := s.queues[key]; len(q) > 0 {
			s.queues[key] = q[1:]
			return q[0], true
		}
	}
	for _, key := range keys {
		if v, ok := s.sc.Const[key]; ok {
			return v, true
		}
	}
	return "", false
}

func (s *scriptedSource) startLiteral() {
	s.cur++
	s.perLit = append(s.perLit, nil)
	var src literalScript
	if s.cur < len(s.sc.Literals) {
		src = s.sc.Literals[s.cur]
	} else {
		src = s.sc.Rest
	}
	s.queues = literalScript{}
	for k, v := range src {
		s.queues[k] = append([]json.Number(nil), v...)
	}
}

func (s *scriptedSource) record(d draw) {
	s.nDraws++
	if d.Scripted {
		s.nScripted++
	}
	if tailSites[d.Site] || s.cur < 0 {
		s.tail = append(s.tail, d)
		return
	}
	s.perLit[s.cur] = append(s.perLit[s.cur], d)
}

func (s *scriptedSource) Int63() int64 {
	site, via, method := s.where()
	if method != "Read" && s.rnd != nil {
		s.rnd.Seed(0) // resets Rand.readPos only; see the package comment
	}
	if len(s.pending) > 0 && method == "Uint64" {
		v := s.pending[0]
		s.pending = s.pending[1:]
		return v
	}
	if site == "pickObfuscator" {
		s.startLiteral()
	}
	d := draw{Site: site, Via: via, Method: method}
	var out int64
	switch method {
	case "Read":
		// up to seven scripted bytes, the rest from the fallback generator
		fb := s.fallback.Int63()
		var got []string
		for i := 0; i < 7; i++ {
			b := byte(fb >> (8 * i))
			if v, ok := s.pop(site, via, method); ok {
				x, _ := strconv.ParseUint(v.String(), 10, 8)
				b = byte(x)
				d.Scripted = true
				got = append(got, strconv.Itoa(int(b)))
			} else {
				got = append(got, "~"+strconv.Itoa(int(b)))
			}
			out |= int64(b) << (8 * i)
		}
		d.Val = strings.Join(got, " ")
	default:
		v, ok := s.pop(site, via, method)
		if !ok {
			out = s.fallback.Int63()
			d.Val = "~" + strconv.FormatInt(out, 10)
			if method == "Uint64" {
				// keep the two halves of an unscripted Uint64 independent of the script
				s.pending = append(s.pending, s.fallback.Int63())
			}
			break
		}
		d.Scripted = true
		d.Val = v.String()
		x, err := strconv.ParseUint(v.String(), 10, 64)
		if err != nil {
			panic(fmt.Sprintf("litdrv: bad script value %q at %s/%s", v, site, method))
		}
		switch method {
		case "Intn", "Perm", "Int31n", "Int31":
			out = int64(x&0x7fffffff) << 32
		case "Uint32", "Shuffle":
			out = int64(x&0xffffffff) << 31
		case "Float32", "Float64":
			if x != 0 {
				out = 0
			} else {
				out = 0x7333333333333333 // 0.9 * 2^63
			}
		case "Uint64":
			out = int64(x&0xffffffff) << 31
			s.pending = append(s.pending, int64(x>>32))
		default: // Int63 and anything unknown: raw
			out = int64(x & (1<<63 - 1))
		}
	}
	s.record(d)
	return out
}

func runJob(j job) (res result) {
	defer func() {
		if r := recover(); r != nil {
			res.OK = false
			res.Error = fmt.Sprintf("panic: %v", r)
		}
	}()
	fset := token.NewFileSet()
	file, err := parser.ParseFile(fset, j.Src, nil, parser.SkipObjectResolution|parser.ParseComments)
	if err != nil {
		return result{Error: "parse: " + err.Error()}
	}
	info := types.Info{
		Types: make(map[ast.Expr]types.TypeAndValue),
		Defs:  make(map[*ast.Ident]types.Object),
		Uses:  make(map[*ast.Ident]types.Object),
	}
	conf := types.Config{}
	if len(file.Imports) > 0 {
		conf.Importer = importer.ForCompiler(fset, "source", nil)
	}
	pkg, err := conf.Check("main", fset, []*ast.File{file}, &info)
	if err != nil {
		return result{Error: "typecheck: " + err.Error()}
	}
	linkStrings := map[*types.Var]string{}
	for _, name := range j.XVars {
		if v, _ := pkg.Scope().Lookup(name).(*types.Var); v != nil {
			linkStrings[v] = "injected"
		}
	}

	countLits := func(n ast.Node) int {
		c := 0
		ast.Inspect(n, func(n ast.Node) bool {
			if _, ok := n.(*ast.FuncLit); ok {
				c++
			}
			return true
		})
		return c
	}
	origDecls := append([]ast.Decl(nil), file.Decls...)
	declRows := make([][3]int, len(origDecls))
	for i, d := range origDecls {
		declRows[i] = [3]int{fset.Position(d.Pos()).Line, countLits(d), 0}
	}

	src := &scriptedSource{fallback: mathrand.NewSource(j.Script.Seed), sc: j.Script, cur: -1}
	rnd := mathrand.New(src)
	src.rnd = rnd
	if j.Plain {
		rnd = mathrand.New(mathrand.NewSource(j.Script.Seed))
	}
	names := 0
	nameFunc := func(_ *mathrand.Rand, base string) string {
		names++
		return "vf" + strconv.Itoa(names) + "_" + base
	}
	file = literals.Obfuscate(rnd, file, &info, linkStrings, nameFunc)

	for i, d := range origDecls {
		declRows[i][2] = countLits(d)
	}
	if j.Decls != "" {
		data, _ := json.Marshal(declRows)
		if err := os.WriteFile(j.Decls, data, 0o666); err != nil {
			return result{Error: err.Error()}
		}
	}

	var buf bytes.Buffer
	if err := printer.Fprint(&buf, fset, file); err != nil {
		return result{Error: "print: " + err.Error()}
	}
	if err := os.WriteFile(j.Out, buf.Bytes(), 0o666); err != nil {
		return result{Error: err.Error()}
	}
	if j.Log != "" {
		f, err := os.Create(j.Log)
		if err != nil {
			return result{Error: err.Error()}
		}
		enc := json.NewEncoder(f)
		row := func(i int, ds []draw) {
			out := make([][5]any, len(ds))
			for k, d := range ds {
				sc := 0
				if d.Scripted {
					sc = 1
				}
				out[k] = [5]any{d.Site, d.Via, d.Method, sc, d.Val}
			}
			enc.Encode(map[string]any{"i": i, "draws": out})
		}
		for i, ds := range src.perLit {
			row(i, ds)
		}
		row(-1, src.tail)
		f.Close()
	}
	return result{OK: true, Literals: len(src.perLit), Draws: src.nDraws, Scripted: src.nScripted}
}

func main() {
	jobsPath := flag.String("jobs", "", "JSON file with the list of jobs")
	flag.Parse()
	data, err := os.ReadFile(*jobsPath)
	if err != nil {
		fmt.Fprintln(os.Stderr, err)
		os.Exit(2)
	}
	var jobs []job
	dec := json.NewDecoder(bytes.NewReader(data))
	dec.UseNumber()
	if err := dec.Decode(&jobs); err != nil {
		fmt.Fprintln(os.Stderr, "litdrv: bad jobs file:", err)
		os.Exit(2)
	}
	out := json.NewEncoder(os.Stdout)
	for _, j := range jobs {
		out.Encode(runJob(j))
	}
}
