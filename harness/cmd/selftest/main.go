// Command selftest checks that the harness module can import garble's internal packages.
package main

import (
	"fmt"

	"mvdan.cc/garble/internal/literals"
)

func main() {
	fmt.Println("obfuscators:", len(literals.Obfuscators))
}
