package main

import (
	"golang.org/x/tools/go/ssa"
	"mvdan.cc/garble/internal/ssa2ast"
)

// markerInstr is the instruction ctrlflow plants in trash blocks.
func markerInstr() *ssa.Panic { return ssa2ast.MarkerInstr }
