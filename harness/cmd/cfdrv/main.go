// Command cfdrv drives the real control-flow obfuscator in-process.
//
// It loads one Go package from source the way garble's transformCompile does
// (go/parser with comments, go/types with Selections+Instances, go/ssa with
// packages created for the direct imports only), calls the real
// ctrlflow.Obfuscate with a *math/rand.Rand whose source is seeded and
// optionally scripted, and writes the generated GARBLE_controlflow.go plus the
// affected files (and copies of the untouched ones) into -out, so that the
// result can be compiled with the regular toolchain and executed.
//
// Additional outputs used by the checks:
//
//	-cfg file      JSON lines: the CFG skeleton of every function carrying a
//	               //garble:controlflow directive before ("stage":"ssa") and
//	               after ("stage":"obf") the transformations (blocks, phis with
//	               their edges, successors, predecessors, exit kind, comments).
//	-drawlog file  JSON lines: every Int63 drawn from the passed generator with
//	               its index, value and the innermost garble frame that asked.
//	-script file   JSON {"force": {"<draw index>": <int63 value>, ...},
//	               "copy": {"<draw index>": <earlier draw index>, ...}}
//	               to force draws (TLC/harness-chosen random choices).
//
// Exit status: 0 ok, 3 the obfuscator returned an error or panicked (that is a
// rejected build, never a verdict), 2 anything else.
package main

import (
	"bytes"
	"encoding/json"
	"flag"
	"fmt"
	"go/ast"
	"go/importer"
	"go/parser"
	"go/printer"
	"go/token"
	"go/types"
	"io"
	"log"
	mathrand "math/rand"
	"os"
	"path/filepath"
	"runtime"
	"sort"
	"strconv"
	"strings"

	"golang.org/x/tools/go/ast/astutil"
	"golang.org/x/tools/go/ssa"
	"mvdan.cc/garble/internal/ctrlflow"
)

// scriptedSource is a rand.Source (deliberately not a Source64, so that every
// draw of the generator funnels through Int63) that logs and can force draws.
type scriptedSource struct {
	inner mathrand.Source
	n     int
	vals  []int64
	force map[int]int64
	copyOf map[int]int
	log   io.Writer
}

func (s *scriptedSource) Seed(seed int64) { s.inner.Seed(seed) }

func (s *scriptedSource) Int63() int64 {
	v := s.inner.Int63()
	if f, ok := s.force[s.n]; ok {
		v = f
	}
	if j, ok := s.copyOf[s.n]; ok && j < len(s.vals) {
		v = s.vals[j]
	}
	s.vals = append(s.vals, v)
	if s.log != nil {
		fmt.Fprintf(s.log, "{\"i\":%d,\"v\":%d,\"by\":%q}\n", s.n, v, callerName())
	}
	s.n++
	return v
}

// callerName returns the innermost frame inside garble's packages together with
// the math/rand method it called, e.g. "ctrlflow.generateKeys/Int31".
func callerName() string {
	pcs := make([]uintptr, 24)
	n := runtime.Callers(3, pcs)
	frames := runtime.CallersFrames(pcs[:n])
	randFn := ""
	for {
		fr, more := frames.Next()
		fn := fr.Function
		switch {
		case strings.HasPrefix(fn, "math/rand."):
			randFn = strings.TrimPrefix(fn, "math/rand.")
			randFn = strings.TrimPrefix(randFn, "(*Rand).")
		case strings.Contains(fn, "mvdan.cc/garble/"):
			fn = fn[strings.LastIndex(fn, "/")+1:]
			return fn + "/" + randFn
		}
		if !more {
			break
		}
	}
	return "?/" + randFn
}

type script struct {
	Force map[string]int64 `json:"force"`
	Copy  map[string]int   `json:"copy"`
}

type phiDump struct {
	Name    string   `json:"name"`
	Comment string   `json:"comment,omitempty"`
	Edges   []string `json:"edges"`
}

type blockDump struct {
	Index   int       `json:"index"`
	Comment string    `json:"comment"`
	Phis    []phiDump `json:"phis"`
	NInstr  int       `json:"ninstr"`
	Marker  bool      `json:"marker,omitempty"`
	Exit    string    `json:"exit"`
	Succs   []int     `json:"succs"`
	Preds   []int     `json:"preds"`
	// Pos is the position of the block inside fn.Blocks (== Index after fixBlockIndexes).
	Pos int `json:"pos"`
}

type funcDump struct {
	Stage  string      `json:"stage"`
	Func   string      `json:"func"`
	Blocks []blockDump `json:"blocks"`
}

func blockPos(fn *ssa.Function, b *ssa.BasicBlock) int {
	for i, x := range fn.Blocks {
		if x == b {
			return i
		}
	}
	return -1
}

func dumpFunc(stage string, fn *ssa.Function) funcDump {
	d := funcDump{Stage: stage, Func: fn.String()}
	for pos, b := range fn.Blocks {
		bd := blockDump{Index: b.Index, Pos: pos, Comment: b.Comment, NInstr: len(b.Instrs), Succs: []int{}, Preds: []int{}, Phis: []phiDump{}}
		for _, in := range b.Instrs {
			if phi, ok := in.(*ssa.Phi); ok {
				pd := phiDump{Name: phi.Name(), Comment: phi.Comment, Edges: []string{}}
				for _, e := range phi.Edges {
					if e == nil {
						pd.Edges = append(pd.Edges, "<nil>")
					} else {
						pd.Edges = append(pd.Edges, e.Name())
					}
				}
				bd.Phis = append(bd.Phis, pd)
			}
			if in == ssa.Instruction(markerInstr()) {
				bd.Marker = true
			}
		}
		if len(b.Instrs) > 0 {
			switch b.Instrs[len(b.Instrs)-1].(type) {
			case *ssa.Jump:
				bd.Exit = "jump"
			case *ssa.If:
				bd.Exit = "if"
			case *ssa.Return:
				bd.Exit = "return"
			case *ssa.Panic:
				bd.Exit = "panic"
			default:
				bd.Exit = "?"
			}
		}
		for _, s := range b.Succs {
			bd.Succs = append(bd.Succs, blockPos(fn, s))
		}
		for _, p := range b.Preds {
			bd.Preds = append(bd.Preds, blockPos(fn, p))
		}
		d.Blocks = append(d.Blocks, bd)
	}
	return d
}

func directiveFuncs(ssaPkg *ssa.Package, files []*ast.File) []*ssa.Function {
	var out []*ssa.Function
	for _, file := range files {
		for _, decl := range file.Decls {
			fd, ok := decl.(*ast.FuncDecl)
			if !ok || fd.Doc == nil {
				continue
			}
			for _, c := range fd.Doc.List {
				if strings.HasPrefix(c.Text, "//garble:controlflow") {
					path, _ := astutil.PathEnclosingInterval(file, fd.Pos(), fd.Pos())
					if fn := ssa.EnclosingFunction(ssaPkg, path); fn != nil {
						out = append(out, fn)
					}
					break
				}
			}
		}
	}
	return out
}

func withAnon(fns []*ssa.Function) []*ssa.Function {
	var out []*ssa.Function
	for _, f := range fns {
		out = append(out, f)
		out = append(out, f.AnonFuncs...)
	}
	return out
}

func main() {
	dir := flag.String("dir", ".", "package directory")
	out := flag.String("out", "", "output directory (created)")
	seed := flag.Int64("seed", 1, "seed of the generator passed to ctrlflow.Obfuscate")
	scriptPath := flag.String("script", "", "JSON script forcing draws")
	drawlog := flag.String("drawlog", "", "write the draw log (JSON lines) here")
	cfgPath := flag.String("cfg", "", "write CFG dumps (JSON lines) here")
	pkgPath := flag.String("pkgpath", "example.com/cfprog", "import path of the package")
	flag.Parse()
	log.SetOutput(io.Discard) // ctrlflow logs every detected function
	if *out == "" {
		fmt.Fprintln(os.Stderr, "cfdrv: -out is required")
		os.Exit(2)
	}

	fset := token.NewFileSet()
	ents, err := os.ReadDir(*dir)
	if err != nil {
		fatal(err)
	}
	var files []*ast.File
	var names []string
	for _, e := range ents {
		if e.IsDir() || !strings.HasSuffix(e.Name(), ".go") || strings.HasSuffix(e.Name(), "_test.go") {
			continue
		}
		names = append(names, e.Name())
	}
	sort.Strings(names)
	for _, name := range names {
		f, err := parser.ParseFile(fset, filepath.Join(*dir, name), nil, parser.SkipObjectResolution|parser.ParseComments)
		if err != nil {
			fatal(err)
		}
		files = append(files, f)
	}
	if len(files) == 0 {
		fatal(fmt.Errorf("no Go files in %s", *dir))
	}

	info := &types.Info{
		Types:      make(map[ast.Expr]types.TypeAndValue),
		Defs:       make(map[*ast.Ident]types.Object),
		Uses:       make(map[*ast.Ident]types.Object),
		Implicits:  make(map[ast.Node]types.Object),
		Selections: make(map[*ast.SelectorExpr]*types.Selection),
		Instances:  make(map[*ast.Ident]types.Instance),
	}
	conf := types.Config{Importer: importer.ForCompiler(fset, "source", nil), Sizes: types.SizesFor("gc", runtime.GOARCH)}
	pkg, err := conf.Check(*pkgPath, fset, files, info)
	if err != nil {
		fatal(fmt.Errorf("typecheck: %v", err))
	}

	// Same construction as garble's ssaBuildPkg.
	ssaProg := ssa.NewProgram(fset, 0)
	for _, p := range pkg.Imports() {
		ssaProg.CreatePackage(p, nil, nil, true)
	}
	ssaPkg := ssaProg.CreatePackage(pkg, files, info, false)
	ssaPkg.Build()

	var cfgOut io.Writer
	if *cfgPath != "" {
		f, err := os.Create(*cfgPath)
		if err != nil {
			fatal(err)
		}
		defer f.Close()
		cfgOut = f
	}
	dfuncs := withAnon(directiveFuncs(ssaPkg, files))
	emit := func(stage string) {
		if cfgOut == nil {
			return
		}
		enc := json.NewEncoder(cfgOut)
		for _, fn := range dfuncs {
			enc.Encode(dumpFunc(stage, fn))
		}
	}
	emit("ssa")

	src := &scriptedSource{inner: mathrand.NewSource(*seed), force: map[int]int64{}, copyOf: map[int]int{}}
	if *scriptPath != "" {
		data, err := os.ReadFile(*scriptPath)
		if err != nil {
			fatal(err)
		}
		var sc script
		if err := json.Unmarshal(data, &sc); err != nil {
			fatal(err)
		}
		for k, v := range sc.Force {
			i, err := strconv.Atoi(k)
			if err != nil {
				fatal(err)
			}
			src.force[i] = v
		}
		for k, v := range sc.Copy {
			i, err := strconv.Atoi(k)
			if err != nil {
				fatal(err)
			}
			src.copyOf[i] = v
		}
	}
	if *drawlog != "" {
		f, err := os.Create(*drawlog)
		if err != nil {
			fatal(err)
		}
		defer f.Close()
		src.log = f
	}
	rnd := mathrand.New(src)

	newName, newFile, affected, err := obfuscate(fset, ssaPkg, files, rnd)
	if err != nil {
		fmt.Fprintln(os.Stderr, "cfdrv: REJECTED:", err)
		os.Exit(3)
	}
	emit("obf")

	if err := os.MkdirAll(*out, 0o777); err != nil {
		fatal(err)
	}
	isAffected := map[*ast.File]bool{}
	for _, f := range affected {
		isAffected[f] = true
		fixUnusedImports(f, info)
	}
	for i, f := range files {
		var buf bytes.Buffer
		if isAffected[f] {
			if err := printer.Fprint(&buf, fset, f); err != nil {
				fatal(err)
			}
		} else {
			data, err := os.ReadFile(filepath.Join(*dir, names[i]))
			if err != nil {
				fatal(err)
			}
			buf.Write(data)
		}
		if err := os.WriteFile(filepath.Join(*out, names[i]), buf.Bytes(), 0o666); err != nil {
			fatal(err)
		}
	}
	if newFile != nil {
		var buf bytes.Buffer
		if err := printer.Fprint(&buf, fset, newFile); err != nil {
			fatal(err)
		}
		if err := os.WriteFile(filepath.Join(*out, newName), buf.Bytes(), 0o666); err != nil {
			fatal(err)
		}
	}
	if data, err := os.ReadFile(filepath.Join(*dir, "go.mod")); err == nil {
		os.WriteFile(filepath.Join(*out, "go.mod"), data, 0o666)
	}
	fmt.Printf("{\"draws\":%d,\"new_file\":%q,\"affected\":%d,\"funcs\":%d}\n", src.n, newName, len(affected), len(dfuncs))
}

// obfuscate calls the real entry point; a panic is reported like an error
// (garble's toolexec process would die and the build would fail).
func obfuscate(fset *token.FileSet, ssaPkg *ssa.Package, files []*ast.File, rnd *mathrand.Rand) (name string, f *ast.File, aff []*ast.File, err error) {
	defer func() {
		if r := recover(); r != nil {
			err = fmt.Errorf("panic: %v", r)
		}
	}()
	return ctrlflow.Obfuscate(fset, ssaPkg, files, rnd)
}

// fixUnusedImports plays the role of transformer.useAllImports: functions moved
// out of the file may leave imports unused; turn those into blank imports.
func fixUnusedImports(f *ast.File, info *types.Info) {
	used := map[string]bool{}
	ast.Inspect(f, func(n ast.Node) bool {
		if sel, ok := n.(*ast.SelectorExpr); ok {
			if id, ok := sel.X.(*ast.Ident); ok {
				used[id.Name] = true
			}
		}
		return true
	})
	for _, imp := range f.Imports {
		if imp.Name != nil && (imp.Name.Name == "_" || imp.Name.Name == ".") {
			continue
		}
		name := ""
		if imp.Name != nil {
			name = imp.Name.Name
		} else if pn := info.PkgNameOf(imp); pn != nil {
			name = pn.Name()
		}
		if name != "" && !used[name] {
			imp.Name = ast.NewIdent("_")
		}
	}
}

func fatal(err error) {
	fmt.Fprintln(os.Stderr, "cfdrv:", err)
	os.Exit(2)
}
