----------------------------- MODULE Position -----------------------------
(* Property C04: garble reverse restores obfuscated traces exactly.           *)
(*                                                                            *)
(* Part 1 - positions.  printFile (position.go) is transcribed as the two     *)
(* loops it consists of, run over a token stream:                             *)
(*   pass 1  ast.Preorder: a CallExpr sets nextOffset to its original offset, *)
(*           the next Ident takes it (origCallOffsets) and resets it to -1;   *)
(*   pass 2  go/scanner: before every Ident with an offset the directive      *)
(*           /*line hash(file:offset).go:1*/ is written.                      *)
(* A token stream is one call statement of a generated frame function, as the *)
(* printer lays it out: CS(c) marks where call expression c starts in         *)
(* pre-order (just before its left-most token), ID is an identifier, LP(c)    *)
(* the opening parenthesis of call c (the position the compiler gives the     *)
(* call instruction), GO / RB the go keyword and the closing brace of the     *)
(* function (the positions of a goroutine's "created by" line and of the      *)
(* deferred calls run at function exit), NL a line break and LAM a string     *)
(* literal of 8 bytes or more: with -literals it has become a multi-line      *)
(* func literal call whose CallExpr carries the position of the literal.      *)
(* The position the binary reports for a token is (name of the last directive *)
(* before it, 1 + line breaks since).  reverse.go recomputes, from a fresh    *)
(* parse of the ORIGINAL file, the pairs  hash.go:1 -> file.go:line  and      *)
(* hash.go -> file.go  for every CallExpr, and applies them with              *)
(* strings.NewReplacer line by line.                                          *)
(* TLC runs the two passes token by token for every frame kind x construct x  *)
(* -literals, and checks ForwardReverseAgree: the reported position of every  *)
(* frame is restored to the original line, except for the gap classes, which  *)
(* the model shows to be real gaps (GapsAreReal).                             *)
(*                                                                            *)
(* Part 2 - replacement.  The generic algorithm of strings.NewReplacer (at    *)
(* each byte the matching key that comes first in the argument list wins,     *)
(* otherwise one byte is copied) and reverseContent's line loop over byte     *)
(* sequences: PairPriority, PassThrough, ExitStatus, and a table of rows for  *)
(* the harness.                                                               *)
EXTENDS Naturals, Sequences, FiniteSets, TLC, Json, SequencesExt

CONSTANTS
  MaxDepth,    \* call chains up to this many frames are exported
  MaxSegs      \* replacement table: inputs of up to this many segments

-----------------------------------------------------------------------------
(* Part 1 *)
Kinds == {"func", "method", "ptrmethod", "genfunc", "genmethod", "closure", "goroutine", "deferred",
          "otherpkg", "otherfile", "iife"}
Constructs == {"none", "complit", "litarg", "litrecv", "litprev", "mlargs", "mlchain"}

CS(c) == [t |-> "cs", c |-> c]
LP(c) == [t |-> "lp", c |-> c]
ID == [t |-> "id", c |-> 0]
NL == [t |-> "nl", c |-> 0]
GO == [t |-> "go", c |-> 0]
RB == [t |-> "rb", c |-> 0]
LAM == [t |-> "lam", c |-> 0]
SNL == [t |-> "snl", c |-> 0]      \* a line break that only go/printer adds (two statements written on one line)

(* call numbers: 1 the call on the chain, 2 a helper call inside its callee   *)
(* expression, 3 the next call inside a func literal body, 4/5 helper calls   *)
(* of the constructs, 6 and 7 the statements before and after, 9 synthetic.   *)
Synthetic == 9
MethodLike == {"method", "ptrmethod", "genmethod"}
NIdents(k) == CASE k \in {"func", "otherfile", "closure", "deferred"} -> 1
                [] k \in {"otherpkg", "genfunc"} -> 2
                [] k \in {"method", "ptrmethod"} -> 3
                [] k = "genmethod" -> 4
                [] OTHER -> 0
Ids(n) == [i \in 1..n |-> ID]

(* the callee expression up to (not including) the parenthesis of call 1 *)
Callee(k, con) ==
  CASE k = "iife"      -> << NL, CS(3), ID, LP(3), NL >>                      \* func(a ...any) {\n next(...)\n }
    [] k = "goroutine" -> << NL, CS(8), ID, LP(8), NL, CS(3), ID, LP(3), NL >> \* func() {\n defer close(done)\n next(...)\n }
    [] con = "litrecv" -> << CS(2), ID, LP(2), LAM >> \o (IF k \in MethodLike THEN << ID >> ELSE Ids(NIdents(k)))
                                                                             \* mk("lit").M   |  pick("lit", f)
    [] con = "mlchain" -> IF k \in MethodLike THEN Ids(NIdents(k) - 1) \o << NL, ID >>      \* T{V: 1}.\n M
                          ELSE << CS(2), ID, LP(2), NL >> \o Ids(NIdents(k)) \o << NL >>    \* pick(\n "s", f,\n )
    [] OTHER           -> Ids(NIdents(k))
Args(con) == CASE con = "litarg" -> << LAM >> [] con = "mlargs" -> << NL, NL, NL >> [] OTHER -> << >>
Prefix(con) == CASE con = "complit" -> << CS(4), ID, LP(4), ID, ID, ID, SNL >> \* keep(T0{A: 1, B: 2}); on the same source line
                 [] con = "litprev" -> << CS(5), ID, LP(5), LAM, NL >>          \* keep("lit") on the line before
                 [] OTHER -> << >>
Keyword(k) == CASE k = "goroutine" -> << GO >> [] OTHER -> << >>

(* pad()  \n  <statement>  \n  pad()  \n  }                                   *)
Stream(k, con) ==
  << CS(6), ID, LP(6), NL >> \o Prefix(con) \o Keyword(k) \o << CS(1) >> \o Callee(k, con) \o << LP(1) >> \o Args(con)
  \o << NL, CS(7), ID, LP(7), NL, RB >>

(* what the compiler sees after -literals rewrote the tree, and what the      *)
(* fresh parse of reverse.go sees                                             *)
RECURSIVE Expand(_, _)
Expand(s, lit) ==
  IF s = << >> THEN << >>
  ELSE IF Head(s).t = "lam"
       THEN (IF lit THEN << CS(Synthetic), ID, NL, NL >> ELSE << >>) \o Expand(Tail(s), lit)
       ELSE << Head(s) >> \o Expand(Tail(s), lit)

(* the frame whose position this statement decides: the caller's frame at the *)
(* parenthesis of call 1; for a deferred callee the caller's frame at the     *)
(* closing brace; for a goroutine the created-by line at the go keyword       *)
PointTok(k) == CASE k = "deferred" -> RB [] k = "goroutine" -> GO [] OTHER -> LP(1)
PointName(k) == CASE k = "deferred" -> "closing-brace" [] k = "goroutine" -> "go-keyword" [] OTHER -> "call-paren"

OrigLineOf(s, tok) ==       \* line of the first occurrence of tok in the original stream (first line = 100)
  LET i == CHOOSE j \in 1..Len(s) : s[j] = tok /\ \A m \in 1..(j - 1) : s[m] # tok
  IN 100 + Cardinality({m \in 1..i : s[m].t = "nl"})      \* (the function starts at line 100 of its file)
KnownCalls(s) == {s[j].c : j \in {m \in 1..Len(s) : s[m].t = "cs"}}

Shapes == {[kind |-> k, con |-> c, lit |-> l] : k \in Kinds, c \in Constructs, l \in BOOLEAN}

(* Gap classes (see DESIGN.md section 9 and known_findings.jsonl)             *)
Gap(sh) ==
  CASE sh.kind = "deferred"  -> "closing-brace"        \* F12
    [] sh.kind = "goroutine" -> "go-keyword"
    [] sh.kind = "iife"      -> "iife-paren"
    [] sh.con = "mlchain"    -> "paren-on-later-line"
    [] sh.con = "litrecv" /\ sh.lit -> "paren-after-literal"   \* F13
    [] OTHER -> "none"

VARIABLES sh, stream, phase, i, nextOff, attach, cur, reported
vars == <<sh, stream, phase, i, nextOff, attach, cur, reported>>

NoDirective == [name |-> 0, rel |-> 1]       \* the //line :1 at the top of the file
Init ==
  /\ sh \in Shapes
  /\ stream = Expand(Stream(sh.kind, sh.con), sh.lit)
  /\ phase = "preorder" /\ i = 1 /\ nextOff = 0 /\ attach = << >>
  /\ cur = NoDirective /\ reported = NoDirective

(* pass 1: for node := range ast.Preorder(file) *)
Preorder ==
  /\ phase = "preorder"
  /\ IF i > Len(stream)
     THEN /\ phase' = "scan" /\ i' = 1
          /\ UNCHANGED <<nextOff, attach>>
     ELSE /\ i' = i + 1 /\ phase' = phase
          /\ CASE stream[i].t = "cs" -> nextOff' = stream[i].c /\ UNCHANGED attach
               [] stream[i].t = "id" -> attach' = Append(attach, nextOff) /\ nextOff' = 0
               [] OTHER -> UNCHANGED <<nextOff, attach>>
  /\ UNCHANGED <<sh, stream, cur, reported>>

IdentIndex(k) == Cardinality({m \in 1..k : stream[m].t = "id"})
(* pass 2: the scanner loop; also records what the binary will report for the point token *)
Scan ==
  /\ phase = "scan"
  /\ IF i > Len(stream)
     THEN phase' = "done" /\ UNCHANGED <<i, cur, reported>>
     ELSE /\ i' = i + 1 /\ phase' = phase
          /\ CASE stream[i].t = "id" ->
                    /\ cur' = IF attach[IdentIndex(i)] # 0 THEN [name |-> attach[IdentIndex(i)], rel |-> 1] ELSE cur
                    /\ UNCHANGED reported
               [] stream[i].t \in {"nl", "snl"} -> cur' = [cur EXCEPT !.rel = @ + 1] /\ UNCHANGED reported
               [] stream[i] = PointTok(sh.kind) -> reported' = cur /\ UNCHANGED cur
               [] OTHER -> UNCHANGED <<cur, reported>>
  /\ UNCHANGED <<sh, stream, nextOff, attach>>

Next == Preorder \/ Scan
Spec == Init /\ [][Next]_vars

(* reverse.go: pairs from the fresh parse of the original file, applied to "name.go:rel" *)
Orig == Stream(sh.kind, sh.con)
OrigFresh == Expand(Orig, FALSE)
Reversed ==
  IF reported.name \in KnownCalls(OrigFresh)
  THEN IF reported.rel = 1 THEN [res |-> "file:line", line |-> OrigLineOf(OrigFresh, CS(reported.name))]
       ELSE IF reported.rel \in 10..19 THEN [res |-> "file:line+digit", line |-> 0]    \* the hash.go:1 pair matches a prefix of hash.go:1N
       ELSE [res |-> "file:rel", line |-> reported.rel]
  ELSE [res |-> "unreversed", line |-> 0]
Restored == Reversed.res \in {"file:line", "file:rel"} /\ Reversed.line = OrigLineOf(OrigFresh, PointTok(sh.kind))

ForwardReverseAgree == phase = "done" => (Restored \/ Gap(sh) # "none")
GapsAreReal == phase = "done" => (Gap(sh) # "none" => ~Restored)
(* every directive written by the forward side has a pair on the reverse side unless -literals synthesized the call *)
DirectivesKnown == phase = "scan" => \A j \in 1..Len(attach) : attach[j] # 0 => (attach[j] \in KnownCalls(OrigFresh) \/ (sh.lit /\ attach[j] = Synthetic))

(* The same computation as a constant-level function, for the export.         *)
RECURSIVE P1(_, _, _), P2(_, _, _, _, _, _)
P1(s, j, no) == IF j > Len(s) THEN << >>
                ELSE IF s[j].t = "cs" THEN P1(s, j + 1, s[j].c)
                ELSE IF s[j].t = "id" THEN << no >> \o P1(s, j + 1, 0)
                ELSE P1(s, j + 1, no)
P2(s, j, att, k, c, pt) ==
  IF j > Len(s) THEN NoDirective
  ELSE IF s[j] = pt THEN c
  ELSE IF s[j].t = "id" THEN P2(s, j + 1, att, k + 1, IF att[k + 1] # 0 THEN [name |-> att[k + 1], rel |-> 1] ELSE c, pt)
  ELSE IF s[j].t \in {"nl", "snl"} THEN P2(s, j + 1, att, k, [c EXCEPT !.rel = @ + 1], pt)
  ELSE P2(s, j + 1, att, k, c, pt)
ReportedOf(shp) == LET s == Expand(Stream(shp.kind, shp.con), shp.lit) IN P2(s, 1, P1(s, 1, 0), 0, NoDirective, PointTok(shp.kind))
OutcomeOf(shp) ==
  LET o == Expand(Stream(shp.kind, shp.con), FALSE)
      r == ReportedOf(shp)
      want == OrigLineOf(o, PointTok(shp.kind))
  IN IF r.name \in KnownCalls(o)
     THEN IF r.rel = 1 /\ OrigLineOf(o, CS(r.name)) = want THEN "restored"
          ELSE IF r.rel # 1 /\ r.rel \notin 10..19 /\ r.rel = want THEN "restored" ELSE "wrong-line"
     ELSE "unreversed"
ExpectRow(shp) == [kind |-> shp.kind, construct |-> shp.con, literals |-> shp.lit, point |-> PointName(shp.kind),
                   gap |-> Gap(shp), outcome |-> OutcomeOf(shp)]

(* call chains: sequences of frame kinds; the harness picks the construct per hop *)
RECURSIVE SeqsUpTo(_)
SeqsOf(n) == [1..n -> Kinds]
SeqsUpTo(n) == IF n = 0 THEN {} ELSE SeqsOf(n) \cup SeqsUpTo(n - 1)
Chains == SeqsUpTo(MaxDepth)

-----------------------------------------------------------------------------
(* Part 2: strings.NewReplacer (generic algorithm) and reverseContent over byte sequences *)
Bytes(str) == str      \* byte sequences are written as tuples of one-character strings

IsPrefixAt(key, s, p) == Len(key) <= Len(s) - p + 1 /\ \A j \in 1..Len(key) : s[p + j - 1] = key[j]
(* pairs: sequence of [old, new]; the earliest pair in argument order among the keys matching at p wins *)
Matching(pairs, s, p) == {n \in 1..Len(pairs) : IsPrefixAt(pairs[n].old, s, p)}
First(S) == CHOOSE n \in S : \A m \in S : n <= m
RECURSIVE Rep(_, _, _)
Rep(pairs, s, p) ==
  IF p > Len(s) THEN << >>
  ELSE IF Matching(pairs, s, p) = {} THEN << s[p] >> \o Rep(pairs, s, p + 1)
  ELSE pairs[First(Matching(pairs, s, p))].new \o Rep(pairs, s, p + Len(pairs[First(Matching(pairs, s, p))].old))
Replace(pairs, s) == Rep(pairs, s, 1)

(* reverseContent: ReadString('\n') keeps the line ending; a last line without one is still processed *)
RECURSIVE Lines(_)
Lines(s) ==
  IF s = << >> THEN << >>
  ELSE LET nls == {j \in 1..Len(s) : s[j] = "\n"}
       IN IF nls = {} THEN << s >>
          ELSE << SubSeq(s, 1, First(nls)) >> \o Lines(SubSeq(s, First(nls) + 1, Len(s)))
RECURSIVE Concat(_)
Concat(ss) == IF ss = << >> THEN << >> ELSE Head(ss) \o Concat(Tail(ss))
ReverseContent(pairs, s) ==
  LET ls == Lines(s)
      outs == [j \in 1..Len(ls) |-> Replace(pairs, ls[j])]
  IN [out |-> Concat(outs), modified |-> \E j \in 1..Len(ls) : outs[j] # ls[j]]
ExitStatusOf(r) == IF r.modified THEN 0 ELSE 1

(* the pair list as commandReverse builds it for one call site (hash file name "Hq.go",   *)
(* original "p/f.go", line 7) and one function name ("Zk" for "fn"); order as in the code *)
Hfile == << "H", "q", ".", "g", "o" >>
Ofile == << "p", "/", "f", ".", "g", "o" >>
Pair(o, n) == [old |-> o, new |-> n]
CodePairs == << Pair(<< "Z", "k" >>, << "f", "n" >>),
                Pair(Hfile \o << ":", "1" >>, Ofile \o << ":", "7" >>),
                Pair(Hfile, Ofile) >>
SwappedPairs == << CodePairs[1], CodePairs[3], CodePairs[2] >>

Segments == { Hfile, << ":", "1" >>, << ":", "1", "2" >>, << ":", "3" >>, << "Z", "k" >>, << "Z" >>, << "x", " " >>, << "\t" >>,
              << "\r", "\n" >>, << "\n" >>, << "(", ".", ".", ".", ")" >> }
RECURSIVE InputsUpTo(_)
InputsOf(n) == {Concat(q) : q \in [1..n -> Segments]}
InputsUpTo(n) == IF n = 0 THEN {<< >>} ELSE InputsOf(n) \cup InputsUpTo(n - 1)
Inputs == InputsUpTo(MaxSegs)

HasKey(pairs, s) == \E p \in 1..Len(s) : Matching(pairs, s, p) # {}
PassThrough == \A s \in Inputs : ~HasKey(CodePairs, s) => (ReverseContent(CodePairs, s).out = s /\ ~ReverseContent(CodePairs, s).modified)
ExitStatus == \A s \in Inputs : (ExitStatusOf(ReverseContent(CodePairs, s)) = 0) <=> HasKey(CodePairs, s)
(* with the code's order the call-site pair wins where both match; with the two swapped it would not *)
PairPriority ==
  /\ Replace(CodePairs, Hfile \o << ":", "1" >>) = Ofile \o << ":", "7" >>
  /\ Replace(SwappedPairs, Hfile \o << ":", "1" >>) = Ofile \o << ":", "1" >>
  /\ Replace(CodePairs, Hfile \o << ":", "3" >>) = Ofile \o << ":", "3" >>
(* the replacer knows no token boundary: hash.go:12 is rewritten with the pair of hash.go:1 *)
PrefixHazard == Replace(CodePairs, Hfile \o << ":", "1", "2" >>) = Ofile \o << ":", "7", "2" >>
LineEndingsKept == \A s \in Inputs : Len(ReverseContent(CodePairs, s).out) >= Cardinality({j \in 1..Len(s) : s[j] \in {"\r", "\n"}})
ASSUME PassThrough /\ ExitStatus /\ PairPriority /\ PrefixHazard /\ LineEndingsKept

RowOf(s) == LET r == ReverseContent(CodePairs, s) IN [input |-> s, out |-> r.out, modified |-> r.modified, haskey |-> HasKey(CodePairs, s)]
Export == [kinds |-> SetToSeq(Kinds), constructs |-> SetToSeq(Constructs),
           chains |-> SetToSeq(Chains),
           expect |-> SetToSeq({ExpectRow(x) : x \in Shapes}),
           pairs |-> [j \in 1..Len(CodePairs) |-> CodePairs[j]],
           rows |-> SetToSeq({RowOf(s) : s \in Inputs})]
ASSUME JsonSerialize("position_cases.json", Export)
=============================================================================
