----------------------------- MODULE Replacer -----------------------------
(* Property C08, part 2: the replacer injected into the main package          *)
(* (reflect_abi_code.go: _makeGenericReplacer / lookup / Replace), which the  *)
(* patched internal/abi name accessor calls on every type and field name.     *)
(*                                                                            *)
(* Two descriptions of the same function, and TLC checks that they agree:     *)
(*                                                                            *)
(*  Rep      the documented semantics of strings.NewReplacer which the code   *)
(*           says it lifts: scan left to right; at each position, among the   *)
(*           pairs whose key matches there, the pair that comes FIRST in the  *)
(*           argument list wins (not the longest key); no match: copy a byte; *)
(*           replaced text is not scanned again.                              *)
(*  the state machine: one action per iteration of the loop of Replace, with  *)
(*           TrieLookup structured like lookup(): walk down the trie along    *)
(*           the input, remember the complete key of highest priority seen,   *)
(*           priority of pair n = number of pairs - n + 1, duplicate keys     *)
(*           keep the first value (add() does not overwrite).                *)
(*                                                                            *)
(* Strings are sequences of one-character strings.  Keys are non-empty (garble*)
(* never emits an empty obfuscated name), so the empty-match logic of         *)
(* Replace is not modelled.                                                   *)
EXTENDS Integers, Sequences, FiniteSets, TLC, Json, SequencesExt

CONSTANTS Alphabet,        \* set of one-character strings
          K1, P1,          \* family 1: lists of <= P1 pairs with keys of length 1..K1
          K2, P2,          \* family 2: lists of <= P2 pairs with keys of length 1..K2
          MaxInput,        \* inputs of length 0..MaxInput
          VS               \* value sets explored by the state machine (the table always has both)

StrsUpTo(lo, n) == UNION {[1..m -> Alphabet] : m \in lo..n}
Lists(k, p) == UNION {[1..n -> StrsUpTo(1, k)] : n \in 1..p}
KeyLists == Lists(K1, P1) \cup Lists(K2, P2)
Inputs == StrsUpTo(0, MaxInput)

(* the value of the n-th pair, for two value sets: marks that cannot be       *)
(* confused with input, and values made of key letters (one of them empty)    *)
ValueSets == << << <<"X">>, <<"Y">>, <<"Z">> >>,
                << <<"a", "b">>, <<>>, <<"b">> >> >>
Val(vs, n) == ValueSets[vs][n]

MinOf(S) == CHOOSE x \in S : \A y \in S : x <= y

-----------------------------------------------------------------------------
(* Documented semantics *)

MatchesAt(k, s, i) == i + Len(k) - 1 <= Len(s) /\ \A j \in 1..Len(k) : s[i + j - 1] = k[j]
Matching(ks, s, i) == {n \in 1..Len(ks) : MatchesAt(ks[n], s, i)}

RECURSIVE Rep(_, _, _, _)
Rep(ks, vs, s, i) ==
  IF i > Len(s) THEN <<>>
  ELSE LET m == Matching(ks, s, i) IN
       IF m = {} THEN <<s[i]>> \o Rep(ks, vs, s, i + 1)
       ELSE Val(vs, MinOf(m)) \o Rep(ks, vs, s, i + Len(ks[MinOf(m)]))

-----------------------------------------------------------------------------
(* Implementation structure *)

(* trie node reached after n bytes of s from position i: exists iff some key  *)
(* starts with those n bytes                                                  *)
Chunk(s, i, n) == SubSeq(s, i, i + n - 1)
HasPrefix(k, p) == Len(p) <= Len(k) /\ SubSeq(k, 1, Len(p)) = p
NodeExists(ks, p) == \E n \in 1..Len(ks) : HasPrefix(ks[n], p)
(* priority of a node: 0 unless it is a complete key; add() keeps the first   *)
(* pair that created the complete key                                         *)
NodePair(ks, p) == IF \E n \in 1..Len(ks) : ks[n] = p THEN MinOf({n \in 1..Len(ks) : ks[n] = p}) ELSE 0
Priority(ks, n) == IF n = 0 THEN 0 ELSE Len(ks) - n + 1

(* lookup(): n = 0, 1, ... while the node exists and input remains; the best   *)
(* node is replaced only by a strictly greater priority                        *)
RECURSIVE Walk(_, _, _, _, _)
Walk(ks, s, i, n, best) ==
  LET p == Chunk(s, i, n)
      pr == NodePair(ks, p)
      nb == IF Priority(ks, pr) > Priority(ks, best.pair) THEN [pair |-> pr, keylen |-> n] ELSE best
  IN IF ~NodeExists(ks, p) THEN best
     ELSE IF i + n > Len(s) THEN nb
     ELSE Walk(ks, s, i, n + 1, nb)
TrieLookup(ks, s, i) == Walk(ks, s, i, 0, [pair |-> 0, keylen |-> 0])

VARIABLES ks, vs, s, i, out
vars == <<ks, vs, s, i, out>>

Init == ks \in KeyLists /\ vs \in VS /\ s \in Inputs /\ i = 1 /\ out = <<>>

(* one iteration of the loop in Replace *)
Step ==
  /\ i <= Len(s)
  /\ LET r == TrieLookup(ks, s, i) IN
       IF r.pair # 0
       THEN out' = out \o Val(vs, r.pair) /\ i' = i + r.keylen
       ELSE out' = Append(out, s[i]) /\ i' = i + 1
  /\ UNCHANGED <<ks, vs, s>>
Spec == Init /\ [][Step]_vars

(* loop invariant: what has been emitted, completed by the documented         *)
(* semantics on the rest, is the documented result on the whole input         *)
LoopInvariant == out \o Rep(ks, vs, s, i) = Rep(ks, vs, s, 1)
(* a match always consumes input *)
Progress == i <= Len(s) => LET r == TrieLookup(ks, s, i) IN r.pair # 0 => r.keylen >= 1
(* an input that contains no key is returned unchanged *)
NoKeyIdentity == (i > Len(s) /\ \A j \in 1..Len(s) : Matching(ks, s, j) = {}) => out = s
(* the first pair beats later pairs even when they are longer *)
FirstPairWins == (i > Len(s) /\ Len(s) > 0 /\ MatchesAt(ks[1], s, 1)) =>
                    SubSeq(out, 1, Len(Val(vs, 1))) = Val(vs, 1)
TypeOK == i \in 1..(Len(s) + 1)

-----------------------------------------------------------------------------
(* Table extraction (B3) *)

RECURSIVE Str(_)
Str(q) == IF q = <<>> THEN "" ELSE Head(q) \o Str(Tail(q))

InputSeq == SetToSeq(Inputs)
ListSeq == SetToSeq(KeyLists)
Table ==
  [inputs |-> [x \in DOMAIN InputSeq |-> Str(InputSeq[x])],
   values |-> [v \in 1..2 |-> [n \in 1..3 |-> Str(Val(v, n))]],
   rows |-> [l \in DOMAIN ListSeq |->
               [keys |-> [n \in DOMAIN ListSeq[l] |-> Str(ListSeq[l][n])],
                outs |-> [v \in 1..2 |-> [x \in DOMAIN InputSeq |-> Str(Rep(ListSeq[l], v, InputSeq[x], 1))]]]]]
ASSUME JsonSerialize("replacer_table.json", Table)
=============================================================================
