--------------------------- MODULE PipelineTrace ---------------------------
(* Trace validation for Pipeline.tla: the events recorded by the verif hooks *)
(* of every garble process of one or more real builds (one NDJSON file,      *)
(* appended with O_APPEND, so file order is a total order) must be a         *)
(* behaviour of the specification; every invariant of Pipeline.tla and       *)
(* Linker.tla is evaluated at every step of the recorded execution.          *)
(*                                                                          *)
(* The harness only projects each raw event onto (top-level command,         *)
(* package, tool) identifiers and drops fields the spec does not use; the    *)
(* constants describing the build (package order, import graph, packages     *)
(* that depend on reflect, assembly packages) come from `go list`, not from  *)
(* the trace.  Steps the hooks do not log (Patch, StampStart, AsmLoaded,     *)
(* Start of a link child) are silent; a harness `kill` line marks a SIGKILL  *)
(* of a whole process group.  Acceptance: high-water mark of consumed lines. *)
EXTENDS Pipeline, Json

CONSTANTS TopSeq,        \* top-level commands in the order of their cmd-start
          ColdGk         \* BOOLEAN: GARBLE_CACHE/build was empty at the start (hits must be explained)

Trace == ndJsonDeserialize("pipeline_trace.ndjson")

VARIABLES l
tvars == <<allvars, l>>

TraceInit == FullInit /\ l = 1

E == Trace[l]
Ev(e) == l <= Len(Trace) /\ E.ev = e /\ l' = l + 1
K == <<E.t, E.p, E.tool>>
KeepKey == TRUE
(* every event that names a cache key names the one the command first used for that package (KeyStable) *)
SameKey(t, p) == E.key = CfgOf[t][p]

TCmdStart == Ev("cmd-start") /\ CmdStart(E.t) /\ KeepKey
TShared == Ev("shared-created") /\ SharedCreate(E.t) /\ E.dir = DirName[E.t] /\ KeepKey
TGoStart == Ev("go-start") /\ GoStart(E.t) /\ KeepKey
TGoDone == Ev("go-done") /\ GoDone(E.t) /\ (E.ok <=> texit'[E.t] = "running") /\ KeepKey
(* a command that fails before go-start (flag error, go list error, foreign -debugdir target) *)
TEarlyRemove == /\ Ev("shared-remove") /\ tpc[E.t] \in {"started", "shared"}
                /\ E.dir = env[E.t]
                /\ dirs' = dirs \ {env[E.t]}
                /\ removed' = [removed EXCEPT ![E.t] = IF env[E.t] \in dirs THEN @ \cup {env[E.t]} ELSE @]
                /\ texit' = [texit EXCEPT ![E.t] = "error"]
                /\ tpc' = [tpc EXCEPT ![E.t] = "cleaned"]
                /\ UNCHANGED <<env, created, kpc, gocache, gkeys, akeys, named, wrotein, linked>> /\ LinkerUnchanged /\ KeepKey
(* -debugdir: the target is claimed after the shared directory exists; the artifact check decides on -a;  *)
(* children store artifacts before they run their tool; after a successful go command every artifact of   *)
(* the command's own keys is written into the target, then the shared directory is removed                 *)
TDbgClaim == Ev("debugdir-claimed") /\ DebugClaim(E.t)
TDbgCheck == /\ Ev("debugdir-needs-rebuild") /\ E.t \in DbgTops /\ tpc[E.t] = "shared" /\ dbg[E.t] = "claimed"
             /\ dbg' = [dbg EXCEPT ![E.t] = "checked"]
             /\ forcea' = [forcea EXCEPT ![E.t] = E.needs]
             \* a negative answer on a cache of unknown content teaches that the artifacts exist
             /\ dkeys' = IF ~E.needs /\ ~ColdGk THEN dkeys \cup {DKey(E.t, w[1], w[2]) : w \in DWanted(E.t)} ELSE dkeys
             /\ (~E.needs /\ ColdGk => DAllCached(E.t))
             /\ UNCHANGED restored /\ UNCHANGED pvars /\ LinkerOnlyUnchanged
TDbgPut == Ev("debugdir-put") /\ DebugPut(K) /\ DKind(K) = E.kind
TDbgRestore == /\ Ev("debugdir-restore") /\ E.t \in DbgTops /\ tpc[E.t] = "godone" /\ texit[E.t] = "running"
               /\ (ColdGk => DKey(E.t, E.p, E.kind) \in dkeys)
               /\ dkeys' = dkeys \cup {DKey(E.t, E.p, E.kind)}
               /\ restored' = [restored EXCEPT ![E.t] = @ \cup {<<E.p, E.kind>>}]
               /\ UNCHANGED <<forcea, dbg>> /\ UNCHANGED pvars /\ LinkerOnlyUnchanged
TRemove == Ev("shared-remove") /\ Cleanup(E.t) /\ E.dir = env[E.t] /\ KeepKey

(* -V=full queries of cmd/go: only while the go command runs, shared dir alive *)
TVersion == Ev("version-query") /\ tpc[E.t] = "going" /\ DirName[E.t] \in dirs /\ UNCHANGED allvars /\ KeepKey

TKidStart == Ev("toolexec-start") /\ E.tool # "link" /\ KidStart(K) /\ kpc'[K] = "started" /\ KeepKey
(* compile-start: the package's GarbleActionID is the same in every process of equal configuration *)
TCompileStart ==
  /\ Ev("compile-start") /\ kpc[K] = "started"
  /\ (E.obf <=> E.p \in ObfPkgs)
  /\ SameKey(E.t, E.p)
  /\ UNCHANGED allvars
TCacheGet == /\ Ev("pkgcache-get") /\ CacheGet(K) /\ SameKey(E.t, E.p)
             /\ (ColdGk => (E.hit <=> Key(E.t, E.p) \in gkeys))
             /\ (~ColdGk /\ E.hit => kpc'[K] = "loaded")
             /\ KeepKey
(* warm GARBLE_CACHE of unknown content: a hit teaches that the entry and its closure exist *)
TCacheGetWarmHit ==
  /\ ~ColdGk /\ Ev("pkgcache-get") /\ E.hit /\ kpc[K] = "started" /\ Key(E.t, E.p) \notin gkeys
  /\ gkeys' = gkeys \cup {Key(E.t, q) : q \in Facts(E.p)}
  /\ kpc' = [kpc EXCEPT ![K] = "loaded"]
  /\ UNCHANGED <<tpc, texit, env, dirs, created, removed, gocache, akeys, named, wrotein, linked>> /\ LinkerUnchanged /\ KeepKey
TCacheDep == /\ Ev("pkgcache-dep") /\ kpc[K] = "computing" /\ E.q \in Closure(E.p) /\ SameKey(E.t, E.q)
             /\ UNCHANGED allvars /\ KeepKey
TCacheDepHit == /\ Ev("pkgcache-dep-hit") /\ kpc[K] = "computing"
                /\ IF ColdGk \/ Key(E.t, E.q) \in gkeys
                     THEN Key(E.t, E.q) \in gkeys /\ UNCHANGED allvars
                     ELSE /\ gkeys' = gkeys \cup {Key(E.t, r) : r \in Facts(E.q)}
                          /\ UNCHANGED <<tpc, texit, env, dirs, created, removed, kpc, gocache, akeys, named, wrotein, linked>> /\ LinkerUnchanged
                /\ KeepKey
TCachePut == Ev("pkgcache-put") /\ CachePut(K, E.q) /\ SameKey(E.t, E.q) /\ KeepKey
TAsmPut == Ev("asmnames-put") /\ AsmNamesPut(K) /\ KeepKey
TAsmGet == Ev("asmnames-get") /\ AsmLoaded(K) /\ K \in named' /\ KeepKey
(* the path of every written file lies under the writer's own shared directory *)
TWrite == Ev("write-source") /\ E.inshared /\ WriteSources(K) /\ kpc'[K] = "wrote" /\ KeepKey
TToolRun == Ev("tool-run") /\ E.tool # "link" /\ ToolRun(K) /\ KeepKey
TToolDone == /\ Ev("tool-done") /\ E.tool # "link"
             /\ IF E.ok THEN ToolDone(K) ELSE (kpc[K] = "running" /\ kpc' = [kpc EXCEPT ![K] = "failed"]
                   /\ UNCHANGED <<tpc, texit, env, dirs, created, removed, gocache, gkeys, akeys, named, wrotein, linked>> /\ LinkerUnchanged)
             /\ KeepKey
(* a toolexec child that fails inside garble (transform error) logs nothing more: harness marks it *)
TKidFailed == /\ Ev("kid-failed") /\ Live(K)
              /\ kpc' = [kpc EXCEPT ![K] = "failed"]
              /\ UNCHANGED <<tpc, texit, env, dirs, created, removed, gocache, gkeys, akeys, named, wrotein, linked>> /\ LinkerUnchanged /\ KeepKey

(* the link child: Linker.tla actions *)
TLinkStart == Ev("toolexec-start") /\ E.tool = "link" /\ LinkStart(E.t) /\ KeepKey
TLock == Ev("link-lock-acquired") /\ tpc[Top(E.t)] = "going" /\ Lock(E.t) /\ PUnch /\ KeepKey
TCheck == Ev("link-version-checked") /\ Check(E.t) /\ (E.stamp_ok = Reuse) /\ PUnch /\ KeepKey
TReuse == Ev("link-reuse") /\ pc[E.t] = "run" /\ UNCHANGED allvars /\ KeepKey
TBuildStart == Ev("link-build-start") /\ BuildStart(E.t) /\ PUnch /\ KeepKey
TBuildDone == Ev("link-build-done") /\ BuildDone(E.t) /\ PUnch /\ KeepKey
TRename == Ev("link-renamed") /\ Rename(E.t) /\ PUnch /\ KeepKey
TStamp == Ev("link-stamp-written") /\ StampDone(E.t) /\ PUnch /\ KeepKey
(* the linker that is executed is the cached patched one, under the lock *)
TLinkRun == Ev("tool-run") /\ E.tool = "link" /\ E.patched /\ RunLinker(E.t) /\ PUnch /\ KeepKey
TLinkDone == Ev("tool-done") /\ E.tool = "link" /\ pc[E.t] = "ran" /\ UNCHANGED allvars /\ KeepKey
TUnlock == Ev("link-unlock") /\ LinkUnlock(E.t) /\ KeepKey
(* link failed (tool-done ok=false) or PatchLinker returned an error: unlock without a binary *)
TUnlockFailed == /\ Ev("link-unlock-failed") /\ lock = E.t
                 /\ lock' = "none" /\ pc' = [pc EXCEPT ![E.t] = "done"]
                 /\ UNCHANGED <<stamp, bin, tmp, used, kills, damages>> /\ PUnch /\ KeepKey

TKill == Ev("kill") /\ PKill(E.t) /\ KeepKey

Silent == /\ l <= Len(Trace) /\ UNCHANGED l
          /\ \/ \E lp \in Procs : (Patch(lp) \/ StampStart(lp)) /\ PUnch
             \/ E.ev = "shared-remove" /\ DebugRestoreEnd(E.t)          \* the restore loop ends: not logged
             \/ \E k \in Kids : AsmLoaded(k) /\ named' = named /\ E.ev \in {"tool-run", "write-source"} /\ K = k

TraceNext == \/ TCmdStart \/ TShared \/ TGoStart \/ TGoDone \/ TEarlyRemove \/ TRemove \/ TVersion
             \/ TKidStart \/ TCompileStart \/ TCacheGet \/ TCacheGetWarmHit \/ TCacheDep \/ TCacheDepHit \/ TCachePut
             \/ TAsmPut \/ TAsmGet \/ TWrite \/ TToolRun \/ TToolDone \/ TKidFailed
             \/ TLinkStart \/ TLock \/ TCheck \/ TReuse \/ TBuildStart \/ TBuildDone \/ TRename \/ TStamp \/ TLinkRun \/ TLinkDone
             \/ TUnlock \/ TUnlockFailed \/ TKill \/ Silent
             \/ TDbgClaim \/ TDbgCheck \/ TDbgPut \/ TDbgRestore
TraceSpec == TraceInit /\ [][TraceNext]_tvars

HighWater == TLCSet(1, IF TLCGet(1) < l THEN l ELSE TLCGet(1))
ASSUME TLCSet(1, 0)
TraceAccepted == IF TLCGet(1) = Len(Trace) + 1 THEN TRUE ELSE PrintT(<<"REJECTED-AT", TLCGet(1)>>) /\ FALSE
(* the state reached when the whole trace is consumed *)
AtEnd == l = Len(Trace) + 1
EndClean == AtEnd => \A t \in Tops : tpc[t] \in {"idle", "cleaned", "killed"}
(* the restore wrote artifacts only for packages the command listed (anything else would be another build's tree) *)
DbgRestoredListed == \A t \in DbgTops : \A w \in restored[t] : w[1] \in PkgSet
=============================================================================
