---------------------------- MODULE LinkerTrace ----------------------------
(* Trace validation for Linker.tla: the events recorded under the flock by  *)
(* the verif hooks of internal/linker and main.go must be a behaviour of    *)
(* the specification.  Steps without an event (Start, Patch, StampStart,    *)
(* and Kill when MaxKills > 0) are silent; acceptance is by a high-water    *)
(* mark of consumed lines (-workers 1).                                     *)
EXTENDS Linker, Json, Sequences

Trace == ndJsonDeserialize("linker_trace.ndjson")

VARIABLE l
tvars == <<vars, l>>

TraceInit == Init /\ l = 1

Ev(e) == l <= Len(Trace) /\ Trace[l].ev = e /\ l' = l + 1
P == Trace[l].p

TLock == Ev("link-lock-acquired") /\ Lock(P)
TCheck == Ev("link-version-checked") /\ Check(P) /\ (Trace[l].stamp_ok = Reuse)
TReuse == Ev("link-reuse") /\ pc[P] = "run" /\ UNCHANGED vars
TBuildStart == Ev("link-build-start") /\ BuildStart(P)
TBuildDone == Ev("link-build-done") /\ BuildDone(P)
TRename == Ev("link-renamed") /\ Rename(P)
TStamp == Ev("link-stamp-written") /\ StampDone(P)
TRun == Ev("link-run") /\ RunLinker(P)
TRunDone == Ev("link-run-done") /\ pc[P] = "ran" /\ UNCHANGED vars
TUnlock == Ev("link-unlock") /\ Unlock(P)

Silent == /\ l <= Len(Trace)
          /\ UNCHANGED l
          /\ \E p \in Procs : Start(p) \/ Patch(p) \/ StampStart(p) \/ Kill(p)

TraceNext == TLock \/ TCheck \/ TReuse \/ TBuildStart \/ TBuildDone \/ TRename \/ TStamp \/ TRun \/ TRunDone \/ TUnlock \/ Silent
TraceSpec == TraceInit /\ [][TraceNext]_tvars

HighWater == TLCSet(1, IF TLCGet(1) < l THEN l ELSE TLCGet(1))
ASSUME TLCSet(1, 0)
TraceAccepted == TLCGet(1) = Len(Trace) + 1
=============================================================================
