----------------------------- MODULE PipelineMC -----------------------------
(* Model-checking instances of Pipeline.tla (cfg files cannot write functions). *)
EXTENDS Pipeline

MCTops == {"t1", "t2"}
MCLinkTop == [lp \in Procs |-> IF lp = "l1" THEN "t1" ELSE "t2"]
MCLinkNeeds == [lp \in Procs |-> {"lib", "main"}]
MCTransDeps == [p \in {"lib", "main"} |-> IF p = "main" THEN {"lib"} ELSE {}]
MCPkgSeq == <<"lib", "main">>
MCImports == [p \in {"lib", "main"} |-> IF p = "main" THEN {"lib"} ELSE {}]
MCAsm == {"lib"}
MCNoAsm == {}
MCSameCfg == [t \in MCTops |-> [p \in {"lib", "main"} |-> "c1"]]
MCDiffCfg == [t \in MCTops |-> [p \in {"lib", "main"} |-> t]]
MCReflect == {"lib", "main"}
MCObf == {"lib", "main"}
MCEmpty == {}
MCFreshDirs == [t \in MCTops |-> t]
MCFixedDir == [t \in MCTops |-> "garble-shared"]
MCNoInherit == [t \in MCTops |-> "none"]
MCNested == [t \in MCTops |-> IF t = "t2" THEN "t1" ELSE "none"]
MCDbgAll == MCTops
MCDbgT2 == {"t2"}
MCWarmGo == {<<"lib", "c1">>, <<"main", "c1">>}
MCDkLibOnly == {<<"lib", "c1", "compile">>, <<"lib", "c1", "asm">>}
MCPkgSeq3 == <<"leaf", "mid", "main">>
MCImports3 == [p \in {"leaf", "mid", "main"} |-> CASE p = "main" -> {"mid"} [] p = "mid" -> {"leaf"} [] OTHER -> {}]
=============================================================================
