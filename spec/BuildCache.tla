----------------------------- MODULE BuildCache -----------------------------
(* Histories of garble builds over shared caches (properties C06, C07; the   *)
(* cache half of C03/C18).                                                  *)
(*                                                                          *)
(* Three layers, as in the implementation:                                  *)
(*                                                                          *)
(* 1. `go list -export` (appendListedPackages) computes, for the PLAIN      *)
(*    build, every package's action ID: it hashes the package's own source, *)
(*    the go-level inputs and the CONTENT IDs of its imports' plain         *)
(*    objects.  A plain object depends on the package's source and on the   *)
(*    export data of what it imports - so an edit inside a function body    *)
(*    changes the object of that package and the action ID of its direct    *)
(*    importers, but not their objects, hence not the action IDs of the     *)
(*    packages further up.  GarbleActionID = H(plain action ID, garble      *)
(*    binary, GOGARBLE, build-affecting flags): KeyFields.                  *)
(* 2. cmd/go's obfuscated build recompiles a package iff its action ID,     *)
(*    which hashes the source, the go-level inputs, the tool ID             *)
(*    (alterToolVersion: KeyFields again) and the content of its DIRECT     *)
(*    imports' OBFUSCATED objects, is absent from GOCACHE.  An obfuscated   *)
(*    object depends on the package's own source and transformation inputs  *)
(*    and on the EXPORT DATA (API and obfuscated names) of what it imports. *)
(* 3. a recompiled package is transformed with what ObfFieldsOf lists plus  *)
(*    its name salt (its GarbleActionID, or the seed), the name salts of    *)
(*    its imports and the reflection facts - including the obfuscated names *)
(*    of the types that reach reflection - of its whole import closure,     *)
(*    loaded from GARBLE_CACHE/build under a key derived from the           *)
(*    GarbleActionIDs of the package and of its whole import closure        *)
(*    (pkgCacheID; before the fix of F19: from its own GarbleActionID only) *)
(*    (loadPkgCache/computePkgCache, cache_pkg.go); entries are (index,     *)
(*    data) file pairs as in go-internal/cache; anything but an intact      *)
(*    pair is a miss.  internal/abi is compiled with the pclntab magic,     *)
(*    which the linker is handed again at link time.                        *)
(*                                                                          *)
(* Staleness is: some input of layer 3 is covered neither by the action ID  *)
(* of layer 2 nor by the key of the GARBLE_CACHE entry.                     *)
(*                                                                          *)
(* Packages:  abi <- rt <- leaf <- mid <- main  (internal/abi, runtime and  *)
(* the three packages of the fixture module; all of leaf, mid, main reach   *)
(* reflect).                                                                *)
EXTENDS Naturals, Sequences, FiniteSets, TLC, Json

CONSTANTS
  Cfgs,         \* set of configurations (records, see CfgFields)
  KeyFields,    \* cfg fields hashed into the tool id, as recorded from the real garble
  XNameKeyed,   \* BOOLEAN: with -literals the -X target names are part of the tool id
  MagicFrom,    \* "abi" (the code since the fix of F20) | "rt" (before: runtime's GarbleActionID)
  FactsKey,     \* "closure" (the code since the fix of F19: the key covers the action IDs of the import
                \* closure) | "own" (before: entry keyed by the package's own GarbleActionID)
  EditPkgs,     \* packages of the module that the history may edit (new exported declarations)
  BodyEditPkgs, \* packages of the module whose function bodies the history may edit
  MaxBuilds, MaxEdits, MaxDamage

Pkgs == <<"abi", "rt", "leaf", "mid", "main">>          \* topological order
PkgSet == {"abi", "rt", "leaf", "mid", "main"}
ModPkgs == {"leaf", "mid", "main"}
DepOf(p) == CASE p = "abi" -> "none" [] p = "rt" -> "abi" [] p = "leaf" -> "rt" [] p = "mid" -> "leaf" [] p = "main" -> "mid"

CfgFields == {"tiny", "lit", "seed", "gogarble", "ctrl", "tags", "tagsrt", "xname", "xval"}
(* inputs of the compile action that cmd/go itself hashes.  Build tags enter an action  *)
(* ID only through the set of files they select: the fixture's tag selects a file of    *)
(* package main, the runtime's debuglog tag files of package runtime.                   *)
GoFieldsOf(p) == CASE p = "main" -> {"tags"} [] p = "rt" -> {"tagsrt"} [] OTHER -> {}
(* which packages GOGARBLE selects: std packages only under "all"; never the runtime    *)
Obfuscated(p, cfg) == p \in ModPkgs /\ (cfg.gogarble = "all" \/ p \in {"leaf", "mid"})
(* what garble's transformation of package p reads from the configuration *)
ObfFieldsOf(p, cfg) == {"tiny", "lit", "seed", "gogarble", "ctrl"}
                         \cup (IF cfg.lit /\ p = "main" THEN {"xname"} ELSE {})
KeyFieldsOf(cfg) == KeyFields \cup (IF cfg.lit /\ XNameKeyed THEN {"xname"} ELSE {})

Proj(cfg, F) == [f \in F |-> cfg[f]]

(* design-level statement of C06: every configuration input of the transformation is keyed *)
KeyCovers == \A cfg \in Cfgs : \A p \in PkgSet : ObfFieldsOf(p, cfg) \subseteq KeyFieldsOf(cfg) \cup GoFieldsOf(p)

VARIABLES
  src,      \* [PkgSet -> [api |-> Nat, body |-> Nat]] source version of each package
  gocache,  \* set of [aid, out]: cmd/go's compile cache
  gcache,   \* set of [key, st, facts]: GARBLE_CACHE/build entries; st in EntryStates
  last,     \* result of the last build
  nb, ne, nd,
  hist      \* history (output only; hidden by VIEW)
vars == <<src, gocache, gcache, last, nb, ne, nd, hist>>
View == <<src, gocache, gcache, last, nb, ne, nd>>

EntryStates == {"ok", "noindex", "emptyidx", "truncidx", "nodata", "truncdata"}
DamageKinds == EntryStates \ {"ok"}

(* ------------------------------------------------------------------ layer 1: the plain build *)
RECURSIVE PlainExport(_, _), PlainAid(_, _, _)
PlainExport(p, s) == IF p = "none" THEN <<>> ELSE <<p, s[p].api, PlainExport(DepOf(p), s)>>
PlainContent(p, cfg, s) == IF p = "none" THEN <<>> ELSE <<p, s[p], Proj(cfg, GoFieldsOf(p)), PlainExport(DepOf(p), s)>>
PlainAid(p, cfg, s) == <<p, s[p], Proj(cfg, GoFieldsOf(p)), PlainContent(DepOf(p), cfg, s)>>
GarbleId(p, cfg, s) == <<PlainAid(p, cfg, s), Proj(cfg, KeyFieldsOf(cfg))>>
(* name salt: hashWithPackage uses the GarbleActionID, or the import path under -seed *)
(* (uniform shape <<name, seed, id or <<>> >>: TLC cannot compare a string with a tuple)  *)
NameSalt(p, cfg, s) == IF p = "none" THEN <<>> ELSE <<p, cfg.seed, IF cfg.seed # "none" THEN <<>> ELSE GarbleId(p, cfg, s)>>
Magic(cfg, s) == <<"magic", cfg.seed, IF cfg.seed # "none" THEN <<>> ELSE GarbleId(IF MagicFrom = "abi" THEN "abi" ELSE "rt", cfg, s)>>

(* ------------------------------------------------------------------ reflection facts *)
(* what a package contributes: which of its parameters reach reflection (a function of its source) and *)
(* the obfuscated -> original name pairs of its types that do (names are hashed with its name salt)   *)
OwnFacts(p, cfg, s) == IF p \in ModPkgs THEN {<<p, s[p], NameSalt(p, cfg, s)>>} ELSE {}
RECURSIVE Deep(_, _, _)
Deep(p, cfg, s) == IF p = "none" THEN {} ELSE OwnFacts(p, cfg, s) \cup Deep(DepOf(p), cfg, s)
RECURSIVE ClosureIds(_, _, _)
ClosureIds(p, cfg, s) == IF p = "none" THEN <<>> ELSE <<GarbleId(p, cfg, s), ClosureIds(DepOf(p), cfg, s)>>
FactsKeyOf(p, cfg, s) == IF FactsKey = "own" THEN GarbleId(p, cfg, s) ELSE ClosureIds(p, cfg, s)

Hit(gc, k) == \E e \in gc : e.key = k /\ e.st = "ok"
FactsAt(gc, k) == (CHOOSE e \in gc : e.key = k /\ e.st = "ok").facts
Put(gc, k, p, f) == {e \in gc : e.key # k} \cup {[key |-> k, p |-> p, st |-> "ok", facts |-> f]}

(* computePkgCache(p): merge the entry of the import, recursing on a miss; returns <<gcache', facts>> *)
(* (packages that do not depend on reflect - here the two std ones - have no entry)                  *)
RECURSIVE Compute(_, _, _, _)
Compute(p, cfg, s, gc) ==
  IF p \notin ModPkgs THEN <<gc, {}>> ELSE
  LET d == DepOf(p)
      depRes == IF d \notin ModPkgs THEN <<gc, {}>>
                ELSE IF Hit(gc, FactsKeyOf(d, cfg, s)) THEN <<gc, FactsAt(gc, FactsKeyOf(d, cfg, s))>>
                ELSE Compute(d, cfg, s, gc)
      facts == depRes[2] \cup OwnFacts(p, cfg, s)
  IN <<Put(depRes[1], FactsKeyOf(p, cfg, s), p, facts), facts>>
LoadPkgCache(p, cfg, s, gc) ==
  IF Hit(gc, FactsKeyOf(p, cfg, s)) THEN <<gc, FactsAt(gc, FactsKeyOf(p, cfg, s))>> ELSE Compute(p, cfg, s, gc)

(* ------------------------------------------------------------------ layers 2 and 3: one obfuscated build *)
(* export data of the obfuscated object of p: its API under its obfuscated names, and what it re-exports *)
RECURSIVE GExport(_, _, _)
(* (export data also carries the positions of the declarations; garble hashes positions from file   *)
(* offsets, so in an obfuscated package any edit moves them.  The recorded recompilation sets of     *)
(* the real tool show the importers' objects changing after a body-only edit under -tiny as well,    *)
(* where positions are removed; the model follows the observation)                                  *)
GExport(p, cfg, s) ==
  IF p = "none" THEN <<>>
  ELSE <<p, s[p].api, IF Obfuscated(p, cfg) THEN s[p].body ELSE 0,
         Proj(cfg, GoFieldsOf(p)), IF Obfuscated(p, cfg) THEN NameSalt(p, cfg, s) ELSE <<>>, GExport(DepOf(p), cfg, s)>>
(* the obfuscated object of p: everything the transformation read.  Only main's object embeds the   *)
(* reflection facts (the name table patched into it, and its own types' names kept or not); the     *)
(* objects in between do not change when a dependency's facts change.                               *)
Out(p, cfg, s, facts) ==
  [p |-> p, s |-> s[p], go |-> Proj(cfg, GoFieldsOf(p)),
   obf |-> IF Obfuscated(p, cfg) THEN Proj(cfg, ObfFieldsOf(p, cfg)) ELSE <<>>,
   salt |-> IF Obfuscated(p, cfg) THEN NameSalt(p, cfg, s) ELSE <<>>,
   magic |-> IF p = "abi" THEN Magic(cfg, s) ELSE <<>>,
   facts |-> IF p = "main" /\ Obfuscated(p, cfg) THEN facts ELSE {},
   imp |-> GExport(DepOf(p), cfg, s)]
(* cmd/go's action ID of the obfuscated compile: the content of the direct import's object *)
Aid(p, cfg, s, depOut) == [p |-> p, s |-> s[p], go |-> Proj(cfg, GoFieldsOf(p)), tool |-> Proj(cfg, KeyFieldsOf(cfg)), deps |-> depOut]

RECURSIVE BuildFrom(_, _, _, _, _, _, _)
BuildFrom(i, cfg, s, goc, gc, outs, compiled) ==
  IF i > Len(Pkgs) THEN [goc |-> goc, gc |-> gc, outs |-> outs, compiled |-> compiled]
  ELSE LET p == Pkgs[i]
           depOut == IF DepOf(p) = "none" THEN <<>> ELSE <<outs[DepOf(p)]>>
           aid == Aid(p, cfg, s, depOut)
       IN IF \E e \in goc : e.aid = aid
          THEN LET e == CHOOSE e \in goc : e.aid = aid
               IN BuildFrom(i + 1, cfg, s, goc, gc, [outs EXCEPT ![p] = e.out], compiled)
          ELSE LET lp == LoadPkgCache(p, cfg, s, gc)
                   o == Out(p, cfg, s, lp[2])
               IN BuildFrom(i + 1, cfg, s, goc \cup {[aid |-> aid, out |-> o]}, lp[1],
                            [outs EXCEPT ![p] = o], compiled \cup {p})

NoOuts == [p \in PkgSet |-> "noout"]
DoBuild(cfg, s, goc, gc) == BuildFrom(1, cfg, s, goc, gc, NoOuts, {})
(* the link step is keyed by everything (cmd/go hashes the linker flags, garble passes the *)
(* magic through the environment of every link), so it is never stale by itself           *)
Binary(cfg, s, outs) == [objs |-> outs, x |-> cfg.xval, linkmagic |-> Magic(cfg, s)]
Cold(cfg, s) == Binary(cfg, s, DoBuild(cfg, s, {}, {}).outs)
(* the program starts iff the magic in internal/abi is the one the linker wrote *)
Starts(bin) == bin.objs["abi"].magic = bin.linkmagic

(* ------------------------------------------------------------------ actions *)
Init == /\ src = [p \in PkgSet |-> [api |-> 0, body |-> 0]]
        /\ gocache = {} /\ gcache = {}
        /\ last = [built |-> FALSE]
        /\ nb = 0 /\ ne = 0 /\ nd = 0
        /\ hist = <<>>

Build(cfg) ==
  /\ nb < MaxBuilds
  /\ LET r == DoBuild(cfg, src, gocache, gcache) IN
       /\ gocache' = r.goc
       /\ gcache' = r.gc
       /\ last' = [built |-> TRUE, cfg |-> cfg, out |-> Binary(cfg, src, r.outs), compiled |-> r.compiled,
                   recomputed |-> {e.p : e \in r.gc \ gcache},
                   rework |-> (last.built /\ last.cfg = cfg /\ last.fresh /\ r.compiled # {}), fresh |-> TRUE]
  /\ nb' = nb + 1
  /\ hist' = Append(hist, [a |-> "build", cfg |-> cfg])
  /\ UNCHANGED <<src, ne, nd>>

(* an edit that changes the package's export data (new exported declaration, changed signature) *)
EditApi(p) ==
  /\ ne < MaxEdits /\ p \in EditPkgs
  /\ src' = [src EXCEPT ![p].api = @ + 1]
  /\ ne' = ne + 1
  /\ last' = IF last.built THEN [last EXCEPT !.fresh = FALSE] ELSE last
  /\ hist' = Append(hist, [a |-> "edit", kind |-> "api", p |-> p])
  /\ UNCHANGED <<gocache, gcache, nb, nd>>
(* an edit inside a function body: the package's object changes, its export data does not; *)
(* its reflection facts may (a parameter starts to reach reflect.TypeOf)                   *)
EditBody(p) ==
  /\ ne < MaxEdits /\ p \in BodyEditPkgs
  /\ src' = [src EXCEPT ![p].body = @ + 1]
  /\ ne' = ne + 1
  /\ last' = IF last.built THEN [last EXCEPT !.fresh = FALSE] ELSE last
  /\ hist' = Append(hist, [a |-> "edit", kind |-> "body", p |-> p])
  /\ UNCHANGED <<gocache, gcache, nb, nd>>

(* C07 faults: an entry of GARBLE_CACHE/build is damaged, an entry of GOCACHE is lost, *)
(* or a whole store is deleted                                                         *)
DamageEntry(e, k) ==
  /\ nd < MaxDamage /\ e \in gcache /\ e.st = "ok"
  /\ gcache' = (gcache \ {e}) \cup {[e EXCEPT !.st = k]}
  /\ nd' = nd + 1
  /\ hist' = Append(hist, [a |-> "damage", p |-> e.p, kind |-> k])
  /\ last' = IF last.built THEN [last EXCEPT !.fresh = FALSE] ELSE last
  /\ UNCHANGED <<src, gocache, nb, ne>>
LoseGo(e) ==
  /\ nd < MaxDamage /\ e \in gocache
  /\ gocache' = gocache \ {e}
  /\ nd' = nd + 1
  /\ hist' = Append(hist, [a |-> "losego", p |-> e.aid.p])
  /\ last' = IF last.built THEN [last EXCEPT !.fresh = FALSE] ELSE last
  /\ UNCHANGED <<src, gcache, nb, ne>>
WipeStore(which) ==
  /\ nd < MaxDamage
  /\ gocache' = IF which \in {"gocache", "both"} THEN {} ELSE gocache
  /\ gcache' = IF which \in {"gcache", "both"} THEN {} ELSE gcache
  /\ nd' = nd + 1
  /\ hist' = Append(hist, [a |-> "wipe", which |-> which])
  /\ last' = IF last.built THEN [last EXCEPT !.fresh = FALSE] ELSE last
  /\ UNCHANGED <<src, nb, ne>>

Next == \/ \E cfg \in Cfgs : Build(cfg)
        \/ \E p \in ModPkgs : EditApi(p) \/ EditBody(p)
        \/ \E e \in gcache, k \in DamageKinds : DamageEntry(e, k)
        \/ \E e \in gocache : LoseGo(e)
        \/ \E w \in {"gocache", "gcache", "both"} : WipeStore(w)
Spec == Init /\ [][Next]_vars

(* ------------------------------------------------------------------ properties *)
(* C06/C07: whatever the history, a build's output is the cold output of its configuration and source *)
NoStale == (last.built /\ last.fresh) => last.out = Cold(last.cfg, src)
(* C06: rebuilding with nothing changed recompiles no package *)
NoRework == last.built => ~last.rework
(* C07: reflection facts handed to the obfuscator are the complete ones *)
FactsComplete == (last.built /\ last.fresh /\ Obfuscated("main", last.cfg) /\ "main" \in last.compiled)
                    => last.out.objs["main"].facts = Deep("main", last.cfg, src)
(* the binary starts: the magic compiled into internal/abi is the one given to the linker *)
MagicAgrees == (last.built /\ last.fresh) => Starts(last.out)

(* history output for behaviour replay (B2): printed when a history is complete *)
EmitHist == (nb = MaxBuilds) => PrintT(<<"HIST", ToJson(hist)>>)

(* ------------------------------------------------------------------ configuration alphabets *)
Base == [tiny |-> FALSE, lit |-> FALSE, seed |-> "none", gogarble |-> "all", ctrl |-> FALSE, tags |-> FALSE, tagsrt |-> FALSE,
         xname |-> "none", xval |-> "none"]      \* xname: which variables -ldflags=-X targets ("none", "v", "c", "vc")
CTiny == [Base EXCEPT !.tiny = TRUE]
CLit == [Base EXCEPT !.lit = TRUE]
CSeedA == [Base EXCEPT !.seed = "A"]
CSeedB == [Base EXCEPT !.seed = "B"]
CSub == [Base EXCEPT !.gogarble = "sub"]
CCtrl == [Base EXCEPT !.ctrl = TRUE]
CTags == [Base EXCEPT !.tags = TRUE]
CTagsRt == [Base EXCEPT !.tagsrt = TRUE]
CX1 == [Base EXCEPT !.xname = "v", !.xval = "v1"]
CX2 == [Base EXCEPT !.xname = "v", !.xval = "v2"]
CLitX1 == [CLit EXCEPT !.xname = "v", !.xval = "v1"]
CLitX2 == [CLit EXCEPT !.xname = "v", !.xval = "v2"]
CLitXc == [CLit EXCEPT !.xname = "c", !.xval = "v1"]       \* another target
CLitXvc == [CLit EXCEPT !.xname = "vc", !.xval = "v1"]     \* two targets, the last one as in CLitXc
CTinyLit == [CTiny EXCEPT !.lit = TRUE]
CfgsAll == {Base, CTiny, CLit, CSeedA, CSeedB, CSub, CCtrl, CTags, CTagsRt, CX1, CX2, CLitX1, CLitX2, CLitXc, CLitXvc, CTinyLit}
CfgsNoLitX == {Base, CTiny, CLit, CSeedA, CSeedB, CSub, CCtrl, CTags, CTagsRt, CX1, CX2, CTinyLit}
CfgsFault == {Base, CLit}
CSeedTiny == [CSeedA EXCEPT !.tiny = TRUE]
CfgsBody == {Base, CSeedA, CSeedTiny}
=============================================================================
