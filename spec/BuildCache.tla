----------------------------- MODULE BuildCache -----------------------------
(* Histories of garble builds over shared caches (properties C06, C07; the   *)
(* cache half of C03/C18).                                                  *)
(*                                                                          *)
(* cmd/go's rule, as perturbed by garble: a package is recompiled iff its   *)
(* action ID is absent from GOCACHE.  The action ID hashes the package's    *)
(* source, the go-level build inputs, the *content* of its dependencies'    *)
(* outputs and the tool ID; `garble toolexec compile -V=full`               *)
(* (alterToolVersion/addGarbleToHash/appendFlags) folds garble's own inputs *)
(* into the tool ID: KeyFields.  What the obfuscator actually reads when it *)
(* transforms a package is ObfFieldsOf.  Staleness is exactly               *)
(* ObfFieldsOf \ (KeyFields + go-level inputs) # {}.                        *)
(*                                                                          *)
(* GARBLE_CACHE/build holds, per GarbleActionID, the "deep" reflection      *)
(* facts of a package (loadPkgCache/computePkgCache, cache_pkg.go); entries *)
(* are (index, data) file pairs as in go-internal/cache; anything but an    *)
(* intact pair is a miss.                                                   *)
(*                                                                          *)
(* The module is a chain  leaf <- mid <- main  (all reach reflect).         *)
EXTENDS Naturals, Sequences, FiniteSets, TLC, Json

CONSTANTS
  Cfgs,         \* set of configurations (records, see CfgFields)
  KeyFields,    \* cfg fields hashed into the tool id, as recorded from the real garble
  XNameKeyed,   \* BOOLEAN: with -literals the -X target names are part of the tool id
  MaxBuilds, MaxEdits, MaxDamage

Pkgs == <<"leaf", "mid", "main">>          \* topological order
PkgSet == {"leaf", "mid", "main"}
DepOf(p) == CASE p = "leaf" -> "none" [] p = "mid" -> "leaf" [] p = "main" -> "mid"

CfgFields == {"tiny", "lit", "seed", "gogarble", "ctrl", "tags", "xname", "xval"}
(* inputs of the compile action that cmd/go itself hashes.  Build tags enter an action  *)
(* ID only through the set of files they select: in the fixture module only package    *)
(* main has a tag-dependent file, so only main's action ID moves with -tags.           *)
GoCompileFields == {"tags"}
GoFieldsOf(p) == IF p = "main" THEN GoCompileFields ELSE {}
(* what garble's transformation of package p reads *)
ObfFieldsOf(p, cfg) == {"tiny", "lit", "seed", "gogarble", "ctrl"}
                         \cup (IF cfg.lit /\ p = "main" THEN {"xname"} ELSE {})
KeyFieldsOf(cfg) == KeyFields \cup (IF cfg.lit /\ XNameKeyed THEN {"xname"} ELSE {})

Proj(cfg, F) == [f \in F |-> cfg[f]]

(* design-level statement of C06: every input of the transformation is keyed *)
KeyCovers == \A cfg \in Cfgs : \A p \in PkgSet : ObfFieldsOf(p, cfg) \subseteq KeyFieldsOf(cfg) \cup GoFieldsOf(p)

VARIABLES
  src,      \* [PkgSet -> Nat] source version of each package
  gocache,  \* set of [aid, out]: cmd/go's compile cache
  gcache,   \* set of [key, st, facts]: GARBLE_CACHE/build entries; st in EntryStates
  last,     \* result of the last build: [built |-> BOOLEAN, cfg, out, compiled, ok]
  nb, ne, nd,
  hist      \* history (output only; hidden by VIEW)
vars == <<src, gocache, gcache, last, nb, ne, nd, hist>>
View == <<src, gocache, gcache, last, nb, ne, nd>>

EntryStates == {"ok", "noindex", "emptyidx", "truncidx", "nodata", "truncdata"}
DamageKinds == EntryStates \ {"ok"}

(* ------------------------------------------------------------------ one build *)
OwnFacts(p, s) == {<<p, s[p]>>}
RECURSIVE Deep(_, _)
Deep(p, s) == OwnFacts(p, s) \cup (IF DepOf(p) = "none" THEN {} ELSE Deep(DepOf(p), s))

Aid(p, cfg, s, depOut) == [p |-> p, s |-> s[p], go |-> Proj(cfg, GoFieldsOf(p)), tool |-> Proj(cfg, KeyFieldsOf(cfg)), deps |-> depOut]
Out(p, cfg, s, depOut, facts) == [p |-> p, s |-> s[p], obf |-> Proj(cfg, ObfFieldsOf(p, cfg)), go |-> Proj(cfg, GoFieldsOf(p)),
                                  deps |-> depOut, facts |-> facts]

Hit(gc, k) == \E e \in gc : e.key = k /\ e.st = "ok"
FactsAt(gc, k) == (CHOOSE e \in gc : e.key = k /\ e.st = "ok").facts
Put(gc, k, f) == {e \in gc : e.key # k} \cup {[key |-> k, st |-> "ok", facts |-> f]}

(* keys of the build in progress: key[p] is known once p's dependencies are built *)
(* computePkgCache(p): merge every dependency's entry, recursing on a miss;        *)
(* returns <<gcache', facts>>.  keyOf gives the GarbleActionID of each package.    *)
RECURSIVE Compute(_, _, _, _)
Compute(p, s, keyOf, gc) ==
  LET d == DepOf(p)
      depRes == IF d = "none" THEN <<gc, {}>>
                ELSE IF Hit(gc, keyOf[d]) THEN <<gc, FactsAt(gc, keyOf[d])>>
                ELSE Compute(d, s, keyOf, gc)
      facts == depRes[2] \cup OwnFacts(p, s)
  IN <<Put(depRes[1], keyOf[p], facts), facts>>

LoadPkgCache(p, s, keyOf, gc) ==
  IF Hit(gc, keyOf[p]) THEN <<gc, FactsAt(gc, keyOf[p])>> ELSE Compute(p, s, keyOf, gc)

(* state threaded through the packages of one build *)
RECURSIVE BuildFrom(_, _, _, _, _, _, _, _)
BuildFrom(i, cfg, s, goc, gc, keyOf, outs, compiled) ==
  IF i > Len(Pkgs) THEN [goc |-> goc, gc |-> gc, outs |-> outs, compiled |-> compiled]
  ELSE LET p == Pkgs[i]
           depOut == IF DepOf(p) = "none" THEN <<>> ELSE <<outs[DepOf(p)]>>
           aid == Aid(p, cfg, s, depOut)
           keyOf2 == [keyOf EXCEPT ![p] = aid]
       IN IF \E e \in goc : e.aid = aid
          THEN LET e == CHOOSE e \in goc : e.aid = aid
               IN BuildFrom(i + 1, cfg, s, goc, gc, keyOf2, [outs EXCEPT ![p] = e.out], compiled)
          ELSE LET lp == LoadPkgCache(p, s, keyOf2, gc)
                   o == Out(p, cfg, s, depOut, lp[2])
               IN BuildFrom(i + 1, cfg, s, goc \cup {[aid |-> aid, out |-> o]}, lp[1], keyOf2,
                            [outs EXCEPT ![p] = o], compiled \cup {p})

NoKeys == [p \in PkgSet |-> "nokey"]
NoOuts == [p \in PkgSet |-> "noout"]
DoBuild(cfg, s, goc, gc) == BuildFrom(1, cfg, s, goc, gc, NoKeys, NoOuts, {})
(* the link step is keyed by everything (cmd/go hashes the linker flags), so it is never stale *)
Binary(cfg, outs) == [main |-> outs["main"], x |-> cfg.xval]
Cold(cfg, s) == Binary(cfg, DoBuild(cfg, s, {}, {}).outs)

(* ------------------------------------------------------------------ actions *)
Init == /\ src = [p \in PkgSet |-> 0]
        /\ gocache = {} /\ gcache = {}
        /\ last = [built |-> FALSE]
        /\ nb = 0 /\ ne = 0 /\ nd = 0
        /\ hist = <<>>

Build(cfg) ==
  /\ nb < MaxBuilds
  /\ LET r == DoBuild(cfg, src, gocache, gcache) IN
       /\ gocache' = r.goc
       /\ gcache' = r.gc
       /\ last' = [built |-> TRUE, cfg |-> cfg, out |-> Binary(cfg, r.outs), compiled |-> r.compiled,
                   recomputed |-> {e.key.p : e \in r.gc \ gcache},
                   rework |-> (last.built /\ last.cfg = cfg /\ last.fresh /\ r.compiled # {}), fresh |-> TRUE]
  /\ nb' = nb + 1
  /\ hist' = Append(hist, [a |-> "build", cfg |-> cfg])
  /\ UNCHANGED <<src, ne, nd>>

Edit(p) ==
  /\ ne < MaxEdits
  /\ src' = [src EXCEPT ![p] = @ + 1]
  /\ ne' = ne + 1
  /\ last' = IF last.built THEN [last EXCEPT !.fresh = FALSE] ELSE last
  /\ hist' = Append(hist, [a |-> "edit", p |-> p])
  /\ UNCHANGED <<gocache, gcache, nb, nd>>

(* C07 faults: an entry of GARBLE_CACHE/build is damaged, an entry of GOCACHE is lost, *)
(* or a whole store is deleted                                                         *)
DamageEntry(e, k) ==
  /\ nd < MaxDamage /\ e \in gcache /\ e.st = "ok"
  /\ gcache' = (gcache \ {e}) \cup {[e EXCEPT !.st = k]}
  /\ nd' = nd + 1
  /\ hist' = Append(hist, [a |-> "damage", p |-> e.key.p, kind |-> k])
  /\ last' = IF last.built THEN [last EXCEPT !.fresh = FALSE] ELSE last
  /\ UNCHANGED <<src, gocache, nb, ne>>
LoseGo(e) ==
  /\ nd < MaxDamage /\ e \in gocache
  /\ gocache' = gocache \ {e}
  /\ nd' = nd + 1
  /\ hist' = Append(hist, [a |-> "losego", p |-> e.aid.p])
  /\ last' = IF last.built THEN [last EXCEPT !.fresh = FALSE] ELSE last
  /\ UNCHANGED <<src, gcache, nb, ne>>
WipeStore(which) ==
  /\ nd < MaxDamage
  /\ gocache' = IF which \in {"gocache", "both"} THEN {} ELSE gocache
  /\ gcache' = IF which \in {"gcache", "both"} THEN {} ELSE gcache
  /\ nd' = nd + 1
  /\ hist' = Append(hist, [a |-> "wipe", which |-> which])
  /\ last' = IF last.built THEN [last EXCEPT !.fresh = FALSE] ELSE last
  /\ UNCHANGED <<src, nb, ne>>

Next == \/ \E cfg \in Cfgs : Build(cfg)
        \/ \E p \in PkgSet : Edit(p)
        \/ \E e \in gcache, k \in DamageKinds : DamageEntry(e, k)
        \/ \E e \in gocache : LoseGo(e)
        \/ \E w \in {"gocache", "gcache", "both"} : WipeStore(w)
Spec == Init /\ [][Next]_vars

(* ------------------------------------------------------------------ properties *)
(* C06/C07: whatever the history, a build's output is the cold output of its configuration and source *)
NoStale == (last.built /\ last.fresh) => last.out = Cold(last.cfg, src)
(* C06: rebuilding with nothing changed recompiles no package *)
NoRework == last.built => ~last.rework
(* C07: reflection facts handed to the obfuscator are the complete ones *)
FactsComplete == (last.built /\ last.fresh) => last.out.main.facts = Deep("main", src)

(* history output for behaviour replay (B2): printed when a history is complete *)
EmitHist == (nb = MaxBuilds) => PrintT(<<"HIST", ToJson(hist)>>)

(* ------------------------------------------------------------------ configuration alphabets *)
Base == [tiny |-> FALSE, lit |-> FALSE, seed |-> "none", gogarble |-> "all", ctrl |-> FALSE, tags |-> FALSE,
         xname |-> FALSE, xval |-> "none"]
CTiny == [Base EXCEPT !.tiny = TRUE]
CLit == [Base EXCEPT !.lit = TRUE]
CSeedA == [Base EXCEPT !.seed = "A"]
CSeedB == [Base EXCEPT !.seed = "B"]
CSub == [Base EXCEPT !.gogarble = "sub"]
CCtrl == [Base EXCEPT !.ctrl = TRUE]
CTags == [Base EXCEPT !.tags = TRUE]
CX1 == [Base EXCEPT !.xname = TRUE, !.xval = "v1"]
CX2 == [Base EXCEPT !.xname = TRUE, !.xval = "v2"]
CLitX1 == [CLit EXCEPT !.xname = TRUE, !.xval = "v1"]
CLitX2 == [CLit EXCEPT !.xname = TRUE, !.xval = "v2"]
CTinyLit == [CTiny EXCEPT !.lit = TRUE]
CfgsAll == {Base, CTiny, CLit, CSeedA, CSeedB, CSub, CCtrl, CTags, CX1, CX2, CLitX1, CLitX2, CTinyLit}
CfgsNoLitX == {Base, CTiny, CLit, CSeedA, CSeedB, CSub, CCtrl, CTags, CX1, CX2, CTinyLit}
CfgsFault == {Base, CLit}
=============================================================================
