------------------------------- MODULE Salts -------------------------------
(* How garble salts the names it generates (properties C12 and C13).        *)
(*                                                                          *)
(* Every obfuscated name is a term  H(salt, seed, ident)  (hashWithCustomSalt, *)
(* hash.go); sha256 is abstracted as a free constructor, so two names are   *)
(* equal iff their terms are equal.  The salt is chosen exactly as the code *)
(* chooses it:                                                              *)
(*   hashWithPackage            ImportPath|            when -seed is given, *)
(*                              GarbleActionID(pkg)    otherwise            *)
(*   hashWithStruct             StructId               when -seed is given, *)
(*                              H(StructId, GarbleInputs) otherwise         *)
(*   runtimeHashWithCustomSalt  seed bytes             when -seed is given, *)
(*                              GarbleActionID(runtime) otherwise           *)
(*   GarbleActionID(pkg) = addGarbleToHash(go action id of pkg)             *)
(*     = H(go action id, garble binary id, GOGARBLE, -literals -tiny -seed) *)
(*   go action id (cmd/go buildActionID of the plain `go list -export`      *)
(*     build) = H(import path, selected source files, compile tool id = Go  *)
(*     version, GOOS/GOARCH, content of every dependency's output)          *)
(*                                                                          *)
(* C12: from the terms TLC derives the dependency matrix                    *)
(*   Dep[mode][nameClass][input] in {"changes", "same", "absent"}           *)
(* by evaluating a class's term under two environments that differ in       *)
(* exactly that input, for EVERY base environment (the state space), and    *)
(* checks that it agrees with Required (the property's text) wherever the   *)
(* text says something, and that the matrix does not depend on the base.    *)
(*                                                                          *)
(* C13: the three views Build / Map / Reverse of one object share the terms *)
(* above; what differs is which objects each view visits and which hashing  *)
(* function it calls for them (transcribed from transformGoFile +           *)
(* obfuscatedObjectName, commandMap, commandReverse).  TLC enumerates       *)
(* object kind x exported x package role x configuration and exports the    *)
(* expected (renamed / listed / map = build / reversed) table.              *)
EXTENDS Naturals, Sequences, FiniteSets, TLC, Json

CONSTANTS
  Mode,                \* "c12" or "c13": which state space Init enumerates
  WideBase,            \* BOOLEAN: also vary source versions and package path in the base environments
  SeededUsesActionID,  \* deviation: hashWithPackage salts with GarbleActionID even when seeded
  StructAlwaysGarble,  \* deviation: hashWithStruct always folds in garble's inputs
  MapFieldsByPackage,  \* deviation: commandMap hashes fields with hashWithPackage
  ReverseSkipsTypes,   \* deviation: commandReverse has no *ast.TypeSpec case
  MapEmbeddedAsField,  \* FALSE as the code has it since the fix of F130; TRUE = before
  ReverseVarsAndIfaceMethods, \* TRUE as the code has it since the fix of F131/F133; FALSE = before
  GapMapEqBuild,       \* object kinds for which the as-is transcription predicts map # build
  GapReverse           \* object kinds for which the as-is transcription predicts "not reversed"

(* ------------------------------------------------------------------ terms *)
H(x) == <<"H", x>>
Absent == <<"absent">>
(* TLC refuses to compare values of different shapes; terms are compared as text *)
SameTerm(a, b) == ToString(a) = ToString(b)

SeedBytes(e) == IF e.seed = "none" THEN "" ELSE e.seed
(* appendFlags(w, forBuildHash = true): -literals, -tiny, -seed=  (ctrlflow and the -X names *)
(* under -literals are outside this model: the fixtures never set them)                       *)
FlagsTail(e) == <<e.lit, e.tiny, e.seed>>
GarbleInputs(e) == <<e.gver, e.gg, FlagsTail(e)>>
GarbleInputFields == <<"binary", "gogarble", "literals", "tiny", "seed">>
AddGarbleToHash(x, e) == H(<<x, GarbleInputs(e)>>)

(* Packages: P observed, D a dependency of P, O not a dependency of P, M main, RT runtime *)
PathOf(p, e) == IF p = "P" THEN e.path ELSE p
DepsOf(p) == CASE p = "P" -> <<"D">> [] p = "M" -> <<"P", "O">> [] OTHER -> <<>>
(* the files cmd/go selects: P has a pair of files under a build tag; std is a function of the *)
(* Go version and the platform                                                               *)
SrcOf(p, e) == CASE p = "P" -> <<e.srcP, e.tag>>
                 [] p = "D" -> <<e.srcD>>
                 [] p = "O" -> <<e.srcO>>
                 [] p \in {"RT", "ABI"} -> <<e.gover, e.plat>>
                 [] OTHER -> <<0>>
GoTool(e) == <<"compile", e.gover>>
RECURSIVE Content(_, _)
Content(p, e) == <<"obj", PathOf(p, e), SrcOf(p, e), GoTool(e), e.plat,
                   [i \in 1..Len(DepsOf(p)) |-> Content(DepsOf(p)[i], e)]>>
(* main packages also hash the build settings (modinfo), which record -tags *)
GoActionID(p, e) == <<"aid", PathOf(p, e), SrcOf(p, e), GoTool(e), e.plat,
                      [i \in 1..Len(DepsOf(p)) |-> Content(DepsOf(p)[i], e)],
                      IF p = "M" THEN <<e.tag>> ELSE <<>> >>
GarbleActionID(p, e) == AddGarbleToHash(GoActionID(p, e), e)

HashCustom(salt, e, name) == H(<<salt, SeedBytes(e), name>>)
HashWithPackage(p, e, name) ==
  IF e.seed = "none" \/ SeededUsesActionID
  THEN HashCustom(GarbleActionID(p, e), e, name)
  ELSE HashCustom(<<PathOf(p, e), "|">>, e, name)
HashWithStruct(sid, e, name) ==
  LET salt == IF e.seed = "none" \/ StructAlwaysGarble THEN AddGarbleToHash(sid, e) ELSE sid
  IN HashCustom(salt, e, name)
RuntimeHash(e, s) == H(<<IF e.seed = "none" THEN GarbleActionID("RT", e) ELSE e.seed, s>>)
(* the pclntab magic is compiled into internal/abi, so it is salted with that package's action ID *)
(* (since the fix of F20; before: runtime's, which internal/abi does not depend on)              *)
AbiHash(e, s) == H(<<IF e.seed = "none" THEN GarbleActionID("ABI", e) ELSE e.seed, s>>)

(* ------------------------------------------------------------------ C12 *)
Classes == {"scoped", "importpath", "field", "position", "asm", "magic", "entryoff"}
Inputs == {"seed", "literals", "tiny", "editSame", "editOther", "editDep", "tag", "platform", "pkgpath",
           "gogarble", "garblever", "gover", "cachestate"}
Modes == {"seeded", "unseeded"}

NameTerm(c, e) ==
  CASE c = "scoped" -> HashWithPackage("P", e, "ident")
    [] c = "importpath" -> HashWithPackage("P", e, <<"importpath", PathOf("P", e)>>)
    [] c = "field" -> HashWithStruct("S", e, "fld")
    [] c = "position" -> IF e.tiny THEN Absent ELSE HashWithPackage("P", e, <<"file.go", "offset">>)
    [] c = "asm" -> HashWithPackage("P", e, "nop.s")
    [] c = "magic" -> AbiHash(e, "magic")
    [] c = "entryoff" -> RuntimeHash(e, "entryOffKey")

Flip(b) == ~b
Other2(v, a, b) == IF v = a THEN b ELSE a
Perturb(e, i) ==
  CASE i = "seed" -> [e EXCEPT !.seed = Other2(@, "A", "B")]
    [] i = "literals" -> [e EXCEPT !.lit = Flip(@)]
    [] i = "tiny" -> [e EXCEPT !.tiny = Flip(@)]
    [] i = "editSame" -> [e EXCEPT !.srcP = @ + 1]
    [] i = "editOther" -> [e EXCEPT !.srcO = @ + 1]
    [] i = "editDep" -> [e EXCEPT !.srcD = @ + 1]
    [] i = "tag" -> [e EXCEPT !.tag = Flip(@)]
    [] i = "platform" -> [e EXCEPT !.plat = Other2(@, "amd64", "arm64")]
    [] i = "pkgpath" -> [e EXCEPT !.path = Other2(@, "p1", "p2")]
    [] i = "gogarble" -> [e EXCEPT !.gg = Other2(@, "all", "mod")]
    [] i = "garblever" -> [e EXCEPT !.gver = Other2(@, "g1", "g2")]
    [] i = "gover" -> [e EXCEPT !.gover = Other2(@, "go1", "go2")]
    [] i = "cachestate" -> e      \* same inputs, another (cold or warm) cache: nothing a name may depend on
Applicable(e, i) == (i = "seed") => (e.seed # "none")
ModeOf(e) == IF e.seed = "none" THEN "unseeded" ELSE "seeded"

Compare(a, b) == IF SameTerm(a, Absent) \/ SameTerm(b, Absent) THEN "absent"
                 ELSE IF SameTerm(a, b) THEN "same" ELSE "changes"
DepAt(e, c, i) == Compare(NameTerm(c, e), NameTerm(c, Perturb(e, i)))

CanonBase(m) == [seed |-> IF m = "seeded" THEN "A" ELSE "none", lit |-> FALSE, tiny |-> FALSE, gg |-> "all", gver |-> "g1",
                 gover |-> "go1", plat |-> "amd64", tag |-> FALSE, srcP |-> 0, srcD |-> 0, srcO |-> 0, path |-> "p1"]
Dep == [m \in Modes |-> [c \in Classes |-> [i \in Inputs |->
          IF Applicable(CanonBase(m), i) THEN DepAt(CanonBase(m), c, i) ELSE "n/a"]]]

(* The property's text.  Seeded: a name depends only on the seed, the identifier and the package  *)
(* path (fields: the struct's shape).  Unseeded: package-scoped names and the import path change   *)
(* with the package's source (an edit; a build tag that selects another file of the package), the  *)
(* garble flags, GOGARBLE, the garble version, the Go version, and stay when none of them changes; *)
(* field names change with the garble flags, GOGARBLE and the garble version and not with a source *)
(* edit.  Everything the text does not pin down is "unspecified".                                 *)
PkgClasses == {"scoped", "importpath", "position", "asm"}
ReqSeeded(c, i) ==
  CASE i = "seed" -> "must change"
    [] i = "pkgpath" -> IF c \in PkgClasses THEN "must change" ELSE IF c = "field" THEN "must not change" ELSE "unspecified"
    [] i = "tiny" /\ c = "position" -> "unspecified"      \* -tiny removes position names altogether
    [] OTHER -> "must not change"
ReqUnseeded(c, i) ==
  CASE c \in {"scoped", "importpath"} ->
         (CASE i \in {"editSame", "tag", "literals", "tiny", "gogarble", "garblever", "gover"} -> "must change"
            [] i \in {"editOther", "cachestate"} -> "must not change"
            [] OTHER -> "unspecified")
    [] c = "field" ->
         (CASE i \in {"literals", "tiny", "gogarble", "garblever"} -> "must change"
            [] i \in {"editSame", "editOther", "editDep", "cachestate"} -> "must not change"
            [] OTHER -> "unspecified")
    [] OTHER -> "unspecified"
Required == [m \in Modes |-> [c \in Classes |-> [i \in Inputs |->
               IF m = "seeded" THEN ReqSeeded(c, i) ELSE IF i = "seed" THEN "n/a" ELSE ReqUnseeded(c, i)]]]

Agrees(dep, req) == CASE req = "must change" -> dep \in {"changes", "absent"}
                      [] req = "must not change" -> dep \in {"same", "absent"}
                      [] OTHER -> TRUE

(* ------------------------------------------------------------------ C13 *)
Kinds == {"type", "alias", "func", "var", "const", "field", "embedded", "method", "imethod", "imethodlone",
          "gentype", "genfield", "genmethod", "genfunc", "typeparam", "anonfield", "local"}
Roles == {"main", "lib", "excluded"}
FieldKinds == {"field", "genfield", "anonfield"}
MethodKinds == {"method", "imethod", "imethodlone", "genmethod"}
(* exported has no meaning for these kinds (one row each) *)
NoExportKinds == {"typeparam", "local", "embedded"}

(* obfuscatedObjectName: constants are never renamed, exported methods might implement an interface *)
Renamed(o) == /\ o.role # "excluded"
              /\ o.kind # "const"
              /\ ~(o.kind \in MethodKinds /\ o.exported)
(* commandMap skips objects whose parent scope is not the package scope *)
LocalScope(o) == o.kind \in {"typeparam", "local"}
(* objectpath: package-level types always have a path, other package-level objects only when    *)
(* exported; fields and methods are found through their named type; the fields of an anonymous  *)
(* struct only through an exported variable (for anonfield, `exported` is the variable's)       *)
ApiReachable(o) == CASE o.kind \in {"type", "alias", "gentype"} -> TRUE
                     [] o.kind \in {"func", "var", "const", "genfunc", "anonfield"} -> o.exported
                     [] o.kind \in {"typeparam", "local"} -> FALSE
                     [] OTHER -> TRUE
ListedByMap(o) == Renamed(o) /\ ~LocalScope(o) /\ ApiReachable(o)

(* the build renames the identifier of an embedded field as the type it names (transformGoFile), *)
(* the map view asks obfuscatedObjectName about the field object itself (hashWithStruct)         *)
BuildTerm(o, e) == IF o.kind \in FieldKinds THEN HashWithStruct("S", e, "name")
                   ELSE HashWithPackage("P", e, "name")
(* (since the fix of F130 commandMap names an embedded field after its type, like the build;    *)
(* before - what-if MapEmbeddedAsField - it hashed it as a struct field)                        *)
MapTerm(o, e) == IF o.kind \in FieldKinds \cup (IF MapEmbeddedAsField THEN {"embedded"} ELSE {})
                 THEN (IF MapFieldsByPackage THEN HashWithPackage("P", e, "name") ELSE HashWithStruct("S", e, "name"))
                 ELSE HashWithPackage("P", e, "name")
(* commandReverse: FuncDecl and TypeSpec names hashed with the package, named struct fields with  *)
(* the struct; variables, embedded fields and interface methods have no case of their own (an     *)
(* interface method is covered by the FuncDecl of an implementation in the same package)          *)
ReverseTerm(o, e) ==
  CASE o.kind \in {"type", "alias", "gentype"} -> IF ReverseSkipsTypes THEN Absent ELSE HashWithPackage("P", e, "name")
    [] o.kind \in {"func", "genfunc", "method", "genmethod", "imethod"} -> HashWithPackage("P", e, "name")
    [] o.kind \in FieldKinds -> HashWithStruct("S", e, "name")
    [] o.kind = "embedded" -> IF ReverseSkipsTypes THEN Absent ELSE HashWithPackage("P", e, "name")
    \* since the fix of F131/F133: package-level *ast.ValueSpec names and methods declared in interface types
    [] o.kind \in {"var", "imethodlone"} -> IF ReverseVarsAndIfaceMethods THEN HashWithPackage("P", e, "name") ELSE Absent
    [] OTHER -> Absent

MapEqBuildAt(o, e) == SameTerm(MapTerm(o, e), BuildTerm(o, e))
ReverseInvertsAt(o, e) == SameTerm(ReverseTerm(o, e), MapTerm(o, e))

Cfgs13 == {"default", "seed", "tiny", "gogarble", "tags"}
Env13(c) == [CanonBase("unseeded") EXCEPT !.seed = IF c = "seed" THEN "A" ELSE "none", !.tiny = (c = "tiny"),
                                          !.gg = IF c = "gogarble" THEN "mod" ELSE "all", !.tag = (c = "tags")]
Objs == {o \in [kind : Kinds, exported : BOOLEAN, role : Roles] : o.kind \in NoExportKinds => o.exported}
Row(o) == [kind |-> o.kind, exported |-> o.exported, role |-> o.role, renamed |-> Renamed(o), listed |-> ListedByMap(o),
           reachable |-> ApiReachable(o),
           salt |-> IF o.kind \in FieldKinds THEN "struct" ELSE "package",
           mapEqBuild |-> MapEqBuildAt(o, Env13("default")), reversed |-> ReverseInvertsAt(o, Env13("default"))]
Table13 == [rows |-> {Row(o) : o \in Objs}]

(* ------------------------------------------------------------------ state space *)
VARIABLES env, input, obj, cfg13
vars == <<env, input, obj, cfg13>>

Srcs == IF WideBase THEN {0, 1} ELSE {0}
Paths == IF WideBase THEN {"p1", "p2"} ELSE {"p1"}
BaseEnvs == [seed : {"none", "A", "B"}, lit : BOOLEAN, tiny : BOOLEAN, gg : {"all", "mod"}, gver : {"g1", "g2"},
             gover : {"go1", "go2"}, plat : {"amd64", "arm64"}, tag : BOOLEAN, srcP : Srcs, srcD : Srcs, srcO : Srcs,
             path : Paths]
NoObj == [kind |-> "none", exported |-> FALSE, role |-> "none"]

Init == IF Mode = "c12"
        THEN /\ env \in BaseEnvs /\ input \in Inputs /\ Applicable(env, input)
             /\ obj = NoObj /\ cfg13 = "none"
        ELSE /\ obj \in Objs /\ cfg13 \in Cfgs13
             /\ env = Env13(cfg13) /\ input = "none"
Next == UNCHANGED vars
Spec == Init /\ [][Next]_vars

(* C12 invariants *)
DepAgreesWithRequired ==
  Mode = "c12" => \A c \in Classes : Agrees(DepAt(env, c, input), Required[ModeOf(env)][c][input])
DepWellDefined ==
  Mode = "c12" => \A c \in Classes : DepAt(env, c, input) \in {Dep[ModeOf(env)][c][input], "absent"}
(* the two halves of the salt rule, stated directly *)
SeededIgnoresBuildInputs ==
  (Mode = "c12" /\ env.seed # "none" /\ input \notin {"seed", "pkgpath"}) =>
     \A c \in Classes : DepAt(env, c, input) \in {"same", "absent"}
UnseededTracksOwnInputs ==
  (Mode = "c12" /\ env.seed = "none" /\ input \in {"editSame", "literals", "tiny", "gogarble", "garblever", "gover"}) =>
     \A c \in {"scoped", "importpath", "asm"} : DepAt(env, c, input) = "changes"

(* C13 invariants *)
MapEqBuild ==
  (Mode = "c13" /\ ListedByMap(obj) /\ obj.kind \notin GapMapEqBuild) => MapEqBuildAt(obj, env)
MapComplete ==
  (Mode = "c13" /\ Renamed(obj) /\ ApiReachable(obj)) => ListedByMap(obj)
ReverseInvertsMap ==
  (Mode = "c13" /\ ListedByMap(obj) /\ obj.kind \notin GapReverse) => ReverseInvertsAt(obj, env)
(* the gaps are exactly the kinds for which the transcription predicts a failure *)
GapsExact ==
  Mode = "c13" =>
    /\ (ListedByMap(obj) /\ obj.kind \in GapMapEqBuild) => ~MapEqBuildAt(obj, env)
    /\ (ListedByMap(obj) /\ obj.kind \in GapReverse) => ~ReverseInvertsAt(obj, env)

(* table extraction *)
ASSUME Mode = "c12" => JsonSerialize("salts_matrix.json",
          [dep |-> Dep, required |-> Required, garbleInputs |-> GarbleInputFields])
ASSUME Mode = "c13" => JsonSerialize("salts_objects.json", Table13)
=============================================================================
