------------------------------ MODULE Pipeline ------------------------------
(* The whole process tree of `garble build|test|run` as one state machine.   *)
(*                                                                          *)
(*   top-level garble (mainErr / toolexecCmd, main.go)                       *)
(*     cmd-start -> [shared-created] -> go-start -> ... -> go-done ->        *)
(*     shared-remove                                                         *)
(*   cmd/go (not garble's code; its scheduling rule is the environment):     *)
(*     one toolexec child per (package, tool) action, a package's compile    *)
(*     only after the compile of everything it imports is in GOCACHE, the    *)
(*     link last                                                             *)
(*   toolexec child (mainErr "toolexec", transformCompile / transformAsm /   *)
(*     transformLink): toolexec-start -> compile-start -> pkgcache-get ->    *)
(*     [pkgcache-dep .. pkgcache-put] -> write-source* -> tool-run ->        *)
(*     tool-done;  the link child wraps tool-run in the PatchLinker protocol *)
(*     of Linker.tla (lock .. unlock)                                        *)
(*                                                                          *)
(* Several top-level commands (Tops) run concurrently or one after the      *)
(* other over the same TMPDIR, GOCACHE and GARBLE_CACHE; Kill removes a      *)
(* whole process tree at any step.  The module composes the three smaller    *)
(* protocol specifications: the shared-directory life cycle (Lifecycle.tla, *)
(* here with the children that depend on the directory), the two caches      *)
(* (BuildCache.tla, here with the processes that fill them) and the linker   *)
(* cache (Linker.tla, extended).                                            *)
(*                                                                          *)
(* Every action has a hook event of the same name (verif_on.go); the trace  *)
(* module PipelineTrace.tla replays recorded events of real builds through  *)
(* these actions, so each invariant below is evaluated on every step of      *)
(* every recorded execution (C17, C18, C19; cache halves of C06, C07).      *)
EXTENDS Linker, Sequences

CONSTANTS
  Tops,        \* top-level garble commands (concurrent or consecutive, same TMPDIR / GOCACHE / GARBLE_CACHE)
  LinkTop,     \* [Procs -> Tops]: the command each link child (a process of Linker.tla) belongs to
  LinkNeeds,   \* [Procs -> set of packages]: what the linked program consists of
  TransDeps,   \* [package -> set of packages]: transitive imports
  PkgSeq,      \* packages of the build in a topological order (sequence of strings)
  Imports,     \* [package -> set of packages it imports] (only module-internal edges matter)
  AsmPkgs,     \* packages with assembly files (asm runs once with -gensymabis, then once per .s file)
  RealAsm,     \* names of the real assembler runs of a package ({"asm2"}; traces: "asm2", "asm3", ...)
  CfgOf,       \* [Tops -> [package -> id]]: identity of (configuration, source) of the package as that command
               \* sees it - equal ids share cache entries (traces: the package's GarbleActionID)
  MayFail,     \* BOOLEAN: tool failures and early exits are explored
  DirName,     \* [Tops -> name of the shared temp dir]: os.MkdirTemp gives every invocation a fresh one
  InheritFrom, \* [Tops -> Tops \cup {"none"}]: started (by a test under `garble test`) with that command's GARBLE_SHARED
  ReflectPkgs, \* packages that (transitively) import reflect: only these have GARBLE_CACHE entries
  ObfPkgs,     \* packages selected by GOGARBLE (ToObfuscate)
  NamedAsmPkgs, \* obfuscated assembly packages that declare struct types: their compile stores a go_asm.h name map
  InitGo,      \* <<pkg, cfg>> pairs already in GOCACHE when the behaviour starts (warm caches)
  InitGk,      \* <<pkg, cfg>> pairs already in GARBLE_CACHE
  ForgetInherited, \* BOOLEAN: toolexecCmd unsets an inherited GARBLE_SHARED (fix of finding F9)
  DbgTops,     \* commands run with -debugdir (main.go:436-503, debugdir.go)
  InitDk,      \* <<pkg, cfg, kind>> debug artifacts already in GARBLE_CACHE (kind: "compile" | "asm")
  ForceAll     \* BOOLEAN: a -debugdir command whose artifacts are incomplete adds -a (debugDirNeedsRebuild)

PkgSet == {PkgSeq[i] : i \in 1..Len(PkgSeq)}
Tools == {"compile", "asm1"} \cup RealAsm
Kids == Tops \X PkgSet \X Tools

VARIABLES
  tpc,      \* [Tops -> "idle" | "started" | "shared" | "going" | "godone" | "cleaned" | "killed"]
  texit,    \* [Tops -> "running" | "ok" | "error"]
  env,      \* [Tops -> "unset" | dir name]  GARBLE_SHARED as this invocation sees it
  dirs,     \* set of shared temp dir names that exist in TMPDIR
  created,  \* [Tops -> set of dir names] directories each invocation created (history)
  removed,  \* [Tops -> set of dir names] directories each invocation removed (history)
  kpc,      \* [Kids -> "none" | "started" | "computing" | "loaded" | "wrote" | "running" | "done" | "failed" | "killed"]
  gocache,  \* set of <<pkg, cfg>>: compile outputs cmd/go has cached
  gkeys,    \* set of <<pkg, cfg>>: GARBLE_CACHE/build entries (reflection facts)
  akeys,    \* set of <<pkg, cfg>>: go_asm.h name maps in GARBLE_CACHE (saveGoAsmNames)
  named,    \* set of assembler children that loaded their package's go_asm.h name map
  wrotein,  \* [Kids -> set of Tops] shared dirs a child wrote sources into (history)
  linked    \* set of link children that produced their binary
pvars == <<tpc, texit, env, dirs, created, removed, kpc, gocache, gkeys, akeys, named, wrotein, linked>>
VARIABLES
  dkeys,    \* set of <<pkg, cfg, kind>>: -debugdir artifacts in GARBLE_CACHE (saveDebugArtifactsForPkg)
  forcea,   \* [Tops -> BOOLEAN] the command passes -a to the go command (every package is rebuilt)
  dbg,      \* [Tops -> "none" | "claimed" | "checked"]: the -debugdir target was claimed / the artifact check was made
  restored  \* [Tops -> set of <<pkg, kind>>] what restoreDebugDirFromCache wrote into the -debugdir target
dvars == <<dkeys, forcea, dbg, restored>>
DUnch == UNCHANGED dvars
allvars == <<vars, pvars, dvars>>

Key(t, p) == <<p, CfgOf[t][p]>>
KidsOf(t) == {k \in Kids : k[1] = t}
Live(k) == kpc[k] \in {"started", "computing", "loaded", "wrote", "running"}
Settled(k) == kpc[k] \in {"none", "done", "failed", "killed"}
LinksOf(t) == {lp \in Procs : LinkTop[lp] = t}
LinkIdle(t) == \A lp \in LinksOf(t) : pc[lp] \in {"idle", "done"}
NeedsOf(t) == UNION {LinkNeeds[lp] : lp \in LinksOf(t)}

PInit == /\ tpc = TLCEval([t \in Tops |-> "idle"])
         /\ texit = TLCEval([t \in Tops |-> "running"])
         /\ env = TLCEval([t \in Tops |-> "unset"])
         /\ dirs = {}
         /\ created = TLCEval([t \in Tops |-> {}])
         /\ removed = TLCEval([t \in Tops |-> {}])
         /\ kpc = TLCEval([k \in Kids |-> "none"])
         /\ gocache = InitGo /\ gkeys = InitGk /\ akeys = {}
         /\ named = {}
         /\ wrotein = TLCEval([k \in Kids |-> {}])
         /\ linked = {}
         /\ dkeys = InitDk
         /\ forcea = TLCEval([t \in Tops |-> FALSE])
         /\ dbg = TLCEval([t \in Tops |-> "none"])
         /\ restored = TLCEval([t \in Tops |-> {}])
FullInit == Init /\ PInit

LinkerUnchanged == UNCHANGED vars /\ DUnch
LinkerOnlyUnchanged == UNCHANGED vars

(* ------------------------------------------------------------------ top-level process *)
CmdStart(t) ==
  /\ tpc[t] = "idle"
  /\ (InheritFrom[t] # "none" => tpc[InheritFrom[t]] = "going")      \* run by a test of that command
  /\ tpc' = [tpc EXCEPT ![t] = "started"]
  /\ env' = [env EXCEPT ![t] = IF ForgetInherited \/ InheritFrom[t] = "none" THEN "unset" ELSE env[InheritFrom[t]]]
  /\ UNCHANGED <<texit, dirs, created, removed, kpc, gocache, gkeys, akeys, named, wrotein, linked>> /\ LinkerUnchanged

(* flag error, help, go list error, version gate: nothing was created *)
EarlyFail(t) ==
  /\ MayFail /\ tpc[t] = "started"
  /\ tpc' = [tpc EXCEPT ![t] = "godone"]
  /\ texit' = [texit EXCEPT ![t] = "error"]
  /\ UNCHANGED <<env, dirs, created, removed, kpc, gocache, gkeys, akeys, named, wrotein, linked>> /\ LinkerUnchanged

(* saveSharedCache: os.MkdirTemp gives a fresh name; os.Setenv *)
SharedCreate(t) ==
  /\ tpc[t] = "started"
  /\ dirs' = dirs \cup {DirName[t]}
  /\ created' = [created EXCEPT ![t] = @ \cup {DirName[t]}]
  /\ env' = [env EXCEPT ![t] = DirName[t]]
  /\ tpc' = [tpc EXCEPT ![t] = "shared"]
  /\ UNCHANGED <<texit, removed, kpc, gocache, gkeys, akeys, named, wrotein, linked>> /\ LinkerUnchanged

GoStart(t) ==
  /\ tpc[t] = "shared"
  /\ (t \in DbgTops => dbg[t] = "checked")
  /\ tpc' = [tpc EXCEPT ![t] = "going"]
  /\ UNCHANGED <<texit, env, dirs, created, removed, kpc, gocache, gkeys, akeys, named, wrotein, linked>> /\ LinkerUnchanged

(* cmd.Run returns: every child has exited; it fails iff some tool failed *)
AnyFailed(t) == (\E k \in KidsOf(t) : kpc[k] = "failed") \/ (\E lp \in LinksOf(t) : pc[lp] = "done" /\ lp \notin linked)
GoDone(t) ==
  /\ tpc[t] = "going"
  /\ \A k \in KidsOf(t) : Settled(k)
  /\ LinkIdle(t)
  /\ \/ ~AnyFailed(t) /\ LinksOf(t) \subseteq linked /\ texit' = texit
        /\ (forcea[t] => \A p \in NeedsOf(t) : kpc[<<t, p, "compile">>] = "done")      \* -a: nothing is taken from GOCACHE
     \/ AnyFailed(t) /\ texit' = [texit EXCEPT ![t] = "error"]
     \/ MayFail /\ texit' = [texit EXCEPT ![t] = "error"]     \* the go command fails by itself (go vet, a failing test, ...)
  /\ tpc' = [tpc EXCEPT ![t] = "godone"]
  /\ UNCHANGED <<env, dirs, created, removed, kpc, gocache, gkeys, akeys, named, wrotein, linked>> /\ LinkerUnchanged

(* the deferred os.RemoveAll(os.Getenv("GARBLE_SHARED")); a successful -debugdir command restores first *)
Cleanup(t) ==
  /\ \/ tpc[t] = "godone" /\ ~(t \in DbgTops /\ texit[t] = "running")
     \/ tpc[t] = "restored"
  /\ dirs' = dirs \ {env[t]}
  /\ removed' = [removed EXCEPT ![t] = IF env[t] \in dirs THEN @ \cup {env[t]} ELSE @]
  /\ texit' = [texit EXCEPT ![t] = IF @ = "running" THEN "ok" ELSE @]
  /\ tpc' = [tpc EXCEPT ![t] = "cleaned"]
  /\ UNCHANGED <<env, created, kpc, gocache, gkeys, akeys, named, wrotein, linked>> /\ LinkerUnchanged

(* ------------------------------------------------------------------ -debugdir (main.go:436-503, debugdir.go) *)
(* what the command's program consists of: the packages its link children need *)
DKey(t, p, kind) == <<p, CfgOf[t][p], kind>>
(* the artifacts a complete -debugdir tree needs: the Go files of every package, the assembly files of assembly packages *)
DWanted(t) == {<<p, "compile">> : p \in NeedsOf(t)} \cup {<<p, "asm">> : p \in NeedsOf(t) \cap AsmPkgs}
DAllCached(t) == \A w \in DWanted(t) : DKey(t, w[1], w[2]) \in dkeys
(* the target directory is absent, empty or carries the marker: it is emptied and claimed (a foreign one is *)
(* rejected: EarlyFail / Lifecycle.tla)                                                                     *)
DebugClaim(t) ==
  /\ t \in DbgTops /\ tpc[t] = "shared" /\ dbg[t] = "none"
  /\ dbg' = [dbg EXCEPT ![t] = "claimed"]
  /\ restored' = [restored EXCEPT ![t] = {}]
  /\ UNCHANGED <<dkeys, forcea>> /\ UNCHANGED pvars /\ LinkerOnlyUnchanged
(* debugDirNeedsRebuild: unless every listed package has its artifacts, force one full rebuild with -a *)
(* (the listing also holds packages that are not part of this build, so -a may be added needlessly)     *)
DebugCheck(t, needs) ==
  /\ t \in DbgTops /\ tpc[t] = "shared" /\ dbg[t] = "claimed"
  /\ (~needs => DAllCached(t))
  /\ dbg' = [dbg EXCEPT ![t] = "checked"]
  /\ forcea' = [forcea EXCEPT ![t] = needs /\ ForceAll]
  /\ UNCHANGED <<dkeys, restored>> /\ UNCHANGED pvars /\ LinkerOnlyUnchanged
(* saveDebugArtifactsForPkg: the compile child, and the first assembler run (which rewrites all .s files), store *)
(* the package's original and garbled files after writing them and before running the tool                        *)
DKind(k) == IF k[3] = "compile" THEN "compile" ELSE "asm"
DebugPut(k) ==
  /\ k[1] \in DbgTops /\ k[3] \in {"compile", "asm1"} /\ kpc[k] \in {"loaded", "wrote"}
  /\ dkeys' = dkeys \cup {DKey(k[1], k[2], DKind(k))}
  /\ UNCHANGED <<forcea, dbg, restored>> /\ UNCHANGED pvars /\ LinkerOnlyUnchanged
DebugStored(k) == (k[1] \in DbgTops /\ k[3] \in {"compile", "asm1"} /\ k[2] \in ObfPkgs) => DKey(k[1], k[2], DKind(k)) \in dkeys
(* restoreDebugDirFromCache after a successful go command: every artifact found is written into the target *)
DebugRestore(t, p, kind) ==
  /\ t \in DbgTops /\ tpc[t] = "godone" /\ texit[t] = "running"
  /\ DKey(t, p, kind) \in dkeys
  /\ restored' = [restored EXCEPT ![t] = @ \cup {<<p, kind>>}]
  /\ UNCHANGED <<dkeys, forcea, dbg>> /\ UNCHANGED pvars /\ LinkerOnlyUnchanged
DebugRestoreEnd(t) ==
  /\ t \in DbgTops /\ tpc[t] = "godone" /\ texit[t] = "running"
  /\ \A w \in DWanted(t) : DKey(t, w[1], w[2]) \in dkeys => w \in restored[t]
  /\ tpc' = [tpc EXCEPT ![t] = "restored"]
  /\ UNCHANGED <<texit, env, dirs, created, removed, kpc, gocache, gkeys, akeys, named, wrotein, linked>> /\ LinkerUnchanged

(* ------------------------------------------------------------------ cmd/go's scheduling (environment) *)
Have(t, p) == Key(t, p) \in gocache
DepsReady(t, p) == \A d \in Imports[p] : Have(t, d)
(* asm1 (-gensymabis) precedes the compile of an assembly package, the real runs follow it *)
(* (the object is stored after the last of them; the model takes the first, which only    *)
(* weakens what dependants may assume)                                                    *)
Schedulable(k) ==
  LET t == k[1]  p == k[2]  tool == k[3] IN
  /\ tpc[t] = "going" /\ kpc[k] = "none" /\ DepsReady(t, p)
  \* (cmd/go decides what is stale when the build starts: a package may be compiled although a concurrent
  \* command has stored the same object in the meantime, so there is no "not cached yet" guard)
  /\ CASE tool = "asm1" -> p \in AsmPkgs
       [] tool = "compile" -> (p \in AsmPkgs => kpc[<<t, p, "asm1">>] = "done")
       [] OTHER -> p \in AsmPkgs /\ kpc[<<t, p, "compile">>] = "done"

(* toolexec-start: loadSharedCache reads the file in the shared dir *)
KidStart(k) ==
  /\ Schedulable(k)
  /\ kpc' = [kpc EXCEPT ![k] = IF DirName[k[1]] \in dirs THEN "started" ELSE "failed"]
  /\ UNCHANGED <<tpc, texit, env, dirs, created, removed, gocache, gkeys, akeys, named, wrotein, linked>> /\ LinkerUnchanged

(* loadPkgCache (cache_pkg.go): one GetFile of the package's own entry ...            *)
Closure(p) == {p} \cup TransDeps[p]
(* only packages that depend on reflect carry facts (computePkgCache stops early otherwise) *)
Facts(p) == Closure(p) \cap ReflectPkgs
CacheGet(k) ==
  LET t == k[1]  p == k[2] IN
  /\ kpc[k] = "started" /\ k[3] = "compile"
  /\ kpc' = [kpc EXCEPT ![k] = IF Key(t, p) \in gkeys \/ p \notin ReflectPkgs THEN "loaded" ELSE "computing"]
  /\ UNCHANGED <<tpc, texit, env, dirs, created, removed, gocache, gkeys, akeys, named, wrotein, linked>> /\ LinkerUnchanged
(* ... and on a miss computePkgCache: every import's entry is merged, a missing one is    *)
(* recomputed first (recursively), then the package's own entry is written (PutBytes)     *)
CachePut(k, q) ==
  LET t == k[1]  p == k[2] IN
  /\ kpc[k] = "computing" /\ q \in Facts(p)
  /\ \A d \in Facts(q) \ {q} : Key(t, d) \in gkeys          \* bottom-up: the imports' entries exist
  /\ (q = p => \A d \in Facts(p) \ {p} : Key(t, d) \in gkeys)
  /\ gkeys' = gkeys \cup {Key(t, q)}
  /\ kpc' = [kpc EXCEPT ![k] = IF q = p THEN "loaded" ELSE "computing"]
  /\ UNCHANGED <<tpc, texit, env, dirs, created, removed, gocache, akeys, named, wrotein, linked>> /\ LinkerUnchanged
(* the assembler children have no cache step; a real run reads the name map that the   *)
(* package's compile stored, if it stored one (loadGoAsmNames; a miss is silent there)  *)
AsmLoaded(k) ==
  /\ kpc[k] = "started" /\ k[3] # "compile"
  /\ kpc' = [kpc EXCEPT ![k] = "loaded"]
  /\ named' = IF k[3] \in RealAsm /\ Key(k[1], k[2]) \in akeys THEN named \cup {k} ELSE named
  /\ UNCHANGED <<tpc, texit, env, dirs, created, removed, gocache, gkeys, akeys, wrotein, linked>> /\ LinkerUnchanged
(* saveGoAsmNames: the compile of an obfuscated assembly package that declares struct   *)
(* types stores the go_asm.h name map                                                   *)
AsmNamesPut(k) ==
  LET t == k[1]  p == k[2] IN
  /\ kpc[k] = "loaded" /\ k[3] = "compile" /\ p \in NamedAsmPkgs /\ k \notin named
  /\ akeys' = akeys \cup {Key(t, p)}
  /\ named' = named \cup {k}                       \* (for a compile child: "has stored the map")
  /\ UNCHANGED <<tpc, texit, env, dirs, created, removed, kpc, gocache, gkeys, wrotein, linked>> /\ LinkerUnchanged

(* writeSourceFile into the shared dir named by GARBLE_SHARED (the parent's own)        *)
WriteSources(k) ==
  LET t == k[1]  p == k[2] IN
  /\ kpc[k] \in {"loaded", "wrote"}
  /\ (k[3] = "compile" /\ p \in NamedAsmPkgs => k \in named)      \* the name map is stored before the sources are written
  /\ IF DirName[t] \in dirs
       THEN /\ kpc' = [kpc EXCEPT ![k] = "wrote"]
            /\ wrotein' = [wrotein EXCEPT ![k] = @ \cup {DirName[t]}]
       ELSE /\ kpc' = [kpc EXCEPT ![k] = "failed"]
            /\ UNCHANGED wrotein
  /\ UNCHANGED <<tpc, texit, env, dirs, created, removed, gocache, gkeys, akeys, named, linked>> /\ LinkerUnchanged

(* the first assembler run (-gensymabis) and packages without Go files to rewrite go  *)
(* straight to the tool                                                               *)
ToolRun(k) ==
  /\ kpc[k] \in {"wrote", "loaded"}
  /\ (k[3] = "compile" /\ k[2] \in NamedAsmPkgs => k \in named)
  /\ DebugStored(k)
  /\ kpc' = [kpc EXCEPT ![k] = "running"]
  /\ UNCHANGED <<tpc, texit, env, dirs, created, removed, gocache, gkeys, akeys, named, wrotein, linked>> /\ LinkerUnchanged

(* tool-done ok: cmd/go stores the object once the last tool of the package is done *)
PkgComplete(t, p, k) == IF p \in AsmPkgs THEN k[3] \in RealAsm ELSE k[3] = "compile"
ToolDone(k) ==
  LET t == k[1]  p == k[2] IN
  /\ kpc[k] = "running"
  /\ kpc' = [kpc EXCEPT ![k] = "done"]
  /\ gocache' = IF PkgComplete(t, p, k) THEN gocache \cup {Key(t, p)} ELSE gocache
  /\ UNCHANGED <<tpc, texit, env, dirs, created, removed, gkeys, akeys, named, wrotein, linked>> /\ LinkerUnchanged
ToolFail(k) ==
  /\ MayFail /\ kpc[k] = "running"
  /\ kpc' = [kpc EXCEPT ![k] = "failed"]
  /\ UNCHANGED <<tpc, texit, env, dirs, created, removed, gocache, gkeys, akeys, named, wrotein, linked>> /\ LinkerUnchanged

(* ------------------------------------------------------------------ the link child: Linker.tla steps *)
Top(lp) == LinkTop[lp]
LinkReady(lp) == \A p \in LinkNeeds[lp] : Have(Top(lp), p)
PUnch == UNCHANGED pvars /\ DUnch
LinkStart(lp) == /\ tpc[Top(lp)] = "going" /\ LinkReady(lp) /\ lp \notin linked
                 /\ Start(lp) /\ PUnch
LinkStep(lp) == /\ tpc[Top(lp)] = "going"
                /\ (Lock(lp) \/ Check(lp) \/ Patch(lp) \/ BuildStart(lp) \/ BuildDone(lp) \/ Rename(lp) \/ StampStart(lp) \/ StampDone(lp) \/ RunLinker(lp))
                /\ PUnch
LinkUnlock(lp) == /\ tpc[Top(lp)] = "going" /\ Unlock(lp)
                  /\ linked' = linked \cup {lp}
                  /\ UNCHANGED <<tpc, texit, env, dirs, created, removed, kpc, gocache, gkeys, akeys, named, wrotein>> /\ DUnch
(* the linker fails, or PatchLinker returns an error: the lock is released, no binary *)
LinkFail(lp) == /\ MayFail /\ tpc[Top(lp)] = "going" /\ lock = lp /\ pc[lp] \in {"patch", "build", "ran"}
                /\ lock' = "none" /\ pc' = [pc EXCEPT ![lp] = "done"]
                /\ UNCHANGED <<stamp, bin, tmp, used, kills, damages>> /\ PUnch

(* ------------------------------------------------------------------ kill -9 of a whole process group *)
(* f with every element of S mapped to v (written with EXCEPT so that TLC keeps an explicit function) *)
RECURSIVE MapOver(_, _, _)
MapOver(f, S, v) == IF S = {} THEN f ELSE LET x == CHOOSE x \in S : TRUE IN MapOver([f EXCEPT ![x] = v], S \ {x}, v)
PKill(t) ==
  /\ tpc[t] \notin {"idle", "cleaned", "killed"}
  /\ kills < MaxKills
  /\ kills' = kills + 1
  /\ tpc' = [tpc EXCEPT ![t] = "killed"]
  /\ kpc' = MapOver(kpc, {k \in KidsOf(t) : Live(k)}, "killed")
  /\ lock' = IF lock \in LinksOf(t) THEN "none" ELSE lock
  /\ pc' = MapOver(pc, {lp \in LinksOf(t) : pc[lp] # "idle"}, "done")
  /\ UNCHANGED <<stamp, bin, tmp, used, damages>>
  /\ UNCHANGED <<texit, env, dirs, created, removed, gocache, gkeys, akeys, named, wrotein, linked>> /\ DUnch

PStep(t) == \/ CmdStart(t) \/ EarlyFail(t) \/ SharedCreate(t) \/ GoStart(t) \/ GoDone(t) \/ Cleanup(t)
            \/ DebugClaim(t) \/ (\E b \in BOOLEAN : DebugCheck(t, b)) \/ (\E p \in PkgSet, kd \in {"compile", "asm"} : DebugRestore(t, p, kd)) \/ DebugRestoreEnd(t)
LStep(lp) == LinkStart(lp) \/ LinkStep(lp) \/ LinkUnlock(lp) \/ LinkFail(lp)
KStep(k) == KidStart(k) \/ CacheGet(k) \/ (\E q \in PkgSet : CachePut(k, q)) \/ AsmLoaded(k) \/ AsmNamesPut(k) \/ DebugPut(k) \/ WriteSources(k) \/ ToolRun(k) \/ ToolDone(k) \/ ToolFail(k)
PNext == (\E t \in Tops : PStep(t) \/ PKill(t)) \/ (\E k \in Kids : KStep(k)) \/ (\E lp \in Procs : LStep(lp))
PFair == (\A t \in Tops : WF_allvars(PStep(t))) /\ (\A k \in Kids : WF_allvars(KStep(k))) /\ (\A lp \in Procs : WF_allvars(LStep(lp)))
PSpec == FullInit /\ [][PNext]_allvars /\ PFair

(* ------------------------------------------------------------------ properties *)
(* C19: garble removes only the directory it created, and none is left after a normal exit *)
POnlyOwnRemoved == \A t \in Tops : removed[t] \subseteq created[t]
PTmpClean == \A t \in Tops : tpc[t] = "cleaned" => DirName[t] \notin dirs
(* C17: a running child always finds its parent's shared directory; children write only there *)
PSharedAlive == \A k \in Kids : Live(k) => DirName[k[1]] \in dirs
PWriteOwn == \A k \in Kids : wrotein[k] \subseteq created[k[1]]
(* no child outlives the go command that started it *)
PNoOrphan == \A t \in Tops : tpc[t] \in {"godone", "restored", "cleaned", "killed"} => (\A k \in KidsOf(t) : Settled(k)) /\ LinkIdle(t)
(* cmd/go's order as garble relies on it: imports are compiled first, the link comes last *)
PDepsFirst == \A k \in Kids : Live(k) => DepsReady(k[1], k[2])
PLinkLast == \A lp \in Procs : pc[lp] \notin {"idle", "done"} => LinkReady(lp)
(* C07: once a compile child is past its cache step, the facts of its whole import closure exist; *)
(* the assembler's second run finds the name map written by the compile                           *)
PFactsComplete == \A k \in Kids : (k[3] = "compile" /\ k[2] \in ReflectPkgs /\ kpc[k] \in {"loaded", "wrote", "running", "done"})
                                     => \A q \in Facts(k[2]) : Key(k[1], q) \in gkeys
PAsmNames == \A k \in Kids : (k[3] \in RealAsm /\ kpc[k] \in {"wrote", "running", "done"} /\ k[2] \in NamedAsmPkgs) => k \in named
(* a command reports success only if it linked *)
POkMeansLinked == \A t \in Tops : (tpc[t] = "cleaned" /\ texit[t] = "ok") => LinksOf(t) \subseteq linked
(* a link child uses the patched linker only while its own parent's build is alive *)
PLinkUnderGo == \A lp \in Procs : pc[lp] \notin {"idle", "done"} => tpc[Top(lp)] = "going"
(* C17/C18 on the linker cache: from Linker.tla *)
(* C19: a -debugdir command that succeeds leaves the complete source and garbled trees of its build in the target, *)
(* whether the objects came from the caches or were rebuilt                                                        *)
PDebugComplete == \A t \in DbgTops : (tpc[t] = "cleaned" /\ texit[t] = "ok") => DWanted(t) \subseteq restored[t]
(* what is restored was stored under the key of this command's own (configuration, source) *)
PDebugOwnKey == \A t \in DbgTops : \A w \in restored[t] : DKey(t, w[1], w[2]) \in dkeys
(* -a really rebuilds: a -debugdir command that forced a rebuild and succeeded compiled every package itself *)
PForcedRebuilt == \A t \in DbgTops : (forcea[t] /\ tpc[t] \in {"restored", "cleaned"} /\ texit[t] # "error")
                                        => \A p \in NeedsOf(t) : kpc[<<t, p, "compile">>] = "done"
PTypeOK == /\ tpc \in [Tops -> {"idle", "started", "shared", "going", "godone", "restored", "cleaned", "killed"}]
           /\ dirs \subseteq {DirName[t] : t \in Tops}
(* liveness: without kills every started command finishes, successfully unless a tool failed *)
PAllFinish == <>(\A t \in Tops : tpc[t] \in {"cleaned", "killed"})

PView == <<lock, stamp, bin, tmp, pc, used, tpc, texit, env, dirs, created, removed, kpc, gocache, gkeys, akeys, named, linked, dkeys, forcea, dbg, restored>>
=============================================================================
