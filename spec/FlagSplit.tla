----------------------------- MODULE FlagSplit -----------------------------
(* Command-line splitting (property C20).                                   *)
(*                                                                          *)
(* Reference: the go command's rule (GoSplit) - a token starting with "-"   *)
(* is a flag; "-f=v" carries its value; a flag documented without an        *)
(* argument (GoBool) takes no value; every other flag consumes the next     *)
(* token; the first non-flag token ends the flags.                          *)
(*                                                                          *)
(* Model of garble: splitFlagsFromArgs (transformer.go),                    *)
(* filterForwardBuildFlags / rejectUnknownBuildFlags (main.go), the garble  *)
(* flag rejection of toolexecCmd, and the assembly of the real go argv.     *)
(* Garble's two tables are constants extracted from main.go at check time.  *)
(*                                                                          *)
(* Tokens are records, because TLC strings are atomic:                      *)
(*   [k |-> "flag", name |-> "-race", dd |-> BOOLEAN, eq |-> BOOLEAN]        *)
(*   [k |-> "word", text |-> "./pkg"]                                       *)
(* A flag token renders as  ("-" if dd) \o name \o ("=v" if eq).            *)
EXTENDS Naturals, Sequences, FiniteSets, TLC, Json, SequencesExt

CONSTANTS
  GoBool,        \* flags documented by `go help build|testflag|test|run` without an argument
  GoValue,       \* flags documented with an argument
  GarbleBool,    \* keys of booleanFlags in main.go
  GarbleForward, \* keys of forwardBuildFlags whose value is true
  GarbleKnownNoForward, \* keys of forwardBuildFlags whose value is false
  MustForward,   \* flags that change which packages/files are built or how: must reach `go list`
  GarbleOwn,     \* garble's own flags: -literals -tiny -debug -debugdir -seed
  Unknown,       \* some flags the go command does not know
  Words,         \* non-flag tokens: packages, files, values
  FullLen,       \* argv up to this length over the full alphabet
  RepLen,        \* argv up to this length over the representative alphabet
  RepFlags       \* representative flag names used for the longer vectors

GoFlags == GoBool \cup GoValue
AllNames == GoFlags \cup GarbleOwn \cup Unknown

FlagTok(n, dd, eq) == [k |-> "flag", name |-> n, dd |-> dd, eq |-> eq]
WordTok(w) == [k |-> "word", text |-> w]

TokensOver(names) ==
  {FlagTok(n, dd, eq) : n \in names, dd \in BOOLEAN, eq \in BOOLEAN} \cup {WordTok(w) : w \in Words}

Render(t) == IF t.k = "word" THEN t.text
             ELSE (IF t.dd THEN "-" ELSE "") \o t.name \o (IF t.eq THEN "=v" ELSE "")
RenderSeq(s) == [i \in 1..Len(s) |-> Render(s[i])]

(* words that look like flags are flags to both splitters when in flag position *)
LooksFlag(t) == t.k = "flag" \/ t.text \in {"-w", "-notaflag"}
HasEq(t) == t.k = "flag" /\ t.eq
NameOf(t) == IF t.k = "flag" THEN t.name ELSE t.text

(* ---------------------------------------------------------------- reference *)
RECURSIVE GoCut(_, _)
(* index of the first token that is not part of the flags (Len+1 if none) *)
GoCut(s, i) ==
  IF i > Len(s) THEN i
  ELSE IF ~LooksFlag(s[i]) THEN i
  ELSE IF HasEq(s[i]) \/ NameOf(s[i]) \in GoBool THEN GoCut(s, i + 1)
  ELSE GoCut(s, i + 2)

Min2(a, b) == IF a < b THEN a ELSE b
GoFlagsOf(s) == SubSeq(s, 1, Min2(GoCut(s, 1), Len(s) + 1) - 1)
GoArgsOf(s) == SubSeq(s, Min2(GoCut(s, 1), Len(s) + 1), Len(s))

(* the (name, value) pairs the go command sees; value "" for booleans, "v" for =v, *)
(* the rendered next token otherwise ("<missing>" at the end)                       *)
RECURSIVE GoPairs(_, _)
GoPairs(s, i) ==
  IF i > Len(s) \/ ~LooksFlag(s[i]) THEN <<>>
  ELSE IF HasEq(s[i]) THEN <<<<NameOf(s[i]), "v">>>> \o GoPairs(s, i + 1)
  ELSE IF NameOf(s[i]) \in GoBool THEN <<<<NameOf(s[i]), "">>>> \o GoPairs(s, i + 1)
  ELSE <<<<NameOf(s[i]), IF i + 1 <= Len(s) THEN Render(s[i + 1]) ELSE "<missing>">>>> \o GoPairs(s, i + 2)

(* ---------------------------------------------------------------- garble model *)
(* booleanFlags is looked up with the whole argument text after "--name" has *)
(* been normalised to "-name", so "-race=v" never hits the table;           *)
(* strings.Contains(arg, "=") covers that form.                             *)
GarbleIsBoolArg(t) == t.k = "flag" /\ ~t.eq /\ t.name \in GarbleBool

RECURSIVE GarbleCut(_, _)
GarbleCut(s, i) ==
  IF i > Len(s) THEN i
  ELSE IF ~LooksFlag(s[i]) THEN i
  ELSE IF GarbleIsBoolArg(s[i]) \/ HasEq(s[i]) THEN GarbleCut(s, i + 1)
  ELSE GarbleCut(s, i + 2)

GarbleFlagsOf(s) == SubSeq(s, 1, Min2(GarbleCut(s, 1), Len(s) + 1) - 1)
GarbleArgsOf(s) == SubSeq(s, Min2(GarbleCut(s, 1), Len(s) + 1), Len(s))

(* filterForwardBuildFlags: "--name" is normalised to "-name" first, then the *)
(* table lookups use the normalised text.                                     *)
RECURSIVE GarbleForwardPairs(_, _)
GarbleForwardPairs(fl, i) ==
  IF i > Len(fl) THEN <<>>
  ELSE LET t == fl[i]
           nm == NameOf(t)
           fwd == nm \in GarbleForward
           isBool == (t.k = "flag" /\ ~t.eq /\ nm \in GarbleBool)
       IN IF HasEq(t) THEN (IF fwd THEN <<<<nm, "v">>>> ELSE <<>>) \o GarbleForwardPairs(fl, i + 1)
          ELSE IF isBool THEN (IF fwd THEN <<<<nm, "">>>> ELSE <<>>) \o GarbleForwardPairs(fl, i + 1)
          ELSE (IF fwd THEN <<<<nm, IF i + 1 <= Len(fl) THEN Render(fl[i + 1]) ELSE "<missing>">>>> ELSE <<>>)
               \o GarbleForwardPairs(fl, i + 2)

RECURSIVE GarbleFirstUnknown(_, _, _)
GarbleFirstUnknown(fl, i, acc) ==
  IF i > Len(fl) THEN acc
  ELSE LET t == fl[i]
           nm == NameOf(t)
           fwd == nm \in GarbleForward
           isBool == (t.k = "flag" /\ ~t.eq /\ nm \in GarbleBool)
           acc2 == IF fwd THEN acc ELSE nm
       IN IF HasEq(t) \/ isBool THEN GarbleFirstUnknown(fl, i + 1, acc2)
          ELSE GarbleFirstUnknown(fl, i + 2, acc2)

(* misplacedGarbleFlag (main.go): the flags are scanned like the splitter scans them, so the *)
(* value of a "-name value" flag is never taken for a garble flag.  Before the repair of     *)
(* F14 every element was tested, values included: what-if ScanValues = TRUE.                 *)
ScanValues == FALSE
OldScan == TRUE
RECURSIVE GarbleOwnScan(_, _)
GarbleOwnScan(fl, i) ==
  IF i > Len(fl) THEN FALSE
  ELSE IF fl[i].k = "flag" /\ fl[i].name \in GarbleOwn THEN TRUE
  ELSE IF GarbleIsBoolArg(fl[i]) \/ HasEq(fl[i]) THEN GarbleOwnScan(fl, i + 1)
  ELSE GarbleOwnScan(fl, i + 2)
GarbleRejectsOwn(fl) == IF ScanValues THEN \E i \in 1..Len(fl) : fl[i].k = "flag" /\ fl[i].name \in GarbleOwn
                        ELSE GarbleOwnScan(fl, 1)

(* ---------------------------------------------------------------- state space *)
VARIABLE argv
vars == <<argv>>

RECURSIVE SeqsUpTo(_, _)
SeqsUpTo(S, n) == IF n = 0 THEN {<<>>} ELSE LET prev == SeqsUpTo(S, n - 1) IN
                    prev \cup {Append(p, t) : p \in {q \in prev : Len(q) = n - 1}, t \in S}

FullVectors == SeqsUpTo(TokensOver(AllNames), FullLen)
RepVectors == SeqsUpTo(TokensOver(RepFlags), RepLen)
Vectors == FullVectors \cup RepVectors

Init == argv \in Vectors
Next == UNCHANGED vars
Spec == Init /\ [][Next]_vars

(* only vectors whose flags are all documented go flags, complete (no missing value) *)
Documented(s) == \A i \in 1..Len(GoPairs(s, 1)) :
                    GoPairs(s, 1)[i][1] \in GoFlags /\ GoPairs(s, 1)[i][2] # "<missing>"

SplitEqGo == Documented(argv) =>
  /\ GarbleFlagsOf(argv) = GoFlagsOf(argv)
  /\ GarbleArgsOf(argv) = GoArgsOf(argv)

FilterPairs(ps, S) == SelectSeq(ps, LAMBDA p : p[1] \in S)

ForwardComplete == Documented(argv) =>
  FilterPairs(GarbleForwardPairs(GarbleFlagsOf(argv), 1), MustForward) = FilterPairs(GoPairs(argv, 1), MustForward)

(* a garble flag sits in flag position and every flag before it is a documented go flag *)
OwnInFlags(s) == \E i \in 1..Len(GoPairs(s, 1)) :
                    /\ GoPairs(s, 1)[i][1] \in GarbleOwn
                    /\ \A j \in 1..(i - 1) : GoPairs(s, 1)[j][1] \in GoFlags
UnknownFirst(s) == Len(GoPairs(s, 1)) > 0 /\ GoPairs(s, 1)[1][1] \in Unknown

GarbleFlagRejected == OwnInFlags(argv) => GarbleRejectsOwn(GarbleFlagsOf(argv))
(* ... and only then: a command line the go command accepts, with no garble flag in flag      *)
(* position, is not rejected because a flag VALUE looks like a garble flag                     *)
ValueNotRejected == (Documented(argv) /\ ~OwnInFlags(argv)) => ~GarbleRejectsOwn(GarbleFlagsOf(argv))
UnknownRejected == UnknownFirst(argv) => GarbleFirstUnknown(GarbleFlagsOf(argv), 1, "") # ""

(* ---------------------------------------------------------------- table (B3) *)
Row(s) == [argv |-> RenderSeq(s),
           documented |-> Documented(s),
           go_flags |-> RenderSeq(GoFlagsOf(s)),
           go_args |-> RenderSeq(GoArgsOf(s)),
           must_forward |-> FilterPairs(GoPairs(s, 1), MustForward),
           own |-> OwnInFlags(s),
           unknown_first |-> UnknownFirst(s)]
ASSUME LET vs == SetToSeq(Vectors) IN JsonSerialize("flagsplit_table.json", [i \in 1..Len(vs) |-> Row(vs[i])])
=============================================================================
