------------------------------- MODULE Naming -------------------------------
(* Naming rules of garble (properties C01 and C02).                          *)
(*                                                                          *)
(* Garble derives the obfuscated name of a Go object in several places that *)
(* do not share code:                                                       *)
(*   obfuscatedObjectName (every identifier occurrence in Go source),       *)
(*   transformLinkname / directiveLocalName (//go:linkname),                 *)
(*   replaceAsmNames (assembly symbols), saveGoAsmNames (go_asm.h macros),   *)
(*   transformLink (-ldflags=-X), obfuscatedImportPath (import paths, -p,    *)
(*   importcfg keys).                                                       *)
(* Each of them is transcribed below AS THE CODE HAS IT.  Hash results are  *)
(* symbolic terms: Keep (name unchanged), PkgHash(p) (hashWithPackage with  *)
(* the salt of package p), StructHash (hashWithStruct).  Two occurrences of *)
(* a name agree iff their terms are equal.                                  *)
(*                                                                          *)
(* A cell = one object and one way of referring to it.  TLC enumerates all  *)
(* cells x ToObfuscate(main) x ToObfuscate(dep), checks the invariants and  *)
(* serialises the legal cells with their verdicts; the harness turns every  *)
(* cell into Go/assembly source (checks/naming_common.py).                  *)
EXTENDS Naturals, Sequences, FiniteSets, TLC, Json, SequencesExt

Kinds == {"pkgvar", "const", "func", "method", "ifaceMethod", "type", "alias", "genericType",
          "field", "embeddedField", "embeddedAlias", "typeParam", "local", "label", "typeSwitchVar"}
NameClasses == {"plain", "main", "init", "TestX", "TestMain", "intrinsic", "reflected"}
Homes == {"main", "dep", "std"}
Froms == {"main", "dep"}
Views == {"GoIdent", "Selector", "CompositeKey", "MethodValue", "MethodExpr", "DotImport", "NamedImport",
          "LinknameLocal", "LinknameForeign", "LinknameMethod", "LinknamePtrMethod",
          "AsmQualified", "AsmUnqualified", "GoAsmHSize", "GoAsmHField", "GoAsmHConst", "LdflagsX",
          "StructConversion"}

LocalKinds == {"typeParam", "local", "label", "typeSwitchVar"}
PkgLevel == {"pkgvar", "const", "func", "type", "alias", "genericType"}
Embedded == {"embeddedField", "embeddedAlias"}
Members == {"method", "ifaceMethod", "field"} \cup Embedded
FuncKinds == {"func", "method", "ifaceMethod"}
SymbolKinds == {"func", "pkgvar"}          \* what has a linker symbol of its own
GoViews == {"GoIdent", "Selector", "CompositeKey", "MethodValue", "MethodExpr", "DotImport", "NamedImport"}
KeepNames == {"main", "init", "TestMain"}  \* the name-keyed part of the keep list

(* ---------------------------------------------------------------- terms *)
Keep == [t |-> "keep", salt |-> "-"]
PkgHash(p) == [t |-> "pkg", salt |-> p]
StructHash == [t |-> "struct", salt |-> "-"]
IsHash(x) == x.t # "keep"

(* ---------------------------------------------------------------- legality *)
(* Which (object, reference) combinations are Go programs the regular        *)
(* toolchain builds.  The dependency direction is main -> dep.               *)
Legal(c) ==
  LET k == c.kind  v == c.view  cl == c.nameClass  cross == c.fromPkg # c.home IN
  /\ (c.home = "std") = (cl = "intrinsic")
  /\ cl = "intrinsic" => k = "func" /\ c.exported /\ v \in {"Selector", "NamedImport"}
  /\ k \in LocalKinds => ~c.exported /\ v = "GoIdent" /\ ~cross
                          /\ cl \in (IF k = "local" THEN {"plain", "main", "init"} ELSE {"plain"})
  \* dep cannot import main: the only way to name an object of main from dep is a linkname
  /\ (c.fromPkg = "dep" /\ c.home = "main") => v = "LinknameForeign" /\ k \in SymbolKinds
  /\ (cross /\ v \in GoViews) => c.exported
  /\ CASE v = "GoIdent"      -> ~cross
       [] v = "Selector"     -> (k \in Members) \/ (k \in PkgLevel /\ cross)
       [] v = "CompositeKey" -> k \in {"field"} \cup Embedded
       [] v \in {"MethodValue", "MethodExpr"} -> k \in {"method", "ifaceMethod"}
       [] v \in {"DotImport", "NamedImport"} ->
              c.fromPkg = "main" /\ c.home \in {"dep", "std"} /\ c.exported /\ k \in PkgLevel \cup Embedded
       [] v = "LinknameLocal"   -> k \in SymbolKinds /\ ~cross
       [] v = "LinknameForeign" -> k \in SymbolKinds /\ (k = "pkgvar" => cross)  \* a variable cannot be
                                   \* linknamed to a variable of its own package (symbol redeclared)
       [] v \in {"LinknameMethod", "LinknamePtrMethod"} -> k = "method" /\ c.fromPkg = "main" /\ c.home = "dep"
       [] v = "AsmUnqualified"  -> k \in SymbolKinds /\ ~cross
       [] v = "AsmQualified"    -> k \in SymbolKinds /\ (~cross \/ (c.fromPkg = "main" /\ c.home = "dep"))
       [] v = "GoAsmHSize"      -> k = "type" /\ ~cross
       [] v = "GoAsmHField"     -> k \in {"field"} \cup Embedded /\ ~cross
       [] v = "GoAsmHConst"     -> k = "const" /\ ~cross
       [] v = "LdflagsX"        -> k = "pkgvar" /\ c.fromPkg = "main" /\ c.home \in {"main", "dep"}
       \* T1(x) where T1 of fromPkg and the type of x (of home) are identical struct types: field names must agree
       [] v = "StructConversion" -> k = "field" /\ c.exported /\ c.fromPkg = "main" /\ c.home = "dep" /\ cl = "plain"
       [] OTHER -> FALSE
  /\ CASE cl = "plain" -> TRUE
       [] cl = "main" -> /\ ~c.exported
                         /\ k \in {"func", "method", "ifaceMethod", "pkgvar", "field", "local"}
                         \* func main of package main is the entry point: it cannot be referenced
                         /\ (k = "func" /\ c.home = "main") => v = "GoIdent"
                         /\ k = "pkgvar" => c.home = "dep"
       [] cl = "init" -> /\ ~c.exported
                         /\ k \in {"func", "method", "ifaceMethod", "field", "local"}
                         /\ k = "func" => v = "GoIdent"          \* init functions cannot be referenced
       [] cl = "TestX" -> c.exported /\ k = "func" /\ v \in {"GoIdent", "LinknameLocal", "LinknameForeign", "AsmUnqualified"}
       [] cl = "TestMain" -> c.exported /\ k = "func" /\ v \in {"GoIdent", "LinknameLocal", "LinknameForeign", "AsmUnqualified"}
       [] cl = "reflected" -> k \in {"type", "field", "embeddedField"} /\ v \in {"GoIdent", "Selector", "CompositeKey"}
       [] cl = "intrinsic" -> TRUE
       [] OTHER -> FALSE

(* ---------------------------------------------------------------- the rules *)
(* ToObf: [{"main","dep","std"} -> BOOLEAN], the ToObfuscate decision of      *)
(* appendListedPackages for the home packages (a parameter here; C14).       *)

(* compilerIntrinsics[path][name] *)
Intrinsic(o) == o.nameClass = "intrinsic"

(* obfuscatedObjectName, reached from transformGoFile for EVERY identifier    *)
(* occurrence, whatever the syntactic position.  `occKind` is the kind of the *)
(* object that go/types reports for the identifier.                           *)
ObjectName(o, ToObf) ==
  IF ~ToObf[o.home] THEN Keep                                   \* !lpkg.ToObfuscate
  ELSE CASE o.kind \in {"field"} -> StructHash                   \* types.Var, IsField: hashWithStruct
         [] o.kind \in {"pkgvar", "local", "typeSwitchVar"} -> PkgHash(o.home)   \* other types.Var (the type
                                                                 \* switch symbol gets a dummy types.Var)
         [] o.kind \in {"type", "alias", "genericType", "typeParam"} -> PkgHash(o.home)  \* types.TypeName
         [] o.kind \in Embedded -> PkgHash(o.home)               \* vr.Embedded(): obj = namedType(obj.Type()),
                                                                 \* i.e. the TypeName (of the alias if there is one)
         [] o.kind \in FuncKinds ->                              \* types.Func
              IF Intrinsic(o) THEN Keep
              ELSE IF o.exported /\ o.kind # "func" THEN Keep    \* exported method: might implement an interface
              ELSE IF o.nameClass \in KeepNames THEN Keep        \* main, init, TestMain
              ELSE IF o.nameClass = "TestX" THEN Keep            \* Test prefix and a test signature
              ELSE PkgHash(o.home)
         [] OTHER -> Keep                                        \* types.Const, types.Label, ...: default branch

(* The name at the object's declaration: what every other view must agree with. *)
GoIdentName(o, ToObf) == ObjectName(o, ToObf)

(* directiveLocalName *)
DirectiveLocalName(o, ToObf) ==
  IF ToObf[o.home] /\ ~Intrinsic(o) THEN PkgHash(o.home) ELSE Keep

(* transformLinkname, second argument "pkgpath.Name" / "pkgpath.Recv.Name" / "pkgpath.(PTR Recv).Name" (PTR = star).      *)
(* The package is found by trying every dot-separated prefix with listPackage: a symbol of package main   *)
(* is spelled "main.Name", and "main" is not the import path of any listed package (only "main.main" is   *)
(* special-cased), so the directive is left alone.                                                        *)
LinknamePkgFound(o) == o.home # "main"
LinknameForeignName(o, ToObf) ==
  IF ~LinknamePkgFound(o) THEN Keep
  ELSE IF ~ToObf[o.home] \/ Intrinsic(o) THEN Keep
  ELSE IF o.kind = "method" THEN (IF o.exported THEN Keep ELSE PkgHash(o.home))   \* token.IsExported(name)
  ELSE PkgHash(o.home)
(* the receiver part of a method linkname, and the name of the receiver type in Go code *)
LinknameRecvName(o, ToObf) == IF LinknamePkgFound(o) /\ ToObf[o.home] /\ ~Intrinsic(o) THEN PkgHash(o.home) ELSE Keep
RecvTypeName(o, ToObf) == IF ToObf[o.home] THEN PkgHash(o.home) ELSE Keep

(* replaceAsmNames: `·name` and `pkg∕path·name` *)
AsmName(o, ToObf) == IF ToObf[o.home] /\ ~Intrinsic(o) THEN PkgHash(o.home) ELSE Keep

(* saveGoAsmNames (called only when the package has assembly and ToObfuscate) *)
GoAsmHTypeName(o, ToObf) == IF ToObf[o.home] THEN PkgHash(o.home) ELSE Keep
GoAsmHFieldName(o, ToObf) == IF ToObf[o.home] THEN StructHash ELSE Keep      \* hashWithStruct for EVERY field,
                                                                              \* embedded or not
GoAsmHConstName(o, ToObf) == Keep                                             \* const_X macros are not in the map

(* transformLink: the -X flag is duplicated: original spelling plus hashWithPackage(lpkg, name). *)
LdflagsNames(o, ToObf) == {Keep, PkgHash(o.home)}

(* The set of names a view makes the toolchain look for. *)
ViewNames(c, ToObf) ==
  LET o == c IN
  CASE c.view \in GoViews -> {ObjectName(o, ToObf)}
    [] c.view = "LinknameLocal" -> {DirectiveLocalName(o, ToObf)}
    [] c.view \in {"LinknameForeign", "LinknameMethod", "LinknamePtrMethod"} -> {LinknameForeignName(o, ToObf)}
    [] c.view \in {"AsmQualified", "AsmUnqualified"} -> {AsmName(o, ToObf)}
    [] c.view = "GoAsmHSize" -> {GoAsmHTypeName(o, ToObf)}
    [] c.view = "GoAsmHField" -> {GoAsmHFieldName(o, ToObf)}
    [] c.view = "GoAsmHConst" -> {GoAsmHConstName(o, ToObf)}
    [] c.view = "LdflagsX" -> LdflagsNames(o, ToObf)
    \* the twin field declared in fromPkg: same struct identity, hence the same hashWithStruct salt, but the
    \* decision to rename at all is taken per declaring package (lpkg.ToObfuscate of the field's package)
    [] c.view = "StructConversion" -> {IF ToObf[c.fromPkg] THEN StructHash ELSE Keep}

ConsistentCell(c, ToObf) ==
  /\ GoIdentName(c, ToObf) \in ViewNames(c, ToObf)
  /\ c.view \in {"LinknameMethod", "LinknamePtrMethod"} => LinknameRecvName(c, ToObf) = RecvTypeName(c, ToObf)

(* ---------------------------------------------------------------- keep list *)
(* Objects whose name the toolchain, the runtime or the user relies on.       *)
InKeepList(o, ToObf) ==
  \/ ~ToObf[o.home]
  \/ Intrinsic(o)
  \/ o.kind \in {"method", "ifaceMethod"} /\ o.exported
  \/ o.kind \in FuncKinds /\ o.nameClass \in KeepNames \cup {"TestX"}
KeptCell(c, ToObf) == InKeepList(c, ToObf) => (GoIdentName(c, ToObf) = Keep /\ ViewNames(c, ToObf) \subseteq {Keep} \cup (IF c.view = "LdflagsX" THEN {PkgHash(c.home)} ELSE {}))
MustRename(o, ToObf) == IsHash(GoIdentName(o, ToObf))

(* ---------------------------------------------------------------- C02 classes *)
(* What may still be readable in the binary (the property's exception list).  *)
VanishClass(o, ToObf) ==
  IF ~ToObf[o.home] \/ o.home = "std" THEN "MayRemain"                      \* outside GOGARBLE / std
  ELSE IF o.kind \in {"const", "label", "local", "typeParam", "typeSwitchVar"} THEN "Unlisted"
  ELSE IF o.kind \in FuncKinds /\ o.nameClass \in KeepNames \cup {"TestX"} THEN "MayRemain"   \* main/init (tests)
  ELSE IF o.nameClass = "reflected" THEN "MayRemain"                         \* names that reach reflection
  ELSE IF o.kind \in {"method", "ifaceMethod"} /\ o.exported THEN "MayRemain" \* exported methods
  ELSE "MustVanish"
VanishImpliesRenamed(c, ToObf) == VanishClass(c, ToObf) = "MustVanish" => IsHash(GoIdentName(c, ToObf))

(* ---------------------------------------------------------------- import paths *)
(* obfuscatedImportPath(p) is used for: the import spec in Go source, -p of   *)
(* compile and asm, importcfg keys of compile and link, the package part of a *)
(* linkname, of an assembly symbol and of -X.  ForTest models `go test`.      *)
Pkgs == {"main", "dep"}
ObfImportPath(p, forTest, ToObf) ==
  IF p = "main" /\ ~forTest THEN [t |-> "literal-main", salt |-> "-"]
  ELSE IF ~ToObf[p] THEN Keep ELSE PkgHash(p)
SourceImportPath(importer, imported, forTest, ToObf) == ObfImportPath(imported, forTest, ToObf)  \* transformGoFile post()
DashP(p, forTest, ToObf) == ObfImportPath(p, forTest, ToObf)                                       \* transformCompile, transformAsm
ImportCfgKey(importer, imported, forTest, ToObf) == ObfImportPath(imported, forTest, ToObf)      \* processImportCfg (compile)
LinkCfgKey(imported, forTest, ToObf) == ObfImportPath(imported, forTest, ToObf)                  \* processImportCfg (link)
LinknamePath(p, ToObf) == IF p = "main" THEN Keep \* not found: left alone
                          ELSE IF ~ToObf[p] THEN Keep ELSE PkgHash(p)
AsmPath(p, ToObf) == IF p = "main" THEN [t |-> "literal-main", salt |-> "-"]   \* asmPkgPath = curPkg.Name
                     ELSE IF ToObf[p] THEN PkgHash(p) ELSE Keep
LdflagsPath(p, ToObf) == ObfImportPath(p, FALSE, ToObf)
PackageName(p, ToObf) == IF p = "main" \/ ~ToObf[p] THEN Keep ELSE PkgHash(p)                     \* obfuscatedPackageName

ImportCfgAgreesFor(ToObf) ==
  \A forTest \in BOOLEAN : \A imported \in Pkgs : \A importer \in Pkgs :
    /\ SourceImportPath(importer, imported, forTest, ToObf) = DashP(imported, forTest, ToObf)
    /\ ImportCfgKey(importer, imported, forTest, ToObf) = DashP(imported, forTest, ToObf)
    /\ LinkCfgKey(imported, forTest, ToObf) = DashP(imported, forTest, ToObf)
    /\ (imported # "main" => LinknamePath(imported, ToObf) = DashP(imported, FALSE, ToObf))
    /\ AsmPath(imported, ToObf) = DashP(imported, FALSE, ToObf)
    /\ LdflagsPath(imported, ToObf) = DashP(imported, FALSE, ToObf)

(* ---------------------------------------------------------------- tool surface (C02) *)
(* What garble hands to compile / asm / link, as slots.  "shared" = garble's  *)
(* shared temporary directory, "source" = the user's source directory,       *)
(* "orig"/"hashed" = spelling of a file base name.                            *)
Surface(tool, p, ToObf) ==
  CASE tool = "compile" ->
         [p |-> DashP(p, FALSE, ToObf), trimpath_first |-> "shared", file_dir |-> "shared",
          file_base |-> "orig",          \* hidden by //line directives in the file itself
          importcfg_dir |-> "shared", buildid |-> "n/a", strip |-> "n/a", buildversion |-> "n/a", dwarf |-> "off"]
    [] tool = "asm" ->
         [p |-> DashP(p, FALSE, ToObf), trimpath_first |-> "shared", file_dir |-> "shared",
          file_base |-> "hashed",        \* hashWithPackage(basename) + ".s", for every package
          importcfg_dir |-> "n/a", buildid |-> "n/a", strip |-> "n/a", buildversion |-> "n/a", dwarf |-> "n/a"]
    [] tool = "link" ->
         [p |-> [t |-> "n/a", salt |-> "-"], trimpath_first |-> "n/a", file_dir |-> "n/a", file_base |-> "n/a",
          importcfg_dir |-> "shared", buildid |-> "empty", strip |-> "w+s", buildversion |-> "unknown", dwarf |-> "n/a"]
Tools == {"compile", "asm", "link"}

(* strings of a package that must not be readable in the binary / on the tool surface *)
PkgStringClass(p, what, ToObf) ==
  CASE what \in {"srcdir", "tmpdir"} -> "MustVanish"                    \* -trimpath, always
    [] what = "pkgname" -> IF p = "main" \/ ~ToObf[p] THEN "MayRemain" ELSE "MustVanish"
    [] what \in {"importpath", "gofile", "asmfile", "header"} -> IF ToObf[p] THEN "MustVanish" ELSE "MayRemain"
PkgStringKinds == {"srcdir", "tmpdir", "pkgname", "importpath", "gofile", "asmfile", "header"}

NoLeakSurfaceFor(ToObf) ==
  \A tool \in Tools : \A p \in Pkgs :
    LET s == Surface(tool, p, ToObf) IN
    /\ s.file_dir # "source"                                              \* never the user's directory
    /\ (tool # "link" => s.trimpath_first = "shared")
    /\ (tool = "asm" => s.file_base = "hashed")
    /\ (tool # "link" /\ PkgStringClass(p, "importpath", ToObf) = "MustVanish" /\ p # "main" => IsHash(s.p))
    /\ (tool = "link" => s.buildid = "empty" /\ s.strip = "w+s" /\ s.buildversion = "unknown")

(* ---------------------------------------------------------------- known leads *)
(* Cells where the transcription above is NOT consistent.  They are not       *)
(* asserted away: the harness concretises each of them and the real garble    *)
(* decides (DESIGN.md section 6).  The invariant below says that these are    *)
(* the ONLY inconsistent cells, so any new inconsistency stops TLC.           *)
LeadClass(c) ==
  IF c.view = "LinknameForeign" /\ c.home = "main"
    THEN (IF c.kind = "func" /\ c.nameClass \in KeepNames \cup {"TestX"}
            THEN "none"              \* both sides keep the name: "main.TestMain" stays and so does TestMain
            ELSE "linkname-to-main") \* "main.Name" is not resolved to the main package
  ELSE IF c.view \in {"LinknameLocal", "LinknameForeign", "LinknameMethod", "LinknamePtrMethod", "AsmQualified", "AsmUnqualified"}
       /\ c.kind \in FuncKinds /\ c.nameClass \in KeepNames \cup {"TestX"}
       /\ ~(c.kind = "method" /\ c.exported)
    THEN "keepname-outside-go"       \* main/init/TestMain/TestX are kept only by obfuscatedObjectName
  ELSE IF c.view = "GoAsmHField" /\ c.kind \in Embedded
    THEN "goasmh-embedded"           \* go_asm.h offset macro of an embedded field
  ELSE IF c.view = "StructConversion"
    THEN "struct-conversion-mixed-scope"  \* identical struct types, only one of the two packages in GOGARBLE
  ELSE "none"
IsLead(c) == LeadClass(c) # "none"

(* ---------------------------------------------------------------- state space *)
ToObfs == {[main |-> a, dep |-> b, std |-> TRUE] : a, b \in BOOLEAN}
RealToObfs == {m \in ToObfs : m.main \/ m.dep}   \* GOGARBLE must match something

VARIABLES cell, toObf
vars == <<cell, toObf>>

RawCells == [kind : Kinds, exported : BOOLEAN, nameClass : NameClasses, home : Homes, fromPkg : Froms, view : Views]

LegalCells == {c \in RawCells : Legal(c)}
Init == cell \in LegalCells /\ toObf \in ToObfs
Next == UNCHANGED vars
Spec == Init /\ [][Next]_vars

Consistent == (Legal(cell) /\ ~IsLead(cell)) => ConsistentCell(cell, toObf)
LeadsAreExact == (Legal(cell) /\ IsLead(cell)) => \E m \in ToObfs : ~ConsistentCell(cell, m)
Kept == Legal(cell) /\ ~IsLead(cell) => KeptCell(cell, toObf)
VanishRenamed == Legal(cell) => VanishImpliesRenamed(cell, toObf)
ImportCfgAgrees == ImportCfgAgreesFor(toObf)
NoLeakSurface == NoLeakSurfaceFor(toObf)

(* ---------------------------------------------------------------- export (B2/B1) *)
TermStr(x) == IF x.t = "pkg" THEN "pkghash:" \o x.salt ELSE x.t
ObfKey(m) == (IF m.main THEN "T" ELSE "F") \o (IF m.dep THEN "T" ELSE "F")
Verdict(c, m) == [goident |-> TermStr(GoIdentName(c, m)),
                  view_names |-> {TermStr(x) : x \in ViewNames(c, m)},
                  consistent |-> ConsistentCell(c, m),
                  must_rename |-> MustRename(c, m),
                  keep_list |-> InKeepList(c, m),
                  vanish |-> VanishClass(c, m)]
Row(c) == [kind |-> c.kind, exported |-> c.exported, nameClass |-> c.nameClass, home |-> c.home,
           fromPkg |-> c.fromPkg, view |-> c.view, lead |-> LeadClass(c),
           verdict |-> [k \in {ObfKey(m) : m \in ToObfs} |-> Verdict(c, CHOOSE m \in ToObfs : ObfKey(m) = k)]]
PkgRow(m) == [toobf |-> ObfKey(m),
              strings |-> [p \in Pkgs |-> [w \in PkgStringKinds |-> PkgStringClass(p, w, m)]],
              pkgname |-> [p \in Pkgs |-> TermStr(PackageName(p, m))],
              importpath |-> [p \in Pkgs |-> TermStr(DashP(p, FALSE, m))],
              surface |-> [tool \in Tools |-> [p \in Pkgs |->
                  LET s == Surface(tool, p, m) IN
                  [p |-> TermStr(s.p), trimpath_first |-> s.trimpath_first, file_dir |-> s.file_dir,
                   file_base |-> s.file_base, importcfg_dir |-> s.importcfg_dir, buildid |-> s.buildid,
                   strip |-> s.strip, buildversion |-> s.buildversion, dwarf |-> s.dwarf]]]]
ASSUME LET cs == SetToSeq(LegalCells) IN
  JsonSerialize("naming_cells.json", [cells |-> [i \in 1..Len(cs) |-> Row(cs[i])],
                                      packages |-> LET ms == SetToSeq(ToObfs) IN [i \in 1..Len(ms) |-> PkgRow(ms[i])]])
=============================================================================
