---------------------------- MODULE VersionGate ----------------------------
(* goVersionOK (main.go): which Go toolchains a garble binary accepts.       *)
(* Not one of the twenty listed properties; it is part of the command         *)
(* lifecycle (Lifecycle.tla's List step fails here) and is specified so that  *)
(* the model of "where a command can stop" is complete.                       *)
(*                                                                          *)
(* Versions are abstracted to the classes the code distinguishes:            *)
(*   toolchain (go env GOVERSION): "" | invalid | tooOld (< minGo) | ok      *)
(*        (minGo <= v < unsupported) | tooNew (>= unsupported)               *)
(*   built (runtime.Version of the garble binary, or GARBLE_TEST_GOVERSION): *)
(*        invalid (e.g. devel) | older than the toolchain | same or newer    *)
EXTENDS TLC, Json

Toolchain == {"empty", "invalid", "tooOld", "ok", "tooNew"}
Built == {"invalid", "older", "sameOrNewer"}

Accept(t, b) ==
  CASE t = "empty"   -> FALSE
    [] t = "invalid" -> FALSE
    [] t = "tooOld"  -> FALSE
    [] t = "tooNew"  -> FALSE
    [] OTHER         -> (b = "invalid" \/ b = "sameOrNewer")

Message(t, b) ==
  CASE t = "empty"   -> "too old"
    [] t = "invalid" -> "invalid or too old"
    [] t = "tooOld"  -> "too old"
    [] t = "tooNew"  -> "too new"
    [] t = "ok" /\ b = "older" -> "rebuild"
    [] OTHER         -> ""

(* a garble built with an older Go than the toolchain in use is never accepted; *)
(* an accepted run implies a supported toolchain                                *)
Sound == \A t \in Toolchain, b \in Built :
            /\ (Accept(t, b) => t = "ok")
            /\ (t = "ok" /\ b = "older" => ~Accept(t, b))
            /\ (~Accept(t, b) => Message(t, b) # "")
ASSUME Sound

Table == [t \in Toolchain |-> [b \in Built |-> [accept |-> Accept(t, b), message |-> Message(t, b)]]]
ASSUME JsonSerialize("versiongate_table.json", Table)

VARIABLE x
Init == x = 0
Next == UNCHANGED x
Spec == Init /\ [][Next]_x
=============================================================================
