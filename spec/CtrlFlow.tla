------------------------------ MODULE CtrlFlow ------------------------------
(* Control-flow obfuscation of garble, property C11 (and the choice points   *)
(* that C03 needs).  Transcribed from                                         *)
(*   internal/ctrlflow/ctrlflow.go   applyObfuscation: trash, split*, junk,   *)
(*                                   flatten*, fixBlockIndexes, hardening     *)
(*   internal/ctrlflow/transform.go  addTrashBlockMarkers, applySplitting,    *)
(*                                   addJunkBlocks, applyFlattening           *)
(*   internal/ctrlflow/hardening.go  generateKeys, xorHardening,              *)
(*                                   delegateTableHardening                   *)
(*   internal/ssa2ast/func.go        convertBlock (case *ssa.Phi, exits) and  *)
(*                                   convertToStmts (Body ++ Phi ++ Exit)     *)
(*                                                                            *)
(* A function is a small CFG.  Two interpreters are defined: the SSA          *)
(* semantics (phis of a block are evaluated in parallel on entry, by          *)
(* incoming edge) and the LOWERED semantics, i.e. what ssa2ast really emits:  *)
(* every phi edge becomes an assignment `phi = edge` appended to the block    *)
(* Preds[i] of the phi's block, after that block's body and BEFORE its exit   *)
(* statement, in the order (position of the phi's block, phi, edge); all      *)
(* variables are function-level and zero-initialised.                         *)
(*                                                                            *)
(* Blocks are addressed by their position in the function's block list        *)
(* (1-based here); fixBlockIndexes makes Index = position before lowering.    *)
EXTENDS Integers, Sequences, FiniteSets, TLC, Json, SequencesExt

CONSTANTS
  MaxTrash, MaxSplit, MaxJunk, MaxPass,  \* bounds on trash_blocks, block_splits, junk_jumps, flatten_passes
  XShapes,              \* ids of the shapes on which the transformations are explored
  Perms,                \* dispatcher key permutations explored: subset of {"id","rev","rot"}
  Shuffles,             \* block shuffles explored: subset of {"id","rev","rot"}
  Hardenings,           \* subset of {"none","xor","delegate"}
  HardenUps,            \* subset of BOOLEAN (TRUE must be a member): ascending / descending representative key sequences
  HardenGks,            \* global keys explored by the CFG runs (5 must be a member); the algebra is exhaustive over 0..KMax
  AllowSplitAfterTrash, \* FALSE: do not explore block_splits>0 together with trash_blocks>0 (see F110)
  HonourBlacklist,      \* TRUE = generateKeys as the code has it; FALSE = what-if (mutant)
  ReserveZero,          \* TRUE = dispatcher keys are Perm(n)+1 as the code has it; FALSE = what-if (mutant)
  SplitFixesPreds,      \* TRUE = applySplitting rewrites succ.Preds as the code has it; FALSE = what-if (mutant)
  MaxFuel,              \* size of the last fuel chunk of the interpreters (blocks executed)
  KMax,                 \* hardening keys are drawn from 0..KMax
  LeadsFile             \* where the shape table / predictions are serialised ("" = do not)

-----------------------------------------------------------------------------
(* Values, operands, instructions                                            *)

RECURSIVE Xor(_, _)
Xor(x, y) == IF x = 0 THEN y ELSE IF y = 0 THEN x
             ELSE (((x % 2) + (y % 2)) % 2) + 2 * Xor(x \div 2, y \div 2)

V(n)     == [k |-> "v",  n |-> n,  c |-> 0, m |-> 0]   \* a register / variable
C(c)     == [k |-> "c",  n |-> "", c |-> c, m |-> 0]   \* a constant
XV(n, c) == [k |-> "xv", n |-> n,  c |-> c, m |-> 0]   \* (localKey ^ c)            xor hardening StoreVar
XC(c, m) == [k |-> "xc", n |-> "", c |-> c, m |-> m]   \* table[i](c) = c ^ m        delegate_table StoreVar

Eval(o, env) == CASE o.k = "c"  -> o.c
                  [] o.k = "v"  -> env[o.n]
                  [] o.k = "xv" -> Xor(env[o.n], o.c)
                  [] o.k = "xc" -> Xor(o.c, o.m)

B2I(p) == IF p THEN 1 ELSE 0
Apply(f, x, y) == CASE f = "add" -> x + y
                    [] f = "lt"  -> B2I(x < y)
                    [] f = "le"  -> B2I(x <= y)
                    [] f = "gt"  -> B2I(x > y)
                    [] f = "ge"  -> B2I(x >= y)
                    [] f = "eq"  -> B2I(x = y)
                    [] f = "ne"  -> B2I(x # y)

Op(d, f, a, b) == [k |-> "op", d |-> d, f |-> f, a |-> a, b |-> b]
Emit(a)        == [k |-> "emit", d |-> "", f |-> "", a |-> a, b |-> C(0)]
Marker         == [k |-> "marker", d |-> "", f |-> "", a |-> C(0), b |-> C(0)]   \* ssa2ast.MarkerInstr

Jump   == [k |-> "jump", a |-> C(0)]
If(c)  == [k |-> "if",   a |-> c]      \* true -> succs[1], false -> succs[2]
Ret(a) == [k |-> "ret",  a |-> a]

Phi(d, e) == [d |-> d, e |-> e]
Blk(phis, ops, exit, succs, preds, tag, pass, j) ==
  [phis |-> phis, ops |-> ops, exit |-> exit, succs |-> succs, preds |-> preds, tag |-> tag, pass |-> pass, j |-> j]
OBlk(phis, ops, exit, succs, preds) == Blk(phis, ops, exit, succs, preds, "orig", 0, 0)

NInstr(b) == Len(b.phis) + Len(b.ops) + 1

-----------------------------------------------------------------------------
(* The shape family.  Every shape has a Go template in checks/cf_common.py    *)
(* generated from the same parameters; the real go/ssa CFG skeleton of the    *)
(* template is compared with Skeleton(shape) by the check.                    *)

LoopVals == {"x", "y", "t"}
WhileShapes   == [fam : {"while"},   ex : LoopVals, ey : LoopVals, ret : {"x", "y"}]
DoWhileShapes == [fam : {"dowhile"}, ex : LoopVals, ey : LoopVals, ret : LoopVals]
OtherShapes   == { [fam |-> "ifmerge",   ex |-> "u", ey |-> "v", ret |-> "m"],
                   [fam |-> "ifmerge",   ex |-> "a", ey |-> "v", ret |-> "m"],
                   [fam |-> "loopif",    ex |-> "x", ey |-> "y", ret |-> "x"],
                   [fam |-> "loopbreak", ex |-> "x", ey |-> "y", ret |-> "x"] }
AllShapes == WhileShapes \cup DoWhileShapes \cup OtherShapes
Id(sh) == sh.fam \o "-" \o sh.ex \o "-" \o sh.ey \o "-" \o sh.ret
ShapeOf(id) == CHOOSE sh \in AllShapes : Id(sh) = id
ShapeIds == {Id(sh) : sh \in AllShapes}

(* go/ssa keeps the trivial phi x = phi(a, x) of a variable that is assigned to itself. *)
LX(sh) == V("x")
LY(sh) == V("y")
LVal(sh, w) == CASE w = "x" -> V("x") [] w = "y" -> V("y") [] w = "t" -> V("t")
LoopPhis(sh) == <<Phi("x", <<V("a"), LVal(sh, sh.ex)>>), Phi("y", <<V("b"), LVal(sh, sh.ey)>>), Phi("i", <<C(0), V("i1")>>)>>

(* for i := 0; i < n; i++ { t := x + y; emit(t); u := t + i; emit(u); x, y = EX, EY }; return RET *)
WhileCfg(sh) ==
  << OBlk(<<>>, <<>>, Jump, <<2>>, <<>>),
     OBlk(LoopPhis(sh), <<Op("c", "lt", V("i"), V("n"))>>, If(V("c")), <<3, 4>>, <<1, 3>>),
     OBlk(<<>>, <<Op("t", "add", LX(sh), LY(sh)), Emit(V("t")), Op("u", "add", V("t"), V("i")), Emit(V("u")),
                  Op("i1", "add", V("i"), C(1))>>, Jump, <<2>>, <<2>>),
     OBlk(<<>>, <<>>, Ret(LVal(sh, sh.ret)), <<>>, <<2>>) >>

(* for { t := x + y; emit(t); r = RET; x, y = EX, EY; i++; if i >= n { break } }; return r *)
DoWhileCfg(sh) ==
  << OBlk(<<>>, <<>>, Jump, <<2>>, <<>>),
     OBlk(LoopPhis(sh),
          <<Op("t", "add", LX(sh), LY(sh)), Emit(V("t")), Op("i1", "add", V("i"), C(1)), Op("c", "ge", V("i1"), V("n"))>>,
          If(V("c")), <<3, 2>>, <<1, 2>>),
     OBlk(<<>>, <<>>, Ret(LVal(sh, sh.ret)), <<>>, <<2>>) >>

(* if a < n { m = a + 1; w = EX } else { m = b + 2; w = EY }; emit(m); return m + w *)
IfMergeCfg(sh) ==
  LET ew1 == IF sh.ex = "u" THEN V("u") ELSE V("a")
  IN << OBlk(<<>>, <<Op("c", "lt", V("a"), V("n"))>>, If(V("c")), <<2, 4>>, <<>>),
        OBlk(<<>>, <<Op("u", "add", V("a"), C(1))>>, Jump, <<3>>, <<1>>),
        OBlk(<<Phi("m", <<V("u"), V("v")>>), Phi("w", <<ew1, V("v")>>)>>,
             <<Emit(V("m")), Op("r", "add", V("m"), V("w"))>>, Ret(V("r")), <<>>, <<2, 4>>),
        OBlk(<<>>, <<Op("v", "add", V("b"), C(2))>>, Jump, <<3>>, <<1>>) >>

(* for i := 0; i < n; i++ { if x < y { x = x + y } else { y = y + 1 }; emit(x) }; return x + y *)
LoopIfCfg ==     \* block order as go/ssa numbers them: entry, for.loop, for.body, for.done, if.then, if.done, if.else
  << OBlk(<<>>, <<>>, Jump, <<2>>, <<>>),
     OBlk(<<Phi("x", <<V("a"), V("x2")>>), Phi("y", <<V("b"), V("y2")>>), Phi("i", <<C(0), V("i1")>>)>>,
          <<Op("c", "lt", V("i"), V("n"))>>, If(V("c")), <<3, 4>>, <<1, 6>>),
     OBlk(<<>>, <<Op("c2", "lt", V("x"), V("y"))>>, If(V("c2")), <<5, 7>>, <<2>>),
     OBlk(<<>>, <<Op("r", "add", V("x"), V("y"))>>, Ret(V("r")), <<>>, <<2>>),
     OBlk(<<>>, <<Op("x1", "add", V("x"), V("y"))>>, Jump, <<6>>, <<3>>),
     OBlk(<<Phi("x2", <<V("x1"), V("x")>>), Phi("y2", <<V("y"), V("y1")>>)>>,
          <<Emit(V("x2")), Op("i1", "add", V("i"), C(1))>>, Jump, <<2>>, <<5, 7>>),
     OBlk(<<>>, <<Op("y1", "add", V("y"), C(1))>>, Jump, <<6>>, <<3>>) >>

(* x := a; for i := 0; i < n; i++ { x = x + b; emit(x); if x > 4 { break } }; return x *)
LoopBreakCfg ==
  << OBlk(<<>>, <<>>, Jump, <<2>>, <<>>),
     OBlk(<<Phi("x", <<V("a"), V("x1")>>), Phi("i", <<C(0), V("i1")>>)>>,
          <<Op("c", "lt", V("i"), V("n"))>>, If(V("c")), <<3, 4>>, <<1, 5>>),
     OBlk(<<>>, <<Op("x1", "add", V("x"), V("b")), Emit(V("x1")), Op("c2", "gt", V("x1"), C(4))>>, If(V("c2")), <<4, 5>>, <<2>>),
     OBlk(<<Phi("r", <<V("x"), V("x1")>>)>>, <<>>, Ret(V("r")), <<>>, <<2, 3>>),
     OBlk(<<>>, <<Op("i1", "add", V("i"), C(1))>>, Jump, <<2>>, <<3>>) >>

Cfg0(id) == LET sh == ShapeOf(id) IN
  CASE sh.fam = "while"     -> WhileCfg(sh)
    [] sh.fam = "dowhile"   -> DoWhileCfg(sh)
    [] sh.fam = "ifmerge"   -> IfMergeCfg(sh)
    [] sh.fam = "loopif"    -> LoopIfCfg
    [] sh.fam = "loopbreak" -> LoopBreakCfg

Skeleton(g) == [i \in 1..Len(g) |-> [nphis |-> Len(g[i].phis), exit |-> g[i].exit.k,
                                     succs |-> [s \in 1..Len(g[i].succs) |-> g[i].succs[s] - 1],
                                     preds |-> [p \in 1..Len(g[i].preds) |-> g[i].preds[p] - 1]]]

-----------------------------------------------------------------------------
(* Interpreters                                                               *)

InputSeq == [k \in 1..4 |-> [n |-> k - 1, a |-> 1, b |-> 2]]

BlockVars(b) == {b.phis[j].d : j \in 1..Len(b.phis)} \cup {b.ops[j].d : j \in {q \in 1..Len(b.ops) : b.ops[q].k = "op"}}
VarsOf(g) == UNION {BlockVars(g[i]) : i \in 1..Len(g)}
Env0(g, in, pro) ==
  [v \in VarsOf(g) \cup {"n", "a", "b"} \cup DOMAIN pro |->
      IF v \in DOMAIN pro THEN pro[v] ELSE IF v = "n" THEN in.n ELSE IF v = "a" THEN in.a ELSE IF v = "b" THEN in.b ELSE 0]

RECURSIVE RunOps(_, _, _, _)
RunOps(ops, i, env, tr) ==
  IF i > Len(ops) THEN [env |-> env, tr |-> tr, trash |-> FALSE]
  ELSE LET o == ops[i] IN
       CASE o.k = "op"     -> RunOps(ops, i + 1, [env EXCEPT ![o.d] = Apply(o.f, Eval(o.a, env), Eval(o.b, env))], tr)
         [] o.k = "emit"   -> RunOps(ops, i + 1, env, Append(tr, Eval(o.a, env)))
         [] o.k = "marker" -> [env |-> env, tr |-> tr, trash |-> TRUE]

Res(st, tr, ret) == [st |-> st, tr |-> tr, ret |-> ret]

(* TLC notes.  (1) The interpreters are small-step functions folded over a fuel sequence with
   SequencesExt!FoldLeft (Java override, strict) instead of recursive operators: arguments of recursive
   operators are lazy thunks that chain through the recursion, which makes a run quadratic in its length.
   (2) LET-bound and argument expressions are re-evaluated on use; binding them through a set
   ({... : x \in {e}}) forces a single evaluation. *)
(* (3) The fold cannot stop early, so fuel is handed out in growing chunks until the run has halted. *)
Chunks == <<40, 120, 480, 1920, MaxFuel>>
ChunkSeq(c) == [i \in 1..Chunks[c] |-> i]
RECURSIVE RunChunks(_, _, _)
RunChunks(step(_), s, c) ==
  LET s2 == FoldLeft(LAMBDA a, i : step(a), s, ChunkSeq(c))
  IN IF s2.st # "run" \/ c = Len(Chunks) THEN s2 ELSE RunChunks(step, s2, c + 1)
St0(env) == [b |-> 1, p |-> 0, env |-> env, tr |-> <<>>, st |-> "run", ret |-> 0]
Fin(s) == Res(IF s.st = "run" THEN "fuel" ELSE s.st, s.tr, s.ret)

(* SSA semantics: on entry to block b from block p the phis read edge         *)
(* index(p in Preds) in parallel.                                             *)
PredIdx(preds, p) == CHOOSE i \in 1..Len(preds) : preds[i] = p
SsaStep(gg, s) ==
  IF s.st # "run" THEN s ELSE
  LET blk  == gg[s.b]
      env  == s.env
      env1 == IF Len(blk.phis) = 0 \/ s.p = 0 THEN env
              ELSE LET pi == PredIdx(blk.preds, s.p)
                       ds == {blk.phis[j].d : j \in 1..Len(blk.phis)}
                   IN [v \in DOMAIN env |-> IF v \in ds
                         THEN Eval(blk.phis[CHOOSE j \in 1..Len(blk.phis) : blk.phis[j].d = v].e[pi], env)
                         ELSE env[v]]
      r    == RunOps(blk.ops, 1, env1, s.tr)
      nxt(t) == [b |-> t, p |-> s.b, env |-> r.env, tr |-> r.tr, st |-> "run", ret |-> 0]
  IN CASE blk.exit.k = "ret"  -> [s EXCEPT !.st = "ret", !.tr = r.tr, !.ret = Eval(blk.exit.a, r.env)]
       [] blk.exit.k = "jump" -> nxt(blk.succs[1])
       [] blk.exit.k = "if"   -> nxt(IF Eval(blk.exit.a, r.env) # 0 THEN blk.succs[1] ELSE blk.succs[2])
SsaAll(gg) == CHOOSE r \in {[k \in 1..4 |-> Fin(RunChunks(LAMBDA s : SsaStep(x, s), St0(Env0(x, InputSeq[k], <<>>)), 1))]
                              : x \in {gg}} : TRUE

(* Lowering: the assignments that end up in block b (AstBlock.Phi), in the    *)
(* order convertToStmts/convertBlock produce them.                            *)
RECURSIVE PAEdges(_, _, _, _)
PAEdges(blk, phi, b, i) ==
  IF i > Len(phi.e) THEN <<>>
  ELSE (IF blk.preds[i] = b THEN <<[d |-> phi.d, o |-> phi.e[i]]>> ELSE <<>>) \o PAEdges(blk, phi, b, i + 1)
RECURSIVE PAPhis(_, _, _)
PAPhis(blk, b, j) == IF j > Len(blk.phis) THEN <<>> ELSE PAEdges(blk, blk.phis[j], b, 1) \o PAPhis(blk, b, j + 1)
RECURSIVE PABlocks(_, _, _)
PABlocks(g, b, s) == IF s > Len(g) THEN <<>> ELSE PAPhis(g[s], b, 1) \o PABlocks(g, b, s + 1)
PhiAssigns(g) == [b \in 1..Len(g) |-> PABlocks(g, b, 1)]

(* convertBlock indexes Preds[predIdx] for every edge: more edges than preds  *)
(* is an index-out-of-range panic, i.e. a failed build (F10).                 *)
Lowerable(g) == \A i \in 1..Len(g) : \A j \in 1..Len(g[i].phis) : Len(g[i].phis[j].e) <= Len(g[i].preds)

RECURSIVE AssignSeq(_, _, _)
AssignSeq(pa, i, env) == IF i > Len(pa) THEN env ELSE AssignSeq(pa, i + 1, [env EXCEPT ![pa[i].d] = Eval(pa[i].o, env)])
(* what-if: one tuple assignment per predecessor block (repairs F4 only)      *)
AssignPar(pa, env) == [v \in DOMAIN env |->
   IF \E i \in 1..Len(pa) : pa[i].d = v
   THEN Eval(pa[CHOOSE i \in 1..Len(pa) : pa[i].d = v /\ \A q \in (i+1)..Len(pa) : pa[q].d # v].o, env)
   ELSE env[v]]

LowStep(gg, pa, mode, s) ==
  IF s.st # "run" THEN s ELSE
  LET blk == gg[s.b]
      r   == RunOps(blk.ops, 1, s.env, s.tr)
  IN IF r.trash THEN [s EXCEPT !.st = "trash", !.tr = r.tr] ELSE
     LET env2 == IF mode = "seq" THEN AssignSeq(pa[s.b], 1, r.env) ELSE AssignPar(pa[s.b], r.env)
         nxt(t) == [b |-> t, p |-> s.b, env |-> env2, tr |-> r.tr, st |-> "run", ret |-> 0]
     IN CASE blk.exit.k = "ret"  -> [s EXCEPT !.st = "ret", !.tr = r.tr, !.ret = Eval(blk.exit.a, env2)]
          [] blk.exit.k = "jump" -> nxt(blk.succs[1])
          [] blk.exit.k = "if"   -> nxt(IF Eval(blk.exit.a, env2) # 0 THEN blk.succs[1] ELSE blk.succs[2])
LowAll(gg, pp, mode) ==
  CHOOSE r \in {[k \in 1..4 |-> Fin(RunChunks(LAMBDA s : LowStep(x[1], x[2], mode, s), St0(Env0(x[1], InputSeq[k], pp)), 1))]
                  : x \in {<<gg, PhiAssigns(gg)>>}} : TRUE

-----------------------------------------------------------------------------
(* Predictions for the untransformed shapes (constant level, cached by TLC)   *)

Cause(ref, low, par) == IF low = ref THEN "none"
                        ELSE IF par = ref THEN "sequential"   \* F4: phis of one block assigned one after the other
                        ELSE IF par = low THEN "lost-copy"    \* F3: assignment before the branch of a pred with another successor
                        ELSE "both"
Predict(id) == LET p == CHOOSE q \in {[ref |-> SsaAll(x), low |-> LowAll(x, <<>>, "seq"), par |-> LowAll(x, <<>>, "par")] : x \in {Cfg0(id)}} : TRUE
               IN [ref |-> p.ref, low |-> p.low, cause |-> Cause(p.ref, p.low, p.par)]

(* the table of all shapes with TLC's predictions: the leads replayed on the real code *)
LeadShapes == IF LeadsFile = "" THEN {} ELSE ShapeIds
Leads == [id \in LeadShapes |-> LET p == Predict(id) IN
            [shape |-> ShapeOf(id), skeleton |-> Skeleton(Cfg0(id)), cause |-> p.cause,
             ssa |-> p.ref, low |-> p.low, inputs |-> InputSeq]]
ASSUME LeadsFile = "" \/ JsonSerialize(LeadsFile, Leads)

-----------------------------------------------------------------------------
(* Hardening key algebra (hardening.go)                                       *)

Keys == 0..KMax
Injective(s) == \A i, j \in DOMAIN s : i # j => s[i] # s[j]
(* every result generateKeys(count, blacklist) can return *)
GenKeys(m, bl) == {s \in [1..m -> Keys] : Injective(s) /\ \A i \in 1..m : s[i] # 0 /\ (HonourBlacklist => s[i] \notin bl)}

(* xorHardening: CompareVar = k ^ globalKey, StoreVar = localKey ^ k with localKey = globalKey at run time *)
XorCompare(ks, gk) == [i \in DOMAIN ks |-> Xor(ks[i], gk)]
XorStore(ks, gk)   == [i \in DOMAIN ks |-> Xor(gk, ks[i])]
XorAlgebraOK(m) == \A gk \in Keys : \A ks \in GenKeys(m, {gk}) :
   /\ XorStore(ks, gk) = XorCompare(ks, gk)
   /\ Injective(XorCompare(ks, gk))
   /\ \A i \in 1..m : XorCompare(ks, gk)[i] # 0
(* delegateTableHardening: CompareVar = k, StoreVar = table[d](k ^ dk) = (k ^ dk) ^ dk *)
DelegAlgebraOK(m) == \A dk \in [1..m -> Keys] : \A ks \in GenKeys(m, {dk[i] : i \in 1..m}) :
   /\ \A i \in 1..m : Xor(Xor(ks[i], dk[i]), dk[i]) = ks[i] /\ ks[i] # 0
   /\ Injective(ks)
KeysAlgebraOK == XorAlgebraOK(2) /\ DelegAlgebraOK(2)

(* trash guard (randomAlwaysFalseCond): an operator for which val1 op val2 is false always exists *)
CmpOps == {"eq", "ne", "lt", "le", "gt", "ge"}
FalseOps(v1, v2) == {o \in CmpOps : Apply(o, v1, v2) = 0}
TrashGuardOK == \A v1, v2 \in 0..3 : FalseOps(v1, v2) # {}

-----------------------------------------------------------------------------
(* Transformations                                                            *)

VARIABLES sid, g, stage, cnt, pro, status, lastDisp,
          runs,   \* the lowered function's behaviour on every input, recomputed by every action
          exp     \* Predict(sid): SSA semantics of the source, behaviour of the plain lowering, cause of a difference
vars == <<sid, g, stage, cnt, pro, status, lastDisp, runs, exp>>

RunsOf(gg, pp) == LowAll(gg, pp, "seq")

HasSuccs(b) == Len(b.succs) > 0
Candidates == {i \in 1..Len(g) : HasSuccs(g[i])}
NoDisp == [pass |-> 0, entry |-> 0, tgts |-> <<>>, keys |-> <<>>, real |-> 0]

(* addTrashBlockMarkers, one iteration: a guard block (phi + always-false comparison) and a
   self-looping trash block are put on edge (b, si); the successor's Preds are NOT touched. *)
TrashOn(b, si, v1, op, v2) ==
  LET n    == Len(g)
      succ == g[b].succs[si]
      tv   == "tp" \o ToString(n)
      tc   == "tc" \o ToString(n)
      cond == Blk(<<Phi(tv, <<C(v1)>>)>>, <<Op(tc, op, V(tv), C(v2))>>, If(V(tc)), <<n + 2, succ>>, <<b>>, "trashcond", 0, 0)
      trsh == Blk(<<>>, <<Marker>>, Jump, <<n + 2>>, <<n + 1, n + 2>>, "trash", 0, 0)
  IN [g EXCEPT ![b].succs[si] = n + 1] \o <<cond, trsh>>

Trash(b, si) ==
  /\ stage = "trash" /\ cnt.trash < MaxTrash
  /\ \E c \in {<<1, "eq", 2>>} :
        /\ c[2] \in FalseOps(c[1], c[3])
        /\ g' = TrashOn(b, si, c[1], c[2], c[3])
  /\ runs' = RunsOf(g', pro)
  /\ cnt' = [cnt EXCEPT !.trash = @ + 1]
  /\ UNCHANGED <<sid, stage, pro, status, lastDisp, exp>>

(* applySplitting: the first largest block is cut at splitIdx in 1..len-2 (0-based instruction index);
   the second part becomes a new block appended to the list; Preds of the DIRECT successors that name
   the old block are rewritten to the new block. *)
SplitTarget == CHOOSE i \in 1..Len(g) : /\ \A q \in 1..Len(g) : NInstr(g[q]) <= NInstr(g[i])
                                        /\ \A q \in 1..(i - 1) : NInstr(g[q]) < NInstr(g[i])
SplitAt(t, idx) ==
  LET n   == Len(g)
      blk == g[t]
      np  == Len(blk.phis)
      no  == Len(blk.ops)
      fphis == IF idx >= np THEN blk.phis ELSE SubSeq(blk.phis, 1, idx)
      sphis == IF idx >= np THEN <<>> ELSE SubSeq(blk.phis, idx + 1, np)
      fops  == IF idx >= np THEN SubSeq(blk.ops, 1, idx - np) ELSE <<>>
      sops  == IF idx >= np THEN SubSeq(blk.ops, idx - np + 1, no) ELSE blk.ops
      first == [blk EXCEPT !.phis = fphis, !.ops = fops, !.exit = Jump, !.succs = <<n + 1>>]
      secnd == Blk(sphis, sops, blk.exit, blk.succs, <<t>>, "split", 0, 0)
      isSucc(i) == \E s \in 1..Len(blk.succs) : blk.succs[s] = i
      fix(i, b) == IF SplitFixesPreds /\ isSucc(i) THEN [b EXCEPT !.preds = [p \in 1..Len(@) |-> IF @[p] = t THEN n + 1 ELSE @[p]]] ELSE b
  IN [i \in 1..n |-> IF i = t THEN fix(i, first) ELSE fix(i, g[i])] \o <<secnd>>

Split(idx) ==
  /\ stage = "split" /\ cnt.split < MaxSplit
  /\ (AllowSplitAfterTrash \/ cnt.trash = 0)
  /\ NInstr(g[SplitTarget]) > 2
  /\ idx \in 1..(NInstr(g[SplitTarget]) - 2)
  /\ LET g2 == SplitAt(SplitTarget, idx) IN
       /\ g' = g2
       /\ status' = IF Lowerable(g2) THEN status ELSE "rejected"   \* split inside a phi group: panic in convertBlock (F10)
       /\ runs' = IF Lowerable(g2) THEN RunsOf(g2, pro) ELSE runs
  /\ cnt' = [cnt EXCEPT !.split = @ + 1]
  /\ UNCHANGED <<sid, stage, pro, lastDisp, exp>>

(* addJunkBlocks, one iteration: a block holding only a jump is put on edge (b, si) *)
Junk(b, si) ==
  /\ stage = "junk" /\ cnt.junk < MaxJunk
  /\ LET n == Len(g)
         fake == Blk(<<>>, <<>>, Jump, <<g[b].succs[si]>>, <<b>>, "junk", 0, 0)
     IN g' = [g EXCEPT ![b].succs[si] = n + 1] \o <<fake>>
  /\ runs' = RunsOf(g', pro)
  /\ cnt' = [cnt EXCEPT !.junk = @ + 1]
  /\ UNCHANGED <<sid, stage, pro, status, lastDisp, exp>>

(* applyFlattening *)
PermOf(kind, m) == CASE kind = "id"  -> [i \in 1..m |-> i]
                     [] kind = "rev" -> [i \in 1..m |-> m + 1 - i]
                     [] kind = "rot" -> [i \in 1..m |-> (i % m) + 1]
RECURSIVE MapSeq(_, _)
MapSeq(gg, i) ==
  IF i > Len(gg) THEN <<>>
  ELSE (CASE gg[i].exit.k = "jump" -> <<[from |-> i, si |-> 1, tgt |-> gg[i].succs[1], fp |-> i]>>
          [] gg[i].exit.k = "if"   -> <<[from |-> i, si |-> 1, tgt |-> gg[i].succs[1], fp |-> gg[i].succs[1]],
                                        [from |-> i, si |-> 2, tgt |-> gg[i].succs[2], fp |-> gg[i].succs[2]]>>
          [] OTHER                 -> <<>>) \o MapSeq(gg, i + 1)

Renumber(tmp, ord) ==     \* ord[new position] = old index
  LET inv == [o \in 1..Len(tmp) |-> CHOOSE p \in 1..Len(ord) : ord[p] = o]
  IN [p \in 1..Len(ord) |-> [tmp[ord[p]] EXCEPT !.succs = [s \in 1..Len(@) |-> inv[@[s]]],
                                                !.preds = [s \in 1..Len(@) |-> inv[@[s]]]]]

FlattenCfg(gg, pk, sk, pass) ==
  LET n    == Len(gg)
      maps == MapSeq(gg, 1)
      m    == Len(maps)
      perm == PermOf(pk, m)
      key  == [j \in 1..m |-> IF ReserveZero THEN perm[j] ELSE perm[j] - 1]   \* phiIdxs[i]++ : 0 is the real entry
      fk(j) == n + j
      ib(j) == n + m + j
      en    == n + 2 * m + 1
      pv    == "dp" \o ToString(pass)
      cv(j) == "dc" \o ToString(pass)   \* (a := local in the emitted code; one name per pass keeps the environment small)
      mi(i, s) == CHOOSE j \in 1..m : maps[j].from = i /\ maps[j].si = s
      olds  == [i \in 1..n |-> [gg[i] EXCEPT !.succs = [s \in 1..Len(@) |-> fk(mi(i, s))],
                                            !.preds = IF i = 1 THEN Append(@, ib(m)) ELSE @]]
      fakes == [j \in 1..m |-> Blk(<<>>, <<>>, Jump, <<en>>, <<maps[j].fp>>, "djump", pass, j)]
      ifs   == [j \in 1..m |-> Blk(<<>>, <<Op(cv(j), "eq", V(pv), C(key[j]))>>, If(V(cv(j))),
                                   <<maps[j].tgt, IF j < m THEN ib(j + 1) ELSE 1>>,
                                   <<IF j = 1 THEN en ELSE ib(j - 1)>>, "dif", pass, j)]
      entry == Blk(<<Phi(pv, [j \in 1..m |-> C(key[j])])>>, <<>>, Jump, <<ib(1)>>, [j \in 1..m |-> fk(j)], "dentry", pass, 0)
      tmp   == olds \o fakes \o ifs \o <<entry>>
      rest  == PermOf(sk, n + 2 * m)
      ord   == <<en>> \o rest
      inv   == [o \in 1..Len(tmp) |-> CHOOSE p \in 1..Len(ord) : ord[p] = o]
  IN [cfg  |-> Renumber(tmp, ord),
      disp |-> [pass |-> pass, entry |-> 1, tgts |-> [j \in 1..m |-> inv[maps[j].tgt]], keys |-> key, real |-> inv[1]]]

Flatten(pk, sk) ==
  /\ stage = "flat" /\ cnt.pass < MaxPass
  /\ Len(g) >= 3
  /\ LET f == FlattenCfg(g, pk, sk, cnt.pass + 1) IN g' = f.cfg /\ lastDisp' = f.disp
  /\ runs' = RunsOf(g', pro)
  /\ cnt' = [cnt EXCEPT !.pass = @ + 1]
  /\ UNCHANGED <<sid, stage, pro, status, exp>>

(* hardening: every dispatcher's constants are replaced through SsaValueRemap at conversion time *)
RepKeys(m, bl, up) ==      \* one representative result of generateKeys
  LET ok == {k \in 1..(2 * m + 4) : HonourBlacklist => k \notin bl}
      asc == SetToSortSeq(ok, LAMBDA x, y : x < y)
  IN [i \in 1..m |-> IF up THEN asc[i] ELSE asc[Len(asc) + 1 - i]]
HardenBlk(b, kind, gk, up) ==
  IF b.pass = 0 \/ b.tag \notin {"dentry", "dif"} THEN b
  ELSE LET m  == IF b.tag = "dentry" THEN Len(b.phis[1].e) ELSE 0
           lk == "lk" \o ToString(b.pass)
       IN CASE kind = "xor" /\ b.tag = "dentry" ->
                 LET ks == RepKeys(m, {gk}, up) IN [b EXCEPT !.phis[1].e = [j \in 1..m |-> XV(lk, ks[j])]]
            [] kind = "delegate" /\ b.tag = "dentry" ->
                 LET dk == [j \in 1..m |-> (j % 2) + gk]
                     ks == RepKeys(m, {dk[j] : j \in 1..m}, up)
                 IN [b EXCEPT !.phis[1].e = [j \in 1..m |-> XC(Xor(ks[j], dk[j]), dk[j])]]
            [] OTHER -> b
(* the comparison constants need the same key sequence: recomputed from the dispatcher's size *)
DispSize(gg, pass) == LET e == CHOOSE i \in 1..Len(gg) : gg[i].tag = "dentry" /\ gg[i].pass = pass IN Len(gg[e].phis[1].e)
HardenCmp(gg, b, kind, gk, up) ==
  IF b.tag # "dif" THEN b
  ELSE LET m == DispSize(gg, b.pass) IN
       CASE kind = "xor"      -> [b EXCEPT !.ops[1].b = C(Xor(RepKeys(m, {gk}, up)[b.j], gk))]
         [] kind = "delegate" -> LET dk == [j \in 1..m |-> (j % 2) + gk] IN
                                 [b EXCEPT !.ops[1].b = C(RepKeys(m, {dk[j] : j \in 1..m}, up)[b.j])]
         [] OTHER             -> b
Harden(kind, gk, up) ==
  /\ stage = "harden"
  /\ (cnt.pass = 0 => kind = "none" /\ gk = 5 /\ up)
  /\ (kind = "none" => gk = 5 /\ up)
  /\ IF kind = "none"
       THEN g' = g /\ pro' = pro
       ELSE /\ g' = [i \in 1..Len(g) |-> HardenCmp(g, HardenBlk(g[i], kind, gk, up), kind, gk, up)]
            /\ pro' = IF kind = "xor" THEN [v \in {"lk" \o ToString(p) : p \in 1..cnt.pass} |-> gk] ELSE pro
  /\ runs' = RunsOf(g', pro')
  /\ stage' = "done"
  /\ UNCHANGED <<sid, cnt, status, lastDisp, exp>>

Advance(from, to) == stage = from /\ stage' = to /\ UNCHANGED <<sid, g, cnt, pro, status, lastDisp, runs, exp>>

Init == /\ sid \in XShapes /\ g = Cfg0(sid) /\ stage = "trash"
        /\ cnt = [trash |-> 0, split |-> 0, junk |-> 0, pass |-> 0]
        /\ pro = <<>> /\ status = "ok" /\ lastDisp = NoDisp
        /\ runs = RunsOf(g, pro)
        /\ exp = Predict(sid)

Next == /\ status = "ok"
        /\ \/ \E b \in Candidates : \E si \in 1..Len(g[b].succs) : Trash(b, si)
           \/ Advance("trash", "split")
           \/ \E idx \in 1..8 : Split(idx)
           \/ Advance("split", "junk")
           \/ \E b \in Candidates : \E si \in 1..Len(g[b].succs) : Junk(b, si)
           \/ Advance("junk", "flat")
           \/ \E pk \in Perms : \E sk \in Shuffles : Flatten(pk, sk)
           \/ Advance("flat", "harden")
           \/ \E kind \in Hardenings : \E gk \in HardenGks : \E up \in HardenUps : Harden(kind, gk, up)

Spec == Init /\ [][Next]_vars

-----------------------------------------------------------------------------
(* Invariants                                                                 *)

Runs == runs

(* the transformations never change what the lowered function does *)
SameAsLowered == status = "ok" => Runs = exp.low
(* ... and, for the shapes the plain lowering gets right, the result is the SSA semantics of the source *)
SameTrace == (status = "ok" /\ exp.cause = "none") => Runs = exp.ref
TrashNeverRuns == status = "ok" => \A k \in 1..4 : Runs[k].st # "trash"
(* junk blocks are pure forwarders (they do run, but cannot be observed) and trash blocks are only
   entered through their guard *)
JunkIsPureJump == \A i \in 1..Len(g) : g[i].tag = "junk" => (g[i].ops = <<>> /\ g[i].phis = <<>> /\ g[i].exit.k = "jump")
TrashOnlyBehindGuard == \A i \in 1..Len(g) : \A s \in 1..Len(g[i].succs) :
   g[i].tag = "orig" => g[g[i].succs[s]].tag # "trash"
PhiEdgesMatchPreds == status = "ok" =>
   \A i \in 1..Len(g) : \A j \in 1..Len(g[i].phis) :
      /\ Len(g[i].phis[j].e) <= Len(g[i].preds)
      /\ \A e \in 1..Len(g[i].phis[j].e) : g[i].preds[e] \in 1..Len(g) /\ g[g[i].preds[e]].exit.k # "ret"

(* the dispatcher built by the last flattening pass: key j leads to target j, key 0 to the real entry *)
RECURSIVE Chain(_, _, _)
Chain(b, val, fuel) ==
  IF fuel = 0 THEN 0
  ELSE IF g[b].tag = "dentry" /\ g[b].pass = lastDisp.pass THEN Chain(g[b].succs[1], val, fuel - 1)
  ELSE IF g[b].tag = "dif" /\ g[b].pass = lastDisp.pass
       THEN (IF val = g[b].ops[1].b.c THEN g[b].succs[1] ELSE Chain(g[b].succs[2], val, fuel - 1))
  ELSE b
DispatchReachesTarget ==
  (lastDisp.pass # 0 /\ stage = "flat") =>
     /\ \A j \in 1..Len(lastDisp.tgts) : Chain(lastDisp.entry, lastDisp.keys[j], 100) = lastDisp.tgts[j]
     /\ Chain(lastDisp.entry, 0, 100) = lastDisp.real
KeysDistinctNonZero ==
  \A i \in 1..Len(g) : g[i].tag = "dentry" =>
     LET e  == g[i].phis[1].e
         en == Env0(g, InputSeq[1], pro)
     IN /\ \A a, b \in 1..Len(e) : a # b => Eval(e[a], en) # Eval(e[b], en)
        /\ \A a \in 1..Len(e) : Eval(e[a], en) # 0
        /\ \A a \in 1..Len(e) : \E q \in 1..Len(g) : g[q].tag = "dif" /\ g[q].pass = g[i].pass /\ g[q].j = a
                                                     /\ g[q].ops[1].b.c = Eval(e[a], en)

ASSUME KeysAlgebraOK
ASSUME TrashGuardOK
=============================================================================
