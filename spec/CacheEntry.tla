----------------------------- MODULE CacheEntry -----------------------------
(* One entry of GARBLE_CACHE/build as garble uses it through                *)
(* github.com/rogpeppe/go-internal/cache: PutBytes by writers,              *)
(* GetFile + os.ReadFile by readers (loadPkgCache, computePkgCache,         *)
(* loadGoAsmNames, debugdir artifacts), with concurrent processes and Kill. *)
(* This is the entry-level protocol that BuildCache.tla abstracts as        *)
(* "anything but an intact (index, data) pair is a miss", and that C17      *)
(* (concurrent builds), C18 (kill at any instant) and C07 rely on.          *)
(*                                                                          *)
(* Files: the index file <key>-a (one fixed-size line naming the output id  *)
(* and its size) and the content-addressed data file <outid>-d.             *)
(*   put:  copyFile writes size-1 bytes, checks the hash, then writes the   *)
(*         LAST byte (only then does the size match), closes; then          *)
(*         putIndexEntry writes the whole line without O_TRUNC and          *)
(*         truncates afterwards.                                            *)
(*   get:  the index must parse completely and name this key; the data file *)
(*         must exist and have exactly the recorded size.                   *)
(* Contents are abstract values; two writers of one key normally write the  *)
(* same content (same action id), the model also allows different content.  *)
EXTENDS Naturals, FiniteSets, TLC

CONSTANTS Writers, Readers, Contents, MaxKills

(* data[c] : state of the data file of content c: "none" | "short" (size-1 bytes or less) | "full" *)
(* index   : "none" | "torn" (partially written line) | c \in Contents (complete line naming c)   *)
VARIABLES data, index, wpc, wc, rpc, rgot, kills
vars == <<data, index, wpc, wc, rpc, rgot, kills>>

Init == /\ data = [c \in Contents |-> "none"]
        /\ index = "none"
        /\ wpc = [w \in Writers |-> "idle"]
        /\ wc \in [Writers -> Contents]          \* what each writer is going to put
        /\ rpc = [r \in Readers |-> "idle"]
        /\ rgot = [r \in Readers |-> "-"]
        /\ kills = 0

(* ---- writer: PutBytes(key, content) *)
WStat(w) ==      \* copyFile: already there with the right size and hash -> skip the copy
  /\ wpc[w] = "idle"
  /\ wpc' = [wpc EXCEPT ![w] = IF data[wc[w]] = "full" THEN "index" ELSE "copy"]
  /\ UNCHANGED <<data, index, wc, rpc, rgot, kills>>
WCopy(w) ==      \* all bytes but the last one
  /\ wpc[w] = "copy"
  /\ data' = [data EXCEPT ![wc[w]] = IF @ = "full" THEN "full" ELSE "short"]   \* rewriting identical bytes of a full file keeps it full
  /\ wpc' = [wpc EXCEPT ![w] = "commit"]
  /\ UNCHANGED <<index, wc, rpc, rgot, kills>>
WCommit(w) ==    \* the last byte: the size matches from now on
  /\ wpc[w] = "commit"
  /\ data' = [data EXCEPT ![wc[w]] = "full"]
  /\ wpc' = [wpc EXCEPT ![w] = "index"]
  /\ UNCHANGED <<index, wc, rpc, rgot, kills>>
WIndexStart(w) == \* the line is written over the old one, without truncating first
  /\ wpc[w] = "index"
  /\ index' = IF index = wc[w] THEN index ELSE "torn"
  /\ wpc' = [wpc EXCEPT ![w] = "indexing"]
  /\ UNCHANGED <<data, wc, rpc, rgot, kills>>
WIndexDone(w) ==
  /\ wpc[w] = "indexing"
  /\ index' = wc[w]
  /\ wpc' = [wpc EXCEPT ![w] = "done"]
  /\ UNCHANGED <<data, wc, rpc, rgot, kills>>

(* ---- reader: GetFile(key) then os.ReadFile *)
RGet(r) ==
  /\ rpc[r] = "idle"
  /\ IF index \in Contents /\ data[index] = "full"
       THEN rpc' = [rpc EXCEPT ![r] = "read"] /\ rgot' = [rgot EXCEPT ![r] = index]
       ELSE rpc' = [rpc EXCEPT ![r] = "miss"] /\ rgot' = rgot
  /\ UNCHANGED <<data, index, wpc, wc, kills>>
RRead(r) ==      \* reads the file it was given: a full file is never shortened again
  /\ rpc[r] = "read"
  /\ rgot' = [rgot EXCEPT ![r] = IF data[rgot[r]] = "full" THEN rgot[r] ELSE "partial"]
  /\ rpc' = [rpc EXCEPT ![r] = "done"]
  /\ UNCHANGED <<data, index, wpc, wc, kills>>

(* ---- environment *)
Kill(w) ==
  /\ kills < MaxKills /\ wpc[w] \notin {"idle", "done"}
  /\ kills' = kills + 1
  /\ wpc' = [wpc EXCEPT ![w] = "idle"]          \* the build is rerun later: same key, same content
  /\ UNCHANGED <<data, index, wc, rpc, rgot>>

Next == \/ \E w \in Writers : WStat(w) \/ WCopy(w) \/ WCommit(w) \/ WIndexStart(w) \/ WIndexDone(w) \/ Kill(w)
        \/ \E r \in Readers : RGet(r) \/ RRead(r)
Spec == Init /\ [][Next]_vars /\ \A w \in Writers : WF_vars(WStat(w) \/ WCopy(w) \/ WCommit(w) \/ WIndexStart(w) \/ WIndexDone(w))

(* ------------------------------------------------------------------ properties *)
(* a reader never consumes a half-written entry: a hit yields exactly some writer's content *)
NeverPartialHit == \A r \in Readers : rpc[r] = "done" => rgot[r] \in {wc[w] : w \in Writers}
(* an index line that parses always names a content whose data file was completed at some point *)
IndexImpliesData == index \in Contents => data[index] = "full"
(* every writer eventually completes (reruns after kills), after which the entry is a hit *)
EventuallyHit == <>[](index \in Contents /\ data[index] = "full")
=============================================================================
