------------------------------ MODULE Literals ------------------------------
(***************************************************************************)
(* Literal obfuscation of garble (internal/literals), properties C05, C09. *)
(*                                                                         *)
(* Part A  the rewrite/skip decision of literals.Obfuscate as a finite     *)
(*         table over syntactic context x literal form x size class        *)
(*         (literals.go:42-194), exported with JsonSerialize (binding B3). *)
(* Part B  a transcription of the five obfuscators (simple, swap, split,   *)
(*         shuffle, seed), of dataToByteSliceWithExtKeys /                 *)
(*         byteLitWithExtKey and of the three wrappers (obfuscateString,   *)
(*         obfuscateByteSlice, obfuscateByteArray): the obfuscation-time   *)
(*         ENCODE is a PlusCal procedure in which every math/rand draw is  *)
(*         an explicit `with` choice appended to `log` under the name of   *)
(*         its choice point; what the procedure produces is the EMITTED    *)
(*         decode program as a data structure, which the Run* operators    *)
(*         interpret.  Bytes live in Z_M (M a power of two; 256 in the     *)
(*         code).  Invariant RoundTrip: running the emitted program gives  *)
(*         back the original bytes, for all data and all choice vectors.   *)
(***************************************************************************)
EXTENDS Integers, Sequences, FiniteSets, TLC, Json, Bitwise

CONSTANTS
  WrapperObfs,    \* obfuscators explored under the wrappers
  JunkBytes,      \* alphabet of the junk bytes of obfuscateString
  DigitBytes,     \* alphabet of the bytes of a drawn external key value
  M,              \* byte modulus (code: 256); must be a power of two
  Layers,         \* which procedures are explored as the top level
  Lens,           \* data lengths explored
  DataBytes,      \* alphabet of the original data
  KeyBytes,       \* alphabet of rand.Read bytes / Uint32 low bytes
  KeyEnvs,        \* external-key environments for the obfuscator layers (set of sequences of [w, v])
  LemmaOpCounts,  \* extKeyOpCount explored when dataToByteSliceWithExtKeys is the top level
  NestedOpCounts, \* extKeyOpCount explored when it is called from an obfuscator (code: 2..11)
  LemmaTry,       \* outcomes of externalKeyProbability.Try explored for byteLitWithExtKey as the top level
  NestedTry,      \* ... when it is called from an obfuscator / wrapper
  UnusedOps,      \* values explored for the operators shuffle draws but never uses
  ShuffleOrders,  \* outcomes explored for a two-statement shuffleStmts (FALSE keep, TRUE swapped)
  MaxChunk,       \* split.go maxChunkSize (code: 4)
  MinCase,        \* split.go minCaseCount (code: 3)
  MinIdxKey,      \* shuffle.go minIdxKeySize (code: 2)
  MaxIdxKey,      \* shuffle.go maxIdxKeySize (code: 16)
  JunkLens,       \* obfuscateString junk lengths (code: 2..7)
  KeyCounts,      \* randExtKeys count (code: 2..5)
  KeyWidths,      \* external key widths in bytes (code: {1,2,4,8})
  MaxExpensive,   \* literals.go MaxSizeExpensive (code: 256)
  U8Max,          \* math.MaxUint8 in the model's scale (code: 255)
  ArrayPad,       \* extra array length beyond the number of elements explored for [N]byte
  ExportVectors   \* TRUE: print one VEC line per finished behaviour (replay configs)

Byte == 0..(M - 1)
Ops == {"XOR", "ADD", "SUB"}
OpIdx(o) == CASE o = "XOR" -> 0 [] o = "ADD" -> 1 [] o = "SUB" -> 2
OpOf(i) == CASE i = 0 -> "XOR" [] i = 1 -> "ADD" [] i = 2 -> "SUB"

(* obfuscators.go evalOperator *)
EvalOp(o, x, y) == CASE o = "XOR" -> (x ^^ y) % M
                     [] o = "ADD" -> (x + y) % M
                     [] o = "SUB" -> ((x - y) + M) % M
(* obfuscators.go operatorToReversedBinaryExpr *)
RevOp(o) == CASE o = "XOR" -> "XOR" [] o = "ADD" -> "SUB" [] o = "SUB" -> "ADD"

At(s, i) == s[i + 1]                       \* Go's s[i]
Upd(s, i, v) == [s EXCEPT ![i + 1] = v]    \* Go's s[i] = v
Min2(a, b) == IF a < b THEN a ELSE b
Rev(s) == [i \in 1..Len(s) |-> s[Len(s) + 1 - i]]
Stuck == <<-1>>                            \* the emitted program would panic / not terminate

(* byte(key.value >> (b*8)) at obfuscation time and byte(key >> (b*8)) in the  *)
(* emitted code: key.v is the little-endian digit sequence of the key value.  *)
KeyByte(keys, k, b) == keys[k].v[b + 1]

(***************************************************************************)
(* Interpreters of the emitted programs.                                   *)
(***************************************************************************)

(* func() []byte { data := []byte("..."); data[i] = data[i] op' byte(key>>s); ...; return data }() *)
RECURSIVE RunStmts(_, _, _, _)
RunStmts(d, stmts, j, keys) ==
  IF j > Len(stmts) THEN d
  ELSE LET st == stmts[j]
       IN RunStmts(Upd(d, st.idx, EvalOp(st.op, At(d, st.idx), KeyByte(keys, st.key, st.shift))), stmts, j + 1, keys)
RunExt(lam, keys) == RunStmts(lam.init, lam.stmts, 1, keys)

(* byte(<val>) op' byte(key >> s)   |   <val> *)
EvalLit(e, keys) == IF e.kind = "lit" THEN e.v ELSE EvalOp(e.op, e.v, KeyByte(keys, e.key, e.shift))

ExtRefs(lam) == {lam.stmts[j].key : j \in 1..Len(lam.stmts)}
LitRefs(e) == IF e.kind = "lit" THEN {} ELSE {e.key}

(* simple.go: key := ...; data := ...; for i, b := range key { data[i] = data[i] op' b } *)
RunSimple(blk, keys) ==
  LET k == RunExt(blk.key, keys)
      d == RunExt(blk.data, keys)
  IN [i \in 1..Len(k) |-> EvalOp(blk.op, d[i], k[i])]

(* swap.go: the pair step shared by encode (op) and the emitted loop (op').       *)
(* data[p], data[q] = f(data[q], lk), f(data[p], lk): both right-hand sides are   *)
(* evaluated first, then assigned left to right (matters when p = q).              *)
SwapStep(d, p, q, o, lk) ==
  LET a == EvalOp(o, At(d, q), lk)
      b == EvalOp(o, At(d, p), lk)
  IN Upd(Upd(d, p, a), q, b)
LocalKey(i, p, q, shift) == ((i % M) + ((p ^^ q) % M) + shift) % M

RECURSIVE SwapEncode(_, _, _, _, _)
SwapEncode(d, pos, o, shift, i) ==     \* for i := len(positions)-2; i >= 0; i -= 2
  IF i < 0 THEN d
  ELSE SwapEncode(SwapStep(d, At(pos, i), At(pos, i + 1), o, LocalKey(i, At(pos, i), At(pos, i + 1), shift)), pos, o, shift, i - 2)

RECURSIVE SwapDecode(_, _, _, _, _)
SwapDecode(d, pos, o, shift, i) ==     \* for i := 0; i < len(positions); i += 2
  IF i >= Len(pos) THEN d
  ELSE SwapDecode(SwapStep(d, At(pos, i), At(pos, i + 1), o, LocalKey(i, At(pos, i), At(pos, i + 1), shift)), pos, o, shift, i + 2)

(* swap.go getIndexType: the element type of the emitted positions array *)
IndexTypeMax(n) == IF n <= U8Max THEN U8Max ELSE (U8Max + 1) * (U8Max + 1) - 1
RunSwap(blk, keys) ==
  IF \E j \in 1..Len(blk.positions) : blk.positions[j] > blk.idxmax THEN Stuck   \* constant overflows the element type
  ELSE SwapDecode(RunExt(blk.data, keys), blk.positions, blk.op, EvalLit(blk.shift, keys), 0)

(* split.go: the emitted state machine                                              *)
(*   data := make([]byte, 0, n+1); i := start; decryptKey := int(<lit>)             *)
(*   for counter := 0; i != exit; counter++ { decryptKey ^= i * counter; switch i { ... } } *)
SplitBody(c, st, keys) ==     \* one case body; st = [i, key, data]; the two statements are independent
  IF c.kind = "chunk"
  THEN [st EXCEPT !.i = c.next,
                  !.data = st.data \o (IF c.val.kind = "ext" THEN RunExt(c.val.lam, keys) ELSE <<EvalLit(c.val.e, keys)>>)]
  ELSE [st EXCEPT !.i = c.next,
                  !.data = [y \in 1..Len(st.data) |-> EvalOp(c.op, st.data[y], (st.key ^^ (y - 1)) % M)]]
RECURSIVE SplitLoop(_, _, _, _, _)
SplitLoop(blk, st, counter, fuel, keys) ==
  IF st.i = blk.exit THEN st.data
  ELSE IF fuel = 0 \/ st.i \notin DOMAIN blk.cases THEN Stuck
  ELSE LET k2 == st.key ^^ (st.i * counter)
       IN SplitLoop(blk, SplitBody(blk.cases[st.i], [st EXCEPT !.key = k2], keys), counter + 1, fuel - 1, keys)
RunSplit(blk, keys) ==
  SplitLoop(blk, [i |-> blk.start, key |-> EvalLit(blk.key0, keys), data |-> <<>>], 0, Cardinality(DOMAIN blk.cases) + 1, keys)

(* shuffle.go: data = append(data, fullData[a ^ int(idxKey[ki])] op' fullData[b ^ int(idxKey[ki])], ...) *)
RunShuffle(blk, keys) ==
  LET full == RunExt(blk.full, keys)
      ik == RunExt(blk.idxkey, keys)
      ia(g) == g.a ^^ At(ik, g.ki)
      ib(g) == g.b ^^ At(ik, g.ki)
  IN IF \E j \in 1..Len(blk.args) : ia(blk.args[j]) >= Len(full) \/ ib(blk.args[j]) >= Len(full) THEN Stuck
     ELSE [j \in 1..Len(blk.args) |-> EvalOp(blk.args[j].op, At(full, ia(blk.args[j])), At(full, ib(blk.args[j])))]

(* seed.go: seed := byte(<lit>); fnc = func(x byte) decFunc { data = append(data, x op' seed); seed += x; return fnc }; fnc(a)(b)... *)
RECURSIVE SeedLoop(_, _, _, _, _, _)
SeedLoop(calls, j, sd, o, acc, keys) ==
  IF j > Len(calls) THEN acc
  ELSE LET x == EvalLit(calls[j], keys)
       IN SeedLoop(calls, j + 1, (sd + x) % M, o, Append(acc, EvalOp(o, x, sd)), keys)
RunSeed(blk, keys) == SeedLoop(blk.calls, 1, EvalLit(blk.seed0, keys), blk.op, <<>>, keys)

RunBlock(blk, keys) ==
  CASE blk.kind = "simple" -> RunSimple(blk, keys)
    [] blk.kind = "swap" -> RunSwap(blk, keys)
    [] blk.kind = "split" -> RunSplit(blk, keys)
    [] blk.kind = "shuffle" -> RunShuffle(blk, keys)
    [] blk.kind = "seed" -> RunSeed(blk, keys)

BlockRefs(blk) ==
  CASE blk.kind = "simple" -> ExtRefs(blk.key) \cup ExtRefs(blk.data)
    [] blk.kind = "swap" -> ExtRefs(blk.data) \cup LitRefs(blk.shift)
    [] blk.kind = "split" -> LitRefs(blk.key0) \cup UNION {IF blk.cases[c].kind = "chunk"
                                 THEN (IF blk.cases[c].val.kind = "ext" THEN ExtRefs(blk.cases[c].val.lam) ELSE LitRefs(blk.cases[c].val.e))
                                 ELSE {} : c \in DOMAIN blk.cases}
    [] blk.kind = "shuffle" -> ExtRefs(blk.full) \cup ExtRefs(blk.idxkey)
    [] blk.kind = "seed" -> LitRefs(blk.seed0) \cup UNION {LitRefs(blk.calls[j]) : j \in 1..Len(blk.calls)}

(* The wrappers of literals.go.  lam = [params (named or "_"), args, block, ret]  *)
(* The lambda is called with args; the block may only mention named parameters.  *)
RunLambda(lam) ==
  IF ~(BlockRefs(lam.block) \subseteq {k \in 1..Len(lam.params) : lam.params[k].named}) THEN Stuck  \* use of "_"
  ELSE LET d == RunBlock(lam.block, lam.args)
       IN CASE lam.ret.kind = "slice" -> d                                         \* return data / return &data
            [] lam.ret.kind = "array" ->                                           \* var newdata [L]byte; for i := range data { newdata[i] = data[i] }
                 IF Len(d) > lam.ret.len THEN Stuck ELSE [i \in 1..lam.ret.len |-> IF i <= Len(d) THEN d[i] ELSE 0]
            [] lam.ret.kind = "string" ->                                          \* return string(x[lo:hi])
                 IF lam.ret.lo > lam.ret.hi \/ lam.ret.hi > Len(d) THEN Stuck
                 ELSE [i \in 1..(lam.ret.hi - lam.ret.lo) |-> d[lam.ret.lo + i]]

ObfNames == <<"simple", "swap", "split", "shuffle", "seed">>       \* obfuscators.go Obfuscators
CheapNames == <<"simple", "swap">>                                  \* obfuscators.go CheapObfuscators
ObfChoices(size) == IF size <= MaxExpensive THEN ObfNames ELSE CheapNames   \* literals.go pickObfuscator

WrapperLayers == {"string", "bytes", "array"}
ObfLayers == {"simple", "swap", "split", "shuffle", "seed"}
OpCountsFor(l) == IF l = "extkeys" THEN LemmaOpCounts ELSE NestedOpCounts
TryFor(l) == IF l = "bytelit" THEN LemmaTry ELSE NestedTry

(***************************************************************************)
(* Part A.  The rewrite / skip decision of literals.Obfuscate.             *)
(*                                                                         *)
(* pre  (literals.go:44-73)  prunes whole subtrees: a FuncDecl whose doc   *)
(*      has //go:nosplit, a GenDecl with Tok == CONST, a ValueSpec that    *)
(*      declares a variable targeted by -ldflags=-X.                       *)
(* post (literals.go:75-135) rewrites an expression iff                    *)
(*      - its recorded type is exactly the predeclared `string`, it has a  *)
(*        constant value, and MinSize <= len(value) <= MaxSize;  or        *)
(*      - it is a composite literal (possibly under &) whose type          *)
(*        EXPRESSION denotes []byte or [N]byte (element type identical,    *)
(*        in the sense of types.Identical, to byte: so also when spelled   *)
(*        uint8 - fix of finding FL3; before that fix the test was pointer *)
(*        identity with the universe object `byte`), N > 0 for arrays,     *)
(*        every element a constant integer, MinSize <= len(Elts) <= Max.   *)
(*   and it does not sit inside a constant expression whose type is not    *)
(*   `string` (len("...") or len([N]byte{...}) in an array length): pre()  *)
(*   prunes those subtrees - fix of findings FL1/FL2.                      *)
(***************************************************************************)
MinSize == 8
MaxSize == 2048
SizeClasses == {0, 1, 7, 8, 9, 255, 256, 257, 2048, 2049}

StringForms == {"string", "typed_string", "concat"}
ByteForms == {"byte_slice", "byte_array", "ptr_byte_slice", "ptr_byte_array", "uint8_slice"}
Forms == StringForms \cup ByteForms
ArrayForms == {"byte_array", "ptr_byte_array"}
PtrForms == {"ptr_byte_slice", "ptr_byte_array"}

(* prune:  which pre() rule cuts the subtree.                                       *)
(* target: the type go/types records for a string-like expression in this position *)
(*         when it is written with the predeclared type ("string"), or "untyped"    *)
(*         when the expression stays an untyped constant (operand of a constant    *)
(*         len()).  Form typed_string always records the named type.               *)
(* elided: the composite literal is written without its type ({...} inside an      *)
(*         outer literal), so info.TypeOf(node.Type) is nil.  Since the repair of  *)
(*         FL4 the code takes the type of the literal itself then (and reads an    *)
(*         elided literal with a pointer element type as &T{...}); the old         *)
(*         behaviour is the what-if ElidedTypeFromLiteral = FALSE.                 *)
(* constreq: Go requires the enclosing expression to be constant.                  *)
(* forms:  the forms for which the position is valid Go.                           *)
C(prune, target, elided, constreq, forms) == [prune |-> prune, target |-> target, elided |-> elided, constreq |-> constreq, forms |-> forms]
AllForms == Forms
Ctx == [
  var_init         |-> C("none", "string", FALSE, FALSE, AllForms),
  local_define     |-> C("none", "string", FALSE, FALSE, AllForms),
  arg              |-> C("none", "string", FALSE, FALSE, AllForms),
  return           |-> C("none", "string", FALSE, FALSE, AllForms),
  composite_elem   |-> C("none", "string", FALSE, FALSE, AllForms),
  composite_elided |-> C("none", "string", TRUE,  FALSE, ByteForms),
  map_key          |-> C("none", "string", FALSE, FALSE, StringForms \cup {"byte_array"}),
  map_value        |-> C("none", "string", FALSE, FALSE, AllForms),
  struct_field     |-> C("none", "string", FALSE, FALSE, AllForms),
  struct_field_pos |-> C("none", "string", FALSE, FALSE, AllForms),
  closure          |-> C("none", "string", FALSE, FALSE, AllForms),
  generic_body     |-> C("none", "string", FALSE, FALSE, AllForms),
  generic_arg      |-> C("none", "string", FALSE, FALSE, AllForms),
  init_func        |-> C("none", "string", FALSE, FALSE, AllForms),
  iface            |-> C("none", "string", FALSE, FALSE, AllForms),
  binop            |-> C("none", "string", FALSE, FALSE, StringForms),
  case_label       |-> C("none", "string", FALSE, FALSE, StringForms \cup {"byte_array"}),
  const_untyped    |-> C("none", "string", FALSE, FALSE, StringForms),   \* const k = lit; the USE of k in a string position
  const_typed      |-> C("none", "string", FALSE, FALSE, StringForms),   \* const k T = lit; the USE of k
  conv_named_const |-> C("none", "string", FALSE, FALSE, {"string", "concat"}),   \* type E string; const k E = lit; the USE string(k):
                                                                           \* a *ast.CallExpr (conversion) with a constant value of type string
  array_len_lit    |-> C("none", "untyped", FALSE, TRUE, StringForms \cup ArrayForms),    \* [len(lit)]byte
  array_len_uconst |-> C("none", "untyped", FALSE, TRUE, StringForms),   \* const k = lit; [len(k)]byte
  array_len_tconst |-> C("none", "string", FALSE, TRUE, StringForms),    \* const k T = lit; [len(k)]byte
  xvar_decl        |-> C("xvar", "string", FALSE, FALSE, {"string", "concat"}),
  nosplit_func     |-> C("nosplit", "string", FALSE, FALSE, AllForms)
]
Contexts == DOMAIN Ctx

Applicable(c, f, size) ==
  /\ f \in Ctx[c].forms
  /\ (c = "nosplit_func" /\ f \in ArrayForms => size <= 257)   \* a bigger frame overflows the nosplit stack in the regular build too
  /\ (f \in ArrayForms /\ Ctx[c].constreq => size > 0)

RecordedType(c, f) == IF f = "typed_string" THEN "named" ELSE Ctx[c].target
ElidedTypeFromLiteral == TRUE      \* what-if (cfg: ElidedTypeFromLiteral <- OldElided): the behaviour before the repair of FL4
OldElided == FALSE
TypeExprKind(c, f) == IF Ctx[c].elided /\ ~ElidedTypeFromLiteral THEN "nil" ELSE IF f = "uint8_slice" THEN "uint8" ELSE "byte"

Rewritten(c, f, size) ==
  /\ Ctx[c].prune = "none"
  /\ ~Ctx[c].constreq                    \* operand of a non-string constant expression: subtree pruned
  /\ size >= MinSize /\ size <= MaxSize
  /\ IF f \in StringForms THEN RecordedType(c, f) = "string"
     ELSE /\ TypeExprKind(c, f) \in {"byte", "uint8"}
          /\ (f \in ArrayForms => size > 0)

(* What property C09 demands, independently of how the code decides. *)
MustHide(c, f, size) ==
  /\ size >= MinSize /\ size <= MaxSize
  /\ Ctx[c].prune \notin {"nosplit", "xvar"}
  /\ (f \in StringForms => RecordedType(c, f) = "string")   \* a named or untyped constant type may remain
  /\ ~Ctx[c].constreq                                       \* the operand of a constant len() never reaches the binary
(* What property C05 demands: these positions must stay compile-time constants. *)
MustStayConst(c, f, size) == Ctx[c].constreq

Lead(c, f, size) ==
  IF MustHide(c, f, size) /\ ~Rewritten(c, f, size) THEN "hide-gap"
  ELSE IF MustStayConst(c, f, size) /\ Rewritten(c, f, size) THEN "const-break"
  ELSE "none"

Cells == {cell \in Contexts \X Forms \X SizeClasses : Applicable(cell[1], cell[2], cell[3])}
LeadCells == {<<cell[1], cell[2]>> : cell \in {x \in Cells : Lead(x[1], x[2], x[3]) # "none"}}

(* The leads the transcription predicts on the unchanged tree (each is replayed on   *)
(* the real tool by the checks; a reproduced lead is a finding, see known_findings). *)
ExpectedLeads ==
  IF ElidedTypeFromLiteral THEN {} ELSE {<<"composite_elided", f>> : f \in ByteForms}
NoHideGap == LeadCells = {}          \* invariant of the what-if config, which TLC must find violated
ASSUME LeadCells = ExpectedLeads

(* Every position that must stay constant and is not a lead is kept, every cell    *)
(* that must be hidden and is not a lead is rewritten (sanity of the definitions). *)
ASSUME \A cell \in Cells : Lead(cell[1], cell[2], cell[3]) = "none" =>
          /\ (MustHide(cell[1], cell[2], cell[3]) => Rewritten(cell[1], cell[2], cell[3]))
          /\ (MustStayConst(cell[1], cell[2], cell[3]) => ~Rewritten(cell[1], cell[2], cell[3]))

Seq2(s) == <<s[1], s[2]>>
ObfsFor(size) == IF size <= 256 THEN ObfNames ELSE CheapNames      \* with the code's MaxSizeExpensive
SetToSortedRows == 
  LET RowOf(cell) == [ctx |-> cell[1], form |-> cell[2], size |-> cell[3],
                      rewritten |-> Rewritten(cell[1], cell[2], cell[3]),
                      musthide |-> MustHide(cell[1], cell[2], cell[3]),
                      constreq |-> MustStayConst(cell[1], cell[2], cell[3]),
                      prune |-> Ctx[cell[1]].prune,
                      lead |-> Lead(cell[1], cell[2], cell[3]),
                      obfs |-> IF Rewritten(cell[1], cell[2], cell[3]) THEN ObfsFor(cell[3]) ELSE <<>>]
  IN {RowOf(cell) : cell \in Cells}
RECURSIVE SetAsSeq(_)
SetAsSeq(S) == IF S = {} THEN <<>> ELSE LET x == CHOOSE y \in S : TRUE IN <<x>> \o SetAsSeq(S \ {x})
DecisionTable == [minsize |-> MinSize, maxsize |-> MaxSize, sizes |-> SetAsSeq(SizeClasses),
                  contexts |-> SetAsSeq(Contexts), forms |-> SetAsSeq(Forms), rows |-> SetAsSeq(SetToSortedRows)]
ASSUME JsonSerialize("literals_table.json", DecisionTable)

(***************************************************************************)
(* Part B.  Obfuscation time, one `with` per math/rand draw.               *)
(* Log entries are <<choice point, value>>; the choice point is named as   *)
(* the harness driver names it: innermost literals function [ "<" caller ] *)
(* "/" math/rand method.  Values: Intn/Perm results, the low byte of a     *)
(* Uint32, the bytes of a Read (one entry per byte), 1/0 for a Try that    *)
(* succeeds/fails, <<j, n>> for a Shuffle step int31n(n) = j, the little-  *)
(* endian digits kept of a Uint64.                                         *)
(***************************************************************************)
(* Values the configs substitute for constants that a .cfg file cannot spell. *)
KeyEnvSmall == { << [w |-> 1, v |-> <<1>>], [w |-> 2, v |-> <<2, 3>>] >> }     \* two keys: uint8 = 1, "uint16" = digits 2,3
KeyEnvOne == { << [w |-> 1, v |-> <<3>>] >> }
NoKeyEnv == { <<>> }
Bool == {TRUE, FALSE}
OnlyFalse == {FALSE}
AllObfs == {"simple", "swap", "split", "shuffle", "seed"}
EdgeBytes == {0, 1, 2, 127, 128, 129, 254, 255}    \* byte values the replay simulation draws from
RealOpCounts == 2..11        \* minByteSliceExtKeyOps + Intn(maxByteSliceExtKeyOps - minByteSliceExtKeyOps)
RealJunkLens == 2..7         \* Intn(maxStringJunkBytes - minStringJunkBytes) + minStringJunkBytes
RealKeyCounts == 2..5        \* minExtKeyCount + Intn(maxExtKeyCount - minExtKeyCount)
Even(x) == IF x % 2 # 0 THEN x + 1 ELSE x
WidthIdx(w) == CASE w = 1 -> 0 [] w = 2 -> 1 [] w = 4 -> 2 [] w = 8 -> 3      \* index into extKeyRanges
(* one iteration of math/rand Perm: m[i] = m[j]; m[j] = i  with i = len(m) *)
PermStep(m, j) == LET i == Len(m) IN Upd(Append(m, IF j = i THEN 0 ELSE At(m, j)), j, i)
(* split.go: for i, index := range indexes[:len(indexes)-1] { decryptKey ^= byte(index * i) } *)
RECURSIVE FoldKey(_, _, _)
FoldKey(perm, i, acc) == IF i > Len(perm) - 2 THEN acc ELSE FoldKey(perm, i + 1, acc ^^ ((At(perm, i) * i) % M))
B2N(b) == IF b THEN 1 ELSE 0

(* --algorithm Literals {
variables
  layer \in Layers,
  n \in Lens,
  pad \in (IF layer = "array" THEN ArrayPad ELSE {0}),
  orig \in [1..n -> DataBytes],
  keys \in (IF layer \in WrapperLayers THEN {<<>>} ELSE KeyEnvs),
  used = {},          \* keys on which AddRef was called
  log = <<>>,         \* history: the draws in the order the code makes them
  xk = <<>>,          \* result of dataToByteSliceWithExtKeys: the emitted lambda
  bl = <<>>,          \* result of byteLitWithExtKey: the emitted expression
  blk = <<>>,         \* result of obfuscator.obfuscate: the emitted block
  wobf = "",          \* wrappers: the obfuscator picked
  junk = <<>>, junklen = 0, split = 0, params = <<>>,
  res = <<>>, expect = <<>>;

(* obfuscators.go:210 dataToByteSliceWithExtKeys *)
procedure ExtKeys(xd)
  variables x_cnt = 0, x_stmts = <<>>, x_cur = <<>>;
{
 xk1: x_cur := xd;
      with (c \in OpCountsFor(layer)) {
        x_cnt := c;
        log := Append(log, <<"dataToByteSliceWithExtKeys/Intn", c - 2>>);
      };
 xk2: while (Len(x_stmts) < x_cnt) {
        with (k \in 1..Len(keys), i \in 0..(Len(x_cur) - 1), o \in Ops, b \in 0..(keys[k].w - 1)) {
          used := used \cup {k};
          x_cur := Upd(x_cur, i, EvalOp(o, At(x_cur, i), KeyByte(keys, k, b)));
          x_stmts := Append(x_stmts, [idx |-> i, op |-> RevOp(o), key |-> k, shift |-> b]);
          log := log \o << <<"dataToByteSliceWithExtKeys/Intn", k - 1>>, <<"dataToByteSliceWithExtKeys/Intn", i>>,
                          <<"randOperator<dataToByteSliceWithExtKeys/Intn", OpIdx(o)>>, <<"dataToByteSliceWithExtKeys/Intn", b>> >>;
        }
      };
      \* slices.Reverse(stmts); data := []byte("<scrambled>"); stmts...; return data
 xk3: xk := [init |-> x_cur, stmts |-> Rev(x_stmts)];
      return;
}

(* obfuscators.go:240 byteLitWithExtKey *)
procedure ByteLit(bval)
{
 bl1: with (t \in TryFor(layer)) {
        if (~t) {
          bl := [kind |-> "lit", v |-> bval];
          log := Append(log, <<"Try<byteLitWithExtKey/Float32", 0>>);
        } else {
          with (k \in 1..Len(keys), o \in Ops, b \in 0..(keys[k].w - 1)) {
            used := used \cup {k};
            bl := [kind |-> "op", op |-> RevOp(o), v |-> EvalOp(o, bval, KeyByte(keys, k, b)), key |-> k, shift |-> b];
            log := log \o << <<"Try<byteLitWithExtKey/Float32", 1>>, <<"byteLitWithExtKey/Intn", k - 1>>,
                            <<"randOperator<byteLitWithExtKey/Intn", OpIdx(o)>>, <<"byteLitWithExtKey/Intn", b>> >>;
          }
        }
      };
      return;
}

(* simple.go *)
procedure Simple(sd)
  variables s_key = <<>>, s_op = "XOR", s_enc = <<>>, s_emkey = <<>>;
{
 si1: while (Len(s_key) < Len(sd)) {
        with (b \in KeyBytes) { s_key := Append(s_key, b); log := Append(log, <<"simple.obfuscate/Read", b>>); }
      };
 si2: with (o \in Ops) {
        s_op := o;
        s_enc := [i \in 1..Len(sd) |-> EvalOp(o, sd[i], s_key[i])];
        log := Append(log, <<"randOperator<simple.obfuscate/Intn", OpIdx(o)>>);
      };
 si3: call ExtKeys(s_key);
 si4: s_emkey := xk;
      call ExtKeys(s_enc);
 si5: blk := [kind |-> "simple", key |-> s_emkey, data |-> xk, op |-> RevOp(s_op)];
      return;
}

(* swap.go *)
procedure Swap(wd)
  variables w_cnt = 0, w_shift = 0, w_op = "XOR", w_pos = <<>>, w_emdata = <<>>;
{
 sw1: if (Len(wd) \div 2 > 1) {         \* generateSwapCount
        with (e \in 0..((Len(wd) \div 2) - 1)) {
          w_cnt := Even(Len(wd) + e);
          log := Append(log, <<"generateSwapCount/Intn", e>>);
        }
      } else {
        w_cnt := Even(Len(wd));
      };
 sw2: with (s \in KeyBytes, o \in Ops) {
        w_shift := s;
        w_op := o;
        log := log \o << <<"swap.obfuscate/Uint32", s>>, <<"randOperator<swap.obfuscate/Intn", OpIdx(o)>> >>;
      };
 sw3: while (Len(w_pos) < w_cnt) {
        with (p \in 0..(Len(wd) - 1)) { w_pos := Append(w_pos, p); log := Append(log, <<"genRandIntSlice/Intn", p>>); }
      };
 sw4: call ExtKeys(SwapEncode(wd, w_pos, w_op, w_shift, Len(w_pos) - 2));
 sw5: w_emdata := xk;
      call ByteLit(w_shift);
 sw6: blk := [kind |-> "swap", data |-> w_emdata, positions |-> w_pos, idxmax |-> IndexTypeMax(Len(w_pos)),
              op |-> RevOp(w_op), shift |-> bl];
      return;
}

(* split.go *)
procedure Split(pd)
  variables p_sizes = <<>>, p_rest = 0, p_perm = <<>>, p_key0 = 0, p_key = 0, p_op = "XOR", p_enc = <<>>,
            p_cases = <<>>, p_i = 0, p_off = 0, p_val = <<>>;
{
 sp1: if (Len(pd) \div MaxChunk < MinCase) {
        p_sizes := [i \in 1..Len(pd) |-> 1];            \* splitIntoOneByteChunks
      } else if (Len(pd) = 1) {
        p_sizes := <<1>>;
      } else {
        p_rest := Len(pd);
 sp1a:  while (p_rest > 0) {                             \* splitIntoRandomChunks
          with (c \in 1..MaxChunk) {
            p_sizes := Append(p_sizes, Min2(c, p_rest));
            p_rest := p_rest - Min2(c, p_rest);
            log := Append(log, <<"splitIntoRandomChunks/Intn", c - 1>>);
          }
        }
      };
 sp2: while (Len(p_perm) < Len(p_sizes) + 2) {           \* indexes := rand.Perm(len(chunks) + 2)
        with (j \in 0..Len(p_perm)) { p_perm := PermStep(p_perm, j); log := Append(log, <<"split.obfuscate/Perm", j>>); }
      };
 sp3: with (kb \in KeyBytes, o \in Ops) {
        p_key0 := kb;
        p_key := FoldKey(p_perm, 0, kb);
        p_op := o;
        \* encryptChunks: chunk[i] = op(b, key ^ byte(byteOffset))
        p_enc := [y \in 1..Len(pd) |-> EvalOp(o, pd[y], (FoldKey(p_perm, 0, kb) ^^ ((y - 1) % M)) % M)];
        log := log \o << <<"split.obfuscate/Uint32", kb>>, <<"randOperator<split.obfuscate/Intn", OpIdx(o)>> >>;
      };
 sp4: with (so \in ShuffleOrders) {                      \* the decrypt case, its two statements shuffled
        p_cases := (At(p_perm, Len(p_sizes)) :> [kind |-> "decrypt", next |-> At(p_perm, Len(p_sizes) + 1), op |-> RevOp(p_op), swapped |-> so]);
        log := Append(log, <<"shuffleStmts/Shuffle", <<1 - B2N(so), 2>> >>);
      };
 sp5: while (p_i < Len(p_sizes)) {
        if (p_sizes[p_i + 1] # 1) {
          call ExtKeys(SubSeq(p_enc, p_off + 1, p_off + p_sizes[p_i + 1]));
 sp5a:    p_val := [kind |-> "ext", lam |-> xk];
        } else {
          call ByteLit(p_enc[p_off + 1]);
 sp5b:    p_val := [kind |-> "lit", e |-> bl];
        };
 sp6:   with (so \in ShuffleOrders) {
          p_cases := p_cases @@ (At(p_perm, p_i) :> [kind |-> "chunk", next |-> At(p_perm, p_i + 1), val |-> p_val, swapped |-> so]);
          p_off := p_off + p_sizes[p_i + 1];
          p_i := p_i + 1;
          log := Append(log, <<"shuffleStmts/Shuffle", <<1 - B2N(so), 2>> >>);
        }
      };
 sp7: call ByteLit(p_key0);
 sp8: p_i := Len(p_sizes);                                \* shuffleStmts(switchCases...): len(chunks)+1 cases
 sp8a: while (p_i > 0) {
        with (j \in 0..p_i) { log := Append(log, <<"shuffleStmts/Shuffle", <<j, p_i + 1>> >>); p_i := p_i - 1; }
      };
 sp9: blk := [kind |-> "split", start |-> At(p_perm, 0), exit |-> At(p_perm, Len(p_sizes) + 1), key0 |-> bl, cases |-> p_cases];
      return;
}

(* shuffle.go *)
procedure Shuf(hd)
  variables h_key = <<>>, h_iks = 0, h_ik = <<>>, h_ops = <<>>, h_cnt = 0, h_perm = <<>>, h_args = <<>>,
            h_full = <<>>, h_emfull = <<>>;
{
 sh1: while (Len(h_key) < Len(hd)) {
        with (b \in KeyBytes) { h_key := Append(h_key, b); log := Append(log, <<"shuffle.obfuscate/Read", b>>); }
      };
 sh2: with (t \in 0..(Len(hd) - 1)) {
        h_iks := Min2(MaxIdxKey, IF t > MinIdxKey THEN t ELSE MinIdxKey);
        log := Append(log, <<"shuffle.obfuscate/Intn", t>>);
      };
 sh3: while (Len(h_ik) < h_iks) {
        with (b \in KeyBytes) { h_ik := Append(h_ik, b); log := Append(log, <<"shuffle.obfuscate/Read", b>>); }
      };
 sh4: while (h_cnt < 2 * Len(hd)) {                       \* operators for len(fullData); only the first len(data) are used
        with (o \in (IF h_cnt < Len(hd) THEN Ops ELSE UnusedOps)) {
          h_ops := IF h_cnt < Len(hd) THEN Append(h_ops, o) ELSE h_ops;
          h_cnt := h_cnt + 1;
          log := Append(log, <<"randOperator<shuffle.obfuscate/Intn", OpIdx(o)>>);
        }
      };
 sh5: h_full := [i \in 1..(2 * Len(hd)) |-> IF i <= Len(hd) THEN EvalOp(h_ops[i], hd[i], h_key[i]) ELSE h_key[i - Len(hd)]];
 sh5a: while (Len(h_perm) < 2 * Len(hd)) {                \* shuffledIdxs := rand.Perm(len(fullData))
        with (j \in 0..Len(h_perm)) { h_perm := PermStep(h_perm, j); log := Append(log, <<"shuffle.obfuscate/Perm", j>>); }
      };
 sh6: while (Len(h_args) < Len(hd)) {
        with (ki \in 0..(h_iks - 1)) {
          h_args := Append(h_args, [op |-> RevOp(h_ops[Len(h_args) + 1]),
                                    a |-> At(h_perm, Len(h_args)) ^^ At(h_ik, ki),
                                    b |-> At(h_perm, Len(hd) + Len(h_args)) ^^ At(h_ik, ki),
                                    ki |-> ki]);
          log := Append(log, <<"shuffle.obfuscate/Intn", ki>>);
        }
      };
      \* shuffledFullData[shuffledIdxs[i]] = fullData[i]
 sh7: call ExtKeys([p \in 1..Len(h_full) |-> h_full[CHOOSE i \in 1..Len(h_full) : h_perm[i] = p - 1]]);
 sh8: h_emfull := xk;
      call ExtKeys(h_ik);
 sh9: blk := [kind |-> "shuffle", full |-> h_emfull, idxkey |-> xk, args |-> h_args];
      return;
}

(* seed.go *)
procedure SeedP(ed)
  variables e_seed0 = 0, e_seed = 0, e_op = "XOR", e_calls = <<>>, e_i = 0;
{
 se1: with (s \in KeyBytes, o \in Ops) {
        e_seed0 := s;
        e_seed := s;
        e_op := o;
        log := log \o << <<"seed.obfuscate/Uint32", s>>, <<"randOperator<seed.obfuscate/Intn", OpIdx(o)>> >>;
      };
 se2: while (e_i < Len(ed)) {
        call ByteLit(EvalOp(e_op, ed[e_i + 1], e_seed));            \* encB
 se3:   e_seed := (e_seed + EvalOp(e_op, ed[e_i + 1], e_seed)) % M;   \* seed += encB
        e_calls := Append(e_calls, bl);
        e_i := e_i + 1;
      };
 se4: call ByteLit(e_seed0);
 se5: blk := [kind |-> "seed", seed0 |-> bl, calls |-> e_calls, op |-> RevOp(e_op)];
      return;
}

procedure Obf(oname, od)
{
 ob1: if (oname = "simple") { call Simple(od); return; }
      else if (oname = "swap") { call Swap(od); return; }
      else if (oname = "split") { call Split(od); return; }
      else if (oname = "shuffle") { call Shuf(od); return; }
      else { call SeedP(od); return; }
}

(* obfuscators.go:160 randExtKeys / randExtKey *)
procedure RandExtKeys()
  variables r_cnt = 0, r_w = 0, r_digits = <<>>;
{
 rk1: with (c \in KeyCounts) { r_cnt := c; log := Append(log, <<"randExtKeys/Intn", c - 2>>); };
 rk2: while (Len(keys) < r_cnt) {
        with (w \in KeyWidths) { r_w := w; r_digits := <<>>; log := Append(log, <<"randExtKey/Intn", WidthIdx(w)>>); };
 rk3:   while (Len(r_digits) < r_w) {                      \* rand.Uint64() & r.max: only the low r_w bytes are kept
          with (dg \in DigitBytes) { r_digits := Append(r_digits, dg); }
        };
 rk4:   keys := Append(keys, [w |-> r_w, v |-> r_digits]);
        log := Append(log, <<"randExtKey/Uint64", r_digits>>);
      };
 rk5: return;
}

{
 m0: if (layer = "extkeys") {
       call ExtKeys(orig);
 m1:   res := RunExt(xk, keys);
       expect := orig;
     } else if (layer = "bytelit") {
       call ByteLit(orig[1]);
 m2:   res := <<EvalLit(bl, keys)>>;
       expect := <<orig[1]>>;
     } else if (layer \in ObfLayers) {
       call Obf(layer, orig);
 m3:   res := IF BlockRefs(blk) \subseteq used THEN RunBlock(blk, keys) ELSE Stuck;
       expect := orig;
     } else {
       \* literals.go obfuscateString / obfuscateByteSlice / obfuscateByteArray
 w0:   with (p \in {q \in 1..Len(ObfChoices(n)) : ObfChoices(n)[q] \in WrapperObfs}) {
         wobf := ObfChoices(n)[p];
         log := Append(log, <<"pickObfuscator/Intn", p - 1>>);
       };
 w1:   if (layer = "string") {
         with (jl \in JunkLens) { junklen := jl; log := Append(log, <<"obfuscateString/Intn", jl - 2>>); };
 w2:     while (Len(junk) < junklen) {
           with (b \in JunkBytes) { junk := Append(junk, b); log := Append(log, <<"obfuscateString/Read", b>>); }
         };
 w3:     with (sp \in 0..(junklen - 1)) { split := sp; log := Append(log, <<"obfuscateString/Intn", sp>>); };
       };
 w4:   call RandExtKeys();
       \* plainDataWithJunkBytes := junk[:splitIdx] ++ plainData ++ junk[splitIdx:]
 w5:   call Obf(wobf, IF layer = "string" THEN SubSeq(junk, 1, split) \o orig \o SubSeq(junk, split + 1, junklen) ELSE orig);
       \* extKeysToParams: unused keys are named "_"; the value is passed directly or through the proxy struct
 w6:   while (Len(params) < Len(keys)) {
         with (t \in NestedTry) {
           params := Append(params, [named |-> (Len(params) + 1) \in used, hidden |-> t]);
           log := Append(log, <<"Try<extKeysToParams/Float32", B2N(t)>>);
         }
       };
 w7:   res := RunLambda([params |-> params, args |-> keys, block |-> blk,
                         ret |-> CASE layer = "string" -> [kind |-> "string", lo |-> split, hi |-> split + n]
                                   [] layer = "bytes" -> [kind |-> "slice"]
                                   [] layer = "array" -> [kind |-> "array", len |-> n + pad]]);
       expect := IF layer = "array" THEN [i \in 1..(n + pad) |-> IF i <= n THEN orig[i] ELSE 0] ELSE orig;
     }
}
} *)
\* BEGIN TRANSLATION
CONSTANT defaultInitValue
VARIABLES pc, layer, n, pad, orig, keys, used, log, xk, bl, blk, wobf, junk, 
          junklen, split, params, res, expect, stack, xd, x_cnt, x_stmts, 
          x_cur, bval, sd, s_key, s_op, s_enc, s_emkey, wd, w_cnt, w_shift, 
          w_op, w_pos, w_emdata, pd, p_sizes, p_rest, p_perm, p_key0, p_key, 
          p_op, p_enc, p_cases, p_i, p_off, p_val, hd, h_key, h_iks, h_ik, 
          h_ops, h_cnt, h_perm, h_args, h_full, h_emfull, ed, e_seed0, e_seed, 
          e_op, e_calls, e_i, oname, od, r_cnt, r_w, r_digits

vars == << pc, layer, n, pad, orig, keys, used, log, xk, bl, blk, wobf, junk, 
           junklen, split, params, res, expect, stack, xd, x_cnt, x_stmts, 
           x_cur, bval, sd, s_key, s_op, s_enc, s_emkey, wd, w_cnt, w_shift, 
           w_op, w_pos, w_emdata, pd, p_sizes, p_rest, p_perm, p_key0, p_key, 
           p_op, p_enc, p_cases, p_i, p_off, p_val, hd, h_key, h_iks, h_ik, 
           h_ops, h_cnt, h_perm, h_args, h_full, h_emfull, ed, e_seed0, 
           e_seed, e_op, e_calls, e_i, oname, od, r_cnt, r_w, r_digits >>

Init == (* Global variables *)
        /\ layer \in Layers
        /\ n \in Lens
        /\ pad \in (IF layer = "array" THEN ArrayPad ELSE {0})
        /\ orig \in [1..n -> DataBytes]
        /\ keys \in (IF layer \in WrapperLayers THEN {<<>>} ELSE KeyEnvs)
        /\ used = {}
        /\ log = <<>>
        /\ xk = <<>>
        /\ bl = <<>>
        /\ blk = <<>>
        /\ wobf = ""
        /\ junk = <<>>
        /\ junklen = 0
        /\ split = 0
        /\ params = <<>>
        /\ res = <<>>
        /\ expect = <<>>
        (* Procedure ExtKeys *)
        /\ xd = defaultInitValue
        /\ x_cnt = 0
        /\ x_stmts = <<>>
        /\ x_cur = <<>>
        (* Procedure ByteLit *)
        /\ bval = defaultInitValue
        (* Procedure Simple *)
        /\ sd = defaultInitValue
        /\ s_key = <<>>
        /\ s_op = "XOR"
        /\ s_enc = <<>>
        /\ s_emkey = <<>>
        (* Procedure Swap *)
        /\ wd = defaultInitValue
        /\ w_cnt = 0
        /\ w_shift = 0
        /\ w_op = "XOR"
        /\ w_pos = <<>>
        /\ w_emdata = <<>>
        (* Procedure Split *)
        /\ pd = defaultInitValue
        /\ p_sizes = <<>>
        /\ p_rest = 0
        /\ p_perm = <<>>
        /\ p_key0 = 0
        /\ p_key = 0
        /\ p_op = "XOR"
        /\ p_enc = <<>>
        /\ p_cases = <<>>
        /\ p_i = 0
        /\ p_off = 0
        /\ p_val = <<>>
        (* Procedure Shuf *)
        /\ hd = defaultInitValue
        /\ h_key = <<>>
        /\ h_iks = 0
        /\ h_ik = <<>>
        /\ h_ops = <<>>
        /\ h_cnt = 0
        /\ h_perm = <<>>
        /\ h_args = <<>>
        /\ h_full = <<>>
        /\ h_emfull = <<>>
        (* Procedure SeedP *)
        /\ ed = defaultInitValue
        /\ e_seed0 = 0
        /\ e_seed = 0
        /\ e_op = "XOR"
        /\ e_calls = <<>>
        /\ e_i = 0
        (* Procedure Obf *)
        /\ oname = defaultInitValue
        /\ od = defaultInitValue
        (* Procedure RandExtKeys *)
        /\ r_cnt = 0
        /\ r_w = 0
        /\ r_digits = <<>>
        /\ stack = << >>
        /\ pc = "m0"

xk1 == /\ pc = "xk1"
       /\ x_cur' = xd
       /\ \E c \in OpCountsFor(layer):
            /\ x_cnt' = c
            /\ log' = Append(log, <<"dataToByteSliceWithExtKeys/Intn", c - 2>>)
       /\ pc' = "xk2"
       /\ UNCHANGED << layer, n, pad, orig, keys, used, xk, bl, blk, wobf, 
                       junk, junklen, split, params, res, expect, stack, xd, 
                       x_stmts, bval, sd, s_key, s_op, s_enc, s_emkey, wd, 
                       w_cnt, w_shift, w_op, w_pos, w_emdata, pd, p_sizes, 
                       p_rest, p_perm, p_key0, p_key, p_op, p_enc, p_cases, 
                       p_i, p_off, p_val, hd, h_key, h_iks, h_ik, h_ops, h_cnt, 
                       h_perm, h_args, h_full, h_emfull, ed, e_seed0, e_seed, 
                       e_op, e_calls, e_i, oname, od, r_cnt, r_w, r_digits >>

xk2 == /\ pc = "xk2"
       /\ IF Len(x_stmts) < x_cnt
             THEN /\ \E k \in 1..Len(keys):
                       \E i \in 0..(Len(x_cur) - 1):
                         \E o \in Ops:
                           \E b \in 0..(keys[k].w - 1):
                             /\ used' = (used \cup {k})
                             /\ x_cur' = Upd(x_cur, i, EvalOp(o, At(x_cur, i), KeyByte(keys, k, b)))
                             /\ x_stmts' = Append(x_stmts, [idx |-> i, op |-> RevOp(o), key |-> k, shift |-> b])
                             /\ log' = log \o << <<"dataToByteSliceWithExtKeys/Intn", k - 1>>, <<"dataToByteSliceWithExtKeys/Intn", i>>,
                                                <<"randOperator<dataToByteSliceWithExtKeys/Intn", OpIdx(o)>>, <<"dataToByteSliceWithExtKeys/Intn", b>> >>
                  /\ pc' = "xk2"
             ELSE /\ pc' = "xk3"
                  /\ UNCHANGED << used, log, x_stmts, x_cur >>
       /\ UNCHANGED << layer, n, pad, orig, keys, xk, bl, blk, wobf, junk, 
                       junklen, split, params, res, expect, stack, xd, x_cnt, 
                       bval, sd, s_key, s_op, s_enc, s_emkey, wd, w_cnt, 
                       w_shift, w_op, w_pos, w_emdata, pd, p_sizes, p_rest, 
                       p_perm, p_key0, p_key, p_op, p_enc, p_cases, p_i, p_off, 
                       p_val, hd, h_key, h_iks, h_ik, h_ops, h_cnt, h_perm, 
                       h_args, h_full, h_emfull, ed, e_seed0, e_seed, e_op, 
                       e_calls, e_i, oname, od, r_cnt, r_w, r_digits >>

xk3 == /\ pc = "xk3"
       /\ xk' = [init |-> x_cur, stmts |-> Rev(x_stmts)]
       /\ pc' = Head(stack).pc
       /\ x_cnt' = Head(stack).x_cnt
       /\ x_stmts' = Head(stack).x_stmts
       /\ x_cur' = Head(stack).x_cur
       /\ xd' = Head(stack).xd
       /\ stack' = Tail(stack)
       /\ UNCHANGED << layer, n, pad, orig, keys, used, log, bl, blk, wobf, 
                       junk, junklen, split, params, res, expect, bval, sd, 
                       s_key, s_op, s_enc, s_emkey, wd, w_cnt, w_shift, w_op, 
                       w_pos, w_emdata, pd, p_sizes, p_rest, p_perm, p_key0, 
                       p_key, p_op, p_enc, p_cases, p_i, p_off, p_val, hd, 
                       h_key, h_iks, h_ik, h_ops, h_cnt, h_perm, h_args, 
                       h_full, h_emfull, ed, e_seed0, e_seed, e_op, e_calls, 
                       e_i, oname, od, r_cnt, r_w, r_digits >>

ExtKeys == xk1 \/ xk2 \/ xk3

bl1 == /\ pc = "bl1"
       /\ \E t \in TryFor(layer):
            IF ~t
               THEN /\ bl' = [kind |-> "lit", v |-> bval]
                    /\ log' = Append(log, <<"Try<byteLitWithExtKey/Float32", 0>>)
                    /\ used' = used
               ELSE /\ \E k \in 1..Len(keys):
                         \E o \in Ops:
                           \E b \in 0..(keys[k].w - 1):
                             /\ used' = (used \cup {k})
                             /\ bl' = [kind |-> "op", op |-> RevOp(o), v |-> EvalOp(o, bval, KeyByte(keys, k, b)), key |-> k, shift |-> b]
                             /\ log' = log \o << <<"Try<byteLitWithExtKey/Float32", 1>>, <<"byteLitWithExtKey/Intn", k - 1>>,
                                                <<"randOperator<byteLitWithExtKey/Intn", OpIdx(o)>>, <<"byteLitWithExtKey/Intn", b>> >>
       /\ pc' = Head(stack).pc
       /\ bval' = Head(stack).bval
       /\ stack' = Tail(stack)
       /\ UNCHANGED << layer, n, pad, orig, keys, xk, blk, wobf, junk, junklen, 
                       split, params, res, expect, xd, x_cnt, x_stmts, x_cur, 
                       sd, s_key, s_op, s_enc, s_emkey, wd, w_cnt, w_shift, 
                       w_op, w_pos, w_emdata, pd, p_sizes, p_rest, p_perm, 
                       p_key0, p_key, p_op, p_enc, p_cases, p_i, p_off, p_val, 
                       hd, h_key, h_iks, h_ik, h_ops, h_cnt, h_perm, h_args, 
                       h_full, h_emfull, ed, e_seed0, e_seed, e_op, e_calls, 
                       e_i, oname, od, r_cnt, r_w, r_digits >>

ByteLit == bl1

si1 == /\ pc = "si1"
       /\ IF Len(s_key) < Len(sd)
             THEN /\ \E b \in KeyBytes:
                       /\ s_key' = Append(s_key, b)
                       /\ log' = Append(log, <<"simple.obfuscate/Read", b>>)
                  /\ pc' = "si1"
             ELSE /\ pc' = "si2"
                  /\ UNCHANGED << log, s_key >>
       /\ UNCHANGED << layer, n, pad, orig, keys, used, xk, bl, blk, wobf, 
                       junk, junklen, split, params, res, expect, stack, xd, 
                       x_cnt, x_stmts, x_cur, bval, sd, s_op, s_enc, s_emkey, 
                       wd, w_cnt, w_shift, w_op, w_pos, w_emdata, pd, p_sizes, 
                       p_rest, p_perm, p_key0, p_key, p_op, p_enc, p_cases, 
                       p_i, p_off, p_val, hd, h_key, h_iks, h_ik, h_ops, h_cnt, 
                       h_perm, h_args, h_full, h_emfull, ed, e_seed0, e_seed, 
                       e_op, e_calls, e_i, oname, od, r_cnt, r_w, r_digits >>

si2 == /\ pc = "si2"
       /\ \E o \in Ops:
            /\ s_op' = o
            /\ s_enc' = [i \in 1..Len(sd) |-> EvalOp(o, sd[i], s_key[i])]
            /\ log' = Append(log, <<"randOperator<simple.obfuscate/Intn", OpIdx(o)>>)
       /\ pc' = "si3"
       /\ UNCHANGED << layer, n, pad, orig, keys, used, xk, bl, blk, wobf, 
                       junk, junklen, split, params, res, expect, stack, xd, 
                       x_cnt, x_stmts, x_cur, bval, sd, s_key, s_emkey, wd, 
                       w_cnt, w_shift, w_op, w_pos, w_emdata, pd, p_sizes, 
                       p_rest, p_perm, p_key0, p_key, p_op, p_enc, p_cases, 
                       p_i, p_off, p_val, hd, h_key, h_iks, h_ik, h_ops, h_cnt, 
                       h_perm, h_args, h_full, h_emfull, ed, e_seed0, e_seed, 
                       e_op, e_calls, e_i, oname, od, r_cnt, r_w, r_digits >>

si3 == /\ pc = "si3"
       /\ /\ stack' = << [ procedure |->  "ExtKeys",
                           pc        |->  "si4",
                           x_cnt     |->  x_cnt,
                           x_stmts   |->  x_stmts,
                           x_cur     |->  x_cur,
                           xd        |->  xd ] >>
                       \o stack
          /\ xd' = s_key
       /\ x_cnt' = 0
       /\ x_stmts' = <<>>
       /\ x_cur' = <<>>
       /\ pc' = "xk1"
       /\ UNCHANGED << layer, n, pad, orig, keys, used, log, xk, bl, blk, wobf, 
                       junk, junklen, split, params, res, expect, bval, sd, 
                       s_key, s_op, s_enc, s_emkey, wd, w_cnt, w_shift, w_op, 
                       w_pos, w_emdata, pd, p_sizes, p_rest, p_perm, p_key0, 
                       p_key, p_op, p_enc, p_cases, p_i, p_off, p_val, hd, 
                       h_key, h_iks, h_ik, h_ops, h_cnt, h_perm, h_args, 
                       h_full, h_emfull, ed, e_seed0, e_seed, e_op, e_calls, 
                       e_i, oname, od, r_cnt, r_w, r_digits >>

si4 == /\ pc = "si4"
       /\ s_emkey' = xk
       /\ /\ stack' = << [ procedure |->  "ExtKeys",
                           pc        |->  "si5",
                           x_cnt     |->  x_cnt,
                           x_stmts   |->  x_stmts,
                           x_cur     |->  x_cur,
                           xd        |->  xd ] >>
                       \o stack
          /\ xd' = s_enc
       /\ x_cnt' = 0
       /\ x_stmts' = <<>>
       /\ x_cur' = <<>>
       /\ pc' = "xk1"
       /\ UNCHANGED << layer, n, pad, orig, keys, used, log, xk, bl, blk, wobf, 
                       junk, junklen, split, params, res, expect, bval, sd, 
                       s_key, s_op, s_enc, wd, w_cnt, w_shift, w_op, w_pos, 
                       w_emdata, pd, p_sizes, p_rest, p_perm, p_key0, p_key, 
                       p_op, p_enc, p_cases, p_i, p_off, p_val, hd, h_key, 
                       h_iks, h_ik, h_ops, h_cnt, h_perm, h_args, h_full, 
                       h_emfull, ed, e_seed0, e_seed, e_op, e_calls, e_i, 
                       oname, od, r_cnt, r_w, r_digits >>

si5 == /\ pc = "si5"
       /\ blk' = [kind |-> "simple", key |-> s_emkey, data |-> xk, op |-> RevOp(s_op)]
       /\ pc' = Head(stack).pc
       /\ s_key' = Head(stack).s_key
       /\ s_op' = Head(stack).s_op
       /\ s_enc' = Head(stack).s_enc
       /\ s_emkey' = Head(stack).s_emkey
       /\ sd' = Head(stack).sd
       /\ stack' = Tail(stack)
       /\ UNCHANGED << layer, n, pad, orig, keys, used, log, xk, bl, wobf, 
                       junk, junklen, split, params, res, expect, xd, x_cnt, 
                       x_stmts, x_cur, bval, wd, w_cnt, w_shift, w_op, w_pos, 
                       w_emdata, pd, p_sizes, p_rest, p_perm, p_key0, p_key, 
                       p_op, p_enc, p_cases, p_i, p_off, p_val, hd, h_key, 
                       h_iks, h_ik, h_ops, h_cnt, h_perm, h_args, h_full, 
                       h_emfull, ed, e_seed0, e_seed, e_op, e_calls, e_i, 
                       oname, od, r_cnt, r_w, r_digits >>

Simple == si1 \/ si2 \/ si3 \/ si4 \/ si5

sw1 == /\ pc = "sw1"
       /\ IF Len(wd) \div 2 > 1
             THEN /\ \E e \in 0..((Len(wd) \div 2) - 1):
                       /\ w_cnt' = Even(Len(wd) + e)
                       /\ log' = Append(log, <<"generateSwapCount/Intn", e>>)
             ELSE /\ w_cnt' = Even(Len(wd))
                  /\ log' = log
       /\ pc' = "sw2"
       /\ UNCHANGED << layer, n, pad, orig, keys, used, xk, bl, blk, wobf, 
                       junk, junklen, split, params, res, expect, stack, xd, 
                       x_cnt, x_stmts, x_cur, bval, sd, s_key, s_op, s_enc, 
                       s_emkey, wd, w_shift, w_op, w_pos, w_emdata, pd, 
                       p_sizes, p_rest, p_perm, p_key0, p_key, p_op, p_enc, 
                       p_cases, p_i, p_off, p_val, hd, h_key, h_iks, h_ik, 
                       h_ops, h_cnt, h_perm, h_args, h_full, h_emfull, ed, 
                       e_seed0, e_seed, e_op, e_calls, e_i, oname, od, r_cnt, 
                       r_w, r_digits >>

sw2 == /\ pc = "sw2"
       /\ \E s \in KeyBytes:
            \E o \in Ops:
              /\ w_shift' = s
              /\ w_op' = o
              /\ log' = log \o << <<"swap.obfuscate/Uint32", s>>, <<"randOperator<swap.obfuscate/Intn", OpIdx(o)>> >>
       /\ pc' = "sw3"
       /\ UNCHANGED << layer, n, pad, orig, keys, used, xk, bl, blk, wobf, 
                       junk, junklen, split, params, res, expect, stack, xd, 
                       x_cnt, x_stmts, x_cur, bval, sd, s_key, s_op, s_enc, 
                       s_emkey, wd, w_cnt, w_pos, w_emdata, pd, p_sizes, 
                       p_rest, p_perm, p_key0, p_key, p_op, p_enc, p_cases, 
                       p_i, p_off, p_val, hd, h_key, h_iks, h_ik, h_ops, h_cnt, 
                       h_perm, h_args, h_full, h_emfull, ed, e_seed0, e_seed, 
                       e_op, e_calls, e_i, oname, od, r_cnt, r_w, r_digits >>

sw3 == /\ pc = "sw3"
       /\ IF Len(w_pos) < w_cnt
             THEN /\ \E p \in 0..(Len(wd) - 1):
                       /\ w_pos' = Append(w_pos, p)
                       /\ log' = Append(log, <<"genRandIntSlice/Intn", p>>)
                  /\ pc' = "sw3"
             ELSE /\ pc' = "sw4"
                  /\ UNCHANGED << log, w_pos >>
       /\ UNCHANGED << layer, n, pad, orig, keys, used, xk, bl, blk, wobf, 
                       junk, junklen, split, params, res, expect, stack, xd, 
                       x_cnt, x_stmts, x_cur, bval, sd, s_key, s_op, s_enc, 
                       s_emkey, wd, w_cnt, w_shift, w_op, w_emdata, pd, 
                       p_sizes, p_rest, p_perm, p_key0, p_key, p_op, p_enc, 
                       p_cases, p_i, p_off, p_val, hd, h_key, h_iks, h_ik, 
                       h_ops, h_cnt, h_perm, h_args, h_full, h_emfull, ed, 
                       e_seed0, e_seed, e_op, e_calls, e_i, oname, od, r_cnt, 
                       r_w, r_digits >>

sw4 == /\ pc = "sw4"
       /\ /\ stack' = << [ procedure |->  "ExtKeys",
                           pc        |->  "sw5",
                           x_cnt     |->  x_cnt,
                           x_stmts   |->  x_stmts,
                           x_cur     |->  x_cur,
                           xd        |->  xd ] >>
                       \o stack
          /\ xd' = SwapEncode(wd, w_pos, w_op, w_shift, Len(w_pos) - 2)
       /\ x_cnt' = 0
       /\ x_stmts' = <<>>
       /\ x_cur' = <<>>
       /\ pc' = "xk1"
       /\ UNCHANGED << layer, n, pad, orig, keys, used, log, xk, bl, blk, wobf, 
                       junk, junklen, split, params, res, expect, bval, sd, 
                       s_key, s_op, s_enc, s_emkey, wd, w_cnt, w_shift, w_op, 
                       w_pos, w_emdata, pd, p_sizes, p_rest, p_perm, p_key0, 
                       p_key, p_op, p_enc, p_cases, p_i, p_off, p_val, hd, 
                       h_key, h_iks, h_ik, h_ops, h_cnt, h_perm, h_args, 
                       h_full, h_emfull, ed, e_seed0, e_seed, e_op, e_calls, 
                       e_i, oname, od, r_cnt, r_w, r_digits >>

sw5 == /\ pc = "sw5"
       /\ w_emdata' = xk
       /\ /\ bval' = w_shift
          /\ stack' = << [ procedure |->  "ByteLit",
                           pc        |->  "sw6",
                           bval      |->  bval ] >>
                       \o stack
       /\ pc' = "bl1"
       /\ UNCHANGED << layer, n, pad, orig, keys, used, log, xk, bl, blk, wobf, 
                       junk, junklen, split, params, res, expect, xd, x_cnt, 
                       x_stmts, x_cur, sd, s_key, s_op, s_enc, s_emkey, wd, 
                       w_cnt, w_shift, w_op, w_pos, pd, p_sizes, p_rest, 
                       p_perm, p_key0, p_key, p_op, p_enc, p_cases, p_i, p_off, 
                       p_val, hd, h_key, h_iks, h_ik, h_ops, h_cnt, h_perm, 
                       h_args, h_full, h_emfull, ed, e_seed0, e_seed, e_op, 
                       e_calls, e_i, oname, od, r_cnt, r_w, r_digits >>

sw6 == /\ pc = "sw6"
       /\ blk' = [kind |-> "swap", data |-> w_emdata, positions |-> w_pos, idxmax |-> IndexTypeMax(Len(w_pos)),
                  op |-> RevOp(w_op), shift |-> bl]
       /\ pc' = Head(stack).pc
       /\ w_cnt' = Head(stack).w_cnt
       /\ w_shift' = Head(stack).w_shift
       /\ w_op' = Head(stack).w_op
       /\ w_pos' = Head(stack).w_pos
       /\ w_emdata' = Head(stack).w_emdata
       /\ wd' = Head(stack).wd
       /\ stack' = Tail(stack)
       /\ UNCHANGED << layer, n, pad, orig, keys, used, log, xk, bl, wobf, 
                       junk, junklen, split, params, res, expect, xd, x_cnt, 
                       x_stmts, x_cur, bval, sd, s_key, s_op, s_enc, s_emkey, 
                       pd, p_sizes, p_rest, p_perm, p_key0, p_key, p_op, p_enc, 
                       p_cases, p_i, p_off, p_val, hd, h_key, h_iks, h_ik, 
                       h_ops, h_cnt, h_perm, h_args, h_full, h_emfull, ed, 
                       e_seed0, e_seed, e_op, e_calls, e_i, oname, od, r_cnt, 
                       r_w, r_digits >>

Swap == sw1 \/ sw2 \/ sw3 \/ sw4 \/ sw5 \/ sw6

sp1 == /\ pc = "sp1"
       /\ IF Len(pd) \div MaxChunk < MinCase
             THEN /\ p_sizes' = [i \in 1..Len(pd) |-> 1]
                  /\ pc' = "sp2"
                  /\ UNCHANGED p_rest
             ELSE /\ IF Len(pd) = 1
                        THEN /\ p_sizes' = <<1>>
                             /\ pc' = "sp2"
                             /\ UNCHANGED p_rest
                        ELSE /\ p_rest' = Len(pd)
                             /\ pc' = "sp1a"
                             /\ UNCHANGED p_sizes
       /\ UNCHANGED << layer, n, pad, orig, keys, used, log, xk, bl, blk, wobf, 
                       junk, junklen, split, params, res, expect, stack, xd, 
                       x_cnt, x_stmts, x_cur, bval, sd, s_key, s_op, s_enc, 
                       s_emkey, wd, w_cnt, w_shift, w_op, w_pos, w_emdata, pd, 
                       p_perm, p_key0, p_key, p_op, p_enc, p_cases, p_i, p_off, 
                       p_val, hd, h_key, h_iks, h_ik, h_ops, h_cnt, h_perm, 
                       h_args, h_full, h_emfull, ed, e_seed0, e_seed, e_op, 
                       e_calls, e_i, oname, od, r_cnt, r_w, r_digits >>

sp1a == /\ pc = "sp1a"
        /\ IF p_rest > 0
              THEN /\ \E c \in 1..MaxChunk:
                        /\ p_sizes' = Append(p_sizes, Min2(c, p_rest))
                        /\ p_rest' = p_rest - Min2(c, p_rest)
                        /\ log' = Append(log, <<"splitIntoRandomChunks/Intn", c - 1>>)
                   /\ pc' = "sp1a"
              ELSE /\ pc' = "sp2"
                   /\ UNCHANGED << log, p_sizes, p_rest >>
        /\ UNCHANGED << layer, n, pad, orig, keys, used, xk, bl, blk, wobf, 
                        junk, junklen, split, params, res, expect, stack, xd, 
                        x_cnt, x_stmts, x_cur, bval, sd, s_key, s_op, s_enc, 
                        s_emkey, wd, w_cnt, w_shift, w_op, w_pos, w_emdata, pd, 
                        p_perm, p_key0, p_key, p_op, p_enc, p_cases, p_i, 
                        p_off, p_val, hd, h_key, h_iks, h_ik, h_ops, h_cnt, 
                        h_perm, h_args, h_full, h_emfull, ed, e_seed0, e_seed, 
                        e_op, e_calls, e_i, oname, od, r_cnt, r_w, r_digits >>

sp2 == /\ pc = "sp2"
       /\ IF Len(p_perm) < Len(p_sizes) + 2
             THEN /\ \E j \in 0..Len(p_perm):
                       /\ p_perm' = PermStep(p_perm, j)
                       /\ log' = Append(log, <<"split.obfuscate/Perm", j>>)
                  /\ pc' = "sp2"
             ELSE /\ pc' = "sp3"
                  /\ UNCHANGED << log, p_perm >>
       /\ UNCHANGED << layer, n, pad, orig, keys, used, xk, bl, blk, wobf, 
                       junk, junklen, split, params, res, expect, stack, xd, 
                       x_cnt, x_stmts, x_cur, bval, sd, s_key, s_op, s_enc, 
                       s_emkey, wd, w_cnt, w_shift, w_op, w_pos, w_emdata, pd, 
                       p_sizes, p_rest, p_key0, p_key, p_op, p_enc, p_cases, 
                       p_i, p_off, p_val, hd, h_key, h_iks, h_ik, h_ops, h_cnt, 
                       h_perm, h_args, h_full, h_emfull, ed, e_seed0, e_seed, 
                       e_op, e_calls, e_i, oname, od, r_cnt, r_w, r_digits >>

sp3 == /\ pc = "sp3"
       /\ \E kb \in KeyBytes:
            \E o \in Ops:
              /\ p_key0' = kb
              /\ p_key' = FoldKey(p_perm, 0, kb)
              /\ p_op' = o
              /\ p_enc' = [y \in 1..Len(pd) |-> EvalOp(o, pd[y], (FoldKey(p_perm, 0, kb) ^^ ((y - 1) % M)) % M)]
              /\ log' = log \o << <<"split.obfuscate/Uint32", kb>>, <<"randOperator<split.obfuscate/Intn", OpIdx(o)>> >>
       /\ pc' = "sp4"
       /\ UNCHANGED << layer, n, pad, orig, keys, used, xk, bl, blk, wobf, 
                       junk, junklen, split, params, res, expect, stack, xd, 
                       x_cnt, x_stmts, x_cur, bval, sd, s_key, s_op, s_enc, 
                       s_emkey, wd, w_cnt, w_shift, w_op, w_pos, w_emdata, pd, 
                       p_sizes, p_rest, p_perm, p_cases, p_i, p_off, p_val, hd, 
                       h_key, h_iks, h_ik, h_ops, h_cnt, h_perm, h_args, 
                       h_full, h_emfull, ed, e_seed0, e_seed, e_op, e_calls, 
                       e_i, oname, od, r_cnt, r_w, r_digits >>

sp4 == /\ pc = "sp4"
       /\ \E so \in ShuffleOrders:
            /\ p_cases' = (At(p_perm, Len(p_sizes)) :> [kind |-> "decrypt", next |-> At(p_perm, Len(p_sizes) + 1), op |-> RevOp(p_op), swapped |-> so])
            /\ log' = Append(log, <<"shuffleStmts/Shuffle", <<1 - B2N(so), 2>> >>)
       /\ pc' = "sp5"
       /\ UNCHANGED << layer, n, pad, orig, keys, used, xk, bl, blk, wobf, 
                       junk, junklen, split, params, res, expect, stack, xd, 
                       x_cnt, x_stmts, x_cur, bval, sd, s_key, s_op, s_enc, 
                       s_emkey, wd, w_cnt, w_shift, w_op, w_pos, w_emdata, pd, 
                       p_sizes, p_rest, p_perm, p_key0, p_key, p_op, p_enc, 
                       p_i, p_off, p_val, hd, h_key, h_iks, h_ik, h_ops, h_cnt, 
                       h_perm, h_args, h_full, h_emfull, ed, e_seed0, e_seed, 
                       e_op, e_calls, e_i, oname, od, r_cnt, r_w, r_digits >>

sp5 == /\ pc = "sp5"
       /\ IF p_i < Len(p_sizes)
             THEN /\ IF p_sizes[p_i + 1] # 1
                        THEN /\ /\ stack' = << [ procedure |->  "ExtKeys",
                                                 pc        |->  "sp5a",
                                                 x_cnt     |->  x_cnt,
                                                 x_stmts   |->  x_stmts,
                                                 x_cur     |->  x_cur,
                                                 xd        |->  xd ] >>
                                             \o stack
                                /\ xd' = SubSeq(p_enc, p_off + 1, p_off + p_sizes[p_i + 1])
                             /\ x_cnt' = 0
                             /\ x_stmts' = <<>>
                             /\ x_cur' = <<>>
                             /\ pc' = "xk1"
                             /\ bval' = bval
                        ELSE /\ /\ bval' = p_enc[p_off + 1]
                                /\ stack' = << [ procedure |->  "ByteLit",
                                                 pc        |->  "sp5b",
                                                 bval      |->  bval ] >>
                                             \o stack
                             /\ pc' = "bl1"
                             /\ UNCHANGED << xd, x_cnt, x_stmts, x_cur >>
             ELSE /\ pc' = "sp7"
                  /\ UNCHANGED << stack, xd, x_cnt, x_stmts, x_cur, bval >>
       /\ UNCHANGED << layer, n, pad, orig, keys, used, log, xk, bl, blk, wobf, 
                       junk, junklen, split, params, res, expect, sd, s_key, 
                       s_op, s_enc, s_emkey, wd, w_cnt, w_shift, w_op, w_pos, 
                       w_emdata, pd, p_sizes, p_rest, p_perm, p_key0, p_key, 
                       p_op, p_enc, p_cases, p_i, p_off, p_val, hd, h_key, 
                       h_iks, h_ik, h_ops, h_cnt, h_perm, h_args, h_full, 
                       h_emfull, ed, e_seed0, e_seed, e_op, e_calls, e_i, 
                       oname, od, r_cnt, r_w, r_digits >>

sp6 == /\ pc = "sp6"
       /\ \E so \in ShuffleOrders:
            /\ p_cases' = p_cases @@ (At(p_perm, p_i) :> [kind |-> "chunk", next |-> At(p_perm, p_i + 1), val |-> p_val, swapped |-> so])
            /\ p_off' = p_off + p_sizes[p_i + 1]
            /\ p_i' = p_i + 1
            /\ log' = Append(log, <<"shuffleStmts/Shuffle", <<1 - B2N(so), 2>> >>)
       /\ pc' = "sp5"
       /\ UNCHANGED << layer, n, pad, orig, keys, used, xk, bl, blk, wobf, 
                       junk, junklen, split, params, res, expect, stack, xd, 
                       x_cnt, x_stmts, x_cur, bval, sd, s_key, s_op, s_enc, 
                       s_emkey, wd, w_cnt, w_shift, w_op, w_pos, w_emdata, pd, 
                       p_sizes, p_rest, p_perm, p_key0, p_key, p_op, p_enc, 
                       p_val, hd, h_key, h_iks, h_ik, h_ops, h_cnt, h_perm, 
                       h_args, h_full, h_emfull, ed, e_seed0, e_seed, e_op, 
                       e_calls, e_i, oname, od, r_cnt, r_w, r_digits >>

sp5a == /\ pc = "sp5a"
        /\ p_val' = [kind |-> "ext", lam |-> xk]
        /\ pc' = "sp6"
        /\ UNCHANGED << layer, n, pad, orig, keys, used, log, xk, bl, blk, 
                        wobf, junk, junklen, split, params, res, expect, stack, 
                        xd, x_cnt, x_stmts, x_cur, bval, sd, s_key, s_op, 
                        s_enc, s_emkey, wd, w_cnt, w_shift, w_op, w_pos, 
                        w_emdata, pd, p_sizes, p_rest, p_perm, p_key0, p_key, 
                        p_op, p_enc, p_cases, p_i, p_off, hd, h_key, h_iks, 
                        h_ik, h_ops, h_cnt, h_perm, h_args, h_full, h_emfull, 
                        ed, e_seed0, e_seed, e_op, e_calls, e_i, oname, od, 
                        r_cnt, r_w, r_digits >>

sp5b == /\ pc = "sp5b"
        /\ p_val' = [kind |-> "lit", e |-> bl]
        /\ pc' = "sp6"
        /\ UNCHANGED << layer, n, pad, orig, keys, used, log, xk, bl, blk, 
                        wobf, junk, junklen, split, params, res, expect, stack, 
                        xd, x_cnt, x_stmts, x_cur, bval, sd, s_key, s_op, 
                        s_enc, s_emkey, wd, w_cnt, w_shift, w_op, w_pos, 
                        w_emdata, pd, p_sizes, p_rest, p_perm, p_key0, p_key, 
                        p_op, p_enc, p_cases, p_i, p_off, hd, h_key, h_iks, 
                        h_ik, h_ops, h_cnt, h_perm, h_args, h_full, h_emfull, 
                        ed, e_seed0, e_seed, e_op, e_calls, e_i, oname, od, 
                        r_cnt, r_w, r_digits >>

sp7 == /\ pc = "sp7"
       /\ /\ bval' = p_key0
          /\ stack' = << [ procedure |->  "ByteLit",
                           pc        |->  "sp8",
                           bval      |->  bval ] >>
                       \o stack
       /\ pc' = "bl1"
       /\ UNCHANGED << layer, n, pad, orig, keys, used, log, xk, bl, blk, wobf, 
                       junk, junklen, split, params, res, expect, xd, x_cnt, 
                       x_stmts, x_cur, sd, s_key, s_op, s_enc, s_emkey, wd, 
                       w_cnt, w_shift, w_op, w_pos, w_emdata, pd, p_sizes, 
                       p_rest, p_perm, p_key0, p_key, p_op, p_enc, p_cases, 
                       p_i, p_off, p_val, hd, h_key, h_iks, h_ik, h_ops, h_cnt, 
                       h_perm, h_args, h_full, h_emfull, ed, e_seed0, e_seed, 
                       e_op, e_calls, e_i, oname, od, r_cnt, r_w, r_digits >>

sp8 == /\ pc = "sp8"
       /\ p_i' = Len(p_sizes)
       /\ pc' = "sp8a"
       /\ UNCHANGED << layer, n, pad, orig, keys, used, log, xk, bl, blk, wobf, 
                       junk, junklen, split, params, res, expect, stack, xd, 
                       x_cnt, x_stmts, x_cur, bval, sd, s_key, s_op, s_enc, 
                       s_emkey, wd, w_cnt, w_shift, w_op, w_pos, w_emdata, pd, 
                       p_sizes, p_rest, p_perm, p_key0, p_key, p_op, p_enc, 
                       p_cases, p_off, p_val, hd, h_key, h_iks, h_ik, h_ops, 
                       h_cnt, h_perm, h_args, h_full, h_emfull, ed, e_seed0, 
                       e_seed, e_op, e_calls, e_i, oname, od, r_cnt, r_w, 
                       r_digits >>

sp8a == /\ pc = "sp8a"
        /\ IF p_i > 0
              THEN /\ \E j \in 0..p_i:
                        /\ log' = Append(log, <<"shuffleStmts/Shuffle", <<j, p_i + 1>> >>)
                        /\ p_i' = p_i - 1
                   /\ pc' = "sp8a"
              ELSE /\ pc' = "sp9"
                   /\ UNCHANGED << log, p_i >>
        /\ UNCHANGED << layer, n, pad, orig, keys, used, xk, bl, blk, wobf, 
                        junk, junklen, split, params, res, expect, stack, xd, 
                        x_cnt, x_stmts, x_cur, bval, sd, s_key, s_op, s_enc, 
                        s_emkey, wd, w_cnt, w_shift, w_op, w_pos, w_emdata, pd, 
                        p_sizes, p_rest, p_perm, p_key0, p_key, p_op, p_enc, 
                        p_cases, p_off, p_val, hd, h_key, h_iks, h_ik, h_ops, 
                        h_cnt, h_perm, h_args, h_full, h_emfull, ed, e_seed0, 
                        e_seed, e_op, e_calls, e_i, oname, od, r_cnt, r_w, 
                        r_digits >>

sp9 == /\ pc = "sp9"
       /\ blk' = [kind |-> "split", start |-> At(p_perm, 0), exit |-> At(p_perm, Len(p_sizes) + 1), key0 |-> bl, cases |-> p_cases]
       /\ pc' = Head(stack).pc
       /\ p_sizes' = Head(stack).p_sizes
       /\ p_rest' = Head(stack).p_rest
       /\ p_perm' = Head(stack).p_perm
       /\ p_key0' = Head(stack).p_key0
       /\ p_key' = Head(stack).p_key
       /\ p_op' = Head(stack).p_op
       /\ p_enc' = Head(stack).p_enc
       /\ p_cases' = Head(stack).p_cases
       /\ p_i' = Head(stack).p_i
       /\ p_off' = Head(stack).p_off
       /\ p_val' = Head(stack).p_val
       /\ pd' = Head(stack).pd
       /\ stack' = Tail(stack)
       /\ UNCHANGED << layer, n, pad, orig, keys, used, log, xk, bl, wobf, 
                       junk, junklen, split, params, res, expect, xd, x_cnt, 
                       x_stmts, x_cur, bval, sd, s_key, s_op, s_enc, s_emkey, 
                       wd, w_cnt, w_shift, w_op, w_pos, w_emdata, hd, h_key, 
                       h_iks, h_ik, h_ops, h_cnt, h_perm, h_args, h_full, 
                       h_emfull, ed, e_seed0, e_seed, e_op, e_calls, e_i, 
                       oname, od, r_cnt, r_w, r_digits >>

Split == sp1 \/ sp1a \/ sp2 \/ sp3 \/ sp4 \/ sp5 \/ sp6 \/ sp5a \/ sp5b
            \/ sp7 \/ sp8 \/ sp8a \/ sp9

sh1 == /\ pc = "sh1"
       /\ IF Len(h_key) < Len(hd)
             THEN /\ \E b \in KeyBytes:
                       /\ h_key' = Append(h_key, b)
                       /\ log' = Append(log, <<"shuffle.obfuscate/Read", b>>)
                  /\ pc' = "sh1"
             ELSE /\ pc' = "sh2"
                  /\ UNCHANGED << log, h_key >>
       /\ UNCHANGED << layer, n, pad, orig, keys, used, xk, bl, blk, wobf, 
                       junk, junklen, split, params, res, expect, stack, xd, 
                       x_cnt, x_stmts, x_cur, bval, sd, s_key, s_op, s_enc, 
                       s_emkey, wd, w_cnt, w_shift, w_op, w_pos, w_emdata, pd, 
                       p_sizes, p_rest, p_perm, p_key0, p_key, p_op, p_enc, 
                       p_cases, p_i, p_off, p_val, hd, h_iks, h_ik, h_ops, 
                       h_cnt, h_perm, h_args, h_full, h_emfull, ed, e_seed0, 
                       e_seed, e_op, e_calls, e_i, oname, od, r_cnt, r_w, 
                       r_digits >>

sh2 == /\ pc = "sh2"
       /\ \E t \in 0..(Len(hd) - 1):
            /\ h_iks' = Min2(MaxIdxKey, IF t > MinIdxKey THEN t ELSE MinIdxKey)
            /\ log' = Append(log, <<"shuffle.obfuscate/Intn", t>>)
       /\ pc' = "sh3"
       /\ UNCHANGED << layer, n, pad, orig, keys, used, xk, bl, blk, wobf, 
                       junk, junklen, split, params, res, expect, stack, xd, 
                       x_cnt, x_stmts, x_cur, bval, sd, s_key, s_op, s_enc, 
                       s_emkey, wd, w_cnt, w_shift, w_op, w_pos, w_emdata, pd, 
                       p_sizes, p_rest, p_perm, p_key0, p_key, p_op, p_enc, 
                       p_cases, p_i, p_off, p_val, hd, h_key, h_ik, h_ops, 
                       h_cnt, h_perm, h_args, h_full, h_emfull, ed, e_seed0, 
                       e_seed, e_op, e_calls, e_i, oname, od, r_cnt, r_w, 
                       r_digits >>

sh3 == /\ pc = "sh3"
       /\ IF Len(h_ik) < h_iks
             THEN /\ \E b \in KeyBytes:
                       /\ h_ik' = Append(h_ik, b)
                       /\ log' = Append(log, <<"shuffle.obfuscate/Read", b>>)
                  /\ pc' = "sh3"
             ELSE /\ pc' = "sh4"
                  /\ UNCHANGED << log, h_ik >>
       /\ UNCHANGED << layer, n, pad, orig, keys, used, xk, bl, blk, wobf, 
                       junk, junklen, split, params, res, expect, stack, xd, 
                       x_cnt, x_stmts, x_cur, bval, sd, s_key, s_op, s_enc, 
                       s_emkey, wd, w_cnt, w_shift, w_op, w_pos, w_emdata, pd, 
                       p_sizes, p_rest, p_perm, p_key0, p_key, p_op, p_enc, 
                       p_cases, p_i, p_off, p_val, hd, h_key, h_iks, h_ops, 
                       h_cnt, h_perm, h_args, h_full, h_emfull, ed, e_seed0, 
                       e_seed, e_op, e_calls, e_i, oname, od, r_cnt, r_w, 
                       r_digits >>

sh4 == /\ pc = "sh4"
       /\ IF h_cnt < 2 * Len(hd)
             THEN /\ \E o \in (IF h_cnt < Len(hd) THEN Ops ELSE UnusedOps):
                       /\ h_ops' = (IF h_cnt < Len(hd) THEN Append(h_ops, o) ELSE h_ops)
                       /\ h_cnt' = h_cnt + 1
                       /\ log' = Append(log, <<"randOperator<shuffle.obfuscate/Intn", OpIdx(o)>>)
                  /\ pc' = "sh4"
             ELSE /\ pc' = "sh5"
                  /\ UNCHANGED << log, h_ops, h_cnt >>
       /\ UNCHANGED << layer, n, pad, orig, keys, used, xk, bl, blk, wobf, 
                       junk, junklen, split, params, res, expect, stack, xd, 
                       x_cnt, x_stmts, x_cur, bval, sd, s_key, s_op, s_enc, 
                       s_emkey, wd, w_cnt, w_shift, w_op, w_pos, w_emdata, pd, 
                       p_sizes, p_rest, p_perm, p_key0, p_key, p_op, p_enc, 
                       p_cases, p_i, p_off, p_val, hd, h_key, h_iks, h_ik, 
                       h_perm, h_args, h_full, h_emfull, ed, e_seed0, e_seed, 
                       e_op, e_calls, e_i, oname, od, r_cnt, r_w, r_digits >>

sh5 == /\ pc = "sh5"
       /\ h_full' = [i \in 1..(2 * Len(hd)) |-> IF i <= Len(hd) THEN EvalOp(h_ops[i], hd[i], h_key[i]) ELSE h_key[i - Len(hd)]]
       /\ pc' = "sh5a"
       /\ UNCHANGED << layer, n, pad, orig, keys, used, log, xk, bl, blk, wobf, 
                       junk, junklen, split, params, res, expect, stack, xd, 
                       x_cnt, x_stmts, x_cur, bval, sd, s_key, s_op, s_enc, 
                       s_emkey, wd, w_cnt, w_shift, w_op, w_pos, w_emdata, pd, 
                       p_sizes, p_rest, p_perm, p_key0, p_key, p_op, p_enc, 
                       p_cases, p_i, p_off, p_val, hd, h_key, h_iks, h_ik, 
                       h_ops, h_cnt, h_perm, h_args, h_emfull, ed, e_seed0, 
                       e_seed, e_op, e_calls, e_i, oname, od, r_cnt, r_w, 
                       r_digits >>

sh5a == /\ pc = "sh5a"
        /\ IF Len(h_perm) < 2 * Len(hd)
              THEN /\ \E j \in 0..Len(h_perm):
                        /\ h_perm' = PermStep(h_perm, j)
                        /\ log' = Append(log, <<"shuffle.obfuscate/Perm", j>>)
                   /\ pc' = "sh5a"
              ELSE /\ pc' = "sh6"
                   /\ UNCHANGED << log, h_perm >>
        /\ UNCHANGED << layer, n, pad, orig, keys, used, xk, bl, blk, wobf, 
                        junk, junklen, split, params, res, expect, stack, xd, 
                        x_cnt, x_stmts, x_cur, bval, sd, s_key, s_op, s_enc, 
                        s_emkey, wd, w_cnt, w_shift, w_op, w_pos, w_emdata, pd, 
                        p_sizes, p_rest, p_perm, p_key0, p_key, p_op, p_enc, 
                        p_cases, p_i, p_off, p_val, hd, h_key, h_iks, h_ik, 
                        h_ops, h_cnt, h_args, h_full, h_emfull, ed, e_seed0, 
                        e_seed, e_op, e_calls, e_i, oname, od, r_cnt, r_w, 
                        r_digits >>

sh6 == /\ pc = "sh6"
       /\ IF Len(h_args) < Len(hd)
             THEN /\ \E ki \in 0..(h_iks - 1):
                       /\ h_args' = Append(h_args, [op |-> RevOp(h_ops[Len(h_args) + 1]),
                                                    a |-> At(h_perm, Len(h_args)) ^^ At(h_ik, ki),
                                                    b |-> At(h_perm, Len(hd) + Len(h_args)) ^^ At(h_ik, ki),
                                                    ki |-> ki])
                       /\ log' = Append(log, <<"shuffle.obfuscate/Intn", ki>>)
                  /\ pc' = "sh6"
             ELSE /\ pc' = "sh7"
                  /\ UNCHANGED << log, h_args >>
       /\ UNCHANGED << layer, n, pad, orig, keys, used, xk, bl, blk, wobf, 
                       junk, junklen, split, params, res, expect, stack, xd, 
                       x_cnt, x_stmts, x_cur, bval, sd, s_key, s_op, s_enc, 
                       s_emkey, wd, w_cnt, w_shift, w_op, w_pos, w_emdata, pd, 
                       p_sizes, p_rest, p_perm, p_key0, p_key, p_op, p_enc, 
                       p_cases, p_i, p_off, p_val, hd, h_key, h_iks, h_ik, 
                       h_ops, h_cnt, h_perm, h_full, h_emfull, ed, e_seed0, 
                       e_seed, e_op, e_calls, e_i, oname, od, r_cnt, r_w, 
                       r_digits >>

sh7 == /\ pc = "sh7"
       /\ /\ stack' = << [ procedure |->  "ExtKeys",
                           pc        |->  "sh8",
                           x_cnt     |->  x_cnt,
                           x_stmts   |->  x_stmts,
                           x_cur     |->  x_cur,
                           xd        |->  xd ] >>
                       \o stack
          /\ xd' = [p \in 1..Len(h_full) |-> h_full[CHOOSE i \in 1..Len(h_full) : h_perm[i] = p - 1]]
       /\ x_cnt' = 0
       /\ x_stmts' = <<>>
       /\ x_cur' = <<>>
       /\ pc' = "xk1"
       /\ UNCHANGED << layer, n, pad, orig, keys, used, log, xk, bl, blk, wobf, 
                       junk, junklen, split, params, res, expect, bval, sd, 
                       s_key, s_op, s_enc, s_emkey, wd, w_cnt, w_shift, w_op, 
                       w_pos, w_emdata, pd, p_sizes, p_rest, p_perm, p_key0, 
                       p_key, p_op, p_enc, p_cases, p_i, p_off, p_val, hd, 
                       h_key, h_iks, h_ik, h_ops, h_cnt, h_perm, h_args, 
                       h_full, h_emfull, ed, e_seed0, e_seed, e_op, e_calls, 
                       e_i, oname, od, r_cnt, r_w, r_digits >>

sh8 == /\ pc = "sh8"
       /\ h_emfull' = xk
       /\ /\ stack' = << [ procedure |->  "ExtKeys",
                           pc        |->  "sh9",
                           x_cnt     |->  x_cnt,
                           x_stmts   |->  x_stmts,
                           x_cur     |->  x_cur,
                           xd        |->  xd ] >>
                       \o stack
          /\ xd' = h_ik
       /\ x_cnt' = 0
       /\ x_stmts' = <<>>
       /\ x_cur' = <<>>
       /\ pc' = "xk1"
       /\ UNCHANGED << layer, n, pad, orig, keys, used, log, xk, bl, blk, wobf, 
                       junk, junklen, split, params, res, expect, bval, sd, 
                       s_key, s_op, s_enc, s_emkey, wd, w_cnt, w_shift, w_op, 
                       w_pos, w_emdata, pd, p_sizes, p_rest, p_perm, p_key0, 
                       p_key, p_op, p_enc, p_cases, p_i, p_off, p_val, hd, 
                       h_key, h_iks, h_ik, h_ops, h_cnt, h_perm, h_args, 
                       h_full, ed, e_seed0, e_seed, e_op, e_calls, e_i, oname, 
                       od, r_cnt, r_w, r_digits >>

sh9 == /\ pc = "sh9"
       /\ blk' = [kind |-> "shuffle", full |-> h_emfull, idxkey |-> xk, args |-> h_args]
       /\ pc' = Head(stack).pc
       /\ h_key' = Head(stack).h_key
       /\ h_iks' = Head(stack).h_iks
       /\ h_ik' = Head(stack).h_ik
       /\ h_ops' = Head(stack).h_ops
       /\ h_cnt' = Head(stack).h_cnt
       /\ h_perm' = Head(stack).h_perm
       /\ h_args' = Head(stack).h_args
       /\ h_full' = Head(stack).h_full
       /\ h_emfull' = Head(stack).h_emfull
       /\ hd' = Head(stack).hd
       /\ stack' = Tail(stack)
       /\ UNCHANGED << layer, n, pad, orig, keys, used, log, xk, bl, wobf, 
                       junk, junklen, split, params, res, expect, xd, x_cnt, 
                       x_stmts, x_cur, bval, sd, s_key, s_op, s_enc, s_emkey, 
                       wd, w_cnt, w_shift, w_op, w_pos, w_emdata, pd, p_sizes, 
                       p_rest, p_perm, p_key0, p_key, p_op, p_enc, p_cases, 
                       p_i, p_off, p_val, ed, e_seed0, e_seed, e_op, e_calls, 
                       e_i, oname, od, r_cnt, r_w, r_digits >>

Shuf == sh1 \/ sh2 \/ sh3 \/ sh4 \/ sh5 \/ sh5a \/ sh6 \/ sh7 \/ sh8 \/ sh9

se1 == /\ pc = "se1"
       /\ \E s \in KeyBytes:
            \E o \in Ops:
              /\ e_seed0' = s
              /\ e_seed' = s
              /\ e_op' = o
              /\ log' = log \o << <<"seed.obfuscate/Uint32", s>>, <<"randOperator<seed.obfuscate/Intn", OpIdx(o)>> >>
       /\ pc' = "se2"
       /\ UNCHANGED << layer, n, pad, orig, keys, used, xk, bl, blk, wobf, 
                       junk, junklen, split, params, res, expect, stack, xd, 
                       x_cnt, x_stmts, x_cur, bval, sd, s_key, s_op, s_enc, 
                       s_emkey, wd, w_cnt, w_shift, w_op, w_pos, w_emdata, pd, 
                       p_sizes, p_rest, p_perm, p_key0, p_key, p_op, p_enc, 
                       p_cases, p_i, p_off, p_val, hd, h_key, h_iks, h_ik, 
                       h_ops, h_cnt, h_perm, h_args, h_full, h_emfull, ed, 
                       e_calls, e_i, oname, od, r_cnt, r_w, r_digits >>

se2 == /\ pc = "se2"
       /\ IF e_i < Len(ed)
             THEN /\ /\ bval' = EvalOp(e_op, ed[e_i + 1], e_seed)
                     /\ stack' = << [ procedure |->  "ByteLit",
                                      pc        |->  "se3",
                                      bval      |->  bval ] >>
                                  \o stack
                  /\ pc' = "bl1"
             ELSE /\ pc' = "se4"
                  /\ UNCHANGED << stack, bval >>
       /\ UNCHANGED << layer, n, pad, orig, keys, used, log, xk, bl, blk, wobf, 
                       junk, junklen, split, params, res, expect, xd, x_cnt, 
                       x_stmts, x_cur, sd, s_key, s_op, s_enc, s_emkey, wd, 
                       w_cnt, w_shift, w_op, w_pos, w_emdata, pd, p_sizes, 
                       p_rest, p_perm, p_key0, p_key, p_op, p_enc, p_cases, 
                       p_i, p_off, p_val, hd, h_key, h_iks, h_ik, h_ops, h_cnt, 
                       h_perm, h_args, h_full, h_emfull, ed, e_seed0, e_seed, 
                       e_op, e_calls, e_i, oname, od, r_cnt, r_w, r_digits >>

se3 == /\ pc = "se3"
       /\ e_seed' = (e_seed + EvalOp(e_op, ed[e_i + 1], e_seed)) % M
       /\ e_calls' = Append(e_calls, bl)
       /\ e_i' = e_i + 1
       /\ pc' = "se2"
       /\ UNCHANGED << layer, n, pad, orig, keys, used, log, xk, bl, blk, wobf, 
                       junk, junklen, split, params, res, expect, stack, xd, 
                       x_cnt, x_stmts, x_cur, bval, sd, s_key, s_op, s_enc, 
                       s_emkey, wd, w_cnt, w_shift, w_op, w_pos, w_emdata, pd, 
                       p_sizes, p_rest, p_perm, p_key0, p_key, p_op, p_enc, 
                       p_cases, p_i, p_off, p_val, hd, h_key, h_iks, h_ik, 
                       h_ops, h_cnt, h_perm, h_args, h_full, h_emfull, ed, 
                       e_seed0, e_op, oname, od, r_cnt, r_w, r_digits >>

se4 == /\ pc = "se4"
       /\ /\ bval' = e_seed0
          /\ stack' = << [ procedure |->  "ByteLit",
                           pc        |->  "se5",
                           bval      |->  bval ] >>
                       \o stack
       /\ pc' = "bl1"
       /\ UNCHANGED << layer, n, pad, orig, keys, used, log, xk, bl, blk, wobf, 
                       junk, junklen, split, params, res, expect, xd, x_cnt, 
                       x_stmts, x_cur, sd, s_key, s_op, s_enc, s_emkey, wd, 
                       w_cnt, w_shift, w_op, w_pos, w_emdata, pd, p_sizes, 
                       p_rest, p_perm, p_key0, p_key, p_op, p_enc, p_cases, 
                       p_i, p_off, p_val, hd, h_key, h_iks, h_ik, h_ops, h_cnt, 
                       h_perm, h_args, h_full, h_emfull, ed, e_seed0, e_seed, 
                       e_op, e_calls, e_i, oname, od, r_cnt, r_w, r_digits >>

se5 == /\ pc = "se5"
       /\ blk' = [kind |-> "seed", seed0 |-> bl, calls |-> e_calls, op |-> RevOp(e_op)]
       /\ pc' = Head(stack).pc
       /\ e_seed0' = Head(stack).e_seed0
       /\ e_seed' = Head(stack).e_seed
       /\ e_op' = Head(stack).e_op
       /\ e_calls' = Head(stack).e_calls
       /\ e_i' = Head(stack).e_i
       /\ ed' = Head(stack).ed
       /\ stack' = Tail(stack)
       /\ UNCHANGED << layer, n, pad, orig, keys, used, log, xk, bl, wobf, 
                       junk, junklen, split, params, res, expect, xd, x_cnt, 
                       x_stmts, x_cur, bval, sd, s_key, s_op, s_enc, s_emkey, 
                       wd, w_cnt, w_shift, w_op, w_pos, w_emdata, pd, p_sizes, 
                       p_rest, p_perm, p_key0, p_key, p_op, p_enc, p_cases, 
                       p_i, p_off, p_val, hd, h_key, h_iks, h_ik, h_ops, h_cnt, 
                       h_perm, h_args, h_full, h_emfull, oname, od, r_cnt, r_w, 
                       r_digits >>

SeedP == se1 \/ se2 \/ se3 \/ se4 \/ se5

ob1 == /\ pc = "ob1"
       /\ IF oname = "simple"
             THEN /\ /\ sd' = od
                     /\ stack' = << [ procedure |->  "Simple",
                                      pc        |->  Head(stack).pc,
                                      s_key     |->  s_key,
                                      s_op      |->  s_op,
                                      s_enc     |->  s_enc,
                                      s_emkey   |->  s_emkey,
                                      sd        |->  sd ] >>
                                  \o Tail(stack)
                  /\ s_key' = <<>>
                  /\ s_op' = "XOR"
                  /\ s_enc' = <<>>
                  /\ s_emkey' = <<>>
                  /\ pc' = "si1"
                  /\ UNCHANGED << wd, w_cnt, w_shift, w_op, w_pos, w_emdata, 
                                  pd, p_sizes, p_rest, p_perm, p_key0, p_key, 
                                  p_op, p_enc, p_cases, p_i, p_off, p_val, hd, 
                                  h_key, h_iks, h_ik, h_ops, h_cnt, h_perm, 
                                  h_args, h_full, h_emfull, ed, e_seed0, 
                                  e_seed, e_op, e_calls, e_i >>
             ELSE /\ IF oname = "swap"
                        THEN /\ /\ stack' = << [ procedure |->  "Swap",
                                                 pc        |->  Head(stack).pc,
                                                 w_cnt     |->  w_cnt,
                                                 w_shift   |->  w_shift,
                                                 w_op      |->  w_op,
                                                 w_pos     |->  w_pos,
                                                 w_emdata  |->  w_emdata,
                                                 wd        |->  wd ] >>
                                             \o Tail(stack)
                                /\ wd' = od
                             /\ w_cnt' = 0
                             /\ w_shift' = 0
                             /\ w_op' = "XOR"
                             /\ w_pos' = <<>>
                             /\ w_emdata' = <<>>
                             /\ pc' = "sw1"
                             /\ UNCHANGED << pd, p_sizes, p_rest, p_perm, 
                                             p_key0, p_key, p_op, p_enc, 
                                             p_cases, p_i, p_off, p_val, hd, 
                                             h_key, h_iks, h_ik, h_ops, h_cnt, 
                                             h_perm, h_args, h_full, h_emfull, 
                                             ed, e_seed0, e_seed, e_op, 
                                             e_calls, e_i >>
                        ELSE /\ IF oname = "split"
                                   THEN /\ /\ pd' = od
                                           /\ stack' = << [ procedure |->  "Split",
                                                            pc        |->  Head(stack).pc,
                                                            p_sizes   |->  p_sizes,
                                                            p_rest    |->  p_rest,
                                                            p_perm    |->  p_perm,
                                                            p_key0    |->  p_key0,
                                                            p_key     |->  p_key,
                                                            p_op      |->  p_op,
                                                            p_enc     |->  p_enc,
                                                            p_cases   |->  p_cases,
                                                            p_i       |->  p_i,
                                                            p_off     |->  p_off,
                                                            p_val     |->  p_val,
                                                            pd        |->  pd ] >>
                                                        \o Tail(stack)
                                        /\ p_sizes' = <<>>
                                        /\ p_rest' = 0
                                        /\ p_perm' = <<>>
                                        /\ p_key0' = 0
                                        /\ p_key' = 0
                                        /\ p_op' = "XOR"
                                        /\ p_enc' = <<>>
                                        /\ p_cases' = <<>>
                                        /\ p_i' = 0
                                        /\ p_off' = 0
                                        /\ p_val' = <<>>
                                        /\ pc' = "sp1"
                                        /\ UNCHANGED << hd, h_key, h_iks, h_ik, 
                                                        h_ops, h_cnt, h_perm, 
                                                        h_args, h_full, 
                                                        h_emfull, ed, e_seed0, 
                                                        e_seed, e_op, e_calls, 
                                                        e_i >>
                                   ELSE /\ IF oname = "shuffle"
                                              THEN /\ /\ hd' = od
                                                      /\ stack' = << [ procedure |->  "Shuf",
                                                                       pc        |->  Head(stack).pc,
                                                                       h_key     |->  h_key,
                                                                       h_iks     |->  h_iks,
                                                                       h_ik      |->  h_ik,
                                                                       h_ops     |->  h_ops,
                                                                       h_cnt     |->  h_cnt,
                                                                       h_perm    |->  h_perm,
                                                                       h_args    |->  h_args,
                                                                       h_full    |->  h_full,
                                                                       h_emfull  |->  h_emfull,
                                                                       hd        |->  hd ] >>
                                                                   \o Tail(stack)
                                                   /\ h_key' = <<>>
                                                   /\ h_iks' = 0
                                                   /\ h_ik' = <<>>
                                                   /\ h_ops' = <<>>
                                                   /\ h_cnt' = 0
                                                   /\ h_perm' = <<>>
                                                   /\ h_args' = <<>>
                                                   /\ h_full' = <<>>
                                                   /\ h_emfull' = <<>>
                                                   /\ pc' = "sh1"
                                                   /\ UNCHANGED << ed, e_seed0, 
                                                                   e_seed, 
                                                                   e_op, 
                                                                   e_calls, 
                                                                   e_i >>
                                              ELSE /\ /\ ed' = od
                                                      /\ stack' = << [ procedure |->  "SeedP",
                                                                       pc        |->  Head(stack).pc,
                                                                       e_seed0   |->  e_seed0,
                                                                       e_seed    |->  e_seed,
                                                                       e_op      |->  e_op,
                                                                       e_calls   |->  e_calls,
                                                                       e_i       |->  e_i,
                                                                       ed        |->  ed ] >>
                                                                   \o Tail(stack)
                                                   /\ e_seed0' = 0
                                                   /\ e_seed' = 0
                                                   /\ e_op' = "XOR"
                                                   /\ e_calls' = <<>>
                                                   /\ e_i' = 0
                                                   /\ pc' = "se1"
                                                   /\ UNCHANGED << hd, h_key, 
                                                                   h_iks, h_ik, 
                                                                   h_ops, 
                                                                   h_cnt, 
                                                                   h_perm, 
                                                                   h_args, 
                                                                   h_full, 
                                                                   h_emfull >>
                                        /\ UNCHANGED << pd, p_sizes, p_rest, 
                                                        p_perm, p_key0, p_key, 
                                                        p_op, p_enc, p_cases, 
                                                        p_i, p_off, p_val >>
                             /\ UNCHANGED << wd, w_cnt, w_shift, w_op, w_pos, 
                                             w_emdata >>
                  /\ UNCHANGED << sd, s_key, s_op, s_enc, s_emkey >>
       /\ UNCHANGED << layer, n, pad, orig, keys, used, log, xk, bl, blk, wobf, 
                       junk, junklen, split, params, res, expect, xd, x_cnt, 
                       x_stmts, x_cur, bval, oname, od, r_cnt, r_w, r_digits >>

Obf == ob1

rk1 == /\ pc = "rk1"
       /\ \E c \in KeyCounts:
            /\ r_cnt' = c
            /\ log' = Append(log, <<"randExtKeys/Intn", c - 2>>)
       /\ pc' = "rk2"
       /\ UNCHANGED << layer, n, pad, orig, keys, used, xk, bl, blk, wobf, 
                       junk, junklen, split, params, res, expect, stack, xd, 
                       x_cnt, x_stmts, x_cur, bval, sd, s_key, s_op, s_enc, 
                       s_emkey, wd, w_cnt, w_shift, w_op, w_pos, w_emdata, pd, 
                       p_sizes, p_rest, p_perm, p_key0, p_key, p_op, p_enc, 
                       p_cases, p_i, p_off, p_val, hd, h_key, h_iks, h_ik, 
                       h_ops, h_cnt, h_perm, h_args, h_full, h_emfull, ed, 
                       e_seed0, e_seed, e_op, e_calls, e_i, oname, od, r_w, 
                       r_digits >>

rk2 == /\ pc = "rk2"
       /\ IF Len(keys) < r_cnt
             THEN /\ \E w \in KeyWidths:
                       /\ r_w' = w
                       /\ r_digits' = <<>>
                       /\ log' = Append(log, <<"randExtKey/Intn", WidthIdx(w)>>)
                  /\ pc' = "rk3"
             ELSE /\ pc' = "rk5"
                  /\ UNCHANGED << log, r_w, r_digits >>
       /\ UNCHANGED << layer, n, pad, orig, keys, used, xk, bl, blk, wobf, 
                       junk, junklen, split, params, res, expect, stack, xd, 
                       x_cnt, x_stmts, x_cur, bval, sd, s_key, s_op, s_enc, 
                       s_emkey, wd, w_cnt, w_shift, w_op, w_pos, w_emdata, pd, 
                       p_sizes, p_rest, p_perm, p_key0, p_key, p_op, p_enc, 
                       p_cases, p_i, p_off, p_val, hd, h_key, h_iks, h_ik, 
                       h_ops, h_cnt, h_perm, h_args, h_full, h_emfull, ed, 
                       e_seed0, e_seed, e_op, e_calls, e_i, oname, od, r_cnt >>

rk3 == /\ pc = "rk3"
       /\ IF Len(r_digits) < r_w
             THEN /\ \E dg \in DigitBytes:
                       r_digits' = Append(r_digits, dg)
                  /\ pc' = "rk3"
             ELSE /\ pc' = "rk4"
                  /\ UNCHANGED r_digits
       /\ UNCHANGED << layer, n, pad, orig, keys, used, log, xk, bl, blk, wobf, 
                       junk, junklen, split, params, res, expect, stack, xd, 
                       x_cnt, x_stmts, x_cur, bval, sd, s_key, s_op, s_enc, 
                       s_emkey, wd, w_cnt, w_shift, w_op, w_pos, w_emdata, pd, 
                       p_sizes, p_rest, p_perm, p_key0, p_key, p_op, p_enc, 
                       p_cases, p_i, p_off, p_val, hd, h_key, h_iks, h_ik, 
                       h_ops, h_cnt, h_perm, h_args, h_full, h_emfull, ed, 
                       e_seed0, e_seed, e_op, e_calls, e_i, oname, od, r_cnt, 
                       r_w >>

rk4 == /\ pc = "rk4"
       /\ keys' = Append(keys, [w |-> r_w, v |-> r_digits])
       /\ log' = Append(log, <<"randExtKey/Uint64", r_digits>>)
       /\ pc' = "rk2"
       /\ UNCHANGED << layer, n, pad, orig, used, xk, bl, blk, wobf, junk, 
                       junklen, split, params, res, expect, stack, xd, x_cnt, 
                       x_stmts, x_cur, bval, sd, s_key, s_op, s_enc, s_emkey, 
                       wd, w_cnt, w_shift, w_op, w_pos, w_emdata, pd, p_sizes, 
                       p_rest, p_perm, p_key0, p_key, p_op, p_enc, p_cases, 
                       p_i, p_off, p_val, hd, h_key, h_iks, h_ik, h_ops, h_cnt, 
                       h_perm, h_args, h_full, h_emfull, ed, e_seed0, e_seed, 
                       e_op, e_calls, e_i, oname, od, r_cnt, r_w, r_digits >>

rk5 == /\ pc = "rk5"
       /\ pc' = Head(stack).pc
       /\ r_cnt' = Head(stack).r_cnt
       /\ r_w' = Head(stack).r_w
       /\ r_digits' = Head(stack).r_digits
       /\ stack' = Tail(stack)
       /\ UNCHANGED << layer, n, pad, orig, keys, used, log, xk, bl, blk, wobf, 
                       junk, junklen, split, params, res, expect, xd, x_cnt, 
                       x_stmts, x_cur, bval, sd, s_key, s_op, s_enc, s_emkey, 
                       wd, w_cnt, w_shift, w_op, w_pos, w_emdata, pd, p_sizes, 
                       p_rest, p_perm, p_key0, p_key, p_op, p_enc, p_cases, 
                       p_i, p_off, p_val, hd, h_key, h_iks, h_ik, h_ops, h_cnt, 
                       h_perm, h_args, h_full, h_emfull, ed, e_seed0, e_seed, 
                       e_op, e_calls, e_i, oname, od >>

RandExtKeys == rk1 \/ rk2 \/ rk3 \/ rk4 \/ rk5

m0 == /\ pc = "m0"
      /\ IF layer = "extkeys"
            THEN /\ /\ stack' = << [ procedure |->  "ExtKeys",
                                     pc        |->  "m1",
                                     x_cnt     |->  x_cnt,
                                     x_stmts   |->  x_stmts,
                                     x_cur     |->  x_cur,
                                     xd        |->  xd ] >>
                                 \o stack
                    /\ xd' = orig
                 /\ x_cnt' = 0
                 /\ x_stmts' = <<>>
                 /\ x_cur' = <<>>
                 /\ pc' = "xk1"
                 /\ UNCHANGED << bval, oname, od >>
            ELSE /\ IF layer = "bytelit"
                       THEN /\ /\ bval' = orig[1]
                               /\ stack' = << [ procedure |->  "ByteLit",
                                                pc        |->  "m2",
                                                bval      |->  bval ] >>
                                            \o stack
                            /\ pc' = "bl1"
                            /\ UNCHANGED << oname, od >>
                       ELSE /\ IF layer \in ObfLayers
                                  THEN /\ /\ od' = orig
                                          /\ oname' = layer
                                          /\ stack' = << [ procedure |->  "Obf",
                                                           pc        |->  "m3",
                                                           oname     |->  oname,
                                                           od        |->  od ] >>
                                                       \o stack
                                       /\ pc' = "ob1"
                                  ELSE /\ pc' = "w0"
                                       /\ UNCHANGED << stack, oname, od >>
                            /\ bval' = bval
                 /\ UNCHANGED << xd, x_cnt, x_stmts, x_cur >>
      /\ UNCHANGED << layer, n, pad, orig, keys, used, log, xk, bl, blk, wobf, 
                      junk, junklen, split, params, res, expect, sd, s_key, 
                      s_op, s_enc, s_emkey, wd, w_cnt, w_shift, w_op, w_pos, 
                      w_emdata, pd, p_sizes, p_rest, p_perm, p_key0, p_key, 
                      p_op, p_enc, p_cases, p_i, p_off, p_val, hd, h_key, 
                      h_iks, h_ik, h_ops, h_cnt, h_perm, h_args, h_full, 
                      h_emfull, ed, e_seed0, e_seed, e_op, e_calls, e_i, r_cnt, 
                      r_w, r_digits >>

m1 == /\ pc = "m1"
      /\ res' = RunExt(xk, keys)
      /\ expect' = orig
      /\ pc' = "Done"
      /\ UNCHANGED << layer, n, pad, orig, keys, used, log, xk, bl, blk, wobf, 
                      junk, junklen, split, params, stack, xd, x_cnt, x_stmts, 
                      x_cur, bval, sd, s_key, s_op, s_enc, s_emkey, wd, w_cnt, 
                      w_shift, w_op, w_pos, w_emdata, pd, p_sizes, p_rest, 
                      p_perm, p_key0, p_key, p_op, p_enc, p_cases, p_i, p_off, 
                      p_val, hd, h_key, h_iks, h_ik, h_ops, h_cnt, h_perm, 
                      h_args, h_full, h_emfull, ed, e_seed0, e_seed, e_op, 
                      e_calls, e_i, oname, od, r_cnt, r_w, r_digits >>

m2 == /\ pc = "m2"
      /\ res' = <<EvalLit(bl, keys)>>
      /\ expect' = <<orig[1]>>
      /\ pc' = "Done"
      /\ UNCHANGED << layer, n, pad, orig, keys, used, log, xk, bl, blk, wobf, 
                      junk, junklen, split, params, stack, xd, x_cnt, x_stmts, 
                      x_cur, bval, sd, s_key, s_op, s_enc, s_emkey, wd, w_cnt, 
                      w_shift, w_op, w_pos, w_emdata, pd, p_sizes, p_rest, 
                      p_perm, p_key0, p_key, p_op, p_enc, p_cases, p_i, p_off, 
                      p_val, hd, h_key, h_iks, h_ik, h_ops, h_cnt, h_perm, 
                      h_args, h_full, h_emfull, ed, e_seed0, e_seed, e_op, 
                      e_calls, e_i, oname, od, r_cnt, r_w, r_digits >>

m3 == /\ pc = "m3"
      /\ res' = (IF BlockRefs(blk) \subseteq used THEN RunBlock(blk, keys) ELSE Stuck)
      /\ expect' = orig
      /\ pc' = "Done"
      /\ UNCHANGED << layer, n, pad, orig, keys, used, log, xk, bl, blk, wobf, 
                      junk, junklen, split, params, stack, xd, x_cnt, x_stmts, 
                      x_cur, bval, sd, s_key, s_op, s_enc, s_emkey, wd, w_cnt, 
                      w_shift, w_op, w_pos, w_emdata, pd, p_sizes, p_rest, 
                      p_perm, p_key0, p_key, p_op, p_enc, p_cases, p_i, p_off, 
                      p_val, hd, h_key, h_iks, h_ik, h_ops, h_cnt, h_perm, 
                      h_args, h_full, h_emfull, ed, e_seed0, e_seed, e_op, 
                      e_calls, e_i, oname, od, r_cnt, r_w, r_digits >>

w0 == /\ pc = "w0"
      /\ \E p \in {q \in 1..Len(ObfChoices(n)) : ObfChoices(n)[q] \in WrapperObfs}:
           /\ wobf' = ObfChoices(n)[p]
           /\ log' = Append(log, <<"pickObfuscator/Intn", p - 1>>)
      /\ pc' = "w1"
      /\ UNCHANGED << layer, n, pad, orig, keys, used, xk, bl, blk, junk, 
                      junklen, split, params, res, expect, stack, xd, x_cnt, 
                      x_stmts, x_cur, bval, sd, s_key, s_op, s_enc, s_emkey, 
                      wd, w_cnt, w_shift, w_op, w_pos, w_emdata, pd, p_sizes, 
                      p_rest, p_perm, p_key0, p_key, p_op, p_enc, p_cases, p_i, 
                      p_off, p_val, hd, h_key, h_iks, h_ik, h_ops, h_cnt, 
                      h_perm, h_args, h_full, h_emfull, ed, e_seed0, e_seed, 
                      e_op, e_calls, e_i, oname, od, r_cnt, r_w, r_digits >>

w1 == /\ pc = "w1"
      /\ IF layer = "string"
            THEN /\ \E jl \in JunkLens:
                      /\ junklen' = jl
                      /\ log' = Append(log, <<"obfuscateString/Intn", jl - 2>>)
                 /\ pc' = "w2"
            ELSE /\ pc' = "w4"
                 /\ UNCHANGED << log, junklen >>
      /\ UNCHANGED << layer, n, pad, orig, keys, used, xk, bl, blk, wobf, junk, 
                      split, params, res, expect, stack, xd, x_cnt, x_stmts, 
                      x_cur, bval, sd, s_key, s_op, s_enc, s_emkey, wd, w_cnt, 
                      w_shift, w_op, w_pos, w_emdata, pd, p_sizes, p_rest, 
                      p_perm, p_key0, p_key, p_op, p_enc, p_cases, p_i, p_off, 
                      p_val, hd, h_key, h_iks, h_ik, h_ops, h_cnt, h_perm, 
                      h_args, h_full, h_emfull, ed, e_seed0, e_seed, e_op, 
                      e_calls, e_i, oname, od, r_cnt, r_w, r_digits >>

w2 == /\ pc = "w2"
      /\ IF Len(junk) < junklen
            THEN /\ \E b \in JunkBytes:
                      /\ junk' = Append(junk, b)
                      /\ log' = Append(log, <<"obfuscateString/Read", b>>)
                 /\ pc' = "w2"
            ELSE /\ pc' = "w3"
                 /\ UNCHANGED << log, junk >>
      /\ UNCHANGED << layer, n, pad, orig, keys, used, xk, bl, blk, wobf, 
                      junklen, split, params, res, expect, stack, xd, x_cnt, 
                      x_stmts, x_cur, bval, sd, s_key, s_op, s_enc, s_emkey, 
                      wd, w_cnt, w_shift, w_op, w_pos, w_emdata, pd, p_sizes, 
                      p_rest, p_perm, p_key0, p_key, p_op, p_enc, p_cases, p_i, 
                      p_off, p_val, hd, h_key, h_iks, h_ik, h_ops, h_cnt, 
                      h_perm, h_args, h_full, h_emfull, ed, e_seed0, e_seed, 
                      e_op, e_calls, e_i, oname, od, r_cnt, r_w, r_digits >>

w3 == /\ pc = "w3"
      /\ \E sp \in 0..(junklen - 1):
           /\ split' = sp
           /\ log' = Append(log, <<"obfuscateString/Intn", sp>>)
      /\ pc' = "w4"
      /\ UNCHANGED << layer, n, pad, orig, keys, used, xk, bl, blk, wobf, junk, 
                      junklen, params, res, expect, stack, xd, x_cnt, x_stmts, 
                      x_cur, bval, sd, s_key, s_op, s_enc, s_emkey, wd, w_cnt, 
                      w_shift, w_op, w_pos, w_emdata, pd, p_sizes, p_rest, 
                      p_perm, p_key0, p_key, p_op, p_enc, p_cases, p_i, p_off, 
                      p_val, hd, h_key, h_iks, h_ik, h_ops, h_cnt, h_perm, 
                      h_args, h_full, h_emfull, ed, e_seed0, e_seed, e_op, 
                      e_calls, e_i, oname, od, r_cnt, r_w, r_digits >>

w4 == /\ pc = "w4"
      /\ stack' = << [ procedure |->  "RandExtKeys",
                       pc        |->  "w5",
                       r_cnt     |->  r_cnt,
                       r_w       |->  r_w,
                       r_digits  |->  r_digits ] >>
                   \o stack
      /\ r_cnt' = 0
      /\ r_w' = 0
      /\ r_digits' = <<>>
      /\ pc' = "rk1"
      /\ UNCHANGED << layer, n, pad, orig, keys, used, log, xk, bl, blk, wobf, 
                      junk, junklen, split, params, res, expect, xd, x_cnt, 
                      x_stmts, x_cur, bval, sd, s_key, s_op, s_enc, s_emkey, 
                      wd, w_cnt, w_shift, w_op, w_pos, w_emdata, pd, p_sizes, 
                      p_rest, p_perm, p_key0, p_key, p_op, p_enc, p_cases, p_i, 
                      p_off, p_val, hd, h_key, h_iks, h_ik, h_ops, h_cnt, 
                      h_perm, h_args, h_full, h_emfull, ed, e_seed0, e_seed, 
                      e_op, e_calls, e_i, oname, od >>

w5 == /\ pc = "w5"
      /\ /\ od' = (IF layer = "string" THEN SubSeq(junk, 1, split) \o orig \o SubSeq(junk, split + 1, junklen) ELSE orig)
         /\ oname' = wobf
         /\ stack' = << [ procedure |->  "Obf",
                          pc        |->  "w6",
                          oname     |->  oname,
                          od        |->  od ] >>
                      \o stack
      /\ pc' = "ob1"
      /\ UNCHANGED << layer, n, pad, orig, keys, used, log, xk, bl, blk, wobf, 
                      junk, junklen, split, params, res, expect, xd, x_cnt, 
                      x_stmts, x_cur, bval, sd, s_key, s_op, s_enc, s_emkey, 
                      wd, w_cnt, w_shift, w_op, w_pos, w_emdata, pd, p_sizes, 
                      p_rest, p_perm, p_key0, p_key, p_op, p_enc, p_cases, p_i, 
                      p_off, p_val, hd, h_key, h_iks, h_ik, h_ops, h_cnt, 
                      h_perm, h_args, h_full, h_emfull, ed, e_seed0, e_seed, 
                      e_op, e_calls, e_i, r_cnt, r_w, r_digits >>

w6 == /\ pc = "w6"
      /\ IF Len(params) < Len(keys)
            THEN /\ \E t \in NestedTry:
                      /\ params' = Append(params, [named |-> (Len(params) + 1) \in used, hidden |-> t])
                      /\ log' = Append(log, <<"Try<extKeysToParams/Float32", B2N(t)>>)
                 /\ pc' = "w6"
            ELSE /\ pc' = "w7"
                 /\ UNCHANGED << log, params >>
      /\ UNCHANGED << layer, n, pad, orig, keys, used, xk, bl, blk, wobf, junk, 
                      junklen, split, res, expect, stack, xd, x_cnt, x_stmts, 
                      x_cur, bval, sd, s_key, s_op, s_enc, s_emkey, wd, w_cnt, 
                      w_shift, w_op, w_pos, w_emdata, pd, p_sizes, p_rest, 
                      p_perm, p_key0, p_key, p_op, p_enc, p_cases, p_i, p_off, 
                      p_val, hd, h_key, h_iks, h_ik, h_ops, h_cnt, h_perm, 
                      h_args, h_full, h_emfull, ed, e_seed0, e_seed, e_op, 
                      e_calls, e_i, oname, od, r_cnt, r_w, r_digits >>

w7 == /\ pc = "w7"
      /\ res' = RunLambda([params |-> params, args |-> keys, block |-> blk,
                           ret |-> CASE layer = "string" -> [kind |-> "string", lo |-> split, hi |-> split + n]
                                     [] layer = "bytes" -> [kind |-> "slice"]
                                     [] layer = "array" -> [kind |-> "array", len |-> n + pad]])
      /\ expect' = (IF layer = "array" THEN [i \in 1..(n + pad) |-> IF i <= n THEN orig[i] ELSE 0] ELSE orig)
      /\ pc' = "Done"
      /\ UNCHANGED << layer, n, pad, orig, keys, used, log, xk, bl, blk, wobf, 
                      junk, junklen, split, params, stack, xd, x_cnt, x_stmts, 
                      x_cur, bval, sd, s_key, s_op, s_enc, s_emkey, wd, w_cnt, 
                      w_shift, w_op, w_pos, w_emdata, pd, p_sizes, p_rest, 
                      p_perm, p_key0, p_key, p_op, p_enc, p_cases, p_i, p_off, 
                      p_val, hd, h_key, h_iks, h_ik, h_ops, h_cnt, h_perm, 
                      h_args, h_full, h_emfull, ed, e_seed0, e_seed, e_op, 
                      e_calls, e_i, oname, od, r_cnt, r_w, r_digits >>

(* Allow infinite stuttering to prevent deadlock on termination. *)
Terminating == pc = "Done" /\ UNCHANGED vars

Next == ExtKeys \/ ByteLit \/ Simple \/ Swap \/ Split \/ Shuf \/ SeedP
           \/ Obf \/ RandExtKeys \/ m0 \/ m1 \/ m2 \/ m3 \/ w0 \/ w1 \/ w2 \/ w3
           \/ w4 \/ w5 \/ w6 \/ w7
           \/ Terminating

Spec == Init /\ [][Next]_vars

Termination == <>(pc = "Done")

\* END TRANSLATION

NextReal == Next /\ pc # "Done"       \* no stuttering at the end: a finished behaviour ends

view == <<layer, n, pad, orig, keys, used, xk, bl, blk, wobf, junk, junklen, split, params, res, expect, pc, stack,
          xd, x_cnt, x_stmts, x_cur, bval, sd, s_key, s_op, s_enc, s_emkey, wd, w_cnt, w_shift, w_op, w_pos, w_emdata,
          pd, p_sizes, p_rest, p_perm, p_key0, p_key, p_op, p_enc, p_cases, p_i, p_off, p_val,
          hd, h_key, h_iks, h_ik, h_ops, h_cnt, h_perm, h_args, h_full, h_emfull,
          ed, e_seed0, e_seed, e_op, e_calls, e_i, oname, od, r_cnt, r_w, r_digits>>

(* C05: the emitted program reproduces the original bytes. *)
RoundTrip == pc = "Done" => res = expect
TypeOK == pc = "Done" => /\ res # Stuck
                         /\ \A i \in 1..Len(res) : res[i] \in Byte

(* Replay configs: one line per finished behaviour with its choice vector. *)
Export == (ExportVectors /\ pc = "Done") =>
            PrintT(<<"VEC", ToJson([layer |-> layer, n |-> n, pad |-> pad, obf |-> wobf, ok |-> (res = expect), log |-> log])>>)
=============================================================================
